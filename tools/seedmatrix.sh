#!/bin/bash
# usage: tools/seedmatrix.sh [seed-dir-name ...]  — run each seeded change's property check on a private mutated copy
# and print one line per seed: CAUGHT(<n> concrete) | CAUGHT-no-input | MISSED
cd /verif
out=/var/tmp/seedmatrix; mkdir -p $out
names="$@"; [ -z "$names" ] && names=$(ls seeded | grep -v '^_')
for n in $names; do
  pid=${n%%-*}
  ( bin/mutcheck $pid /verif/seeded/$n/patch.diff 400 > $out/$n.log 2>&1
    v=$(grep -c '^VIOLATION' $out/$n.log); nf=$(grep -c 'no-failing-input-found' $out/$n.log)
    if [ "$v" = 0 ]; then r=MISSED; elif [ "$v" = "$nf" ]; then r=CAUGHT-no-input; else r="CAUGHT($((v-nf)) concrete)"; fi
    echo "$n $r $(tail -1 $out/$n.log)" ) &
  while [ $(jobs -r | wc -l) -ge ${SEEDJOBS:-4} ]; do sleep 1; done
done
wait
