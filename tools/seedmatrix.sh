#!/bin/bash
# usage: tools/seedmatrix.sh [seed-dir-name ...]  — run each seeded change's property check on a private mutated copy
# (SEEDJOBS of them at a time) and print one line per seed: CAUGHT(<n> concrete) | CAUGHT-no-input | MISSED
cd /verif
mkdir -p /var/tmp/seedmatrix
names="$@"; [ -z "$names" ] && names=$(ls seeded | grep -v '^_')
one() {
  n=$1; pid=${n%%-*}; out=/var/tmp/seedmatrix
  bin/mutcheck $pid /verif/seeded/$n/patch.diff 400 > $out/$n.log 2>&1
  v=$(grep -c '^VIOLATION' $out/$n.log); nf=$(grep -c 'no-failing-input-found' $out/$n.log)
  if [ "$v" = 0 ]; then r=MISSED; elif [ "$v" = "$nf" ]; then r=CAUGHT-no-input; else r="CAUGHT($((v-nf)) concrete)"; fi
  echo "$n $r $(tail -1 $out/$n.log)"
}
export -f one
printf '%s\n' $names | xargs -P ${SEEDJOBS:-4} -I{} bash -c 'one {}'
