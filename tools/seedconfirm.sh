#!/bin/bash
# usage: tools/seedconfirm.sh /tmp/seed_Cxx_n Cxx name   — confirm a seeded change and store it under seeded/<name>/
w=$1; pid=$2; name=$3
out=/verif/seeded/$name; mkdir -p $out
cp $w/patch.diff $out/patch.diff; cp $w/demo_$pid.py $out/; cp $w/notes.md $out/notes.md 2>/dev/null
cd $w && git checkout -q -- . 2>/dev/null
echo "== demo on unchanged code"; (cd $w && AIOKAFKA_NO_EXTENSIONS=1 timeout 600 /venv/bin/python demo_$pid.py > /tmp/demo_before_$$.log 2>&1; echo "exit=$?" ) | tee $out/confirm.log
echo "== demo with the change"; (cd $w && git apply patch.diff && AIOKAFKA_NO_EXTENSIONS=1 timeout 600 /venv/bin/python demo_$pid.py > /tmp/demo_after_$$.log 2>&1; echo "exit=$?"; tail -3 /tmp/demo_after_$$.log) | tee -a $out/confirm.log
echo "== test-suite with the change"; (cd $w && AIOKAFKA_NO_EXTENSIONS=1 timeout 1500 /venv/bin/python -m pytest -q -p no:cacheprovider tests -x -q 2>&1 | tail -2) | tee -a $out/confirm.log
cd $w && git checkout -q -- .
rm -f /tmp/demo_before_$$.log /tmp/demo_after_$$.log
