#!/bin/bash
# Regenerate /verif/evidence/Cxx.json from quick-tier runs on /repo's working tree (seed 1), validate every file
# against the evidence schema and the manifest against its schema.  Usage: tools/regen_evidence.sh [Cxx ...]
cd "$(dirname "$0")/.."
ids="$@"; [ -z "$ids" ] && ids=$(python3 -c "import json;print(' '.join(c['property_id'] for c in json.load(open('MANIFEST.json'))['checks']))")
unset VERIF_REPO VERIF_EVIDENCE_DIR
rc=0
for c in $ids; do
  out=$(VERIF_SEED=1 bin/check $c --tier quick 2>&1); e=$?
  echo "$out" | grep -a "VIOLATION\|KNOWN-FINDING\|^\[C" | cut -c1-200
  [ $e -ne 0 ] && rc=1
done
python3-vt - <<'PY'
import json,jsonschema,glob,sys
sch=json.load(open('/root/.vp/EVIDENCE.schema.json'))
bad=0
for f in sorted(glob.glob('/verif/evidence/C*.json')):
    d=json.load(open(f))
    try: jsonschema.validate(d,sch)
    except Exception as e:
        bad+=1; print(f,'INVALID',str(e)[:200])
jsonschema.validate(json.load(open('/verif/MANIFEST.json')),json.load(open('/root/.vp/MANIFEST.schema.json')))
print('evidence files invalid:',bad,'; manifest valid')
PY
exit $rc
