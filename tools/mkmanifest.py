#!/usr/bin/env python3
"""Writes /verif/MANIFEST.json from the table below (kept in one place so it stays valid)."""
import json
import os

VERIF = os.path.dirname(os.path.dirname(os.path.abspath(__file__)))

CLAIMED = {
    "C17": dict(
        text="Machine-checked proof (Coq 8.16): the Gallina functions regenerated on every run from "
             "aiokafka/partitioner.py (murmur2, DefaultPartitioner.__call__) are proved, for every byte "
             "string and every partition list, to compute the Java client's murmur2 / toPositive / modulo "
             "partition, independently of the available set; unkeyed records provably go to an available "
             "partition. The generated functions are validated against the real Python on every run and a "
             "differential search against an int32 Java transcription produces the failing key when a proof breaks.",
        note="Trusted: Coq kernel, py2gallina translator (validated per run by evaluation in Coq), the hand "
             "transcription of Java's Utils.murmur2 (tied to real Java outputs by the six literals of "
             "tests/test_partitioner.py), random.choice modelled as an arbitrary index. No axioms.",
        technique="Coq proof over a model regenerated from source by a Python-AST translator",
        design="5/C17"),
    "C01": dict(
        text="Machine-checked proof (Coq 8.16) over a per-partition model of accumulator, sender, sequence stamping "
             "(TransactionManager.increment_sequence_number is translated from source on every run) and the partition "
             "leader's idempotence rule: for every event sequence the model accepts - any interleaving of accepts, "
             "drains, arrivals, lost/failed replies and retries - with no sequence wrap inside the run, the leader never "
             "sees a gap or reused sequence, its log is a duplicate-free prefix of the accepted records in acceptance "
             "order, acknowledged records are in the log, one batch per partition is in flight; without idempotence the "
             "log is the drained batches in order, each repeated as a whole block. The wrap clause is refuted for the code "
             "as it is (known finding). The real AIOKafkaProducer runs under a deterministic simulator with fault "
             "schedules; every per-partition boundary trace must be accepted by the model with equal log/verdicts/acks, and "
             "independent monitors state the property on the simulated logs.",
        note="Trusted: Coq kernel; translator for the increment (validated per run); hand model Producer.v tied by trace "
             "acceptance; simulated cluster (idempotence rule from Kafka's ProducerStateManager) as broker oracle; "
             "observation wrappers installed from outside; one asyncio ready-queue order per schedule. No axioms. "
             "Theorems carry the no-wrap hypothesis (partial w.r.t. wrap-around, which the code violates).",
        technique="Coq invariant proofs over an LTS model + trace acceptance of the real producer under deterministic simulation",
        design="5/C01"),
    "C02": dict(
        text="Machine-checked proof (Coq 8.16): MessageBatch.done/done_noack/failure as functions (per-record offset, "
             "timestamp, timestamp type; resolved futures untouched; acks=0 carries no metadata) tied to the real methods "
             "by differential evaluation on every run; over the batch life-cycle model every accepted record is resolved at "
             "most once, flush()/stop() can return only when everything accepted is resolved, with idempotence retriable "
             "faults never fail a record, and a fault-free sender round resolves the head batch (liveness as rounds: partial). "
             "The real producer runs under the simulator (acks 0/1/all, produce v0..v7, CreateTime/LogAppendTime, flush/stop at "
             "arbitrary times, fault schedules followed by quiet) with monitors comparing every future's metadata with the "
             "record sitting at that offset in the simulated log.",
        note="Trusted: Coq kernel; hand models tied by differential testing / trace acceptance; simulated cluster and the "
             "independent reference record reader as oracle; 'bounded time' is virtual time in the simulator and rounds in "
             "the model. No axioms.",
        technique="Coq proofs over function and LTS models + differential testing and deterministic simulation of the real producer",
        design="5/C02"),
}

ALL = [f"C{i:02d}" for i in range(1, 20)]


def main():
    checks = []
    for pid in ALL:
        if pid not in CLAIMED:
            continue
        c = CLAIMED[pid]
        checks.append({
            "property_id": pid,
            "quick_cmd": f"bin/check {pid} --tier quick",
            "thorough_cmd": f"bin/check {pid} --tier thorough",
            "evidence_file": f"/verif/evidence/{pid}.json",
            "replay_cmd_template": f"bin/check {pid} --replay {{path}}",
            "engine": "coq-proof+correspondence",
            "level_claimed": {"category": "proof", "text": c["text"], "design_ref": c["design"]},
            "level_note": c["note"],
            "technique": c["technique"],
        })
    na = [{"property_id": p, "reason": NOT_YET.get(p, "check not built yet in this round (work in progress; see DESIGN.md §8)")}
          for p in ALL if p not in CLAIMED]
    m = {
        "version": 1,
        "setup_cmd": "bin/setup",
        "hooks": {
            "guard": "AIOKAFKA_VERIF",
            "enable": "no source hooks: checks drive the unmodified package from /repo's working tree "
                      "(PYTHONPATH=/repo); AIOKAFKA_VERIF=1 is exported for completeness",
            "baseline_off_cmd": "cd /repo && /venv/bin/python -m pytest -ra -q -p no:cacheprovider --timeout=900 --continue-on-collection-errors",
            "source_commits": [],
            "add_only": True,
        },
        "engines": [
            {"name": "coq-proof+correspondence", "path": "coq/ translator/ harness/ bin/check",
             "serves_properties": [p for p in ALL if p in CLAIMED],
             "kind_free_text": "Coq 8.16 development (models, proofs, public theorems), fail-closed "
                               "Python-AST/schema translators regenerating models from /repo on every run, "
                               "and correspondence harnesses (model evaluated inside Coq by vm_compute vs the real code)"},
        ],
        "checks": checks,
        "not_applicable": na,
        "notes": "See DESIGN.md. Known findings: known_findings.json.",
    }
    with open(os.path.join(VERIF, "MANIFEST.json"), "w") as f:
        json.dump(m, f, indent=1)
    print(f"{len(checks)} checks claimed, {len(na)} not claimed")


NOT_YET = {}

if __name__ == "__main__":
    main()
