#!/usr/bin/env python3
"""Writes /verif/MANIFEST.json from the table below (kept in one place so it stays valid)."""
import json
import os

VERIF = os.path.dirname(os.path.dirname(os.path.abspath(__file__)))

CLAIMED = {
    "C17": dict(
        text="Machine-checked proof (Coq 8.16): the Gallina functions regenerated on every run from "
             "aiokafka/partitioner.py (murmur2, DefaultPartitioner.__call__) are proved, for every byte "
             "string and every partition list, to compute the Java client's murmur2 / toPositive / modulo "
             "partition, independently of the available set; unkeyed records provably go to an available "
             "partition. The generated functions are validated against the real Python on every run and a "
             "differential search against an int32 Java transcription produces the failing key when a proof breaks.",
        note="Trusted: Coq kernel, py2gallina translator (validated per run by evaluation in Coq), the hand "
             "transcription of Java's Utils.murmur2 (tied to real Java outputs by the six literals of "
             "tests/test_partitioner.py), random.choice modelled as an arbitrary index. No axioms.",
        technique="Coq proof over a model regenerated from source by a Python-AST translator",
        design="5/C17"),
}

ALL = [f"C{i:02d}" for i in range(1, 20)]


def main():
    checks = []
    for pid in ALL:
        if pid not in CLAIMED:
            continue
        c = CLAIMED[pid]
        checks.append({
            "property_id": pid,
            "quick_cmd": f"bin/check {pid} --tier quick",
            "thorough_cmd": f"bin/check {pid} --tier thorough",
            "evidence_file": f"/verif/evidence/{pid}.json",
            "replay_cmd_template": f"bin/check {pid} --replay {{path}}",
            "engine": "coq-proof+correspondence",
            "level_claimed": {"category": "proof", "text": c["text"], "design_ref": c["design"]},
            "level_note": c["note"],
            "technique": c["technique"],
        })
    na = [{"property_id": p, "reason": NOT_YET.get(p, "check not built yet in this round (work in progress; see DESIGN.md §8)")}
          for p in ALL if p not in CLAIMED]
    m = {
        "version": 1,
        "setup_cmd": "bin/setup",
        "hooks": {
            "guard": "AIOKAFKA_VERIF",
            "enable": "no source hooks: checks drive the unmodified package from /repo's working tree "
                      "(PYTHONPATH=/repo); AIOKAFKA_VERIF=1 is exported for completeness",
            "baseline_off_cmd": "cd /repo && /venv/bin/python -m pytest -ra -q -p no:cacheprovider --timeout=900 --continue-on-collection-errors",
            "source_commits": [],
            "add_only": True,
        },
        "engines": [
            {"name": "coq-proof+correspondence", "path": "coq/ translator/ harness/ bin/check",
             "serves_properties": [p for p in ALL if p in CLAIMED],
             "kind_free_text": "Coq 8.16 development (models, proofs, public theorems), fail-closed "
                               "Python-AST/schema translators regenerating models from /repo on every run, "
                               "and correspondence harnesses (model evaluated inside Coq by vm_compute vs the real code)"},
        ],
        "checks": checks,
        "not_applicable": na,
        "notes": "See DESIGN.md. Known findings: known_findings.json.",
    }
    with open(os.path.join(VERIF, "MANIFEST.json"), "w") as f:
        json.dump(m, f, indent=1)
    print(f"{len(checks)} checks claimed, {len(na)} not claimed")


NOT_YET = {}

if __name__ == "__main__":
    main()
