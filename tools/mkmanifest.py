#!/usr/bin/env python3
"""Writes /verif/MANIFEST.json from the table below (kept in one place so it stays valid)."""
import json
import os

VERIF = os.path.dirname(os.path.dirname(os.path.abspath(__file__)))

CLAIMED = {
    "C17": dict(
        text="Machine-checked proof (Coq 8.16): the Gallina functions regenerated on every run from "
             "aiokafka/partitioner.py (murmur2, DefaultPartitioner.__call__) are proved, for every byte "
             "string and every partition list, to compute the Java client's murmur2 / toPositive / modulo "
             "partition, independently of the available set; unkeyed records provably go to an available "
             "partition. The generated functions are validated against the real Python on every run and a "
             "differential search against an int32 Java transcription produces the failing key when a proof breaks.",
        note="Trusted: Coq kernel, py2gallina translator (validated per run by evaluation in Coq), the hand "
             "transcription of Java's Utils.murmur2 (tied to real Java outputs by the six literals of "
             "tests/test_partitioner.py), random.choice modelled as an arbitrary index. No axioms.",
        technique="Coq proof over a model regenerated from source by a Python-AST translator",
        design="5/C17"),
    "C01": dict(
        text="Machine-checked proof (Coq 8.16) over a per-partition model of accumulator, sender, sequence stamping "
             "(TransactionManager.increment_sequence_number is translated from source on every run) and the partition "
             "leader's idempotence rule: for every event sequence the model accepts - any interleaving of accepts, "
             "drains, arrivals, lost/failed replies and retries - with no sequence wrap inside the run, the leader never "
             "sees a gap or reused sequence, its log is a duplicate-free prefix of the accepted records in acceptance "
             "order, acknowledged records are in the log, one batch per partition is in flight; without idempotence the "
             "log is the drained batches in order, each repeated as a whole block. The wrap clause is refuted for the code "
             "as it is (known finding). The real AIOKafkaProducer runs under a deterministic simulator with fault "
             "schedules; every per-partition boundary trace must be accepted by the model with equal log/verdicts/acks, and "
             "independent monitors state the property on the simulated logs.",
        note="Trusted: Coq kernel; translator for the increment (validated per run); hand model Producer.v tied by trace "
             "acceptance; simulated cluster (idempotence rule from Kafka's ProducerStateManager) as broker oracle; "
             "observation wrappers installed from outside; one asyncio ready-queue order per schedule. No axioms. "
             "Theorems carry the no-wrap hypothesis (partial w.r.t. wrap-around, which the code violates).",
        technique="Coq invariant proofs over an LTS model + trace acceptance of the real producer under deterministic simulation",
        design="5/C01"),
    "C02": dict(
        text="Machine-checked proof (Coq 8.16): MessageBatch.done/done_noack/failure as functions (per-record offset, "
             "timestamp, timestamp type; resolved futures untouched; acks=0 carries no metadata) tied to the real methods "
             "by differential evaluation on every run; over the batch life-cycle model every accepted record is resolved at "
             "most once, flush()/stop() can return only when everything accepted is resolved, with idempotence retriable "
             "faults never fail a record, and a fault-free sender round resolves the head batch (liveness as rounds: partial). "
             "The real producer runs under the simulator (acks 0/1/all, produce v0..v7, CreateTime/LogAppendTime, flush/stop at "
             "arbitrary times, fault schedules followed by quiet) with monitors comparing every future's metadata with the "
             "record sitting at that offset in the simulated log.",
        note="Trusted: Coq kernel; hand models tied by differential testing / trace acceptance; simulated cluster and the "
             "independent reference record reader as oracle; 'bounded time' is virtual time in the simulator and rounds in "
             "the model. No axioms.",
        technique="Coq proofs over function and LTS models + differential testing and deterministic simulation of the real producer",
        design="5/C02"),
    "C04": dict(
        text="Machine-checked proof (Coq 8.16) over a per-partition model of the coordinator's committed offset, the "
             "successive owner incarnations (start = committed else log start, position, alive) and the set of offsets "
             "handed to the application: every accepted commit has only delivered offsets below it, everything below the "
             "committed offset was delivered by some incarnation wherever members were killed, stopped or rebalanced, a new "
             "owner starts exactly at the committed offset (redelivery bound). Per-partition traces of real consumer groups "
             "under the simulator (kills, stops, rebalances, commit faults, coordinator failover with/without state) must be "
             "accepted by the model; a monitor states the property on the coordinator's commit log.",
        note="Trusted: Coq kernel; hand model Offsets.v tied by trace acceptance; simulated group coordinator (generation "
             "check on OffsetCommit) as oracle; generated logs contain only visible data records (invisible offsets: C03/C08); "
             "no user seek() in group scenarios. No axioms.",
        technique="Coq invariant proofs over an LTS model + trace acceptance of real consumer groups under deterministic simulation",
        design="5/C04"),
    "C05": dict(
        text="Machine-checked proof (Coq 8.16) over a model of the group membership protocol at the client boundary "
             "(coordinator JoinGroup/SyncGroup barriers composed with each member's revoke -> join -> sync -> adopt -> "
             "assigned life cycle and the delivery gate, with a ghost clock): a member adopts exactly the entry distributed "
             "to it for that generation; adopted assignments of one generation are disjoint given a disjoint distribution "
             "(C14); nothing is delivered between the start of on_partitions_revoked and the adoption of the next "
             "assignment and only from the adopted assignment; every member of a generation finished on_partitions_revoked "
             "before that generation's barrier completed, which precedes every on_partitions_assigned of the generation. "
             "Whole boundary traces of groups of 1-4 real consumers under the simulator must be accepted by the model; "
             "monitors restate the clauses on the coordinator's generation history and the recorded callbacks.",
        note="Trusted: Coq kernel; hand model Group.v tied by trace acceptance; simulated group coordinator (Kafka classic "
             "protocol) as oracle; callbacks/requests/deliveries observed from outside. The gate opens at adoption "
             "(assign_from_subscribed precedes the assigned callback) as in the code. No axioms.",
        technique="Coq invariant proofs (ghost clock) over an LTS model + trace acceptance under deterministic simulation",
        design="5/C05"),
    "C06": dict(
        text="Machine-checked proof (Coq 8.16) of the request-content clauses over perform_group_join modelled as a function "
             "of the coordinator's replies: every JoinGroup advertises all configured strategies in order; a successful "
             "JoinGroup reply (also after MEMBER_ID_REQUIRED rounds) is followed by this member's SyncGroup for that "
             "generation and identity. The model is tied to the real method by exhaustive differential testing over "
             "well-typed reply scripts x assignor lists x JoinGroup v0-v5. The convergence clause is decided by a monitor on "
             "simulated groups with fault sequences followed by a quiet period (latest generation = live members, "
             "heartbeats continue, full coverage, no further rebalance); its model-level proof is not done (partial).",
        note="Trusted: Coq kernel; hand model tied by exhaustive differential testing with a fake coordinator object and the "
             "real request builders; convergence is a simulator monitor in virtual time, not a theorem. No axioms.",
        technique="Coq proofs over a function model + exhaustive differential testing; simulation monitor for convergence",
        design="5/C06"),
    "C19": dict(
        text="Machine-checked proof (Coq 8.16) over the control skeleton of stop(): the final commit's retry loop makes exactly "
             "one attempt once closing (and provably never ends on retriable errors if closing is ignored - the defect that was "
             "fixed), and every stop path whose awaits are bounded by the request timeout returns within 4 request timeouts for "
             "every environment oracle. Runtime clauses are decided by the simulator: stop() is issued at a sweep of points "
             "(bootstrap, first join, steady state, mid-rebalance) under healthy / unreachable / failing-over clusters for group "
             "and group-less consumers and for producers with unresolved batches; the monitor checks the bound, that no task or "
             "connection of the client survives, that later API calls raise the stopped/closed error and that LeaveGroup was "
             "sent when the coordinator was reachable.",
        note="Partial: the theorem covers the skeleton's termination/bound; leaked tasks, timers and transports are runtime "
             "facts sampled on the live objects at every explored stopping point. Trusted: Coq kernel, hand skeleton, simulator. "
             "No axioms.",
        technique="Coq proofs over a control-skeleton model + runtime monitor under deterministic simulation",
        design="5/C19"),
    "C08": dict(
        text="Machine-checked proof (Coq 8.16). Model: well-formed transactional partition logs built from any interleaving "
             "of any number of producers' committed/aborted/open transactions, plain batches, compaction and solitary markers, "
             "with the broker's fetch answer and aborted-transaction index. On it the Gallina version of "
             "PartitionRecords._unpack_records - with _consume_aborted_up_to regenerated from aiokafka/consumer/fetcher.py on "
             "every run - is proved, for every log, fetch offset, cut and admissible index order: read_committed delivers exactly "
             "the non-transactional and committed-transaction records >= the fetch offset, all below LSO; read_uncommitted "
             "delivers every data record below HW; no control record is ever delivered; the position ends at the end of the last "
             "returned batch, past everything filtered; any sequence of cuts delivers what one big response delivers. Each run "
             "compares the real PartitionRecords over real v2 bytes with the model evaluated inside Coq and an independent "
             "reference reader on generated logs including every cut of small logs.",
        note="Trusted: Coq kernel; py2gallina + units_c08.QueueTr (validated per run); hand-written Gallina of _unpack_records / "
             "_contains_abort_marker / sort (tied by correspondence); the log/broker model (Kafka LSO and collectAbortedTxns "
             "semantics, HW = log end); reference v2 writer/reader. Message format v2 only; iteration to exhaustion. No axioms.",
        technique="Coq proof over a hand model containing a source-translated function + differential correspondence with monitors",
        design="5/C08"),
    "C09": dict(
        text="Machine-checked proof (Coq 8.16, no axioms) for models of the pure-Python and compiled v0/v1/v2 builders, readers "
             "and splitter, plus the varint functions translated from record/util.py on every run: varint round-trip and size "
             "laws on all int64 and both varint implementations agree; every append sequence, batch size, codec (abstract "
             "compress/decompress pair) and broker stamping reads back exactly the accepted records; the produced bytes have the "
             "stated Length, count, last-offset-delta, first/max timestamp, producer fields, attribute bits and CRC; any "
             "concatenation of well-formed batches of any magic mix plus a partial tail splits batch by batch with each batch's own "
             "magic; size(), metadata and refusals equal the limit predicate on the produced bytes. Every run compiles the "
             "extension from the current .pyx and checks the models byte-for-byte against both implementations and an independent "
             "reference codec; plain-Python monitors report the failing input.",
        note="Trusted: Coq kernel; py2gallina (validated per run); hand-written models tied by the run's correspondence; OCaml "
             "extraction (ExtrOcamlBasic only, Z kept) + small text driver, cross-checked against evaluation inside Coq; reference "
             "codec and monitors; zlib/cramjam abstract in the theorems. Valid inputs only (C-level memory behaviour is C10).",
        technique="Coq proof over translated and hand-written models + four-way differential correspondence (py / cy / extracted model / reference)",
        design="5/C09"),
    "C11": dict(
        text="For every RequestStruct, Response, header and embedded schema imported from the current tree and regenerated into Coq "
             "on every run: (a) machine-checked round trip dec(enc v ++ r) = (v, r) for all in-range values of every wire type "
             "used (also up to dict order for tagged fields); (b) layout equal to a hand-written Kafka (api key, version) table, "
             "proved to imply byte equality for all values, with two recorded deviations in structs no builder can produce (known "
             "finding); (c) Request.prepare proved to pick the highest supported version inside the advertised range or raise, "
             "every _CLASSES list sorted, header version equal to the class's declared version; (d) replies parsed with the request "
             "version's response schema and header form; (e) listed parameters inexpressible in the negotiated version are "
             "rejected. Each run ties the models to the code by byte-exact evaluation of the Gallina codec against the real "
             "classes, exhaustive negotiation over all builders x all (min,max) <= 13 x all parameter subsets, and request bytes "
             "of every builder and version against the Kafka-table encoding of the expected content.",
        note="Trusted: Coq kernel and vm_compute; translator/schema2gallina.py (object introspection, cross-checked each run by an "
             "independent walk); model/Wire.v and C11Negotiate.v are hand models tied by correspondence; model/KafkaSpec.v written "
             "from memory of the Kafka message definitions (no network); Python's UTF-8 / IEEE-754 conversions; nullability is not "
             "part of the layout universe; VarInt32/VarInt64 (unused by any struct - a theorem) are outside the quantifier. No axioms.",
        technique="Coq proof (generic induction on the wire-type universe; finite table checks by vm_compute over regenerated data) + schema translation + differential correspondence + exhaustive negotiation enumeration",
        design="5/C11"),
    "C12": dict(
        text="Machine-checked proof (Coq 8.16) on a connection model: any fragmentation of the byte stream yields the same state; a "
             "waiter is resolved with a frame only if the frame's correlation id is its own (sole exception with refutation "
             "witness: FindCoordinator v0 accepts id 0 - known finding pinned by a repository test), in request order, never "
             "twice; a closed connection has an empty queue and no pending waiter, and EOF/reset/close/unsolicited/mismatched/"
             "malformed frames close; correlation ids (function translated from conn.py each run) stay in [0,2^31) and in-flight ids "
             "are distinct, wrap included. The real AIOKafkaConnection (+ client timeout path) on an in-memory transport is compared "
             "with the model on exhaustive split/cut families and random fault schedules.",
        note="Trusted: Coq kernel; NextCorr translated from source each run; connection model hand-written, tied by correspondence; "
             "body decoder as oracle (C11); same-iteration races not explored. No axioms.",
        technique="LTS model + invariant proofs in Coq, translated counter, differential simulation with exhaustive split/cut families",
        design="5/C12"),
    "C18": dict(
        text="Machine-checked proof (Coq 8.16) for all H/HMAC/PBKDF2/base64 meeting four listed hypotheses: client-first is a valid "
             "RFC 5802 message for (user, nonce) with invertible escaping; an honest server's StoredKey check accepts the client "
             "proof and the exchange completes; a non-extending server nonce makes the client raise before client-final; the login "
             "completes iff v equals HMAC(ServerKey(pw,salt,i),AuthMessage) exactly. The model is compared byte for byte with the "
             "real ScramAuthenticator on oracle tables computed with hashlib/hmac/base64, live against an independent RFC 5802 "
             "server, with every single-field tampering of both server messages.",
        note="Trusted: Coq kernel; hand-written model tied by byte-for-byte correspondence on oracle tables (hashlib/hmac/base64 "
             "trusted); independent RFC server; int() modelled for ASCII only; cryptographic strength of HMAC/PBKDF2 not claimed. No axioms.",
        technique="Coq model over abstract primitives (Section variables) + oracle-table correspondence + live tampering against an independent RFC server",
        design="5/C18"),
}

ALL = [f"C{i:02d}" for i in range(1, 20)]


def main():
    checks = []
    for pid in ALL:
        if pid not in CLAIMED:
            continue
        c = CLAIMED[pid]
        checks.append({
            "property_id": pid,
            "quick_cmd": f"bin/check {pid} --tier quick",
            "thorough_cmd": f"bin/check {pid} --tier thorough",
            "evidence_file": f"/verif/evidence/{pid}.json",
            "replay_cmd_template": f"bin/check {pid} --replay {{path}}",
            "engine": "coq-proof+correspondence",
            "level_claimed": {"category": "proof", "text": c["text"], "design_ref": c["design"]},
            "level_note": c["note"],
            "technique": c["technique"],
        })
    na = [{"property_id": p, "reason": NOT_YET.get(p, "check not built yet in this round (work in progress; see DESIGN.md §8)")}
          for p in ALL if p not in CLAIMED]
    m = {
        "version": 1,
        "setup_cmd": "bin/setup",
        "hooks": {
            "guard": "AIOKAFKA_VERIF",
            "enable": "no source hooks: checks drive the unmodified package from /repo's working tree "
                      "(PYTHONPATH=/repo); AIOKAFKA_VERIF=1 is exported for completeness",
            "baseline_off_cmd": "cd /repo && /venv/bin/python -m pytest -ra -q -p no:cacheprovider --timeout=900 --continue-on-collection-errors",
            "source_commits": [],
            "add_only": True,
        },
        "engines": [
            {"name": "coq-proof+correspondence", "path": "coq/ translator/ harness/ bin/check",
             "serves_properties": [p for p in ALL if p in CLAIMED],
             "kind_free_text": "Coq 8.16 development (models, proofs, public theorems), fail-closed "
                               "Python-AST/schema translators regenerating models from /repo on every run, "
                               "and correspondence harnesses (model evaluated inside Coq by vm_compute vs the real code)"},
        ],
        "checks": checks,
        "not_applicable": na,
        "notes": "See DESIGN.md. Known findings: known_findings.json.",
    }
    with open(os.path.join(VERIF, "MANIFEST.json"), "w") as f:
        json.dump(m, f, indent=1)
    print(f"{len(checks)} checks claimed, {len(na)} not claimed")


NOT_YET = {}

if __name__ == "__main__":
    main()
