#!/usr/bin/env python3
"""Writes /verif/MANIFEST.json from the table below (kept in one place so it stays valid)."""
import json
import os

VERIF = os.path.dirname(os.path.dirname(os.path.abspath(__file__)))

CLAIMED = {
    "C17": dict(
        text="Machine-checked proof (Coq 8.16): the Gallina functions regenerated on every run from "
             "aiokafka/partitioner.py (murmur2, DefaultPartitioner.__call__) are proved, for every byte "
             "string and every partition list, to compute the Java client's murmur2 / toPositive / modulo "
             "partition, independently of the available set; unkeyed records provably go to an available "
             "partition. The generated functions are validated against the real Python on every run and a "
             "differential search against an int32 Java transcription produces the failing key when a proof breaks.",
        note="Trusted: Coq kernel, py2gallina translator (validated per run by evaluation in Coq), the hand "
             "transcription of Java's Utils.murmur2 (tied to real Java outputs by the six literals of "
             "tests/test_partitioner.py), random.choice modelled as an arbitrary index. No axioms.",
        technique="Coq proof over a model regenerated from source by a Python-AST translator",
        design="5/C17"),
    "C01": dict(
        text="Machine-checked proof (Coq 8.16) over a per-partition model of accumulator, sender, sequence stamping "
             "(TransactionManager.increment_sequence_number is translated from source on every run) and the partition "
             "leader's idempotence rule: for every event sequence the model accepts - any interleaving of accepts, "
             "drains, arrivals, lost/failed replies and retries - with no sequence wrap inside the run, the leader never "
             "sees a gap or reused sequence, its log is a duplicate-free prefix of the accepted records in acceptance "
             "order, acknowledged records are in the log, one batch per partition is in flight; without idempotence the "
             "log is the drained batches in order, each repeated as a whole block. The wrap clause is refuted for the code "
             "as it is (known finding). The real AIOKafkaProducer runs under a deterministic simulator with fault "
             "schedules; every per-partition boundary trace must be accepted by the model with equal log/verdicts/acks, and "
             "independent monitors state the property on the simulated logs. The transactional producer (idempotent, plus "
             "commit/abort acting on queued batches) is exercised by monitors only: retriable Produce faults with commit/abort "
             "issued while a stamped batch sits re-enqueued, no sequence gap / duplicate / lost acknowledged record on the leaders.",
        note="Trusted: Coq kernel; translator for the increment (validated per run); hand model Producer.v tied by trace "
             "acceptance; simulated cluster (idempotence rule from Kafka's ProducerStateManager) as broker oracle; "
             "observation wrappers installed from outside; one asyncio ready-queue order per schedule. No axioms. "
             "Theorems carry the no-wrap hypothesis (partial w.r.t. wrap-around, which the code violates).",
        technique="Coq invariant proofs over an LTS model + trace acceptance of the real producer under deterministic simulation",
        design="5/C01"),
    "C02": dict(
        text="Machine-checked proof (Coq 8.16): MessageBatch.done/done_noack/failure are translated from "
             "aiokafka/producer/message_accumulator.py on every run (translator/units_c02.py -> gen/DoneGen.v) and proved equal, "
             "for every input, to the functions the statements are about (per-record offset, timestamp, timestamp type; "
             "resolved futures untouched; acks=0 carries no metadata; the batch future gets the base offset), and also run "
             "differentially against the real methods; over the batch life-cycle model every accepted record is resolved at "
             "most once, flush()/stop() can return only when everything accepted is resolved, with idempotence retriable "
             "faults never fail a record, and a fault-free sender round resolves the head batch (liveness as rounds: partial). "
             "The Produce-response dispatch (handle_response, _can_retry, the retriable/invalid_metadata attributes of "
             "errors.py) is regenerated from source on every run: with idempotence no retriable code ever fails a batch, and "
             "for every integer code a reply has exactly one outcome (resolved, failed or re-enqueued). "
             "The real producer runs under the simulator (acks 0/1/all, produce v0..v7, CreateTime/LogAppendTime, flush/stop at "
             "arbitrary times, fault schedules followed by quiet) with monitors comparing every future's metadata with the "
             "record sitting at that offset in the simulated log.",
        note="Trusted: Coq kernel; the fail-closed translators (done/done_noack/failure, Produce dispatch, sequence increment); "
             "the life-cycle model tied by trace acceptance; simulated cluster and the "
             "independent reference record reader as oracle; 'bounded time' is virtual time in the simulator and rounds in "
             "the model. No axioms.",
        technique="Coq proofs over source-translated functions and an LTS model + differential testing and deterministic simulation of the real producer",
        design="5/C02, 9.3"),
    "C04": dict(
        text="Machine-checked proof (Coq 8.16) over a per-partition model of the coordinator's committed offset, the "
             "successive owner incarnations (start = committed else log start, position, alive) and the set of offsets "
             "handed to the application: every accepted commit has only delivered offsets below it, everything below the "
             "committed offset was delivered by some incarnation wherever members were killed, stopped or rebalanced, a new "
             "owner starts exactly at the committed offset (redelivery bound). Per-partition traces of real consumer groups "
             "under the simulator (kills, stops, rebalances, commit faults, coordinator failover with/without state) must be "
             "accepted by the model; a monitor states the property on the coordinator's commit log.",
        note="Trusted: Coq kernel; hand model Offsets.v tied by trace acceptance; simulated group coordinator (generation "
             "check on OffsetCommit) as oracle; generated logs contain only visible data records (invisible offsets: C03/C08); "
             "no user seek() in group scenarios. No axioms.",
        technique="Coq invariant proofs over an LTS model + trace acceptance of real consumer groups under deterministic simulation",
        design="5/C04"),
    "C05": dict(
        text="Machine-checked proof (Coq 8.16) over a model of the group membership protocol at the client boundary "
             "(coordinator JoinGroup/SyncGroup barriers composed with each member's revoke -> join -> sync -> adopt -> "
             "assigned life cycle and the delivery gate, with a ghost clock): a member adopts exactly the entry distributed "
             "to it for that generation; adopted assignments of one generation are disjoint given a disjoint distribution "
             "(C14); nothing is delivered between the start of on_partitions_revoked and the adoption of the next "
             "assignment and only from the adopted assignment; every member of a generation finished on_partitions_revoked "
             "before that generation's barrier completed, which precedes every on_partitions_assigned of the generation. "
             "Whole boundary traces of groups of 1-4 real consumers under the simulator must be accepted by the model; "
             "monitors restate the clauses on the coordinator's generation history and the recorded callbacks.",
        note="Trusted: Coq kernel; hand model Group.v tied by trace acceptance; simulated group coordinator (Kafka classic "
             "protocol) as oracle; callbacks/requests/deliveries observed from outside. The gate opens at adoption "
             "(assign_from_subscribed precedes the assigned callback) as in the code. No axioms.",
        technique="Coq invariant proofs (ghost clock) over an LTS model + trace acceptance under deterministic simulation",
        design="5/C05"),
    "C06": dict(
        text="Machine-checked proof (Coq 8.16) of the request-content clauses over perform_group_join modelled as a function "
             "of the coordinator's replies: every JoinGroup advertises all configured strategies in order; a successful "
             "JoinGroup reply (also after MEMBER_ID_REQUIRED rounds) is followed by this member's SyncGroup for that "
             "generation and identity. The model is tied to the real method by exhaustive differential testing over "
             "well-typed reply scripts x assignor lists x JoinGroup v0-v5. The error-dispatch chains of the Heartbeat, "
             "JoinGroup, SyncGroup and OffsetCommit handlers are regenerated from group_coordinator.py on every run and "
             "proved to recover (rejoin / coordinator rediscovery / generation reset / backoff, never a raise) from every "
             "error code a Kafka coordinator can put in that reply, to rejoin on every SyncGroup error whatsoever, and to "
             "agree with the hand model's classification; the generated chains are validated against the real handlers "
             "for every code -1..100. The convergence clause is proved on a quiet-period model of the coordinator composed "
             "with n members whose reactions to reply codes are those same translated chains: from every state satisfying the "
             "invariant, for any number of members and any schedule, every quiet step preserves the invariant, every step "
             "that is not a no-op heartbeat/commit exchange strictly decreases a natural-number variant, a real step stays "
             "enabled until the state is converged, and a converged state is closed under quiet steps and emits no JoinGroup "
             "- so every quiet execution ends with every live member in the coordinator's latest generation, heartbeating, "
             "and no further rebalance. The quiet suffix of every simulated run (state read off the real objects at the "
             "first snapshot after the environment's last action) must satisfy the invariant and be accepted step by step "
             "inside Coq, with the model's converged verdict equal to the monitor's. The monitor on simulated groups "
             "(fault sequences, error codes at every group request, topic growth during a rebalance, then a quiet period) "
             "still states the whole clause incl. assignment coverage on the real consumers.",
        note="Trusted: Coq kernel; hand model tied by exhaustive differential testing with a fake coordinator object and the "
             "real request builders; dispatch2gallina translator (validated per run); the per-API error-code sets of a Kafka "
             "coordinator (model/C06_Codes.v, hand-written); model/C06_Converge.v is hand-written after the simulated "
             "coordinator (Kafka classic protocol) and the control skeleton of group_coordinator.py, tied by T (dispatch "
             "chains) and by per-run acceptance of quiet suffixes; its timing assumptions A1-A5 (no session of a live "
             "member expires, only orphan ids expire, FindCoordinator answers the current coordinator, subscriptions and "
             "partition counts fixed, no client-side request timeout in the quiet period); the invariant at the quiet start "
             "is checked per run, not proved; real time, the environment phase and assignment coverage are decided by the "
             "monitor. No axioms.",
        technique="Coq proofs: function model, dispatch chains translated from source, LTS with a variant (per-member facts by exhaustive vm_compute reflection over a finite view) + exhaustive differential testing + trace acceptance and monitors under deterministic simulation",
        design="5/C06"),
    "C19": dict(
        text="Machine-checked proof (Coq 8.16). (1) The shutdown paths as a model regenerated from source on every run: "
             "translator/close2gallina.py turns nine background routines (every await point classified by what a cancellation "
             "delivered there leads to) and AIOKafkaConsumer.stop / AIOKafkaProducer.stop with all close procedures they call "
             "(sequence of cancel-and-join steps, guard and await style of each) into data of the task calculus "
             "model/C19_Tasks.v. Proved: a decidable per-step condition is sufficient for a close procedure to run to its last "
             "step from EVERY environment of the state space (each task not started, suspended at any of its await points, "
             "finished, failed with a broker error) - no CancelledError or task exception escapes, no join hangs - and necessary "
             "for cancel-and-join steps; the generated group / group-less / producer stop procedures satisfy it, so they always "
             "reach client.close(). With internal errors of the client admitted the statement is refuted (witness replayed on "
             "the code). (2) The control skeleton of the final commit: exactly one attempt once closing, stop() within 4 request "
             "timeouts for every oracle. Correspondence and runtime clauses under the deterministic simulator: stop() at a sweep "
             "of points (bootstrap, first join, steady state, mid-rebalance, idle-leave, unsubscribe) under healthy / unreachable "
             "/ failing-over clusters for group and group-less consumers and producers; the task states recorded when the close "
             "procedures call cancel() must lie in the model's state space, every suspension line must be a translated await "
             "point, and the model evaluated inside Coq must predict what stop() did; monitors check the time bound, that no "
             "task or connection survives, that later API calls raise the stopped/closed error, that LeaveGroup was sent.",
        note="Partial: leaked tasks/timers/transports and the time bound are runtime facts sampled on live objects; the calculus "
             "does not model what routines do between awaits or a second concurrent stop(). Trusted: Coq kernel; the asyncio "
             "semantics written into C19_Tasks.v; close2gallina.py (fail-closed) with its hand-set per-slot flags "
             "(may_unstarted, may_cancelled, may_fail) and three awaits assumed not to raise (asyncio.wait, gather over "
             "connection closes, LeaveGroup send under except KafkaError) - all exercised by the join-time correspondence; "
             "simulator. No axioms.",
        technique="Coq proofs over a task calculus instantiated by a source translator (regenerated every run) + model-vs-code "
                  "correspondence on observed task states + runtime monitor under deterministic simulation",
        design="9.3 (C19, round 11), 5/C19"),
    "C08": dict(
        text="Machine-checked proof (Coq 8.16). Model: well-formed transactional partition logs built from any interleaving "
             "of any number of producers' committed/aborted/open transactions, plain batches, compaction and solitary markers, "
             "with the broker's fetch answer and aborted-transaction index. On it the Gallina version of "
             "PartitionRecords._unpack_records - with _consume_aborted_up_to regenerated from aiokafka/consumer/fetcher.py on "
             "every run - is proved, for every log, fetch offset, cut and admissible index order: read_committed delivers exactly "
             "the non-transactional and committed-transaction records >= the fetch offset, all below LSO; read_uncommitted "
             "delivers every data record below HW; no control record is ever delivered; the position ends at the end of the last "
             "returned batch, past everything filtered; any sequence of cuts delivers what one big response delivers. Each run "
             "compares the real PartitionRecords over real v2 bytes with the model evaluated inside Coq and an independent "
             "reference reader on generated logs including every cut of small logs.",
        note="Trusted: Coq kernel; py2gallina + units_c08.QueueTr (validated per run); hand-written Gallina of _unpack_records / "
             "_contains_abort_marker / sort (tied by correspondence); the log/broker model (Kafka LSO and collectAbortedTxns "
             "semantics, HW = log end); reference v2 writer/reader. Message format v2 only; iteration to exhaustion. No axioms.",
        technique="Coq proof over a hand model containing a source-translated function + differential correspondence with monitors",
        design="5/C08"),
    "C09": dict(
        text="Machine-checked proof (Coq 8.16, no axioms) for models of the pure-Python and compiled v0/v1/v2 builders, readers "
             "and splitter, plus the varint functions translated from record/util.py on every run: varint round-trip and size "
             "laws on all int64 and both varint implementations agree; every append sequence, batch size, codec (abstract "
             "compress/decompress pair) and broker stamping reads back exactly the accepted records; the produced bytes have the "
             "stated Length, count, last-offset-delta, first/max timestamp, producer fields, attribute bits and CRC; any "
             "concatenation of well-formed batches of any magic mix plus a partial tail splits batch by batch with each batch's own "
             "magic; size(), metadata and refusals equal the limit predicate on the produced bytes. Every run compiles the "
             "extension from the current .pyx and checks the models byte-for-byte against both implementations and an independent "
             "reference codec; plain-Python monitors report the failing input.",
        note="Trusted: Coq kernel; py2gallina (validated per run); hand-written models tied by the run's correspondence; OCaml "
             "extraction (ExtrOcamlBasic only, Z kept) + small text driver, cross-checked against evaluation inside Coq; reference "
             "codec and monitors; zlib/cramjam abstract in the theorems. Valid inputs only (C-level memory behaviour is C10).",
        technique="Coq proof over translated and hand-written models + four-way differential correspondence (py / cy / extracted model / reference)",
        design="5/C09"),
    "C11": dict(
        text="For every RequestStruct, Response, header and embedded schema imported from the current tree and regenerated into Coq "
             "on every run: (a) machine-checked round trip dec(enc v ++ r) = (v, r) for all in-range values of every wire type "
             "used (also up to dict order for tagged fields); (b) layout equal to a hand-written Kafka (api key, version) table, "
             "proved to imply byte equality for all values, with two recorded deviations in structs no builder can produce (known "
             "finding); (c) Request.prepare - translated from aiokafka/protocol/api.py on every run (translator/units_c11.py -> gen/PrepareGen.v) "
             "and proved equal to the model function for every input - proved to pick the highest supported version inside the advertised range or raise, "
             "every _CLASSES list sorted, header version equal to the class's declared version; (d) replies parsed with the request "
             "version's response schema and header form, and (monitor on the imported classes) with a response class that "
             "carries the request's own api key and version; (e) listed parameters inexpressible in the negotiated version are "
             "rejected. Each run ties the models to the code by byte-exact evaluation of the Gallina codec against the real "
             "classes, exhaustive negotiation over all builders x all (min,max) <= 13 x all parameter subsets, and request bytes "
             "of every builder and version against the Kafka-table encoding of the expected content.",
        note="Trusted: Coq kernel and vm_compute; translator/schema2gallina.py (object introspection, cross-checked each run by an "
             "independent walk); model/Wire.v and the builder guards of C11Negotiate.v are hand models tied by correspondence (prepare itself is translated); model/KafkaSpec.v written "
             "from memory of the Kafka message definitions (no network); Python's UTF-8 / IEEE-754 conversions; nullability is not "
             "part of the layout universe; VarInt32/VarInt64 (unused by any struct - a theorem) are outside the quantifier. No axioms.",
        technique="Coq proof (generic induction on the wire-type universe; finite table checks by vm_compute over regenerated data) + schema translation + differential correspondence + exhaustive negotiation enumeration",
        design="5/C11"),
    "C12": dict(
        text="Machine-checked proof (Coq 8.16) on a connection model: any fragmentation of the byte stream yields the same state; a "
             "waiter is resolved with a frame only if the frame's correlation id is its own (sole exception with refutation "
             "witness: FindCoordinator v0 accepts id 0 - known finding pinned by a repository test), in request order, never "
             "twice; a closed connection has an empty queue and no pending waiter, and EOF/reset/close/unsolicited/mismatched/"
             "malformed frames close; correlation ids (function translated from conn.py each run) stay in [0,2^31) and in-flight ids "
             "are distinct, wrap included. The real AIOKafkaConnection (+ client timeout path) on an in-memory transport is compared "
             "with the model on exhaustive split/cut families and random fault schedules.",
        note="Trusted: Coq kernel; NextCorr translated from source each run; connection model hand-written, tied by correspondence; "
             "body decoder as oracle (C11); same-iteration races not explored. No axioms.",
        technique="LTS model + invariant proofs in Coq, translated counter, differential simulation with exhaustive split/cut families",
        design="5/C12"),
    "C18": dict(
        text="Machine-checked proof (Coq 8.16) for all H/HMAC/PBKDF2/base64 meeting four listed hypotheses: client-first is a valid "
             "RFC 5802 message for (user, nonce) with invertible escaping; an honest server's StoredKey check accepts the client "
             "proof and the exchange completes; a non-extending server nonce makes the client raise before client-final; the login "
             "completes iff v equals HMAC(ServerKey(pw,salt,i),AuthMessage) exactly. The model is compared byte for byte with the "
             "real ScramAuthenticator on oracle tables computed with hashlib/hmac/base64, live against an independent RFC 5802 "
             "server, with every single-field tampering of both server messages.",
        note="Trusted: Coq kernel; hand-written model tied by byte-for-byte correspondence on oracle tables (hashlib/hmac/base64 "
             "trusted); independent RFC server; int() modelled for ASCII only; cryptographic strength of HMAC/PBKDF2 not claimed. No axioms.",
        technique="Coq model over abstract primitives (Section variables) + oracle-table correspondence + live tampering against an independent RFC server",
        design="5/C18"),
    "C03": dict(
        text="Machine-checked proof (Coq 8.16) over a per-partition model of Fetcher / TopicPartitionState / FetchResult composed "
             "with the leader. For every accepted event sequence each run of deliveries is exactly the visible records in [start, "
             "position), strictly increasing and contiguous; the position clauses hold; a stale reply or pending reset never "
             "changes buffer or position and a seek takes effect for the very next record; nothing comes from paused or "
             "filtered-out partitions; fault-free rounds strictly advance, including over control, aborted and emptied batches, and "
             "reach the log end (model-level liveness: partial). The fetcher model refines an API-level specification automaton that "
             "is itself proved exact. The per-partition error dispatch of a Fetch response is regenerated from "
             "Fetcher._proc_fetch_request on every run: for every integer error code only OFFSET_OUT_OF_RANGE (with a reset "
             "policy) makes the consumer give up its position, errors reach the application only for out-of-range without a "
             "policy or an unauthorized topic, every unnamed code changes nothing. "
             "The real consumer runs under the deterministic simulator; every per-partition boundary trace, "
             "application trace and scan must be accepted inside Coq with equal outputs, and independent monitors state the property "
             "on the simulated logs. "
             "TopicPartitionState's position-keeping methods (await_reset, consumed_to, reset_to, seek, pause, resume) are "
             "translated from source on every run; proved: their status/position invariant, when their assertions hold, and that "
             "the consumer model moves its position and pause flag exactly as these methods do (no repositioning event the "
             "model allows can hit an assertion of the source); differentially tested against the real class.",
        note="Trusted: Coq kernel; hand model tied by trace acceptance; which records of a batch are visible comes from the simulated "
             "log (exactness of the filter is C08's theorem); simkit and refcodec as oracle; observation wrappers installed from "
             "outside; one scheduler order per schedule (ASLR off for reproducibility). RecordTooLarge, TopicAuthorizationFailed and "
             "two in-flight fetches to different leaders are not simulated. No axioms.",
        technique="Coq invariant and refinement proofs over an LTS model and spec automaton + dispatch chain translated from source + trace acceptance of the real consumer under deterministic simulation + monitors",
        design="5/C03"),
    "C10": dict(
        text="Machine-checked proof (Coq 8.16, no axioms). For every byte list, both validate_crc settings and every decompression "
             "function, the models of the compiled readers (MemoryRecords splitter, DefaultRecordBatch header/varints/records, "
             "LegacyRecordBatch incl. _read_last_offset and the compressed wrapper) and of the pure-Python readers never read "
             "outside the buffer, never run out of fuel and never end in SystemError, MemoryError or OverflowError; a batch whose "
             "checksum field differs from its content's checksum is rejected by both. For the code as originally pinned the same "
             "statements are refuted inside Coq by concrete witnesses at 8 sites (replayed on the real extension: ASan "
             "heap-buffer-overflow, hang, SystemError/OverflowError/MemoryError) - repaired by six fix commits. On every run the "
             "extension is rebuilt from the current .pyx under AddressSanitizer; truncated, mutated, boundary-valued, "
             "nested-compressed, concatenated and random inputs are decoded by the real compiled and pure-Python readers, presented "
             "as bytes and as exact-size foreign buffers; outcomes must equal the model's, and an independent monitor reports any "
             "ASan report, signal, hang, non-ordinary exception or accepted checksum mismatch.",
        note="Partial w.r.t. generated C: the theorems concern the index arithmetic of hand-written models tied to the code by the "
             "per-run correspondence; Cython refcounting / Py_buffer handling are only sampled by ASan (reads inside a bytes "
             "object's header or NUL terminator are invisible to it and counted). Trusted: Coq kernel; OCaml extraction for volume "
             "(cross-checked against vm_compute on a sample every run); clang-14 ASan; codecs abstract in the theorems; compiled "
             "theorems assume buffers and codec outputs shorter than 2^47 bytes.",
        technique="Coq proof over instrumented-memory models of the readers + per-run differential correspondence under AddressSanitizer + runtime monitor",
        design="5/C10"),
    "C13": dict(
        text="Machine-checked proof (Coq 8.16) over a per-partition start-position model (committed lookup via the coordinator or "
             "group-less, ListOffsets reset, out-of-range handling, user seek / seek_to_*; the environment supplies the offset store "
             "and the leader's answer log start / LSO / HW by isolation level). In every accepted trace without user repositioning "
             "the first valid position is the committed offset if one exists, else the answer for the policy's strategy; after an "
             "out-of-range report the same rule applies; NoOffsetForPartition and OffsetOutOfRange are raised only under policy "
             "none; a seek or seek_to_* landing anywhere wins; failed lookups leave a state in which they are re-issued and the "
             "fault-free continuation completes. The real consumer (group and group-less) runs under the simulator, including a "
             "user call injected at every event index; traces must be accepted inside Coq with equal first/final position, origin "
             "and surfaced errors, and monitors check positions and first records against the simulated log and offset store.",
        note="Trusted: Coq kernel; hand model tied by trace acceptance; simkit as oracle (OffsetFetch group-level errors shaped as "
             "Kafka v2+); observation wrappers; injected calls run at the next scheduling point after the chosen event. Two defects "
             "found by this check are fixed in /repo. Per-partition COORDINATOR_NOT_AVAILABLE on OffsetFetch v0/v1 not explored. No axioms.",
        technique="Coq invariant proofs over an LTS model + trace acceptance under deterministic simulation with exhaustive enumeration of seek insertion points + oracle monitors",
        design="5/C13"),
    "C14": dict(
        text="Machine-checked proof (Coq 8.16) for all layouts and subscriptions (dict-key ids, set subscriptions): range and "
             "round-robin assign every partition of every subscribed topic with metadata exactly once, to a subscribed member, and "
             "nothing else; range slices are contiguous and within one per topic; round-robin is within one under identical "
             "subscriptions and its skip loop terminates. For sticky, for arbitrary user data: every run of the abstract machine, "
             "and every op log accepted by the control skeleton, yields a valid assignment; the state where the reassignment loop "
             "stops is KIP-54 balanced (balance of a reverted result: partial); the three boolean checkers are sound and complete. "
             "The real assignors agree with the models on the complete <=4-member x <=3-topic x 0..4-partition space and on random "
             "inputs; every real sticky op log is accepted and every result passes the proved checkers - except the runs whose "
             "balancing passes go round in a circle (about 1 in 150 000 ordinary rebalances with different subscriptions): they "
             "never terminated before /repo 0d5eafa, are stopped at the first repeated assignment since, end by neither exit of "
             "the model's loop and return a valid but unbalanced assignment (known finding K5, corpus/C14/pingpong.json). Every "
             "sticky case runs under a CPU watchdog; a run that does not terminate is a violation with the case as replay.",
        note="Trusted: Coq kernel and vm_compute; OCaml extraction + 20-line driver (re-evaluated on a sample inside Coq); stream "
             "encoders and op-log wrappers; stub cluster with partitions 0..n-1. The sticky visiting order and hash-order choices "
             "are abstracted; KIP-54 balance of a reverted result is searched, not proved (C14_sticky_balanced_full stays open). No axioms.",
        technique="Coq proof over executable models (range, round-robin; sticky as abstract machine + checked control skeleton + proved checkers) + exhaustive-bounded and random correspondence",
        design="5/C14"),
    "C15": dict(
        text="Machine-checked proof (Coq 8.16) at the control-skeleton level: with unchanged input and a valid, KIP-54-balanced "
             "previous assignment the sticky result equals the previous assignment with an empty op log; with identical "
             "subscriptions, after members leave, no Move happens, so survivors keep everything; consistent user data is taken "
             "verbatim. The 'members joined' clause depends on the visiting order, which the model abstracts (partial): it is "
             "searched exhaustively over all second rounds of the bounded space and two-step chains and on random chains of <=5 "
             "rounds, all through the real user-data encoding. The mechanism behind that clause is modelled and proved separately: the "
             "candidate order of the identical-subscription branch is heaviest-first, one partition per turn (C15_Order.order_ok, "
             "checked on the real sorted_partitions of every logged round), and along any such order members that have shed a "
             "partition stay within one of the heaviest (c15_heaviest_first_lockstep).",
        note="The user-data byte codec is not modelled (tied by correspondence). c15_plus_needs_visiting_order shows the model's "
             "guards alone do not imply the 'members joined' clause. Same trusted base as C14. No axioms.",
        technique="Coq proof at the control-skeleton level + two consecutive real assign() calls compared partition by partition through the real user-data encoding",
        design="5/C15"),
    "C07": dict(
        text="Machine-checked proof (Coq 8.16, no axioms) over an LTS of several producer incarnations (application, sender "
             "task, accumulator), the transaction coordinator and the partition leaders. For every accepted trace in which "
             "the client meets its obligations, a read-committed reader sees all records and offsets of committed "
             "transactions and none of aborted or open ones, including kills with in-doubt EndTxn and fencing by a "
             "successor. Proved unconditionally for every accepted trace: every Produce and TxnOffsetCommit goes to a "
             "partition or group the coordinator acknowledged for this transaction (add-before-produce, full strength); "
             "EndTxn is sent only after all batches are acknowledged; nothing is written outside a transaction; writes from "
             "fenced epochs are rejected. The one obligation the code does not guarantee, 'no failed batch at commit', is "
             "refuted with a trace of the real producer (known finding, same root cause as C16). Liveness under retriable "
             "faults is model-level, by variant (partial). The real producer runs under the deterministic simulator with "
             "concurrent sends, offsets, fault, coordinator-move and kill schedules, and commit/abort issued while send() calls "
             "are parked in the accumulator; every trace must be accepted inside Coq "
             "with equal logs and outcomes, and independent monitors (a reference read-committed reader, coordinator-side "
             "and leader-side protocol checks, liveness) state the property on the simulated cluster.",
        note="Trusted: Coq kernel; hand model tied by trace acceptance; simulated coordinator and leaders (reviewed against "
             "Kafka semantics) as oracle; observation wrappers; model guards (sender stops after a fatal error; no fatal "
             "before a pid); one scheduler order per schedule. Atomicity carries obligations 2-4 as hypotheses, of which 3 "
             "and 4 are monitored on every run and 2 is the known finding. A send() refused by the client has no model event "
             "and is checked by a monitor on the logs. No axioms.",
        technique="Coq invariant proofs over a multi-party LTS + trace acceptance of the real producer under deterministic simulation with fault and kill injection + monitors",
        design="5/C07"),
    "C16": dict(
        text="Machine-checked proof (Coq 8.16, no axioms) over an executable model of the transactional API (state, "
             "registered partitions/group, per-handler error classification), with TransactionState.is_transition_valid "
             "translated from source on every run and pinned to a hand-written table of required / permitted transitions, and "
             "with the error dispatch of the five transactional response handlers translated from sender.py on every run: the "
             "model's per-handler classification is proved equal to the source's for every error code of the model, fencing "
             "and transactional-id authorization are fatal, topic/group authorization abortable, and for every integer code an "
             "unnamed error is fatal. Calls include sends whose delivery future is not awaited, so that an abortable error can "
             "arrive while COMMITTING / ABORTING: commit / abort then raise it, what was registered is kept and the waiting "
             "batches are failed and never produced. Proved: illegal calls have no effect and send nothing; legal calls are "
             "not refused; the protocol order is accepted; ABORTABLE_ERROR is entered only by abortable-class errors, keeps "
             "what is registered and is left only through abort, which sends EndTxn(ABORT) iff something is registered; "
             "FATAL_ERROR is absorbing and entered only by fatal-class errors; the model refines a 7-state specification "
             "automaton. The clause 'every fatal-class error makes the transaction fatal' is proved for coordinator "
             "requests and refuted for Produce responses (known finding). The real AIOKafkaProducer runs under the "
             "deterministic simulator on exhaustive short call programs, single faults at every request position, and "
             "scripted and random programs; each run must equal the model evaluated inside Coq (results, requests, state), "
             "and independent monitors state the property on the coordinator.",
        note="Trusted: Coq kernel; py2gallina for the transition table and dispatch2gallina for the handlers (both validated "
             "per run against the real code); hand model tied by program equality (results, requests, state, registered set, "
             "stored error, awaited-future outcomes); simulated transaction coordinator; wrappers installed from outside; the "
             "specification tables (spec_must / spec_may, error classes) are hand-written from KIP-98 and the Java client. "
             "Sequential API calls only (task-level concurrency is C07); programs with nowait sends run on a one-broker "
             "cluster; send_offsets_to_transaction is always awaited. No axioms.",
        technique="Coq proofs by finite vm_compute sweeps + refinement of a spec automaton + program-level correspondence under deterministic simulation + monitors",
        design="5/C16"),
}

ALL = [f"C{i:02d}" for i in range(1, 20)]


def main():
    checks = []
    for pid in ALL:
        if pid not in CLAIMED:
            continue
        c = CLAIMED[pid]
        checks.append({
            "property_id": pid,
            "quick_cmd": f"bin/check {pid} --tier quick",
            "thorough_cmd": f"bin/check {pid} --tier thorough",
            "evidence_file": f"/verif/evidence/{pid}.json",
            "replay_cmd_template": f"bin/check {pid} --replay {{path}}",
            "engine": "coq-proof+correspondence",
            "level_claimed": {"category": "proof", "text": c["text"], "design_ref": c["design"]},
            "level_note": c["note"],
            "technique": c["technique"],
        })
    na = [{"property_id": p, "reason": NOT_YET.get(p, "check not built yet in this round (work in progress; see DESIGN.md §8)")}
          for p in ALL if p not in CLAIMED]
    m = {
        "version": 1,
        "setup_cmd": "bin/setup",
        "hooks": {
            "guard": "AIOKAFKA_VERIF",
            "enable": "no source hooks: checks drive the unmodified package from /repo's working tree "
                      "(PYTHONPATH=/repo); AIOKAFKA_VERIF=1 is exported for completeness",
            "baseline_off_cmd": "cd /repo && /venv/bin/python -m pytest -ra -q -p no:cacheprovider --timeout=900 --continue-on-collection-errors",
            "source_commits": [],
            "add_only": True,
        },
        "engines": [
            {"name": "coq-proof+correspondence", "path": "coq/ translator/ harness/ bin/check",
             "serves_properties": [p for p in ALL if p in CLAIMED],
             "kind_free_text": "Coq 8.16 development (models, proofs, public theorems), fail-closed "
                               "Python-AST/schema translators regenerating models from /repo on every run, "
                               "and correspondence harnesses (model evaluated inside Coq by vm_compute vs the real code)"},
        ],
        "checks": checks,
        "not_applicable": na,
        "notes": "See DESIGN.md. Known findings: known_findings.json.",
    }
    with open(os.path.join(VERIF, "MANIFEST.json"), "w") as f:
        json.dump(m, f, indent=1)
    print(f"{len(checks)} checks claimed, {len(na)} not claimed")


NOT_YET = {}

if __name__ == "__main__":
    main()
