#!/bin/bash
# Whole-development audit: forbidden constructs, open proofs, and an independent re-check of every compiled
# public-theorem file by coqchk with the list of axioms it finds.  Writes audit/AUDIT.txt.
cd "$(dirname "$0")/.."
mkdir -p audit
out=audit/AUDIT.txt
{
echo "== date: $(date -u +%FT%TZ)   coq: $(coqc --version | head -1)"
echo "== forbidden constructs in coq/{lib,model,proof,props} (gen/ is regenerated, checked too)"
grep -rnE '\b(Admitted|admit|Axiom|Axioms|Parameter|Parameters|Conjecture|Hypothesis|Variable)\b|Unset Guard|bypass_check|type-in-type|impredicative-set|Admit Obligations' coq/lib coq/model coq/proof coq/props coq/gen --include=*.v \
  | grep -vE '^\S+:\s*[0-9]+:\s*\(\*' | grep -vE 'Section|Context' || echo "(none)"
echo "== Variable/Hypothesis occurrences must be inside Sections (listed for review):"
grep -rnE '^\s*(Variable|Variables|Hypothesis|Hypotheses|Context)\b' coq/lib coq/model coq/proof coq/props --include=*.v | head -40 || true
echo "== Print Assumptions summary per props file (from the last evidence)"
python3 - <<'PY'
import json,glob
for f in sorted(glob.glob('evidence/C*.json')):
    d=json.load(open(f))
    a=d.get('assumptions') or d.get('level',{})
    print(f.split('/')[-1], json.dumps(d.get('assumptions'))[:300])
PY
echo "== coqchk -o over all public theorem files"
cd coq
mods=$(ls props/*.v | sed 's#props/##; s#\.v$##' | sed 's#^#Verif.#' | tr '\n' ' ')
timeout 7200 coqchk -silent -o -Q lib Verif -Q model Verif -Q gen Verif -Q proof Verif -Q props Verif $mods 2>&1 | tail -40
echo "coqchk exit: $?"
} > $out 2>&1
tail -30 $out
