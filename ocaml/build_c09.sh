#!/bin/bash
# Extract the C09 models from the current Coq sources and build the OCaml runner.
# usage: ocaml/build_c09.sh   (the .vo files of coq/model must be up to date)
set -e
here="$(cd "$(dirname "$0")" && pwd)"
out="$here/gen/c09"
mkdir -p "$out"
cd "$out"
# nothing to do when the runner is newer than everything it is extracted / built from
if [ -x c09_runner ]; then
  stale=0
  for f in "$here"/../coq/model/C09_*.vo "$here"/../coq/lib/C09Bytes.vo "$here"/../coq/lib/Imp.vo \
           "$here"/../coq/gen/Varint*.vo "$here"/c09_extract.v "$here"/c09_driver.ml "$here"/build_c09.sh; do
    if [ ! -e "$f" ] || [ "$f" -nt c09_runner ]; then stale=1; fi
  done
  if [ $stale = 0 ]; then echo "$out/c09_runner"; exit 0; fi
fi
rm -f c09_model.ml c09_model.mli c09_runner
timeout 300 coqc -Q "$here/../coq/lib" Verif -Q "$here/../coq/model" Verif -Q "$here/../coq/gen" Verif \
  -o "$out/c09_extract.vo" "$here/c09_extract.v" > extract.log 2>&1 || { cat extract.log; exit 1; }
cp "$here/c09_driver.ml" .
timeout 300 ocamlfind ocamlopt -w -a -O2 -unsafe -inline 100 c09_model.mli c09_model.ml c09_driver.ml -o c09_runner \
  > build.log 2>&1 || { cat build.log; exit 1; }
echo "$out/c09_runner"
