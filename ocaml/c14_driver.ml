(* Driver for the extracted C14_Run.run_case: one case per input line (space separated
   naturals), one result line per case.  Only converts int <-> the extracted Peano nat. *)
let rec of_int n = if n <= 0 then C14_run.O else C14_run.S (of_int (n - 1))
let to_int n = let rec go acc = function C14_run.O -> acc | C14_run.S k -> go (acc + 1) k in go 0 n

let () =
  try
    while true do
      let line = input_line stdin in
      let toks = List.filter (fun s -> s <> "") (String.split_on_char ' ' line) in
      let case = List.map (fun s -> of_int (int_of_string s)) toks in
      let res = C14_run.run_case case in
      print_string (String.concat " " (List.map (fun n -> string_of_int (to_int n)) res));
      print_newline ()
    done
  with End_of_file -> ()
