#!/bin/bash
# Builds every OCaml runner: each property puts its own script in ocaml/build.d/<name>.sh
# (extraction with ExtrOcamlBasic only + a small driver).  Called by bin/setup if present.
cd "$(dirname "$0")"
rc=0
for s in build.d/*.sh; do
  [ -x "$s" ] || continue
  "$s" || { echo "ocaml/build.sh: $s failed"; rc=1; }
done
exit $rc
