
(** val implb : bool -> bool -> bool **)

let implb b1 b2 =
  if b1 then b2 else true

(** val negb : bool -> bool **)

let negb = function
| true -> false
| false -> true

type nat =
| O
| S of nat

(** val fst : ('a1 * 'a2) -> 'a1 **)

let fst = function
| (x, _) -> x

(** val snd : ('a1 * 'a2) -> 'a2 **)

let snd = function
| (_, y) -> y

(** val length : 'a1 list -> nat **)

let rec length = function
| [] -> O
| _ :: l' -> S (length l')

(** val app : 'a1 list -> 'a1 list -> 'a1 list **)

let rec app l m =
  match l with
  | [] -> m
  | a :: l1 -> a :: (app l1 m)

type comparison =
| Eq
| Lt
| Gt

(** val compOpp : comparison -> comparison **)

let compOpp = function
| Eq -> Eq
| Lt -> Gt
| Gt -> Lt

(** val add : nat -> nat -> nat **)

let rec add n m =
  match n with
  | O -> m
  | S p0 -> S (add p0 m)

(** val mul : nat -> nat -> nat **)

let rec mul n m =
  match n with
  | O -> O
  | S p0 -> add m (mul p0 m)

(** val sub : nat -> nat -> nat **)

let rec sub n m =
  match n with
  | O -> n
  | S k -> (match m with
            | O -> n
            | S l -> sub k l)

(** val eqb : bool -> bool -> bool **)

let eqb b1 b2 =
  if b1 then b2 else if b2 then false else true

module Nat =
 struct
  (** val add : nat -> nat -> nat **)

  let rec add n m =
    match n with
    | O -> m
    | S p0 -> S (add p0 m)

  (** val sub : nat -> nat -> nat **)

  let rec sub n m =
    match n with
    | O -> n
    | S k -> (match m with
              | O -> n
              | S l -> sub k l)

  (** val eqb : nat -> nat -> bool **)

  let rec eqb n m =
    match n with
    | O -> (match m with
            | O -> true
            | S _ -> false)
    | S n' -> (match m with
               | O -> false
               | S m' -> eqb n' m')

  (** val leb : nat -> nat -> bool **)

  let rec leb n m =
    match n with
    | O -> true
    | S n' -> (match m with
               | O -> false
               | S m' -> leb n' m')

  (** val ltb : nat -> nat -> bool **)

  let ltb n m =
    leb (S n) m

  (** val min : nat -> nat -> nat **)

  let rec min n m =
    match n with
    | O -> O
    | S n' -> (match m with
               | O -> O
               | S m' -> S (min n' m'))

  (** val divmod : nat -> nat -> nat -> nat -> nat * nat **)

  let rec divmod x y q u =
    match x with
    | O -> (q, u)
    | S x' ->
      (match u with
       | O -> divmod x' y (S q) y
       | S u' -> divmod x' y q u')

  (** val div : nat -> nat -> nat **)

  let div x y = match y with
  | O -> y
  | S y' -> fst (divmod x y' O y')

  (** val modulo : nat -> nat -> nat **)

  let modulo x = function
  | O -> x
  | S y' -> sub y' (snd (divmod x y' O y'))

  (** val eq_dec : nat -> nat -> bool **)

  let rec eq_dec n m =
    match n with
    | O -> (match m with
            | O -> true
            | S _ -> false)
    | S n0 -> (match m with
               | O -> false
               | S n1 -> eq_dec n0 n1)
 end

type positive =
| XI of positive
| XO of positive
| XH

type z =
| Z0
| Zpos of positive
| Zneg of positive

module Pos =
 struct
  (** val succ : positive -> positive **)

  let rec succ = function
  | XI p0 -> XO (succ p0)
  | XO p0 -> XI p0
  | XH -> XO XH

  (** val add : positive -> positive -> positive **)

  let rec add x y =
    match x with
    | XI p0 ->
      (match y with
       | XI q -> XO (add_carry p0 q)
       | XO q -> XI (add p0 q)
       | XH -> XO (succ p0))
    | XO p0 ->
      (match y with
       | XI q -> XI (add p0 q)
       | XO q -> XO (add p0 q)
       | XH -> XI p0)
    | XH -> (match y with
             | XI q -> XO (succ q)
             | XO q -> XI q
             | XH -> XO XH)

  (** val add_carry : positive -> positive -> positive **)

  and add_carry x y =
    match x with
    | XI p0 ->
      (match y with
       | XI q -> XI (add_carry p0 q)
       | XO q -> XO (add_carry p0 q)
       | XH -> XI (succ p0))
    | XO p0 ->
      (match y with
       | XI q -> XO (add_carry p0 q)
       | XO q -> XI (add p0 q)
       | XH -> XO (succ p0))
    | XH ->
      (match y with
       | XI q -> XI (succ q)
       | XO q -> XO (succ q)
       | XH -> XI XH)

  (** val pred_double : positive -> positive **)

  let rec pred_double = function
  | XI p0 -> XI (XO p0)
  | XO p0 -> XI (pred_double p0)
  | XH -> XH

  (** val compare_cont : comparison -> positive -> positive -> comparison **)

  let rec compare_cont r x y =
    match x with
    | XI p0 ->
      (match y with
       | XI q -> compare_cont r p0 q
       | XO q -> compare_cont Gt p0 q
       | XH -> Gt)
    | XO p0 ->
      (match y with
       | XI q -> compare_cont Lt p0 q
       | XO q -> compare_cont r p0 q
       | XH -> Gt)
    | XH -> (match y with
             | XH -> r
             | _ -> Lt)

  (** val compare : positive -> positive -> comparison **)

  let compare =
    compare_cont Eq

  (** val eqb : positive -> positive -> bool **)

  let rec eqb p0 q =
    match p0 with
    | XI p1 -> (match q with
                | XI q0 -> eqb p1 q0
                | _ -> false)
    | XO p1 -> (match q with
                | XO q0 -> eqb p1 q0
                | _ -> false)
    | XH -> (match q with
             | XH -> true
             | _ -> false)

  (** val of_succ_nat : nat -> positive **)

  let rec of_succ_nat = function
  | O -> XH
  | S x -> succ (of_succ_nat x)
 end

(** val in_dec : ('a1 -> 'a1 -> bool) -> 'a1 -> 'a1 list -> bool **)

let rec in_dec h a = function
| [] -> false
| y :: l0 -> let s = h y a in if s then true else in_dec h a l0

(** val nth : nat -> 'a1 list -> 'a1 -> 'a1 **)

let rec nth n l default =
  match n with
  | O -> (match l with
          | [] -> default
          | x :: _ -> x)
  | S m -> (match l with
            | [] -> default
            | _ :: t -> nth m t default)

(** val map : ('a1 -> 'a2) -> 'a1 list -> 'a2 list **)

let rec map f = function
| [] -> []
| a :: t -> (f a) :: (map f t)

(** val flat_map : ('a1 -> 'a2 list) -> 'a1 list -> 'a2 list **)

let rec flat_map f = function
| [] -> []
| x :: t -> app (f x) (flat_map f t)

(** val fold_left : ('a1 -> 'a2 -> 'a1) -> 'a2 list -> 'a1 -> 'a1 **)

let rec fold_left f l a0 =
  match l with
  | [] -> a0
  | b :: t -> fold_left f t (f a0 b)

(** val fold_right : ('a2 -> 'a1 -> 'a1) -> 'a1 -> 'a2 list -> 'a1 **)

let rec fold_right f a0 = function
| [] -> a0
| b :: t -> f b (fold_right f a0 t)

(** val existsb : ('a1 -> bool) -> 'a1 list -> bool **)

let rec existsb f = function
| [] -> false
| a :: l0 -> (||) (f a) (existsb f l0)

(** val forallb : ('a1 -> bool) -> 'a1 list -> bool **)

let rec forallb f = function
| [] -> true
| a :: l0 -> (&&) (f a) (forallb f l0)

(** val filter : ('a1 -> bool) -> 'a1 list -> 'a1 list **)

let rec filter f = function
| [] -> []
| x :: l0 -> if f x then x :: (filter f l0) else filter f l0

(** val firstn : nat -> 'a1 list -> 'a1 list **)

let rec firstn n l =
  match n with
  | O -> []
  | S n0 -> (match l with
             | [] -> []
             | a :: l0 -> a :: (firstn n0 l0))

(** val skipn : nat -> 'a1 list -> 'a1 list **)

let rec skipn n l =
  match n with
  | O -> l
  | S n0 -> (match l with
             | [] -> []
             | _ :: l0 -> skipn n0 l0)

(** val nodup : ('a1 -> 'a1 -> bool) -> 'a1 list -> 'a1 list **)

let rec nodup decA = function
| [] -> []
| x :: xs -> if in_dec decA x xs then nodup decA xs else x :: (nodup decA xs)

(** val seq : nat -> nat -> nat list **)

let rec seq start = function
| O -> []
| S len0 -> start :: (seq (S start) len0)

module Z =
 struct
  (** val double : z -> z **)

  let double = function
  | Z0 -> Z0
  | Zpos p0 -> Zpos (XO p0)
  | Zneg p0 -> Zneg (XO p0)

  (** val succ_double : z -> z **)

  let succ_double = function
  | Z0 -> Zpos XH
  | Zpos p0 -> Zpos (XI p0)
  | Zneg p0 -> Zneg (Pos.pred_double p0)

  (** val pred_double : z -> z **)

  let pred_double = function
  | Z0 -> Zneg XH
  | Zpos p0 -> Zpos (Pos.pred_double p0)
  | Zneg p0 -> Zneg (XI p0)

  (** val pos_sub : positive -> positive -> z **)

  let rec pos_sub x y =
    match x with
    | XI p0 ->
      (match y with
       | XI q -> double (pos_sub p0 q)
       | XO q -> succ_double (pos_sub p0 q)
       | XH -> Zpos (XO p0))
    | XO p0 ->
      (match y with
       | XI q -> pred_double (pos_sub p0 q)
       | XO q -> double (pos_sub p0 q)
       | XH -> Zpos (Pos.pred_double p0))
    | XH ->
      (match y with
       | XI q -> Zneg (XO q)
       | XO q -> Zneg (Pos.pred_double q)
       | XH -> Z0)

  (** val add : z -> z -> z **)

  let add x y =
    match x with
    | Z0 -> y
    | Zpos x' ->
      (match y with
       | Z0 -> x
       | Zpos y' -> Zpos (Pos.add x' y')
       | Zneg y' -> pos_sub x' y')
    | Zneg x' ->
      (match y with
       | Z0 -> x
       | Zpos y' -> pos_sub y' x'
       | Zneg y' -> Zneg (Pos.add x' y'))

  (** val opp : z -> z **)

  let opp = function
  | Z0 -> Z0
  | Zpos x0 -> Zneg x0
  | Zneg x0 -> Zpos x0

  (** val sub : z -> z -> z **)

  let sub m n =
    add m (opp n)

  (** val compare : z -> z -> comparison **)

  let compare x y =
    match x with
    | Z0 -> (match y with
             | Z0 -> Eq
             | Zpos _ -> Lt
             | Zneg _ -> Gt)
    | Zpos x' -> (match y with
                  | Zpos y' -> Pos.compare x' y'
                  | _ -> Gt)
    | Zneg x' ->
      (match y with
       | Zneg y' -> compOpp (Pos.compare x' y')
       | _ -> Lt)

  (** val ltb : z -> z -> bool **)

  let ltb x y =
    match compare x y with
    | Lt -> true
    | _ -> false

  (** val eqb : z -> z -> bool **)

  let eqb x y =
    match x with
    | Z0 -> (match y with
             | Z0 -> true
             | _ -> false)
    | Zpos p0 -> (match y with
                  | Zpos q -> Pos.eqb p0 q
                  | _ -> false)
    | Zneg p0 -> (match y with
                  | Zneg q -> Pos.eqb p0 q
                  | _ -> false)

  (** val of_nat : nat -> z **)

  let of_nat = function
  | O -> Z0
  | S n0 -> Zpos (Pos.of_succ_nat n0)
 end

(** val lookup_parts : (nat * nat option) list -> nat -> nat option **)

let rec lookup_parts ppt t =
  match ppt with
  | [] -> None
  | p0 :: r ->
    let (t', n) = p0 in if Nat.eqb t t' then n else lookup_parts r t

(** val mem_nat : nat -> nat list -> bool **)

let mem_nat x l =
  existsb (Nat.eqb x) l

(** val insert : nat -> nat list -> nat list **)

let rec insert x l = match l with
| [] -> x :: []
| y :: r -> if Nat.leb x y then x :: l else y :: (insert x r)

(** val sort : nat list -> nat list **)

let sort l =
  fold_right insert [] l

(** val subs_of : (nat * nat list) list -> nat -> nat list **)

let rec subs_of ms m =
  match ms with
  | [] -> []
  | p0 :: r -> let (m', s) = p0 in if Nat.eqb m m' then s else subs_of r m

(** val all_topics : (nat * nat list) list -> nat list **)

let all_topics ms =
  sort (nodup Nat.eq_dec (flat_map snd ms))

(** val consumers_for_topic : (nat * nat list) list -> nat -> nat list **)

let consumers_for_topic ms t =
  sort
    (flat_map (fun pat ->
      let (m, s) = pat in map (fun _ -> m) (filter (Nat.eqb t) s)) ms)

(** val range_start : nat -> nat -> nat -> nat **)

let range_start n k i =
  add (mul (Nat.div n k) i) (Nat.min i (Nat.modulo n k))

(** val range_len : nat -> nat -> nat -> nat **)

let range_len n k i =
  add (Nat.div n k)
    (if Nat.leb (add i (S O)) (Nat.modulo n k) then S O else O)

(** val range_slice : nat -> nat -> nat -> nat list **)

let range_slice n k i =
  firstn (range_len n k i) (skipn (range_start n k i) (seq O n))

(** val last_index_from :
    nat -> nat list -> nat -> nat option -> nat option **)

let rec last_index_from m l i acc =
  match l with
  | [] -> acc
  | x :: r -> last_index_from m r (S i) (if Nat.eqb x m then Some i else acc)

(** val last_index : nat -> nat list -> nat option **)

let last_index m l =
  last_index_from m l O None

(** val range_member :
    (nat * nat option) list -> (nat * nat list) list -> nat -> (nat * nat
    list) list **)

let range_member ppt ms m =
  flat_map (fun t ->
    match lookup_parts ppt t with
    | Some n ->
      let cs = consumers_for_topic ms t in
      (match last_index m cs with
       | Some i -> (t, (range_slice n (length cs) i)) :: []
       | None -> [])
    | None -> []) (all_topics ms)

(** val range_assign :
    (nat * nat option) list -> (nat * nat list) list -> (nat * (nat * nat
    list) list) list **)

let range_assign ppt ms =
  map (fun e -> ((fst e), (range_member ppt ms (fst e)))) ms

(** val rr_partitions :
    (nat * nat option) list -> (nat * nat list) list -> (nat * nat) list **)

let rr_partitions ppt ms =
  flat_map (fun t ->
    match lookup_parts ppt t with
    | Some n -> map (fun x -> (t, x)) (seq O n)
    | None -> []) (all_topics ms)

(** val rr_next :
    (nat * nat list) list -> nat list -> nat -> nat -> nat -> (nat * nat)
    option **)

let rec rr_next ms sorted fuel pos t =
  match fuel with
  | O -> None
  | S f ->
    let m = nth pos sorted O in
    let pos' = Nat.modulo (S pos) (length sorted) in
    if mem_nat t (subs_of ms m)
    then Some (m, pos')
    else rr_next ms sorted f pos' t

(** val rr_loop :
    (nat * nat list) list -> nat list -> (nat * nat) list -> nat ->
    (nat * (nat * nat)) list option **)

let rec rr_loop ms sorted parts pos =
  match parts with
  | [] -> Some []
  | p0 :: r ->
    let (t, p1) = p0 in
    (match rr_next ms sorted (length sorted) pos t with
     | Some p2 ->
       let (m, pos') = p2 in
       (match rr_loop ms sorted r pos' with
        | Some tr -> Some ((m, (t, p1)) :: tr)
        | None -> None)
     | None -> None)

(** val group_member :
    nat list -> (nat * (nat * nat)) list -> nat -> (nat * nat list) list **)

let group_member topics tr m =
  flat_map (fun t ->
    match map (fun x -> snd (snd x))
            (filter (fun x ->
              (&&) (Nat.eqb (fst x) m) (Nat.eqb (fst (snd x)) t)) tr) with
    | [] -> []
    | n :: l -> (t, (n :: l)) :: []) topics

(** val rr_triples :
    (nat * nat option) list -> (nat * nat list) list -> (nat * (nat * nat))
    list option **)

let rr_triples ppt ms =
  rr_loop ms (sort (map fst ms)) (rr_partitions ppt ms) O

(** val roundrobin_assign :
    (nat * nat option) list -> (nat * nat list) list -> (nat * (nat * nat
    list) list) list option **)

let roundrobin_assign ppt ms =
  match rr_triples ppt ms with
  | Some tr ->
    Some
      (map (fun e -> ((fst e), (group_member (all_topics ms) tr (fst e)))) ms)
  | None -> None

(** val load : (nat * (nat * nat)) list -> nat -> nat **)

let load tr m =
  length (filter (fun x -> Nat.eqb (fst x) m) tr)

(** val tp_eqb : (nat * nat) -> (nat * nat) -> bool **)

let tp_eqb a b =
  (&&) (Nat.eqb (fst a) (fst b)) (Nat.eqb (snd a) (snd b))

(** val mem_tp : (nat * nat) -> (nat * nat) list -> bool **)

let mem_tp x l =
  existsb (tp_eqb x) l

(** val has_partition_b : (nat * nat option) list -> (nat * nat) -> bool **)

let has_partition_b ppt x =
  match lookup_parts ppt (fst x) with
  | Some n -> Nat.ltb (snd x) n
  | None -> false

(** val is_member_b : (nat * nat list) list -> nat -> bool **)

let is_member_b ms c =
  mem_nat c (map fst ms)

(** val potential_b :
    (nat * nat option) list -> (nat * nat list) list -> nat -> (nat * nat) ->
    bool **)

let potential_b ppt ms c x =
  (&&) ((&&) (is_member_b ms c) (mem_nat (fst x) (subs_of ms c)))
    (has_partition_b ppt x)

(** val potentials :
    (nat * nat option) list -> (nat * nat list) list -> (nat * nat) -> nat
    list **)

let potentials ppt ms x =
  filter (fun c -> potential_b ppt ms c x) (map fst ms)

(** val all_parts : (nat * nat option) list -> (nat * nat) list **)

let all_parts ppt =
  flat_map (fun t ->
    match lookup_parts ppt t with
    | Some n -> map (fun x -> (t, x)) (seq O n)
    | None -> []) (nodup Nat.eq_dec (map fst ppt))

(** val owner : (nat * (nat * nat)) list -> (nat * nat) -> nat option **)

let rec owner st x =
  match st with
  | [] -> None
  | p0 :: r -> let (m, y) = p0 in if tp_eqb y x then Some m else owner r x

(** val owns_b : (nat * (nat * nat)) list -> nat -> (nat * nat) -> bool **)

let owns_b st c x =
  match owner st x with
  | Some o -> Nat.eqb o c
  | None -> false

(** val nodup_tp_b : (nat * nat) list -> bool **)

let rec nodup_tp_b = function
| [] -> true
| x :: r -> (&&) (negb (mem_tp x r)) (nodup_tp_b r)

(** val valid_b :
    (nat * nat option) list -> (nat * nat list) list -> (nat * (nat * nat))
    list -> bool **)

let valid_b ppt ms tr =
  (&&)
    ((&&) (nodup_tp_b (map snd tr))
      (forallb (fun e -> potential_b ppt ms (fst e) (snd e)) tr))
    (forallb (fun x ->
      match potentials ppt ms x with
      | [] -> true
      | _ :: _ -> (match owner tr x with
                   | Some _ -> true
                   | None -> false)) (all_parts ppt))

(** val within_one_b :
    (nat * nat list) list -> (nat * (nat * nat)) list -> bool **)

let within_one_b ms tr =
  forallb (fun a ->
    forallb (fun b -> Nat.leb (load tr a) (add (load tr b) (S O)))
      (map fst ms)) (map fst ms)

(** val kip54_balanced_b :
    (nat * nat list) list -> (nat * (nat * nat)) list -> bool **)

let kip54_balanced_b ms tr =
  forallb (fun e ->
    forallb (fun o ->
      (||) (negb (mem_nat (fst (snd e)) (subs_of ms o)))
        (Nat.ltb (load tr (fst e)) (add (load tr o) (S (S O))))) (map fst ms))
    tr

type aop =
| ADrop
| AAssign of (nat * nat) * nat
| ASnap
| AMove of (nat * nat) * nat
| ARevert

(** val drop :
    (nat * nat option) list -> (nat * nat list) list -> (nat * (nat * nat))
    list -> (nat * (nat * nat)) list **)

let drop ppt ms st =
  filter (fun e -> potential_b ppt ms (fst e) (snd e)) st

(** val set_owner :
    (nat * (nat * nat)) list -> (nat * nat) -> nat -> (nat * (nat * nat)) list **)

let set_owner st x c =
  map (fun e -> if tp_eqb (snd e) x then (c, x) else e) st

(** val abs_step :
    (nat * nat option) list -> (nat * nat list) list -> ((nat * (nat * nat))
    list * (nat * (nat * nat)) list option) -> aop -> ((nat * (nat * nat))
    list * (nat * (nat * nat)) list option) option **)

let abs_step ppt ms s o =
  let (st, snap) = s in
  (match o with
   | ADrop -> Some ((drop ppt ms st), snap)
   | AAssign (x, c) ->
     (match owner st x with
      | Some _ -> None
      | None ->
        if potential_b ppt ms c x
        then Some ((app st ((c, x) :: [])), snap)
        else None)
   | ASnap -> Some (st, (Some st))
   | AMove (x, c) ->
     (match owner st x with
      | Some _ ->
        if potential_b ppt ms c x
        then Some ((set_owner st x c), snap)
        else None
      | None -> None)
   | ARevert -> (match snap with
                 | Some sn -> Some (sn, snap)
                 | None -> None))

(** val abs_run :
    (nat * nat option) list -> (nat * nat list) list -> ((nat * (nat * nat))
    list * (nat * (nat * nat)) list option) -> aop list ->
    ((nat * (nat * nat)) list * (nat * (nat * nat)) list option) option **)

let rec abs_run ppt ms s = function
| [] -> Some s
| o :: r ->
  (match abs_step ppt ms s o with
   | Some s' -> abs_run ppt ms s' r
   | None -> None)

(** val npot :
    (nat * nat option) list -> (nat * nat list) list -> nat -> nat **)

let npot ppt ms c =
  fold_right Nat.add O
    (map (fun t -> match lookup_parts ppt t with
                   | Some n -> n
                   | None -> O) (subs_of ms c))

(** val potential_parts :
    (nat * nat option) list -> (nat * nat list) list -> nat -> (nat * nat)
    list **)

let potential_parts ppt ms c =
  flat_map (fun t ->
    match lookup_parts ppt t with
    | Some n -> map (fun x -> (t, x)) (seq O n)
    | None -> []) (subs_of ms c)

(** val movable_b :
    (nat * nat option) list -> (nat * nat list) list -> (nat * nat) -> bool **)

let movable_b ppt ms x =
  Nat.leb (S (S O)) (length (potentials ppt ms x))

(** val can_participate :
    (nat * nat option) list -> (nat * nat list) list -> (nat * (nat * nat))
    list -> nat -> bool **)

let can_participate ppt ms st c =
  (||) (Nat.ltb (load st c) (npot ppt ms c))
    (existsb (fun e -> (&&) (Nat.eqb (fst e) c) (movable_b ppt ms (snd e)))
      st)

(** val scope :
    (nat * nat option) list -> (nat * nat list) list -> (nat * (nat * nat))
    list -> nat list **)

let scope ppt ms st =
  filter (can_participate ppt ms st) (map fst ms)

(** val less_loaded : (nat * (nat * nat)) list -> nat -> nat -> bool **)

let less_loaded st a b =
  (||) (Nat.ltb (load st a) (load st b))
    ((&&) (Nat.eqb (load st a) (load st b)) (Nat.ltb a b))

(** val least_loaded : (nat * (nat * nat)) list -> nat list -> nat option **)

let rec least_loaded st = function
| [] -> None
| c :: r ->
  (match least_loaded st r with
   | Some b -> if less_loaded st b c then Some b else Some c
   | None -> Some c)

(** val pairs_within_one : (nat * (nat * nat)) list -> nat list -> bool **)

let pairs_within_one st cs =
  forallb (fun a ->
    forallb (fun b -> Nat.leb (load st a) (add (load st b) (S O))) cs) cs

(** val is_balanced_b :
    (nat * nat option) list -> (nat * nat list) list -> (nat * (nat * nat))
    list -> nat list -> bool **)

let is_balanced_b ppt ms st sc =
  (||) (pairs_within_one st sc)
    (forallb (fun c ->
      (||) (Nat.eqb (load st c) (npot ppt ms c))
        (forallb (fun x ->
          (||) (owns_b st c x)
            (match owner st x with
             | Some o -> negb (Nat.ltb (load st c) (load st o))
             | None -> false)) (potential_parts ppt ms c))) sc)

(** val absdiff : nat -> nat -> nat **)

let absdiff a b =
  add (sub a b) (sub b a)

(** val score : (nat * (nat * nat)) list -> nat list -> nat **)

let rec score st = function
| [] -> O
| c :: r ->
  add
    (fold_right Nat.add O (map (fun d -> absdiff (load st c) (load st d)) r))
    (score st r)

(** val mv_get :
    ((nat * nat) * (nat * nat)) list -> (nat * nat) -> (nat * nat) option **)

let rec mv_get mv x =
  match mv with
  | [] -> None
  | p0 :: r -> let (y, p1) = p0 in if tp_eqb y x then Some p1 else mv_get r x

(** val mv_remove :
    ((nat * nat) * (nat * nat)) list -> (nat * nat) ->
    ((nat * nat) * (nat * nat)) list **)

let mv_remove mv x =
  filter (fun e -> negb (tp_eqb (fst e) x)) mv

(** val candidates :
    ((nat * nat) * (nat * nat)) list -> (nat * nat) -> nat -> nat ->
    (nat * nat) list **)

let candidates mv x c c' =
  let old = match mv_get mv x with
            | Some p0 -> let (s, _) = p0 in s
            | None -> c
  in
  (match map fst
           (filter (fun e ->
             (&&)
               ((&&) (Nat.eqb (fst (fst e)) (fst x))
                 (Nat.eqb (fst (snd e)) c')) (Nat.eqb (snd (snd e)) old)) mv) with
   | [] -> x :: []
   | p0 :: l -> p0 :: l)

(** val mv_move :
    ((nat * nat) * (nat * nat)) list -> (nat * nat) -> nat -> nat ->
    ((nat * nat) * (nat * nat)) list **)

let mv_move mv q o c' =
  match mv_get mv q with
  | Some p0 ->
    let (s, _) = p0 in
    if Nat.eqb s c'
    then mv_remove mv q
    else app (mv_remove mv q) ((q, (s, c')) :: [])
  | None -> app mv ((q, (o, c')) :: [])

(** val prev_get : ((nat * nat) * nat) list -> (nat * nat) -> nat option **)

let rec prev_get prev x =
  match prev with
  | [] -> None
  | p0 :: r -> let (y, c) = p0 in if tp_eqb y x then Some c else prev_get r x

(** val load_sc : (nat * (nat * nat)) list -> nat list -> nat -> nat **)

let load_sc st sc c =
  if mem_nat c sc then load st c else O

(** val prev_trigger :
    ((nat * nat) * nat) list -> (nat * (nat * nat)) list -> nat list ->
    (nat * nat) -> nat -> nat option **)

let prev_trigger prev st sc x c =
  match prev_get prev x with
  | Some pc ->
    if Nat.ltb (add (load_sc st sc pc) (S O)) (load st c)
    then Some pc
    else None
  | None -> None

(** val gen_trigger :
    (nat * nat option) list -> (nat * nat list) list -> (nat * (nat * nat))
    list -> (nat * nat) -> nat -> bool **)

let gen_trigger ppt ms st x c =
  existsb (fun o -> Nat.ltb (add (load st o) (S O)) (load st c))
    (potentials ppt ms x)

(** val opt_nat_eqb : nat option -> nat -> bool **)

let opt_nat_eqb a b =
  match a with
  | Some a' -> Nat.eqb a' b
  | None -> false

(** val ctl_reassign :
    (nat * nat option) list -> (nat * nat list) list -> ((nat * nat) * nat)
    list -> nat list -> ((nat * (nat * nat))
    list * ((nat * nat) * (nat * nat)) list) ->
    (((nat * nat) * nat) * (nat * nat)) -> ((nat * (nat * nat))
    list * ((nat * nat) * (nat * nat)) list) option **)

let ctl_reassign ppt ms prev sc s r =
  let (st, mv) = s in
  let (p0, q) = r in
  let (x, c') = p0 in
  if is_balanced_b ppt ms st sc
  then None
  else if negb (movable_b ppt ms x)
       then None
       else (match owner st x with
             | Some c ->
               let target_ok =
                 match prev_trigger prev st sc x c with
                 | Some pc -> Nat.eqb pc c'
                 | None ->
                   (&&) (gen_trigger ppt ms st x c)
                     (opt_nat_eqb
                       (least_loaded st
                         (filter (fun o -> potential_b ppt ms o x) sc)) c')
               in
               if (&&) ((&&) target_ok (mem_tp q (candidates mv x c c')))
                    (mem_nat c' sc)
               then (match owner st q with
                     | Some oq ->
                       Some ((set_owner st q c'), (mv_move mv q oq c'))
                     | None -> None)
               else None
             | None -> None)

(** val ctl_reassigns :
    (nat * nat option) list -> (nat * nat list) list -> ((nat * nat) * nat)
    list -> nat list -> ((nat * (nat * nat))
    list * ((nat * nat) * (nat * nat)) list) ->
    (((nat * nat) * nat) * (nat * nat)) list -> ((nat * (nat * nat))
    list * ((nat * nat) * (nat * nat)) list) option **)

let rec ctl_reassigns ppt ms prev sc s = function
| [] -> Some s
| r :: rest ->
  (match ctl_reassign ppt ms prev sc s r with
   | Some s' -> ctl_reassigns ppt ms prev sc s' rest
   | None -> None)

(** val ctl_assign :
    (nat * nat option) list -> (nat * nat list) list -> (nat * (nat * nat))
    list -> ((nat * nat) * nat) -> (nat * (nat * nat)) list option **)

let ctl_assign ppt ms st = function
| (x, c) ->
  (match owner st x with
   | Some _ -> None
   | None ->
     if opt_nat_eqb (least_loaded st (potentials ppt ms x)) c
     then Some (app st ((c, x) :: []))
     else None)

(** val ctl_assigns :
    (nat * nat option) list -> (nat * nat list) list -> (nat * (nat * nat))
    list -> ((nat * nat) * nat) list -> (nat * (nat * nat)) list option **)

let rec ctl_assigns ppt ms st = function
| [] -> Some st
| a :: r ->
  (match ctl_assign ppt ms st a with
   | Some st' -> ctl_assigns ppt ms st' r
   | None -> None)

(** val complete_b :
    (nat * nat option) list -> (nat * nat list) list -> (nat * (nat * nat))
    list -> bool **)

let complete_b ppt ms st =
  forallb (fun x ->
    match potentials ppt ms x with
    | [] -> true
    | _ :: _ -> (match owner st x with
                 | Some _ -> true
                 | None -> false)) (all_parts ppt)

(** val no_trigger_b :
    (nat * nat option) list -> (nat * nat list) list -> ((nat * nat) * nat)
    list -> nat list -> (nat * (nat * nat)) list -> bool **)

let no_trigger_b ppt ms prev sc st =
  forallb (fun e ->
    (||) (negb (movable_b ppt ms (snd e)))
      ((&&)
        (match prev_trigger prev st sc (snd e) (fst e) with
         | Some _ -> false
         | None -> true) (negb (gen_trigger ppt ms st (snd e) (fst e))))) st

(** val end_ok :
    (nat * nat option) list -> (nat * nat list) list -> ((nat * nat) * nat)
    list -> nat list -> (nat * (nat * nat)) list -> bool **)

let end_ok ppt ms prev sc st =
  (||) (is_balanced_b ppt ms st sc) (no_trigger_b ppt ms prev sc st)

(** val isnil : 'a1 list -> bool **)

let isnil = function
| [] -> true
| _ :: _ -> false

type ctl_result = { cr_final : (nat * (nat * nat)) list; cr_reverted : 
                    bool; cr_prebalance : (nat * (nat * nat)) list;
                    cr_balanced : (nat * (nat * nat)) list }

(** val ctl_run :
    (nat * nat option) list -> (nat * nat list) list -> ((nat * nat) * nat)
    list -> (nat * (nat * nat)) list -> ((nat * nat) * nat) list ->
    (((nat * nat) * nat) * (nat * nat)) list -> bool -> ctl_result option **)

let ctl_run ppt ms prev st0 assigns reassigns obs_revert =
  let st1 = drop ppt ms st0 in
  let initializing = isnil st1 in
  (match ctl_assigns ppt ms st1 assigns with
   | Some st2 ->
     if negb (complete_b ppt ms st2)
     then None
     else let sc = scope ppt ms st2 in
          (match ctl_reassigns ppt ms prev sc (st2, []) reassigns with
           | Some p0 ->
             let (st3, _) = p0 in
             if negb (end_ok ppt ms prev sc st3)
             then None
             else let performed = negb (isnil reassigns) in
                  let rev_model =
                    (&&) ((&&) (negb initializing) performed)
                      (Nat.leb (score st2 sc) (score st3 sc))
                  in
                  let agree =
                    match prev with
                    | [] -> eqb obs_revert rev_model
                    | _ :: _ ->
                      implb obs_revert ((&&) (negb initializing) performed)
                  in
                  if agree
                  then Some { cr_final = (if obs_revert then st2 else st3);
                         cr_reverted = obs_revert; cr_prebalance = st2;
                         cr_balanced = st3 }
                  else None
           | None -> None)
   | None -> None)

(** val ctl_aops :
    ((nat * nat) * nat) list -> (((nat * nat) * nat) * (nat * nat)) list ->
    bool -> aop list **)

let ctl_aops assigns reassigns rev =
  ADrop :: (app (map (fun a -> AAssign ((fst a), (snd a))) assigns)
             (ASnap :: (app
                         (map (fun r -> AMove ((snd r), (snd (fst r))))
                           reassigns) (if rev then ARevert :: [] else []))))

(** val gens_put : z -> nat -> (z * nat) list -> (z * nat) list **)

let rec gens_put g c = function
| [] -> (g, c) :: []
| p0 :: r ->
  let (g', c') = p0 in
  if Z.eqb g g' then (g, c) :: r else (g', c') :: (gens_put g c r)

(** val gens_mem : z -> (z * nat) list -> bool **)

let gens_mem g l =
  existsb (fun e -> Z.eqb (fst e) g) l

(** val claim_put :
    ((nat * nat) * (z * nat) list) list -> (nat * nat) -> z -> nat ->
    ((nat * nat) * (z * nat) list) list **)

let rec claim_put acc x g c =
  match acc with
  | [] -> (x, ((g, c) :: [])) :: []
  | p0 :: r ->
    let (y, gens) = p0 in
    if tp_eqb y x
    then if (&&) (negb (Z.eqb g Z0)) (gens_mem g gens)
         then (y, gens) :: r
         else (y, (gens_put g c gens)) :: r
    else (y, gens) :: (claim_put r x g c)

(** val claim_table :
    ((nat * z) * (nat * nat) list) list -> ((nat * nat) * (z * nat) list) list **)

let claim_table claims =
  fold_left (fun acc cl ->
    let (y, xs) = cl in
    let (c, g) = y in fold_left (fun acc' x -> claim_put acc' x g c) xs acc)
    claims []

(** val gens_max : (z * nat) list -> (z * nat) option **)

let rec gens_max = function
| [] -> None
| e :: r ->
  (match gens_max r with
   | Some b -> if Z.ltb (fst b) (fst e) then Some e else Some b
   | None -> Some e)

(** val gens_without : z -> (z * nat) list -> (z * nat) list **)

let gens_without g l =
  filter (fun e -> negb (Z.eqb (fst e) g)) l

(** val init_current :
    ((nat * z) * (nat * nat) list) list -> (nat * (nat * nat))
    list * ((nat * nat) * nat) list **)

let init_current claims =
  let tab = claim_table claims in
  ((flat_map (fun e ->
     match gens_max (snd e) with
     | Some p0 -> let (_, c) = p0 in (c, (fst e)) :: []
     | None -> []) tab),
  (flat_map (fun e ->
    match gens_max (snd e) with
    | Some p0 ->
      let (g, _) = p0 in
      (match gens_max (gens_without g (snd e)) with
       | Some p1 -> let (_, c2) = p1 in ((fst e), c2) :: []
       | None -> [])
    | None -> []) tab))

(** val moved_among :
    nat list -> (nat * (nat * nat)) list -> (nat * (nat * nat)) list ->
    ((nat * (nat * nat)) * nat) list **)

let moved_among keep old new0 =
  flat_map (fun e ->
    if mem_nat (fst e) keep
    then (match owner new0 (snd e) with
          | Some o ->
            if Nat.eqb o (fst e)
            then []
            else if mem_nat o keep then (((fst e), (snd e)), o) :: [] else []
          | None -> [])
    else []) old

type 'a p = nat list -> ('a * nat list) option

(** val p_nat : nat p **)

let p_nat = function
| [] -> None
| x :: r -> Some (x, r)

(** val p_rep : 'a1 p -> nat -> 'a1 list p **)

let rec p_rep p0 n s =
  match n with
  | O -> Some ([], s)
  | S k ->
    (match p0 s with
     | Some p1 ->
       let (a, s1) = p1 in
       (match p_rep p0 k s1 with
        | Some p2 -> let (l, s2) = p2 in Some ((a :: l), s2)
        | None -> None)
     | None -> None)

(** val p_list : 'a1 p -> 'a1 list p **)

let p_list p0 = function
| [] -> None
| n :: r -> p_rep p0 n r

(** val p_pair : 'a1 p -> 'a2 p -> ('a1 * 'a2) p **)

let p_pair pa pb s =
  match pa s with
  | Some p0 ->
    let (a, s1) = p0 in
    (match pb s1 with
     | Some p1 -> let (b, s2) = p1 in Some ((a, b), s2)
     | None -> None)
  | None -> None

(** val p_map : ('a1 -> 'a2) -> 'a1 p -> 'a2 p **)

let p_map f p0 s =
  match p0 s with
  | Some p1 -> let (a, s1) = p1 in Some ((f a), s1)
  | None -> None

(** val p_tp : (nat * nat) p **)

let p_tp =
  p_pair p_nat p_nat

(** val p_layout : (nat * nat option) list p **)

let p_layout =
  p_list
    (p_pair p_nat
      (p_map (fun v -> match v with
                       | O -> None
                       | S k -> Some k) p_nat))

(** val p_members : (nat * nat list) list p **)

let p_members =
  p_list (p_pair p_nat (p_list p_nat))

(** val p_triples : (nat * (nat * nat)) list p **)

let p_triples =
  p_list (p_pair p_nat p_tp)

(** val p_claims : ((nat * z) * (nat * nat) list) list p **)

let p_claims =
  p_list
    (p_pair
      (p_pair p_nat (p_map (fun g -> Z.sub (Z.of_nat g) (Zpos XH)) p_nat))
      (p_list p_tp))

(** val e_list : ('a1 -> nat list) -> 'a1 list -> nat list **)

let e_list e l =
  (length l) :: (flat_map e l)

(** val e_assignment : (nat * (nat * nat list) list) list -> nat list **)

let e_assignment out =
  e_list (fun ma ->
    (fst ma) :: (e_list (fun tps ->
                  (fst tps) :: (e_list (fun p0 -> p0 :: []) (snd tps)))
                  (snd ma))) out

(** val e_bool : bool -> nat **)

let e_bool = function
| true -> S O
| false -> O

(** val triple_eqb : (nat * (nat * nat)) -> (nat * (nat * nat)) -> bool **)

let triple_eqb a b =
  (&&) (Nat.eqb (fst a) (fst b)) (tp_eqb (snd a) (snd b))

(** val subset_b : ('a1 -> 'a1 -> bool) -> 'a1 list -> 'a1 list -> bool **)

let subset_b eqb0 a b =
  forallb (fun x -> existsb (eqb0 x) b) a

(** val same_set_b : ('a1 -> 'a1 -> bool) -> 'a1 list -> 'a1 list -> bool **)

let same_set_b eqb0 a b =
  (&&) ((&&) (Nat.eqb (length a) (length b)) (subset_b eqb0 a b))
    (subset_b eqb0 b a)

(** val prev_eqb : ((nat * nat) * nat) -> ((nat * nat) * nat) -> bool **)

let prev_eqb a b =
  (&&) (tp_eqb (fst a) (fst b)) (Nat.eqb (snd a) (snd b))

(** val run_rr_range : nat list -> nat list **)

let run_rr_range s =
  match p_pair p_layout p_members s with
  | Some p0 ->
    let (p1, _) = p0 in
    let (ppt, ms) = p1 in
    app (e_assignment (range_assign ppt ms))
      (match roundrobin_assign ppt ms with
       | Some out -> (S O) :: (e_assignment out)
       | None -> O :: [])
  | None ->
    (S (S (S (S (S (S (S (S (S (S (S (S (S (S (S (S (S (S (S (S (S (S (S (S
      (S (S (S (S (S (S (S (S (S (S (S (S (S (S (S (S (S (S (S (S (S (S (S (S
      (S (S (S (S (S (S (S (S (S (S (S (S (S (S (S (S (S (S (S (S (S (S (S (S
      (S (S (S (S (S (S (S (S (S (S (S (S (S (S (S (S (S (S (S (S (S (S (S (S
      (S (S (S
      O))))))))))))))))))))))))))))))))))))))))))))))))))))))))))))))))))))))))))))))))))))))))))))))))))) :: []

(** val run_sticky : nat list -> nat list **)

let run_sticky s =
  match p_pair
          (p_pair (p_pair p_layout p_members)
            (p_pair p_claims (p_pair p_triples (p_list (p_pair p_tp p_nat)))))
          (p_pair
            (p_pair (p_list (p_pair p_tp p_nat))
              (p_list (p_pair (p_pair p_tp p_nat) p_tp)))
            (p_pair p_nat p_triples)) s with
  | Some p0 ->
    let (p1, _) = p0 in
    let (p2, p3) = p1 in
    let (p4, p5) = p2 in
    let (ppt, ms) = p4 in
    let (claims, p6) = p5 in
    let (obs_init, obs_prev) = p6 in
    let (p7, p8) = p3 in
    let (assigns, reassigns) = p7 in
    let (obs_rev, final) = p8 in
    let (st0, prev) = init_current claims in
    let rev = negb (Nat.eqb obs_rev O) in
    let r = ctl_run ppt ms prev st0 assigns reassigns rev in
    (e_bool (same_set_b triple_eqb st0 obs_init)) :: ((e_bool
                                                        (same_set_b prev_eqb
                                                          prev obs_prev)) :: (
    (e_bool (match r with
             | Some _ -> true
             | None -> false)) :: ((e_bool
                                     (match r with
                                      | Some c ->
                                        same_set_b triple_eqb c.cr_final final
                                      | None -> false)) :: ((e_bool
                                                              (match 
                                                               abs_run ppt ms
                                                                 (st0, None)
                                                                 (ctl_aops
                                                                   assigns
                                                                   reassigns
                                                                   rev) with
                                                               | Some p9 ->
                                                                 let (
                                                                   st, _) = p9
                                                                 in
                                                                 same_set_b
                                                                   triple_eqb
                                                                   st final
                                                               | None -> false)) :: (
    (e_bool (valid_b ppt ms final)) :: ((e_bool (within_one_b ms final)) :: (
    (e_bool (kip54_balanced_b ms final)) :: ((e_bool
                                               (match r with
                                                | Some c ->
                                                  kip54_balanced_b ms
                                                    c.cr_balanced
                                                | None -> false)) :: (
    (e_bool (isnil prev)) :: [])))))))))
  | None ->
    (S (S (S (S (S (S (S (S (S (S (S (S (S (S (S (S (S (S (S (S (S (S (S (S
      (S (S (S (S (S (S (S (S (S (S (S (S (S (S (S (S (S (S (S (S (S (S (S (S
      (S (S (S (S (S (S (S (S (S (S (S (S (S (S (S (S (S (S (S (S (S (S (S (S
      (S (S (S (S (S (S (S (S (S (S (S (S (S (S (S (S (S (S (S (S (S (S (S (S
      (S (S (S
      O))))))))))))))))))))))))))))))))))))))))))))))))))))))))))))))))))))))))))))))))))))))))))))))))))) :: []

(** val run_moved : nat list -> nat list **)

let run_moved s =
  match p_pair (p_list p_nat) (p_pair p_triples p_triples) s with
  | Some p0 ->
    let (p1, _) = p0 in
    let (keep, p2) = p1 in
    let (old, new0) = p2 in (length (moved_among keep old new0)) :: []
  | None ->
    (S (S (S (S (S (S (S (S (S (S (S (S (S (S (S (S (S (S (S (S (S (S (S (S
      (S (S (S (S (S (S (S (S (S (S (S (S (S (S (S (S (S (S (S (S (S (S (S (S
      (S (S (S (S (S (S (S (S (S (S (S (S (S (S (S (S (S (S (S (S (S (S (S (S
      (S (S (S (S (S (S (S (S (S (S (S (S (S (S (S (S (S (S (S (S (S (S (S (S
      (S (S (S
      O))))))))))))))))))))))))))))))))))))))))))))))))))))))))))))))))))))))))))))))))))))))))))))))))))) :: []

(** val run_checkers : nat list -> nat list **)

let run_checkers s =
  match p_pair (p_pair p_layout p_members) p_triples s with
  | Some p0 ->
    let (p1, _) = p0 in
    let (p2, tr) = p1 in
    let (ppt, ms) = p2 in
    (e_bool (valid_b ppt ms tr)) :: ((e_bool (within_one_b ms tr)) :: (
    (e_bool (kip54_balanced_b ms tr)) :: []))
  | None ->
    (S (S (S (S (S (S (S (S (S (S (S (S (S (S (S (S (S (S (S (S (S (S (S (S
      (S (S (S (S (S (S (S (S (S (S (S (S (S (S (S (S (S (S (S (S (S (S (S (S
      (S (S (S (S (S (S (S (S (S (S (S (S (S (S (S (S (S (S (S (S (S (S (S (S
      (S (S (S (S (S (S (S (S (S (S (S (S (S (S (S (S (S (S (S (S (S (S (S (S
      (S (S (S
      O))))))))))))))))))))))))))))))))))))))))))))))))))))))))))))))))))))))))))))))))))))))))))))))))))) :: []

(** val run_case : nat list -> nat list **)

let run_case = function
| [] ->
  (S (S (S (S (S (S (S (S (S (S (S (S (S (S (S (S (S (S (S (S (S (S (S (S (S
    (S (S (S (S (S (S (S (S (S (S (S (S (S (S (S (S (S (S (S (S (S (S (S (S
    (S (S (S (S (S (S (S (S (S (S (S (S (S (S (S (S (S (S (S (S (S (S (S (S
    (S (S (S (S (S (S (S (S (S (S (S (S (S (S (S (S (S (S (S (S (S (S (S (S
    (S
    O)))))))))))))))))))))))))))))))))))))))))))))))))))))))))))))))))))))))))))))))))))))))))))))))))) :: []
| n :: r ->
  (match n with
   | O -> run_rr_range r
   | S n0 ->
     (match n0 with
      | O -> run_sticky r
      | S n1 ->
        (match n1 with
         | O -> run_moved r
         | S n2 ->
           (match n2 with
            | O -> run_checkers r
            | S _ ->
              (S (S (S (S (S (S (S (S (S (S (S (S (S (S (S (S (S (S (S (S (S
                (S (S (S (S (S (S (S (S (S (S (S (S (S (S (S (S (S (S (S (S
                (S (S (S (S (S (S (S (S (S (S (S (S (S (S (S (S (S (S (S (S
                (S (S (S (S (S (S (S (S (S (S (S (S (S (S (S (S (S (S (S (S
                (S (S (S (S (S (S (S (S (S (S (S (S (S (S (S (S (S
                O)))))))))))))))))))))))))))))))))))))))))))))))))))))))))))))))))))))))))))))))))))))))))))))))))) :: []))))
