From Coq Require Extraction.
From Coq Require Import ExtrOcamlBasic.
From Verif Require Import C14_Run.
Extraction "c14_run.ml" run_case.
