
val implb : bool -> bool -> bool

val negb : bool -> bool

type nat =
| O
| S of nat

val fst : ('a1 * 'a2) -> 'a1

val snd : ('a1 * 'a2) -> 'a2

val length : 'a1 list -> nat

val app : 'a1 list -> 'a1 list -> 'a1 list

type comparison =
| Eq
| Lt
| Gt

val compOpp : comparison -> comparison

val add : nat -> nat -> nat

val mul : nat -> nat -> nat

val sub : nat -> nat -> nat

val eqb : bool -> bool -> bool

module Nat :
 sig
  val add : nat -> nat -> nat

  val sub : nat -> nat -> nat

  val eqb : nat -> nat -> bool

  val leb : nat -> nat -> bool

  val ltb : nat -> nat -> bool

  val min : nat -> nat -> nat

  val divmod : nat -> nat -> nat -> nat -> nat * nat

  val div : nat -> nat -> nat

  val modulo : nat -> nat -> nat

  val eq_dec : nat -> nat -> bool
 end

type positive =
| XI of positive
| XO of positive
| XH

type z =
| Z0
| Zpos of positive
| Zneg of positive

module Pos :
 sig
  val succ : positive -> positive

  val add : positive -> positive -> positive

  val add_carry : positive -> positive -> positive

  val pred_double : positive -> positive

  val compare_cont : comparison -> positive -> positive -> comparison

  val compare : positive -> positive -> comparison

  val eqb : positive -> positive -> bool

  val of_succ_nat : nat -> positive
 end

val in_dec : ('a1 -> 'a1 -> bool) -> 'a1 -> 'a1 list -> bool

val nth : nat -> 'a1 list -> 'a1 -> 'a1

val map : ('a1 -> 'a2) -> 'a1 list -> 'a2 list

val flat_map : ('a1 -> 'a2 list) -> 'a1 list -> 'a2 list

val fold_left : ('a1 -> 'a2 -> 'a1) -> 'a2 list -> 'a1 -> 'a1

val fold_right : ('a2 -> 'a1 -> 'a1) -> 'a1 -> 'a2 list -> 'a1

val existsb : ('a1 -> bool) -> 'a1 list -> bool

val forallb : ('a1 -> bool) -> 'a1 list -> bool

val filter : ('a1 -> bool) -> 'a1 list -> 'a1 list

val firstn : nat -> 'a1 list -> 'a1 list

val skipn : nat -> 'a1 list -> 'a1 list

val nodup : ('a1 -> 'a1 -> bool) -> 'a1 list -> 'a1 list

val seq : nat -> nat -> nat list

module Z :
 sig
  val double : z -> z

  val succ_double : z -> z

  val pred_double : z -> z

  val pos_sub : positive -> positive -> z

  val add : z -> z -> z

  val opp : z -> z

  val sub : z -> z -> z

  val compare : z -> z -> comparison

  val ltb : z -> z -> bool

  val eqb : z -> z -> bool

  val of_nat : nat -> z
 end

val lookup_parts : (nat * nat option) list -> nat -> nat option

val mem_nat : nat -> nat list -> bool

val insert : nat -> nat list -> nat list

val sort : nat list -> nat list

val subs_of : (nat * nat list) list -> nat -> nat list

val all_topics : (nat * nat list) list -> nat list

val consumers_for_topic : (nat * nat list) list -> nat -> nat list

val range_start : nat -> nat -> nat -> nat

val range_len : nat -> nat -> nat -> nat

val range_slice : nat -> nat -> nat -> nat list

val last_index_from : nat -> nat list -> nat -> nat option -> nat option

val last_index : nat -> nat list -> nat option

val range_member :
  (nat * nat option) list -> (nat * nat list) list -> nat -> (nat * nat list)
  list

val range_assign :
  (nat * nat option) list -> (nat * nat list) list -> (nat * (nat * nat list)
  list) list

val rr_partitions :
  (nat * nat option) list -> (nat * nat list) list -> (nat * nat) list

val rr_next :
  (nat * nat list) list -> nat list -> nat -> nat -> nat -> (nat * nat) option

val rr_loop :
  (nat * nat list) list -> nat list -> (nat * nat) list -> nat ->
  (nat * (nat * nat)) list option

val group_member :
  nat list -> (nat * (nat * nat)) list -> nat -> (nat * nat list) list

val rr_triples :
  (nat * nat option) list -> (nat * nat list) list -> (nat * (nat * nat))
  list option

val roundrobin_assign :
  (nat * nat option) list -> (nat * nat list) list -> (nat * (nat * nat list)
  list) list option

val load : (nat * (nat * nat)) list -> nat -> nat

val tp_eqb : (nat * nat) -> (nat * nat) -> bool

val mem_tp : (nat * nat) -> (nat * nat) list -> bool

val has_partition_b : (nat * nat option) list -> (nat * nat) -> bool

val is_member_b : (nat * nat list) list -> nat -> bool

val potential_b :
  (nat * nat option) list -> (nat * nat list) list -> nat -> (nat * nat) ->
  bool

val potentials :
  (nat * nat option) list -> (nat * nat list) list -> (nat * nat) -> nat list

val all_parts : (nat * nat option) list -> (nat * nat) list

val owner : (nat * (nat * nat)) list -> (nat * nat) -> nat option

val owns_b : (nat * (nat * nat)) list -> nat -> (nat * nat) -> bool

val nodup_tp_b : (nat * nat) list -> bool

val valid_b :
  (nat * nat option) list -> (nat * nat list) list -> (nat * (nat * nat))
  list -> bool

val within_one_b : (nat * nat list) list -> (nat * (nat * nat)) list -> bool

val kip54_balanced_b :
  (nat * nat list) list -> (nat * (nat * nat)) list -> bool

type aop =
| ADrop
| AAssign of (nat * nat) * nat
| ASnap
| AMove of (nat * nat) * nat
| ARevert

val drop :
  (nat * nat option) list -> (nat * nat list) list -> (nat * (nat * nat))
  list -> (nat * (nat * nat)) list

val set_owner :
  (nat * (nat * nat)) list -> (nat * nat) -> nat -> (nat * (nat * nat)) list

val abs_step :
  (nat * nat option) list -> (nat * nat list) list -> ((nat * (nat * nat))
  list * (nat * (nat * nat)) list option) -> aop -> ((nat * (nat * nat))
  list * (nat * (nat * nat)) list option) option

val abs_run :
  (nat * nat option) list -> (nat * nat list) list -> ((nat * (nat * nat))
  list * (nat * (nat * nat)) list option) -> aop list -> ((nat * (nat * nat))
  list * (nat * (nat * nat)) list option) option

val npot : (nat * nat option) list -> (nat * nat list) list -> nat -> nat

val potential_parts :
  (nat * nat option) list -> (nat * nat list) list -> nat -> (nat * nat) list

val movable_b :
  (nat * nat option) list -> (nat * nat list) list -> (nat * nat) -> bool

val can_participate :
  (nat * nat option) list -> (nat * nat list) list -> (nat * (nat * nat))
  list -> nat -> bool

val scope :
  (nat * nat option) list -> (nat * nat list) list -> (nat * (nat * nat))
  list -> nat list

val less_loaded : (nat * (nat * nat)) list -> nat -> nat -> bool

val least_loaded : (nat * (nat * nat)) list -> nat list -> nat option

val pairs_within_one : (nat * (nat * nat)) list -> nat list -> bool

val is_balanced_b :
  (nat * nat option) list -> (nat * nat list) list -> (nat * (nat * nat))
  list -> nat list -> bool

val absdiff : nat -> nat -> nat

val score : (nat * (nat * nat)) list -> nat list -> nat

val mv_get :
  ((nat * nat) * (nat * nat)) list -> (nat * nat) -> (nat * nat) option

val mv_remove :
  ((nat * nat) * (nat * nat)) list -> (nat * nat) ->
  ((nat * nat) * (nat * nat)) list

val candidates :
  ((nat * nat) * (nat * nat)) list -> (nat * nat) -> nat -> nat ->
  (nat * nat) list

val mv_move :
  ((nat * nat) * (nat * nat)) list -> (nat * nat) -> nat -> nat ->
  ((nat * nat) * (nat * nat)) list

val prev_get : ((nat * nat) * nat) list -> (nat * nat) -> nat option

val load_sc : (nat * (nat * nat)) list -> nat list -> nat -> nat

val prev_trigger :
  ((nat * nat) * nat) list -> (nat * (nat * nat)) list -> nat list ->
  (nat * nat) -> nat -> nat option

val gen_trigger :
  (nat * nat option) list -> (nat * nat list) list -> (nat * (nat * nat))
  list -> (nat * nat) -> nat -> bool

val opt_nat_eqb : nat option -> nat -> bool

val ctl_reassign :
  (nat * nat option) list -> (nat * nat list) list -> ((nat * nat) * nat)
  list -> nat list -> ((nat * (nat * nat)) list * ((nat * nat) * (nat * nat))
  list) -> (((nat * nat) * nat) * (nat * nat)) -> ((nat * (nat * nat))
  list * ((nat * nat) * (nat * nat)) list) option

val ctl_reassigns :
  (nat * nat option) list -> (nat * nat list) list -> ((nat * nat) * nat)
  list -> nat list -> ((nat * (nat * nat)) list * ((nat * nat) * (nat * nat))
  list) -> (((nat * nat) * nat) * (nat * nat)) list -> ((nat * (nat * nat))
  list * ((nat * nat) * (nat * nat)) list) option

val ctl_assign :
  (nat * nat option) list -> (nat * nat list) list -> (nat * (nat * nat))
  list -> ((nat * nat) * nat) -> (nat * (nat * nat)) list option

val ctl_assigns :
  (nat * nat option) list -> (nat * nat list) list -> (nat * (nat * nat))
  list -> ((nat * nat) * nat) list -> (nat * (nat * nat)) list option

val complete_b :
  (nat * nat option) list -> (nat * nat list) list -> (nat * (nat * nat))
  list -> bool

val no_trigger_b :
  (nat * nat option) list -> (nat * nat list) list -> ((nat * nat) * nat)
  list -> nat list -> (nat * (nat * nat)) list -> bool

val end_ok :
  (nat * nat option) list -> (nat * nat list) list -> ((nat * nat) * nat)
  list -> nat list -> (nat * (nat * nat)) list -> bool

val isnil : 'a1 list -> bool

type ctl_result = { cr_final : (nat * (nat * nat)) list; cr_reverted : 
                    bool; cr_prebalance : (nat * (nat * nat)) list;
                    cr_balanced : (nat * (nat * nat)) list }

val ctl_run :
  (nat * nat option) list -> (nat * nat list) list -> ((nat * nat) * nat)
  list -> (nat * (nat * nat)) list -> ((nat * nat) * nat) list ->
  (((nat * nat) * nat) * (nat * nat)) list -> bool -> ctl_result option

val ctl_aops :
  ((nat * nat) * nat) list -> (((nat * nat) * nat) * (nat * nat)) list ->
  bool -> aop list

val gens_put : z -> nat -> (z * nat) list -> (z * nat) list

val gens_mem : z -> (z * nat) list -> bool

val claim_put :
  ((nat * nat) * (z * nat) list) list -> (nat * nat) -> z -> nat ->
  ((nat * nat) * (z * nat) list) list

val claim_table :
  ((nat * z) * (nat * nat) list) list -> ((nat * nat) * (z * nat) list) list

val gens_max : (z * nat) list -> (z * nat) option

val gens_without : z -> (z * nat) list -> (z * nat) list

val init_current :
  ((nat * z) * (nat * nat) list) list -> (nat * (nat * nat))
  list * ((nat * nat) * nat) list

val moved_among :
  nat list -> (nat * (nat * nat)) list -> (nat * (nat * nat)) list ->
  ((nat * (nat * nat)) * nat) list

type 'a p = nat list -> ('a * nat list) option

val p_nat : nat p

val p_rep : 'a1 p -> nat -> 'a1 list p

val p_list : 'a1 p -> 'a1 list p

val p_pair : 'a1 p -> 'a2 p -> ('a1 * 'a2) p

val p_map : ('a1 -> 'a2) -> 'a1 p -> 'a2 p

val p_tp : (nat * nat) p

val p_layout : (nat * nat option) list p

val p_members : (nat * nat list) list p

val p_triples : (nat * (nat * nat)) list p

val p_claims : ((nat * z) * (nat * nat) list) list p

val e_list : ('a1 -> nat list) -> 'a1 list -> nat list

val e_assignment : (nat * (nat * nat list) list) list -> nat list

val e_bool : bool -> nat

val triple_eqb : (nat * (nat * nat)) -> (nat * (nat * nat)) -> bool

val subset_b : ('a1 -> 'a1 -> bool) -> 'a1 list -> 'a1 list -> bool

val same_set_b : ('a1 -> 'a1 -> bool) -> 'a1 list -> 'a1 list -> bool

val prev_eqb : ((nat * nat) * nat) -> ((nat * nat) * nat) -> bool

val run_rr_range : nat list -> nat list

val run_sticky : nat list -> nat list

val run_moved : nat list -> nat list

val run_checkers : nat list -> nat list

val run_case : nat list -> nat list
