(* c09_driver.ml — line-oriented runner around the extracted C09 models (c09_model.ml).
   Only conversions between text and the extracted data types live here; every computation is
   done by extracted code.  One request per input line, one answer per output line.
   Byte strings are hex; "-" is None, "~" the empty byte string.

   V2B id impl codec txn pid pepoch bseq batch_size payload n {off ts key value nh {hk hv}}
       -> V2B id bytes n {sib off size ts size_after}
   V2R id base epoch lat control batch data
       -> V2R id stamped crc_ok (NONE | OK h0..h12 n {off ts tstype key value nh {hk hv}})
   LB  id magic codec batch_size payload n {off ts key value}
       -> LB id (bytes|NONE) n {sib off crc size ts size_after}
   LR  id impl magic msg data -> LR id crc_ok (NONE | OK n {off ts tstype key value crc})
   LS  id offset lat msg      -> LS id bytes
   SP  id impl buf            -> SP id (trailing|X) n {magic len}
   VI  id v                   -> VI id pyhex pyret pysize cyhex cysize spechex
   VD  id buf pos             -> VD id (v p | NONE) (v p | NONE)
   CR  id data                -> CR id crc32c crc32 *)
open C09_model

(* ---- Z <-> text, through the extracted arithmetic ---------------------------------------- *)
let rec pos_of_int n = if n = 1 then XH else if n land 1 = 1 then XI (pos_of_int (n lsr 1)) else XO (pos_of_int (n lsr 1))
let z_of_int n = if n = 0 then Z0 else if n > 0 then Zpos (pos_of_int n) else Zneg (pos_of_int (-n))
let small = Array.init 256 z_of_int
let z10 = z_of_int 10

let z_of_string s =
  let neg = String.length s > 0 && s.[0] = '-' in
  let acc = ref Z0 in
  String.iteri (fun i c -> if not (neg && i = 0) then
    acc := Z.add (Z.mul !acc z10) small.(Char.code c - 48)) s;
  if neg then Z.opp !acc else !acc

let rec int_of_pos = function XH -> 1 | XO p -> 2 * int_of_pos p | XI p -> 2 * int_of_pos p + 1
let int_of_z = function Z0 -> 0 | Zpos p -> int_of_pos p | Zneg p -> - (int_of_pos p)

let string_of_z z =
  let neg, z = (match z with Zneg p -> true, Zpos p | _ -> false, z) in
  if z = Z0 then "0" else begin
    let b = Buffer.create 24 in
    let rec go z acc = if z = Z0 then acc else
      let (q, r) = Z.div_eucl z z10 in go q (Char.chr (48 + int_of_z r) :: acc) in
    if neg then Buffer.add_char b '-';
    List.iter (Buffer.add_char b) (go z []);
    Buffer.contents b end

(* ---- bytes <-> hex ------------------------------------------------------------------------- *)
let hv c = match c with '0'..'9' -> Char.code c - 48 | 'a'..'f' -> Char.code c - 87 | 'A'..'F' -> Char.code c - 55
  | _ -> failwith "hex"
let bytes_of_hex s =
  if s = "~" then [] else begin
    let n = String.length s / 2 in
    let rec go i acc = if i < 0 then acc else go (i - 1) (small.(16 * hv s.[2 * i] + hv s.[2 * i + 1]) :: acc) in
    go (n - 1) [] end
let hexd = "0123456789abcdef"
let hex_of_bytes l =
  match l with [] -> "~" | _ ->
  let b = Buffer.create 64 in
  List.iter (fun z -> let n = int_of_z z in
    if n < 0 || n > 255 then Buffer.add_string b "!!" else begin
    Buffer.add_char b hexd.[n lsr 4]; Buffer.add_char b hexd.[n land 15] end) l;
  Buffer.contents b
let obytes_of s = if s = "-" then None else Some (bytes_of_hex s)
let of_obytes = function None -> "-" | Some b -> hex_of_bytes b
let oz_of s = if s = "-" then None else Some (z_of_string s)
let of_oz = function None -> "-" | Some z -> string_of_z z
let impl_of s = if s = "P" then Py else Cy

(* ---- token stream --------------------------------------------------------------------------- *)
let toks = ref [||]
let ti = ref 0
let next () = let t = !toks.(!ti) in incr ti; t
let nz () = z_of_string (next ())
let ni () = int_of_string (next ())
let rec times n f = if n <= 0 then [] else let x = f () in x :: times (n - 1) f

let read_rec with_headers () =
  let off = nz () in let ts = nz () in
  let k = obytes_of (next ()) in let v = obytes_of (next ()) in
  let hs = if with_headers then times (ni ()) (fun () ->
      let hk = bytes_of_hex (next ()) in let hv = obytes_of (next ()) in (hk, hv)) else [] in
  { r_offset = off; r_ts = ts; r_key = k; r_value = v; r_headers = hs }

let out = Buffer.create 65536
let w s = Buffer.add_string out s; Buffer.add_char out ' '

let handle () =
  let kind = next () in
  let id = next () in
  w kind; w id;
  (match kind with
   | "V2B" ->
     let i = impl_of (next ()) in
     let codec = nz () in let txn = (next () = "1") in let pid = nz () in let pepoch = nz () in
     let bseq = nz () in let bs = nz () in let payload = bytes_of_hex (next ()) in
     let recs = times (ni ()) (read_rec true) in
     let c = { c_magic = small.(2); c_codec = codec; c_txn = txn; c_pid = pid; c_pepoch = pepoch;
               c_bseq = bseq; c_batch_size = bs } in
     let (b, steps) = x_v2_build i c payload recs in
     w (hex_of_bytes b); w (string_of_int (List.length steps));
     List.iter (fun ((sib, ((o, s), t)), sz) ->
       w (string_of_z sib); w (string_of_z o); w (string_of_z s); w (string_of_z t); w (string_of_z sz)) steps
   | "V2R" ->
     let base = nz () in let epoch = nz () in let lat = oz_of (next ()) in let ctl = (next () = "1") in
     let batch = bytes_of_hex (next ()) in let data = bytes_of_hex (next ()) in
     let ((sb, r), ok) = x_v2_read { s_base = base; s_epoch = epoch; s_lat = lat; s_control = ctl } batch data in
     w (hex_of_bytes sb); w (if ok then "1" else "0");
     (match r with
      | None -> w "NONE"
      | Some (h, rs) ->
        w "OK"; List.iter (fun z -> w (string_of_z z)) h;
        w (string_of_int (List.length rs));
        List.iter (fun r ->
          w (string_of_z r.o_offset); w (string_of_z r.o_ts); w (string_of_z r.o_tstype);
          w (of_obytes r.o_key); w (of_obytes r.o_value);
          w (string_of_int (List.length r.o_headers));
          List.iter (fun (hk, hv) -> w (hex_of_bytes hk); w (of_obytes hv)) r.o_headers) rs)
   | "LB" ->
     let magic = nz () in let codec = nz () in let bs = nz () in let payload = bytes_of_hex (next ()) in
     let recs = times (ni ()) (read_rec false) in
     let (b, steps) = x_legacy_build { lc_magic = magic; lc_codec = codec; lc_batch_size = bs } payload recs in
     w (match b with None -> "NONE" | Some b -> hex_of_bytes b);
     w (string_of_int (List.length steps));
     List.iter (fun ((sib, (((o, c), s), t)), sz) ->
       w (string_of_z sib); w (string_of_z o); w (string_of_z c); w (string_of_z s); w (string_of_z t);
       w (string_of_z sz)) steps
   | "LR" ->
     let i = impl_of (next ()) in let magic = nz () in
     let msg = bytes_of_hex (next ()) in let data = bytes_of_hex (next ()) in
     let (r, ok) = x_legacy_read i magic msg data in
     w (if ok then "1" else "0");
     (match r with
      | None -> w "NONE"
      | Some rs ->
        w "OK"; w (string_of_int (List.length rs));
        List.iter (fun r -> w (string_of_z r.lo_offset); w (of_oz r.lo_ts); w (of_oz r.lo_tstype);
                    w (of_obytes r.lo_key); w (of_obytes r.lo_value); w (string_of_z r.lo_crc)) rs)
   | "LS" ->
     let off = nz () in let lat = oz_of (next ()) in let msg = bytes_of_hex (next ()) in
     w (hex_of_bytes (x_lstamp off lat msg))
   | "SP" ->
     let i = impl_of (next ()) in let buf = bytes_of_hex (next ()) in
     let (bs, t) = x_split i buf in
     w (match t with None -> "X" | Some z -> string_of_z z);
     w (string_of_int (List.length bs));
     List.iter (fun (m, l) -> w (string_of_z m); w (string_of_z l)) bs
   | "VI" ->
     let v = nz () in
     let (((((a, b), c), d), e), f) = x_varint v in
     w (hex_of_bytes a); w (string_of_z b); w (string_of_z c); w (hex_of_bytes d); w (string_of_z e);
     w (hex_of_bytes f)
   | "VD" ->
     let buf = bytes_of_hex (next ()) in let pos = nz () in
     let (a, b) = x_varint_dec buf pos in
     let p = function None -> w "NONE" | Some (v, q) -> w (string_of_z v); w (string_of_z q) in
     p a; p b
   | "CR" ->
     let (a, b) = x_crc (bytes_of_hex (next ())) in w (string_of_z a); w (string_of_z b)
   | _ -> w "?")

let () =
  (try
     while true do
       let line = input_line stdin in
       if String.length line > 0 then begin
         toks := Array.of_list (List.filter (fun s -> s <> "") (String.split_on_char ' ' line));
         ti := 0;
         Buffer.clear out;
         (try handle () with e -> w ("ERROR:" ^ Printexc.to_string e));
         print_string (Buffer.contents out); print_newline ()
       end
     done
   with End_of_file -> ())
