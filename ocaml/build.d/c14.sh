#!/bin/bash
# C14/C15 volume runner: extracts Verif.C14_Run.run_case (ExtrOcamlBasic only: bool, option,
# list, prod, unit, sumbool; nat/Z/positive stay the extracted inductive types) and links
# it with the line-oriented driver c14_driver.ml.  Output: ocaml/c14_runner
set -e
cd "$(dirname "$0")/.."
V=../coq
# the model must be compiled (bin/setup or the check's make did that)
for f in C14_Assignors C14_Sticky C14_Run; do
  if [ ! -f $V/model/$f.vo ] || [ $V/model/$f.v -nt $V/model/$f.vo ]; then
    (cd $V && flock .buildlock timeout 600 coqc -Q lib Verif -Q model Verif model/$f.v)
  fi
done
mkdir -p c14_build
cd c14_build
cat > extract_c14.v <<'EOV'
From Coq Require Extraction.
From Coq Require Import ExtrOcamlBasic.
From Verif Require Import C14_Run.
Extraction "c14_run.ml" run_case.
EOV
timeout 300 coqc -Q ../../coq/model Verif extract_c14.v > extract.log 2>&1 || { cat extract.log; exit 1; }
cp ../c14_driver.ml .
timeout 300 ocamlfind ocamlopt -O2 -w -a c14_run.mli c14_run.ml c14_driver.ml -o ../c14_runner 2> ocaml.log \
  || timeout 300 ocamlfind ocamlopt -w -a c14_run.mli c14_run.ml c14_driver.ml -o ../c14_runner 2>> ocaml.log \
  || { cat ocaml.log; exit 1; }
sha256sum ../../coq/model/C14_Assignors.v ../../coq/model/C14_Sticky.v ../../coq/model/C14_Run.v ../c14_driver.ml > ../c14_runner.stamp
