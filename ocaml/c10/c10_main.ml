(* driver for the extracted C10 model: argv = table file, cases file; one output line per case *)
open C10_model
let rec pos_of_int n = if n = 1 then XH else if n land 1 = 0 then XO (pos_of_int (n lsr 1)) else XI (pos_of_int (n lsr 1))
let z_of_int n = if n = 0 then Z0 else if n > 0 then Zpos (pos_of_int n) else Zneg (pos_of_int (- n))
let rec int_of_pos = function XH -> 1 | XO p -> 2 * int_of_pos p | XI p -> 2 * int_of_pos p + 1
let int_of_z = function Z0 -> 0 | Zpos p -> int_of_pos p | Zneg p -> - (int_of_pos p)
let hexv c = match c with '0'..'9' -> Char.code c - 48 | 'a'..'f' -> Char.code c - 87 | 'A'..'F' -> Char.code c - 55 | _ -> 0
let bytes_of_hex s =
  let n = String.length s / 2 in
  List.init n (fun i -> z_of_int (hexv s.[2*i] * 16 + hexv s.[2*i+1]))
let split s = String.split_on_char ' ' (String.trim s)
let read_lines f = let ic = open_in f in let rec go acc = match input_line ic with l -> go (l :: acc) | exception End_of_file -> close_in ic; List.rev acc in go []
let () =
  let table = List.filter_map (fun l -> match split l with
      | [c; p; ok; r] -> Some (((z_of_int (int_of_string c), bytes_of_hex (if p = "-" then "" else p)), ok = "1"), bytes_of_hex (if r = "-" then "" else r))
      | _ -> None) (read_lines Sys.argv.(1)) in
  List.iter (fun l -> match split l with
      | [mode; magic; v; hx] ->
        let r = run_both table (z_of_int (int_of_string mode)) (z_of_int (int_of_string magic)) (v = "1") (bytes_of_hex (if hx = "-" then "" else hx)) in
        print_endline (String.concat "|" (List.map (fun o -> String.concat " " (List.map (fun z -> string_of_int (int_of_z z)) o)) r))
      | _ -> print_endline "?") (read_lines Sys.argv.(2))
