(* c09_extract.v — extraction of the executable C09 models for volume evaluation.
   ExtrOcamlBasic only (bool/option/list/prod/unit/sumbool mapped to OCaml's); Z, positive,
   nat stay the extracted inductive types; no Extract Constant.  Compiled by
   ocaml/build_c09.sh with the output going to ocaml/gen/c09/. *)
From Coq Require Import ZArith List Extraction ExtrOcamlBasic.
From Verif Require Import C09Bytes C09_Crc C09_Varint C09_RecordV2 C09_Legacy C09_MemRecords C09_Eval.
Extraction Language OCaml.
Extraction "c09_model.ml"
  x_v2_build x_v2_read x_legacy_build x_legacy_read x_lstamp x_split x_varint x_varint_dec x_crc
  mkRec mkCfg mkLCfg mkStamp Z.add Z.mul Z.opp Z.div_eucl Z.ltb Z.eqb.
