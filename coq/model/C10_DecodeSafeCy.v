(* C10_DecodeSafeCy.v — model of the compiled (Cython) record readers over instrumented memory.
   Mirrors, function by function:
     aiokafka/record/_crecords/cutil.pyx           decode_varint64
     aiokafka/record/_crecords/default_records.pyx DefaultRecordBatch: _read_header, validate_crc,
                                                   _maybe_uncompress, _check_bounds, _read_msg, __next__
     aiokafka/record/_crecords/legacy_records.pyx  LegacyRecordBatch: _read_record, validate_crc,
                                                   _decompress, _read_last_offset, __iter__
     aiokafka/record/_crecords/memory_records.pyx  MemoryRecords: has_next, _get_next
   and the driver of consumer/fetcher.py (while has_next: next_batch; validate_crc; for r in batch).
   Every definition takes the [fixes] vector: a flag set to true replaces the code of the pinned
   tree by the code of the corresponding proposed patch (seeded/_proposed_fixes/C10-*.diff).
   Positions and lengths (Py_ssize_t) are bounded by the buffer length and are kept in Z; C
   wrap-around is written in where a hostile *value* takes part (pos + size in _check_bounds,
   int64 offset / timestamp sums, uint64 varint accumulation, signed char). *)
From Coq Require Import ZArith List String Bool Lia.
From Verif Require Import C10_Base.
Import ListNotations.
Open Scope Z_scope.

(* header of a v2 batch, the fields the iteration uses *)
Record v2hdr : Type := {
  h_base_offset : Z; h_crc : Z; h_attrs : Z; h_first_ts : Z; h_max_ts : Z; h_num_records : Z }.

(* a legacy message as stored in a LegacyRecord object *)
Record lmsg : Type := {
  m_offset : Z; m_ts : Z; m_attrs : Z; m_key : option (list Z); m_value : option (list Z); m_crc : Z }.

Section Cy.
Variable crc32c crc32 : list Z -> Z.
Variable dec : Z -> list Z -> dres.      (* codec id 1 gzip, 2 snappy, 3 lz4, 4 zstd *)
Variable fx : fixes.

(* ------------------------------------------------------------------ cutil.decode_varint64 *)
Definition zigzag (v : Z) : Z := if Z.even v then v / 2 else - (v / 2) - 1.

Definition S_VARINT : string := "cutil.decode_varint64".
(* n = 10: the loop leaves (raise) when shift exceeds 63, i.e. after at most ten bytes *)
Fixpoint cy_varint_loop (n : nat) (sp : Z) (buf : list Z) (pos shift value : Z) : res (Z * Z) :=
  match n with
  | O => Fail (FFuel S_VARINT)
  | S n' =>
    if fx_varint fx && negb (pos <? zlen buf) then raise Corrupt else
    do l <- rd S_VARINT sp buf pos 1;
    let byte := be_u l in
    if 128 <=? byte then
      let value' := Z.lor value ((Z.shiftl (byte mod 128) shift) mod 2 ^ 64) in
      let shift' := shift + 7 in
      if 63 <? shift' then raise Corrupt
      else cy_varint_loop n' sp buf (pos + 1) shift' value'
    else
      Ok (zigzag (Z.lor value ((Z.shiftl byte shift) mod 2 ^ 64)), pos + 1)
  end.
Definition cy_varint (sp : Z) (buf : list Z) (pos : Z) : res (Z * Z) := cy_varint_loop 10 sp buf pos 0 0.

(* ------------------------------------------------------------------ _check_bounds (both classes) *)
Definition cy_chk (len pos size : Z) : res unit :=
  if fx_bounds fx then
    if (size <? 0) || (len - pos <? size) then raise Corrupt else Ok tt
  else
    if len <? wrap64 (pos + size) then raise Corrupt else Ok tt.

(* ------------------------------------------------------------------ DefaultRecordBatch *)
Definition S_HDR : string := "default_records._read_header".
Definition S_V2CRC : string := "default_records.validate_crc".
Definition S_MSG : string := "default_records._read_msg".

Definition cy_v2_read_header (buf : list Z) : res v2hdr :=
  if fx_hdr fx && (zlen buf <? 61) then raise Corrupt else
  do base_offset <- rd_i S_HDR 0 buf 0 8;
  do _length <- rd_i S_HDR 0 buf 8 4;
  do _magic <- rd_i S_HDR 0 buf 16 1;
  do crc <- rd_u S_HDR 0 buf 17 4;
  do attrs <- rd_i S_HDR 0 buf 21 2;
  do _lod <- rd_i S_HDR 0 buf 23 4;
  do first_ts <- rd_i S_HDR 0 buf 27 8;
  do max_ts <- rd_i S_HDR 0 buf 35 8;
  do num_records <- rd_i S_HDR 0 buf 57 4;
  do _pid <- rd_i S_HDR 0 buf 43 8;
  do _pep <- rd_i S_HDR 0 buf 51 2;
  do _bseq <- rd_i S_HDR 0 buf 53 4;
  Ok (Build_v2hdr base_offset crc attrs first_ts max_ts num_records).

(* crc32c over &buf[21], <size_t>(len - 21) *)
Definition cy_v2_validate (h : v2hdr) (buf : list Z) : res bool :=
  let n := zlen buf - 21 in
  if n <? 0 then Fail (FOOB S_V2CRC 0 21 (n mod 2 ^ 64) (zlen buf)) else
  do l <- rd S_V2CRC 0 buf 21 n;
  Ok (h_crc h =? crc32c l).

(* _maybe_uncompress on first iteration: the buffer the records are read from, its memory
   space (0 the supplied buffer, 1 a decompressed payload) and the start position *)
Definition cy_v2_uncompress (h : v2hdr) (buf : list Z) : res (Z * list Z * Z) :=
  let ct := h_attrs h mod 8 in
  if ct =? 0 then Ok (0, buf, 61)
  else if 4 <? ct then raise Unsupported
  else
    do payload <- rd "default_records._maybe_uncompress" 0 buf 61 (zlen buf - 61);
    match dec ct payload with
    | DOk out => Ok (1, out, 0)
    | DRaise e => raise e
    end.

(* (optional) byte string of [n] bytes at p: key / value / header value *)
Definition cy_opt_bytes (sp : Z) (buf : list Z) (p n : Z) : res (option (list Z) * Z) :=
  if 0 <=? n then
    do _ <- cy_chk (zlen buf) p n;
    do k <- bytes_from S_MSG sp buf p n;
    Ok (Some k, p + n)
  else Ok (None, p).

Definition cy_vi (sp : Z) (buf : list Z) (p : Z) : res (Z * Z) :=
  do _ <- cy_chk (zlen buf) p 1; cy_varint sp buf p.

Definition hdr : Type := (list Z * option (list Z))%type.

(* while header_count > 0: fuel = buffer length + 1 (every iteration reads at least two bytes) *)
Fixpoint cy_headers (fuel : nat) (sp : Z) (buf : list Z) (p hc : Z) (acc : list hdr) : res (list hdr * Z) :=
  match fuel with
  | O => Fail (FFuel "default_records._read_msg.headers")
  | S f =>
    if hc <=? 0 then Ok (rev acc, p) else
    do kl <- cy_varint sp buf p;
    let '(klen, p) := kl in
    if klen <? 0 then raise Corrupt else
    do _ <- cy_chk (zlen buf) p klen;
    do hk <- bytes_from S_MSG sp buf p klen;
    let p := p + klen in
    do vl <- cy_varint sp buf p;
    let '(vlen, p) := vl in
    do hv <- cy_opt_bytes sp buf p vlen;
    let '(hval, p) := hv in
    if utf8_ok hk then cy_headers f sp buf p (hc - 1) ((hk, hval) :: acc)
    else raise "UnicodeDecodeError"
  end.

Definition cy_read_msg (h : v2hdr) (sp : Z) (buf : list Z) (pos : Z) : res (rec * Z) :=
  do a <- cy_vi sp buf pos; let '(length, p) := a in
  let start := p in
  do a <- cy_vi sp buf p; let '(_attrs, p) := a in
  do a <- cy_vi sp buf p; let '(ts_delta, p) := a in
  let tstype := if h_attrs h mod 16 <? 8 then 0 else 1 in
  let timestamp := if tstype =? 1 then h_max_ts h else wrap64 (h_first_ts h + ts_delta) in
  do a <- cy_vi sp buf p; let '(off_delta, p) := a in
  let offset := wrap64 (h_base_offset h + off_delta) in
  do a <- cy_vi sp buf p; let '(key_len, p) := a in
  do a <- cy_opt_bytes sp buf p key_len; let '(key, p) := a in
  do a <- cy_vi sp buf p; let '(value_len, p) := a in
  do a <- cy_opt_bytes sp buf p value_len; let '(value, p) := a in
  do a <- cy_vi sp buf p; let '(hc, p) := a in
  if hc <? 0 then raise Corrupt else
  do a <- cy_headers (S (List.length buf)) sp buf p hc []; let '(hs, p) := a in
  if negb (p - start =? length) then raise Corrupt else
  Ok ((offset, Some timestamp, Some tstype, bdig key, bdig value, hdig hs, None), p).

(* the for-loop of the driver over __next__: fuel = buffer length + 1 *)
Fixpoint cy_v2_iter (fuel : nat) (h : v2hdr) (sp : Z) (buf : list Z) (pos idx : Z) (acc : list rec)
  : list rec * status :=
  match fuel with
  | O => (rev acc, SFail (FFuel "default_records.__next__"))
  | S f =>
    if h_num_records h <=? idx then
      if pos =? zlen buf then (rev acc, SDone) else (rev acc, SFail (FRaise Corrupt))
    else
      match cy_read_msg h sp buf pos with
      | Ok (r, p) => cy_v2_iter f h sp buf p (idx + 1) (r :: acc)
      | Fail e => (rev acc, SFail e)
      end
  end.

(* driver on one batch object: constructor, optional validate_crc, iteration *)
Definition cy_v2_run (validate : bool) (buf : list Z) : list rec * status :=
  match cy_v2_read_header buf with
  | Fail e => ([], SFail e)
  | Ok h =>
    match (if validate then cy_v2_validate h buf else Ok true) with
    | Fail e => ([], SFail e)
    | Ok false => ([], SFail (FRaise Corrupt))
    | Ok true =>
      match cy_v2_uncompress h buf with
      | Fail e => ([], SFail e)
      | Ok (sp, b, pos) => cy_v2_iter (S (List.length b)) h sp b pos 0 []
      end
    end
  end.

(* ------------------------------------------------------------------ LegacyRecordBatch *)
Definition S_LREC : string := "legacy_records._read_record".
Definition S_LAST : string := "legacy_records._read_last_offset".

Definition cy_l_opt_bytes (sp : Z) (buf : list Z) (p n : Z) : res (option (list Z) * Z) :=
  if n =? -1 then Ok (None, p)
  else
    do _ <- cy_chk (zlen buf) p n;
    do k <- bytes_from S_LREC sp buf p n;
    Ok (Some k, p + n).

Definition cy_l_read_record (sp : Z) (buf : list Z) (pos : Z) : res (lmsg * Z) :=
  let len := zlen buf in
  do _ <- cy_chk len pos 26;
  do offset <- rd_i S_LREC sp buf pos 8;
  do crc <- rd_u S_LREC sp buf (pos + 12) 4;
  do magic <- rd_i S_LREC sp buf (pos + 16) 1;
  do attrs <- rd_i S_LREC sp buf (pos + 17) 1;
  do tp <- (if magic =? 1 then
              do _ <- cy_chk len pos 34;
              do ts <- rd_i S_LREC sp buf (pos + 18) 8;
              Ok (ts, pos + 26)
            else Ok (-1, pos + 18));
  let '(ts, p) := tp in
  do ksz <- rd_i S_LREC sp buf p 4;
  let p := p + 4 in
  do a <- cy_l_opt_bytes sp buf p ksz; let '(key, p) := a in
  do _ <- (if fx_vlen fx then cy_chk len p 4 else Ok tt);
  do vsz <- rd_i S_LREC sp buf p 4;
  let p := p + 4 in
  do a <- cy_l_opt_bytes sp buf p vsz; let '(value, p) := a in
  Ok (Build_lmsg offset ts attrs key value crc, p).

(* the observable record: timestamp / timestamp_type properties give None when timestamp = -1 *)
Definition lrec_obs (m : lmsg) : rec :=
  let ts := if m_ts m =? -1 then None else Some (m_ts m) in
  let tt := if m_ts m =? -1 then None else Some (if m_attrs m mod 16 <? 8 then 0 else 1) in
  (m_offset m, ts, tt, bdig (m_key m), bdig (m_value m), hdig [], Some (m_crc m)).

(* crc32 over &buf[16], <size_t>(len - 16) *)
Definition cy_l_validate (main : lmsg) (buf : list Z) : res bool :=
  let n := zlen buf - 16 in
  if n <? 0 then Fail (FOOB "legacy_records.validate_crc" 0 16 (n mod 2 ^ 64) (zlen buf)) else
  do l <- rd "legacy_records.validate_crc" 0 buf 16 n;
  Ok (m_crc main =? crc32 l).

(* while pos < buffer_len: length = int32 at pos + 8; pos += 12 + length.
   State: pos and the last length read.  fuel = buffer length + 2. *)
Fixpoint cy_last_loop (fuel : nat) (buf : list Z) (pos length : Z) : res (Z * Z) :=
  match fuel with
  | O => Fail (FFuel S_LAST)
  | S f =>
    if pos <? zlen buf then
      if fx_lastoff fx && (zlen buf - pos <? 12) then raise Corrupt else
      do length <- rd_i S_LAST 1 buf (pos + 8) 4;
      if fx_lastoff fx && (length <? 0) then raise Corrupt else
      cy_last_loop f buf (pos + 12 + length) length
    else Ok (pos, length)
  end.
Definition cy_last_offset (buf : list Z) : res Z :=
  do a <- cy_last_loop (S (S (List.length buf))) buf 0 0;
  let '(pos, length) := a in
  if (zlen buf <? pos) || (fx_lastoff fx && (pos =? 0)) then raise Corrupt else
  rd_i S_LAST 1 buf (pos - (12 + length)) 8.

(* the inner loop of __iter__ over a decompressed message set: fuel = length + 1 *)
Fixpoint cy_l_inner (fuel : nat) (main : lmsg) (abs : Z) (buf : list Z) (pos : Z) (acc : list rec)
  : list rec * status :=
  match fuel with
  | O => (rev acc, SFail (FFuel "legacy_records.__iter__"))
  | S f =>
    if pos <? zlen buf then
      match cy_l_read_record 1 buf pos with
      | Fail e => (rev acc, SFail e)
      | Ok (m, p) =>
        if negb (m_attrs m mod 8 =? 0) then (rev acc, SFail (FRaise "AssertionError")) else
        let m := if m_attrs main mod 16 <? 8 then m
                 else Build_lmsg (m_offset m) (m_ts main) (Z.lor (m_attrs m) 8) (m_key m) (m_value m) (m_crc m) in
        let m := if 0 <=? abs
                 then Build_lmsg (wrap64 (m_offset m + abs)) (m_ts m) (m_attrs m) (m_key m) (m_value m) (m_crc m)
                 else m in
        cy_l_inner f main abs buf p (lrec_obs m :: acc)
      end
    else (rev acc, SDone)
  end.

(* [magic] is the constructor argument (signed char) *)
Definition cy_l_iter (magic : Z) (main : lmsg) : list rec * status :=
  let compression := m_attrs main mod 8 in
  if compression =? 0 then ([lrec_obs main], SDone) else
  match m_value main with
  | None => ([], SFail (FRaise Corrupt))
  | Some value =>
    if 3 <? compression then ([], SFail (FRaise Unsupported))
    else if (compression =? 3) && (magic =? 0) then ([], SFail (FRaise Unsupported))
    else
      match dec compression value with
      | DRaise e => ([], SFail (FRaise e))
      | DOk out =>
        match (if 0 <? magic then do lo <- cy_last_offset out; Ok (Some lo) else Ok None) with
        | Fail e => ([], SFail e)
        | Ok None => cy_l_inner (S (List.length out)) main (-1) out 0 []
        | Ok (Some lo) =>
          (* `cdef int64_t _read_last_offset(self) except -1`: a last offset of -1 is taken for an
             error return; no exception is set, so the generator simply ends *)
          if lo =? -1 then ([], SDone)
          else cy_l_inner (S (List.length out)) main (wrap64 (m_offset main - lo)) out 0 []
        end
      end
  end.

Definition cy_l_run (validate : bool) (magic : Z) (buf : list Z) : list rec * status :=
  match cy_l_read_record 0 buf 0 with
  | Fail e => ([], SFail e)
  | Ok (main, _) =>
    match (if validate then cy_l_validate main buf else Ok true) with
    | Fail e => ([], SFail e)
    | Ok false => ([], SFail (FRaise Corrupt))
    | Ok true => cy_l_iter magic main
    end
  end.

(* ------------------------------------------------------------------ MemoryRecords + driver *)
Definition S_MR : string := "memory_records".

(* failures of a batch working on the slice [base, base+n) of the whole buffer are reported
   relative to the whole buffer *)
Definition rebase (base total : Z) (st : status) : status :=
  match st with
  | SFail (FOOB site 0 pos n _) => SFail (FOOB site 0 (base + pos) n total)
  | _ => st
  end.

Fixpoint cy_mr_loop (fuel : nat) (validate : bool) (buf : list Z) (pos : Z) (acc : list rec)
  : list rec * status :=
  match fuel with
  | O => (acc, SFail (FFuel S_MR))
  | S f =>
    let n := zlen buf in
    (* has_next *)
    if n - pos <? 12 then (acc, SDone) else
    match rd_i S_MR 0 buf (pos + 8) 4 with
    | Fail e => (acc, SFail e)
    | Ok length =>
      if n - pos <? 12 + length then (acc, SDone) else
      (* next_batch -> _get_next *)
      if length <? 14 then (acc, SFail (FRaise Corrupt)) else
      let slice_end := pos + 12 + length in
      match rd_i S_MR 0 buf (pos + 16) 1 with
      | Fail e => (acc, SFail e)
      | Ok magic =>
        let slice := sub buf pos (12 + length) in
        let '(recs, st) := if magic <? 2 then cy_l_run validate magic slice else cy_v2_run validate slice in
        match st with
        | SDone => cy_mr_loop f validate buf slice_end (acc ++ recs)
        | _ => (acc ++ recs, rebase pos n st)
        end
      end
    end
  end.

Definition cy_decode (validate : bool) (buf : list Z) : list rec * status :=
  cy_mr_loop (S (List.length buf)) validate buf 0 [].

End Cy.
