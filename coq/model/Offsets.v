(* Offsets.v — C04: group-level view of one partition: committed offset at the coordinator,
   successive incarnations (owner, generation) each with a start position and a current
   position, and the set of offsets ever handed to the application.  All offsets below the
   high watermark are visible data records in this model (invisible offsets are C03/C08's
   business).  Code modelled: GroupCoordinator._maybe_do_autocommit / _maybe_do_last_autocommit /
   commit_offsets (offsets = assignment.all_consumed_offsets()), Fetcher position bookkeeping,
   start position = committed offset else auto_offset_reset=earliest. *)
From Coq Require Import List Bool Arith.
Import ListNotations.

Record inc := mkI { i_start : nat; i_pos : nat; i_alive : bool }.

Record st := mkS {
  committed : option nat;
  incs : list (nat * inc);        (* incarnation id -> state *)
  delivered : list nat;           (* ghost: offsets handed to the application by anyone *)
  hw : nat                        (* log end *)
}.

Inductive ev :=
| Append (n : nat)
| Takeover (i : nat)              (* a member adopts the partition: position := committed, else 0 *)
| Deliver (i : nat) (o : nat)
| Commit (i : nat) (off : nat)    (* an OffsetCommit of incarnation i accepted by the coordinator *)
| Release (i : nat).              (* revoked / stopped / killed *)

Fixpoint lookup (k : nat) (l : list (nat * inc)) : option inc :=
  match l with
  | [] => None
  | (k', v) :: tl => if Nat.eqb k k' then Some v else lookup k tl
  end.

Fixpoint update (k : nat) (v : inc) (l : list (nat * inc)) : list (nat * inc) :=
  match l with
  | [] => [(k, v)]
  | (k', v') :: tl => if Nat.eqb k k' then (k, v) :: tl else (k', v') :: update k v tl
  end.

Definition step (s : st) (e : ev) : option st :=
  match e with
  | Append n => Some (mkS (committed s) (incs s) (delivered s) (hw s + n))
  | Takeover i =>
      match lookup i (incs s) with
      | Some _ => None
      | None => let p := match committed s with Some c => c | None => 0 end in
                Some (mkS (committed s) (update i (mkI p p true) (incs s)) (delivered s) (hw s))
      end
  | Deliver i o =>
      match lookup i (incs s) with
      | Some x => if i_alive x && Nat.eqb o (i_pos x) && (o <? hw s)
                  then Some (mkS (committed s) (update i (mkI (i_start x) (S o) true) (incs s))
                                 (o :: delivered s) (hw s))
                  else None
      | None => None
      end
  | Commit i off =>
      match lookup i (incs s) with
      | Some x => if (i_start x <=? off) && (off <=? i_pos x)
                  then Some (mkS (Some off) (incs s) (delivered s) (hw s))
                  else None
      | None => None
      end
  | Release i =>
      match lookup i (incs s) with
      | Some x => Some (mkS (committed s) (update i (mkI (i_start x) (i_pos x) false) (incs s))
                            (delivered s) (hw s))
      | None => None
      end
  end.

Fixpoint run (s : st) (tr : list ev) : option st :=
  match tr with
  | [] => Some s
  | e :: tr' => match step s e with Some s' => run s' tr' | None => None end
  end.

Fixpoint first_reject (s : st) (tr : list ev) (k : nat) : option nat :=
  match tr with
  | [] => None
  | e :: tr' => match step s e with Some s' => first_reject s' tr' (S k) | None => Some k end
  end.

Definition init : st := mkS None [] [] 0.
Definition replay (tr : list ev) : nat :=
  match first_reject init tr 0 with None => 0 | Some k => S k end.
