(* C09_Varint.v — zig-zag LEB128 ("varint"/"varlong" of the Kafka v2 record format).
   (1) the specification used by the record models: arithmetic zig-zag + base-128 groups;
   (2) hand models of the compiled versions in _crecords/cutil.pyx (uint64 arithmetic,
       loops on explicit fuel).
   The pure-Python versions of record/util.py are *translated* (gen/VarintEnc.v, VarintSize.v,
   VarintDec.v); proof/C09_varint.v proves all three agree on every int64. *)
From Coq Require Import ZArith List Bool Lia.
From Verif Require Import C09Bytes.
Import ListNotations.
Open Scope Z_scope.

Definition INT64_MIN : Z := -9223372036854775808.
Definition INT64_MAX : Z := 9223372036854775807.
Definition int64 (v : Z) : Prop := INT64_MIN <= v <= INT64_MAX.
Definition TWO64 : Z := 18446744073709551616.

(* ---- specification ------------------------------------------------------------------ *)
Definition zigzag (v : Z) : Z := if v <? 0 then - 2 * v - 1 else 2 * v.
Definition unzigzag (u : Z) : Z := if Z.even u then u / 2 else - ((u + 1) / 2).

(* base-128 little-endian groups of u >= 0, continuation bit on all but the last *)
Fixpoint leb_enc (fuel : nat) (u : Z) : bytes :=
  match fuel with
  | O => []
  | S f => if u <? 128 then [u] else (128 + u mod 128) :: leb_enc f (u / 128)
  end.
Definition varint_enc (v : Z) : bytes := leb_enc 10 (zigzag v).

Fixpoint leb_size (fuel : nat) (u : Z) : Z :=
  match fuel with
  | O => 0
  | S f => if u <? 128 then 1 else 1 + leb_size f (u / 128)
  end.
Definition varint_size (v : Z) : Z := leb_size 10 (zigzag v).

(* decoder on the remaining input: at most 10 groups (shift 0,7,..,63) *)
Fixpoint leb_dec (fuel : nat) (l : bytes) (mul acc : Z) : option (Z * bytes) :=
  match fuel, l with
  | S f, b :: r =>
      let acc' := acc + (b mod 128) * mul in
      if b <? 128 then Some (acc', r) else leb_dec f r (mul * 128) acc'
  | _, _ => None
  end.
Definition varint_dec (l : bytes) : option (Z * bytes) :=
  match leb_dec 10 l 1 0 with
  | Some (u, r) => Some (unzigzag u, r)
  | None => None
  end.

(* ---- _crecords/cutil.pyx -------------------------------------------------------------- *)
Definition u64 (x : Z) : Z := x mod TWO64.
Definition s64 (x : Z) : Z := (x + 9223372036854775808) mod TWO64 - 9223372036854775808.

(* v = <uint64_t>(value << 1) ^ <uint64_t>(value >> 63) *)
Definition cy_zigzag (value : Z) : Z := Z.lxor (u64 (Z.shiftl value 1)) (u64 (Z.shiftr value 63)).

(* while ((v & 0xffffffffffffff80) != 0): buf[pos] = (v & 0x7f) | 0x80; pos++; v >>= 7
   buf[pos] = v & 0x7f *)
Fixpoint cy_enc_loop (fuel : nat) (v : Z) : bytes :=
  match fuel with
  | O => []
  | S f =>
      if negb (Z.land v 18446744073709551488 =? 0)
      then Z.lor (Z.land v 127) 128 :: cy_enc_loop f (Z.shiftr v 7)
      else [Z.land v 127]
  end.
Definition cy_encode_varint64 (value : Z) : bytes := cy_enc_loop 11 (cy_zigzag value).

Fixpoint cy_size_loop (fuel : nat) (v : Z) (n : Z) : Z :=
  match fuel with
  | O => n
  | S f =>
      if negb (Z.land v 18446744073709551488 =? 0) then cy_size_loop f (Z.shiftr v 7) (n + 1) else n
  end.
Definition cy_size_of_varint64 (value : Z) : Z := cy_size_loop 11 (cy_zigzag value) 1.

(* decode_varint64: [byte] is a C char (signed); value a uint64; the loop raises when
   shift > 63 after a continuation byte.  Returns value and remaining input. *)
Definition schar (b : Z) : Z := if b <? 128 then b else b - 256.
Fixpoint cy_dec_loop (fuel : nat) (l : bytes) (shift value : Z) : option (Z * bytes) :=
  match fuel, l with
  | S f, b :: r =>
      let byte := schar b in
      if negb (Z.land byte 128 =? 0) then
        let value' := Z.lor value (u64 (Z.shiftl (u64 (Z.land byte 127)) shift)) in
        let shift' := shift + 7 in
        if 63 <? shift' then None else cy_dec_loop f r shift' value'
      else Some (Z.lor value (u64 (Z.shiftl (u64 byte) shift)), r)
  | _, _ => None
  end.
Definition cy_decode_varint64 (l : bytes) : option (Z * bytes) :=
  match cy_dec_loop 11 l 0 0 with
  | Some (value, r) =>
      Some (Z.lxor (s64 (Z.shiftr value 1)) (- s64 (Z.land value 1)), r)
  | None => None
  end.
