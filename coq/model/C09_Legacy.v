(* C09_Legacy.v — Kafka message formats v0 / v1 (LegacyRecordBatch): builder and reader of
   aiokafka/record/legacy_records.py and _crecords/legacy_records.pyx.

   A legacy "batch" on the wire is one message
       Offset:int64 Length:int32 CRC:uint32 Magic:int8 Attributes:int8 [Timestamp:int64]
       KeyLen:int32 Key ValueLen:int32 Value            (CRC-32 over Magic..end)
   The builder emits one message per record, or — with compression — a single wrapper
   message (offset 0, timestamp 0, null key) whose value is the compressed concatenation
   of the inner messages.  The reader takes ONE message (a slice cut by MemoryRecords);
   for a wrapper with magic 1 the inner offsets are relative:
       absolute = inner + (wrapper_offset - last_inner_offset)   when that base is >= 0. *)
From Coq Require Import ZArith List Bool Lia.
From Verif Require Import C09Bytes C09_Crc C09_RecordV2.
Import ListNotations.
Open Scope Z_scope.

Definition LOG_OVERHEAD : Z := 12.
Definition record_overhead (magic : Z) : Z := if magic =? 0 then 14 else 22.

Definition enc_len_bytes (o : obytes) : bytes :=
  match o with
  | None => be 4 (-1)
  | Some b => be 4 (blen b) ++ b
  end.

(* everything after the CRC field: what CRC-32 covers *)
Definition msg_tail (magic attrs ts : Z) (key value : obytes) : bytes :=
  be 1 magic ++ be 1 attrs ++ (if magic =? 0 then [] else be 8 ts)
  ++ enc_len_bytes key ++ enc_len_bytes value.

Definition encode_msg (magic offset ts : Z) (key value : obytes) (attrs : Z) : bytes :=
  let tail := msg_tail magic attrs ts key value in
  be 8 offset ++ be 4 (blen tail + 4) ++ be 4 (crc32 tail) ++ tail.

Definition msg_size (magic : Z) (key value : obytes) : Z :=
  LOG_OVERHEAD + record_overhead magic + olen key + olen value.

Record lcfg := mkLCfg { lc_magic : Z; lc_codec : Z; lc_batch_size : Z }.
Record lmeta := mkLMeta { lm_offset : Z; lm_crc : Z; lm_size : Z; lm_ts : Z }.

(* builder state = the bytes written so far (size() = their number) *)
Definition lappend (c : lcfg) (buf : bytes) (r : record) : bytes * option lmeta :=
  let magic := lc_magic c in
  let ts := if magic =? 0 then -1 else r_ts r in
  let size := msg_size magic (r_key r) (r_value r) in
  if negb (r_offset r =? 0) && (lc_batch_size c <=? blen buf + size) then (buf, None)
  else
    let m := encode_msg magic (r_offset r) ts (r_key r) (r_value r) 0 in
    (buf ++ m, Some (mkLMeta (r_offset r) (unsigned_be (slice 12 16 m)) size ts)).

Fixpoint lappends (c : lcfg) (buf : bytes) (rs : list record) : bytes * list (option lmeta) :=
  match rs with
  | [] => (buf, [])
  | r :: rs' =>
      let (b1, m) := lappend c buf r in
      let (b2, ms) := lappends c b1 rs' in
      (b2, m :: ms)
  end.

Fixpoint laccepted (rs : list record) (ms : list (option lmeta)) : list record :=
  match rs, ms with
  | r :: rs', Some _ :: ms' => r :: laccepted rs' ms'
  | _ :: rs', None :: ms' => laccepted rs' ms'
  | _, _ => []
  end.

(* reader output *)
Record lorecord := mkLO {
  lo_offset : Z; lo_ts : option Z; lo_tstype : option Z; lo_key : obytes; lo_value : obytes;
  lo_crc : Z }.

Section Codec.
  Variable compress : Z -> bytes -> bytes.
  Variable decompress : Z -> bytes -> option bytes.

  (* build(): None = UnsupportedCodecError (LZ4 with magic 0) *)
  Definition lbuild (c : lcfg) (buf : bytes) : option bytes :=
    let codec := lc_codec c in
    if codec =? 0 then Some buf
    else if (codec =? 3) && (lc_magic c =? 0) then None
    else Some (encode_msg (lc_magic c) 0 0 None (Some (compress codec buf)) codec).

  Definition lbuild_records (c : lcfg) (rs : list record) : option bytes :=
    lbuild c (fst (lappends c [] rs)).

  (* ---- reader ------------------------------------------------------------------------ *)
  Record lmsg := mkLMsg {
    g_offset : Z; g_length : Z; g_crc : Z; g_magic : Z; g_attrs : Z; g_ts : option Z;
    g_key : obytes; g_value : obytes }.

  Definition dec_len_bytes (l : bytes) : option (obytes * bytes) :=
    bind (take_s 4 l) (fun '(n, l) =>
      if n =? -1 then Some (None, l)
      else bind (take n l) (fun '(b, l) => Some (Some b, l))).

  (* one message at the head of l; [pmagic] is the magic the batch object was created with.
     The pure-Python reader lays the header out according to pmagic and finds the next
     message with the Length field; the compiled one uses the message's own magic byte and
     continues where the value ended.  Returns the message, and the rest. *)
  Definition parse_msg (i : impl) (pmagic : Z) (l : bytes) : option (lmsg * bytes) :=
    bind (take_s 8 l) (fun '(offset, l1) =>
    bind (take_s 4 l1) (fun '(length, l2) =>
    bind (take_u 4 l2) (fun '(crc, l3) =>
    bind (take_s 1 l3) (fun '(mbyte, l4) =>
    bind (take_s 1 l4) (fun '(attrs, l5) =>
      let v1 := match i with Py => negb (pmagic =? 0) | Cy => mbyte =? 1 end in
      bind (if v1 then bind (take_s 8 l5) (fun '(t, l) => Some (Some t, l)) else Some (None, l5))
      (fun '(ts, l6) =>
      bind (dec_len_bytes l6) (fun '(key, l7) =>
      bind (dec_len_bytes l7) (fun '(value, l8) =>
        let rest := match i with
                    | Py => skipn (Z.to_nat (LOG_OVERHEAD + length)) l
                    | Cy => l8
                    end in
        Some (mkLMsg offset length crc mbyte attrs ts key value, rest))))))))).

  Fixpoint parse_all (fuel : nat) (i : impl) (pmagic : Z) (l : bytes) : option (list lmsg) :=
    match l with
    | [] => Some []
    | _ =>
        match fuel with
        | O => None
        | S f =>
            bind (parse_msg i pmagic l) (fun '(m, rest) =>
              if (List.length l <=? List.length rest)%nat then None   (* no progress: the code would spin *)
              else bind (parse_all f i pmagic rest) (fun ms => Some (m :: ms)))
        end
    end.

  (* timestamp / type as the record objects expose them *)
  Definition out_ts (i : impl) (ts : option Z) : option Z :=
    match i, ts with
    | Cy, Some t => if t =? -1 then None else Some t
    | _, t => t
    end.

  Definition lread (i : impl) (pmagic : Z) (l : bytes) : option (list lorecord) :=
    bind (parse_msg i pmagic l) (fun '(w, _) =>
      let codec := Z.land (g_attrs w) CODEC_MASK in
      let w_lat := negb (Z.land (g_attrs w) TS_TYPE_MASK =? 0) in
      let w_tstype := if pmagic =? 0 then None else Some (if w_lat then 1 else 0) in
      if codec =? 0 then
        let ts := out_ts i (g_ts w) in
        let tstype := match i with
                      | Py => w_tstype
                      | Cy => match ts with None => None | Some _ => Some (if w_lat then 1 else 0) end
                      end in
        Some [mkLO (g_offset w) ts tstype (g_key w) (g_value w) (g_crc w)]
      else
        bind (g_value w) (fun payload =>
        if (codec =? 3) && (pmagic =? 0) then None else
        bind (decompress codec payload) (fun data =>
        bind (parse_all (S (List.length data)) i pmagic data) (fun inner =>
          match rev inner with
          | [] => None
          | last :: _ =>
              let base := if 0 <? pmagic then g_offset w - g_offset last else -1 in
              if existsb (fun m => negb (Z.land (g_attrs m) CODEC_MASK =? 0)) inner then None else
              Some (map (fun m =>
                let off := if 0 <=? base then g_offset m + base else g_offset m in
                match i with
                | Py =>
                    let ts := if w_lat && negb (pmagic =? 0) then g_ts w else g_ts m in
                    mkLO off ts w_tstype (g_key m) (g_value m) (g_crc m)
                | Cy =>
                    let ts0 := if w_lat then g_ts w else g_ts m in
                    let ts := out_ts Cy (match ts0 with None => Some (-1) | t => t end) in
                    let lat := w_lat || negb (Z.land (g_attrs m) TS_TYPE_MASK =? 0) in
                    mkLO off ts (match ts with None => None | Some _ => Some (if lat then 1 else 0) end)
                         (g_key m) (g_value m) (g_crc m)
                end) inner)
          end)))).

  Definition lvalidate_crc (l : bytes) : bool :=
    match take_u 4 (skipn 12 l) with
    | Some (crc, _) => crc =? crc32 (skipn 16 l)
    | None => false
    end.
End Codec.

(* the broker's part for a compressed wrapper (magic 1): the wrapper's offset becomes the
   absolute offset of the last inner message, optionally LogAppendTime; CRC recomputed *)
Definition lstamp (offset : Z) (lat : option Z) (l : bytes) : bytes :=
  match parse_msg Cy 0 l with
  | None => l
  | Some (m, _) =>
      let attrs' := Z.lor (g_attrs m) (match lat with Some _ => TS_TYPE_MASK | None => 0 end) in
      let ts := match lat, g_ts m with
                | Some t, _ => t
                | None, Some t => t
                | None, None => -1
                end in
      encode_msg (g_magic m) offset ts (g_key m) (g_value m) attrs'
  end.
