(* C12_Conn.v — executable model of AIOKafkaConnection's request/response matching
   (aiokafka/conn.py: send 408-444, _send_sasl_token 446-465, close 470-498, _read 508-530,
   _handle_frame 532-581, _on_read_task_error 358-372, _next_correlation_id 583-585 — the
   last one is not modelled by hand: NextCorr.v is generated from the source on every run).

   A connection is a labelled transition system over
     reqs   the deque _requests: in-flight entries (correlation id, request struct, future)
     rbuf   bytes received and not yet consumed by the reader task
     open   _reader is not None
     corr   _correlation_id
     nsent  number of waiters created so far (a waiter = one awaitable returned by send())
     log    every resolution of a waiter's future, newest first
   The body decoder RESPONSE_TYPE.decode is abstract: [decodes api body]. *)
From Coq Require Import ZArith Ascii String List Bool.
From Verif Require Import Imp NextCorr.
Import ListNotations.
Open Scope Z_scope.

Definition bytes := list Z.

(* the exception chained as __cause__ of KafkaConnectionError by close(exc=...) *)
Inductive cause : Type :=
| CNone            (* close() without exc: explicit close, request timeout in the client, out of sync *)
| CEof             (* IncompleteReadError: the peer closed the stream *)
| CReset           (* the transport reported an error *)
| CUnsolicited     (* IndexError: a frame arrived while no request was in flight *)
| CMalformed       (* header / body decoder or size prefix raised *)
| CNoConn.         (* send() on a closed connection raises at once *)

Inductive why : Type :=
| Resp (frame : bytes)      (* future resolved with RESPONSE_TYPE.decode of this frame's body *)
| RawResp (frame : bytes)   (* SASL token: the frame itself *)
| CorrErr                   (* CorrelationIdError *)
| ConnErr (c : cause)       (* KafkaConnectionError *)
| TimedOut                  (* wait_for expired: the future is cancelled, TimeoutError raised *)
| Cancelled.                (* the awaiting task was cancelled *)

Record entry := mkE {
  e_id : nat;               (* which waiter *)
  e_corr : option Z;        (* None: raw SASL packet sent by _send_sasl_token *)
  e_api : Z;                (* index of the request struct class (selects the body decoder) *)
  e_flex : bool;            (* FLEXIBLE_VERSION: response header v1 (correlation id + tagged fields) *)
  e_quirk : bool;           (* RESPONSE_TYPE is FindCoordinatorResponse_v0 *)
  e_done : bool }.          (* fut.done() *)

Record logent := mkL { l_id : nat; l_corr : option Z; l_quirk : bool; l_why : why }.

Record state := mkS {
  reqs : list entry; rbuf : bytes; open : bool; corr : Z; nsent : nat; log : list logent }.

Inductive event : Type :=
| Send (api : Z) (flex quirk : bool)     (* conn.send(request) with expect_response=True *)
| SendNoResp                             (* conn.send(request, expect_response=False) *)
| SendRaw                                (* conn._send_sasl_token(payload) *)
| Feed (chunk : bytes)                   (* protocol.data_received(chunk) *)
| Timeout (id : nat) (via_client : bool)   (* the request timeout of waiter id expires; a waiter
                                            created by AIOKafkaClient.send then closes the connection *)
| Cancel (id : nat)                      (* the task awaiting waiter id is cancelled *)
| Eof                                    (* protocol.eof_received() *)
| Reset                                  (* protocol.connection_lost(exc) *)
| Close.                                 (* conn.close() (also the client's reaction to a timeout) *)

Definition init (c : Z) : state := mkS [] [] true c 0 [].

(* ------------------------------------------------------------------ wire primitives *)
Definition be32s (a b c d : Z) : Z :=
  let u := ((a * 256 + b) * 256 + c) * 256 + d in
  if u >=? 2147483648 then u - 4294967296 else u.

(* UnsignedVarInt32.decode: at most four continuation bytes; no masking of the result *)
Fixpoint uvarint_go (fuel : nat) (i value : Z) (s : bytes) : option (Z * bytes) :=
  match fuel with
  | O => None
  | S f =>
      match s with
      | [] => None                                        (* struct.error on an empty read *)
      | b :: r =>
          if Z.land b 128 =? 0 then Some (Z.lor value (Z.shiftl b i), r)
          else if i + 7 >? 28 then None                   (* ValueError *)
          else uvarint_go f (i + 7) (Z.lor value (Z.shiftl (Z.land b 127) i)) r
      end
  end.
Definition uvarint (s : bytes) : option (Z * bytes) := uvarint_go 6 0 0 s.

(* TaggedFields.decode: tags strictly increasing; a value shorter than its declared size is an under-run
   (ValueError since /repo 68a8838 "fix: a tagged field cut short is a decoding error"; before, data.read(size) tolerated it) *)
Fixpoint tags_go (fuel : nat) (n prev : Z) (s : bytes) : option bytes :=
  if n <=? 0 then Some s else
  match fuel with
  | O => None
  | S f =>
      match uvarint s with
      | None => None
      | Some (tag, s1) =>
          if tag <=? prev then None else
          match uvarint s1 with
          | None => None
          | Some (size, s2) =>
              if Z.of_nat (length s2) <? size then None
              else tags_go f (n - 1) tag (skipn (Z.to_nat size) s2)
          end
      end
  end.
Definition parse_tags (s : bytes) : option bytes :=
  match uvarint s with
  | None => None
  | Some (n, s1) => tags_go (S (length s1)) n (-1) s1
  end.

(* request.parse_response_header: (correlation id, rest = body) *)
Definition parse_header (flex : bool) (f : bytes) : option (Z * bytes) :=
  match f with
  | a :: b :: c :: d :: r =>
      if flex then match parse_tags r with Some body => Some (be32s a b c d, body) | None => None end
      else Some (be32s a b c d, r)
  | _ => None
  end.

(* what the reader task can extract from the buffer *)
Inductive extracted : Type :=
| NeedMore
| BadSize                          (* negative size: readexactly raises ValueError *)
| Frame (f rest : bytes).

Definition extract (b : bytes) : extracted :=
  match b with
  | a0 :: a1 :: a2 :: a3 :: r =>
      let size := be32s a0 a1 a2 a3 in
      if size <? 0 then BadSize
      else if Z.of_nat (length r) <? size then NeedMore
      else Frame (firstn (Z.to_nat size) r) (skipn (Z.to_nat size) r)
  | _ => NeedMore
  end.

(* ------------------------------------------------------------------ transitions *)
Definition fail_entry (c : cause) (lg : list logent) (e : entry) : list logent :=
  if e_done e then lg else mkL (e_id e) (e_corr e) (e_quirk e) (ConnErr c) :: lg.

(* close(): every future that is not done fails with KafkaConnectionError; the deque is
   replaced by an empty one; the reader is dropped *)
Definition close (c : cause) (s : state) : state :=
  if open s then mkS [] [] false (corr s) (nsent s) (fold_left (fail_entry c) (reqs s) (log s))
  else s.

Definition set_done (e : entry) : entry :=
  mkE (e_id e) (e_corr e) (e_api e) (e_flex e) (e_quirk e) true.

Definition log_of (e : entry) (w : why) : logent := mkL (e_id e) (e_corr e) (e_quirk e) w.

Section Conn.
  Variable decodes : Z -> bytes -> bool.       (* RESPONSE_TYPE.decode succeeds *)

  (* _handle_frame on a connection whose queue is [e :: tl] *)
  Definition pop (s : state) (tl : list entry) (lg : list logent) : state :=
    mkS tl (rbuf s) (open s) (corr s) (nsent s) lg.

  Definition handle (s : state) (f : bytes) : state :=
    match reqs s with
    | [] => close CUnsolicited s                                   (* self._requests[0]: IndexError *)
    | e :: tl =>
        match e_corr e with
        | None =>
            if e_done e then pop s tl (log s) else pop s tl (log_of e (RawResp f) :: log s)
        | Some c =>
            match parse_header (e_flex e) f with
            | None => close CMalformed s
            | Some (rc, body) =>
                if negb (e_quirk e && negb (c =? 0) && (rc =? 0)) && negb (rc =? c) then
                  (* CorrelationIdError for the head (if not done), then close(OUT_OF_SYNC) *)
                  close CNone
                    (mkS (set_done e :: tl) (rbuf s) (open s) (corr s) (nsent s)
                         (if e_done e then log s else log_of e CorrErr :: log s))
                else if e_done e then pop s tl (log s)
                else if decodes (e_api e) body then pop s tl (log_of e (Resp f) :: log s)
                else close CMalformed s
            end
        end
    end.

  (* the reader task: extract and handle complete frames while the connection is open *)
  Fixpoint drain (fuel : nat) (s : state) : state :=
    match fuel with
    | O => s
    | S n =>
        if open s then
          match extract (rbuf s) with
          | NeedMore => s
          | BadSize => close CMalformed s
          | Frame f rest =>
              drain n (handle (mkS (reqs s) rest (open s) (corr s) (nsent s) (log s)) f)
          end
        else s
    end.

  Definition append (c : bytes) (s : state) : state :=
    if open s then mkS (reqs s) (rbuf s ++ c) (open s) (corr s) (nsent s) (log s) else s.

  Definition feed (c : bytes) (s : state) : state :=
    let s1 := append c s in drain (S (length (rbuf s1))) s1.

  Definition finish_waiter (id : nat) (w : why) (s : state) : state :=
    match find (fun e => Nat.eqb (e_id e) id && negb (e_done e)) (reqs s) with
    | Some e =>
        mkS (map (fun e' => if Nat.eqb (e_id e') id then set_done e' else e') (reqs s))
            (rbuf s) (open s) (corr s) (nsent s) (log_of e w :: log s)
    | None => s
    end.

  Definition step (s : state) (ev : event) : state :=
    match ev with
    | Send api flex quirk =>
        if open s then
          let c' := NextCorr.post (corr s) in
          mkS (reqs s ++ [mkE (nsent s) (Some c') api flex quirk false]) (rbuf s) true c'
              (S (nsent s)) (log s)
        else mkS (reqs s) (rbuf s) false (corr s) (S (nsent s))
                 (mkL (nsent s) None quirk (ConnErr CNoConn) :: log s)
    | SendNoResp =>
        if open s then mkS (reqs s) (rbuf s) true (NextCorr.post (corr s)) (nsent s) (log s) else s
    | SendRaw =>
        if open s then
          mkS (reqs s ++ [mkE (nsent s) None 0 false false false]) (rbuf s) true (corr s)
              (S (nsent s)) (log s)
        else mkS (reqs s) (rbuf s) false (corr s) (S (nsent s))
                 (mkL (nsent s) None false (ConnErr CNoConn) :: log s)
    | Feed c => feed c s
    | Timeout id via_client =>
        match find (fun e => Nat.eqb (e_id e) id && negb (e_done e)) (reqs s) with
        | Some _ =>
            let s1 := finish_waiter id TimedOut s in
            if via_client then close CNone s1 else s1
        | None => s
        end
    | Cancel id => finish_waiter id Cancelled s
    | Eof => close CEof s
    | Reset => close CReset s
    | Close => close CNone s
    end.

  Definition run (s : state) (evs : list event) : state := fold_left step evs s.

  (* outcome of waiter id: its (unique) log entry, if any *)
  Definition outcome (s : state) (id : nat) : option why :=
    match find (fun l => Nat.eqb (l_id l) id) (log s) with
    | Some l => Some (l_why l)
    | None => None
    end.
End Conn.

(* ------------------------------------------------------------------ oracle instantiation *)
Module Oracle.
  Definition hexval (c : ascii) : Z :=
    let n := Z.of_N (N_of_ascii c) in if n <? 58 then n - 48 else n - 87.
  Fixpoint hx (s : string) : bytes :=
    match s with
    | String a (String b r) => (16 * hexval a + hexval b) :: hx r
    | _ => []
    end.

  (* slice [a, b) of a stream defined once per family of scenarios *)
  Definition sl (s : bytes) (a b : Z) : bytes := firstn (Z.to_nat (b - a)) (skipn (Z.to_nat a) s).

  Fixpoint list_eqb (a b : bytes) : bool :=
    match a, b with
    | [], [] => true
    | x :: a', y :: b' => (x =? y) && list_eqb a' b'
    | _, _ => false
    end.

  (* table of (api, body) -> decodes; a miss answers false *)
  Fixpoint lookup (t : list (Z * bytes * bool)) (api : Z) (body : bytes) : bool :=
    match t with
    | [] => false
    | (a, b, r) :: t' => if (a =? api) && list_eqb b body then r else lookup t' api body
    end.

  (* compact rendering of the final state for the harness:
     (open, corr, ids still pending, [(id, outcome code, frame)]) *)
  Definition code (w : why) : Z * bytes :=
    match w with
    | Resp f => (0, f)
    | RawResp f => (1, f)
    | CorrErr => (2, [])
    | ConnErr CNone => (10, [])
    | ConnErr CEof => (11, [])
    | ConnErr CReset => (12, [])
    | ConnErr CUnsolicited => (13, [])
    | ConnErr CMalformed => (14, [])
    | ConnErr CNoConn => (15, [])
    | TimedOut => (3, [])
    | Cancelled => (4, [])
    end.

  Definition render (s : state) :=
    (open s, corr s,
     map (fun e => Z.of_nat (e_id e)) (filter (fun e => negb (e_done e)) (reqs s)),
     map (fun l => (Z.of_nat (l_id l), code (l_why l))) (rev (log s)),
     Z.of_nat (length (rbuf s)), Z.of_nat (length (reqs s))).

  Definition run_render (t : list (Z * bytes * bool)) (c0 : Z) (evs : list event) :=
    render (run (lookup t) (init c0) evs).
End Oracle.
