(* Shutdown.v — C19: control skeleton of stop().
   (1) commit_loop: GroupCoordinator.commit_offsets' retry loop as a function of the outcomes of
       successive attempts and of the `closing` flag (after the fix 0b1c6ce a retriable error is
       raised, not retried, once closing);
   (2) consumer_stop / producer_stop: the await points of stop() in order, each with an outcome
       chosen by an environment oracle and a duration bounded by the request timeout T.
   Hand models; tied to the code by the simulator: the requests observed during the real stop()
   must be a path of the skeleton and its virtual duration must respect the proved bound. *)
From Coq Require Import List Bool Arith.
Import ListNotations.

Inductive attempt := AOk | ARetriable | AFatal | AMembership.   (* outcome of one _do_commit_offsets *)
Inductive cresult := CDone | CRaised | CFuel.

(* returns (number of attempts made, result) *)
Fixpoint commit_loop (closing : bool) (outs : list attempt) : nat * cresult :=
  match outs with
  | [] => (0, CFuel)                    (* the oracle's script ended while still retrying *)
  | AOk :: _ => (1, CDone)
  | AFatal :: _ | AMembership :: _ => (1, CRaised)
  | ARetriable :: rest =>
      if closing then (1, CRaised)
      else let (n, r) := commit_loop closing rest in (S n, r)
  end.

(* await points of AIOKafkaConsumer.stop() with a group; d = duration of that await *)
Inductive point :=
| PendingRejoin (d : nat)     (* coordination task inside JoinGroup/SyncGroup when close() was called *)
| LastCommit (attempts : list (attempt * nat))    (* each attempt with its duration *)
| LeaveGroup (d : nat)
| CloseFetcher
| CloseClient.

Definition attempts_time (closing : bool) (l : list (attempt * nat)) : nat :=
  let n := fst (commit_loop closing (map fst l)) in
  fold_left Nat.add (map snd (firstn n l)) 0.

Definition point_time (p : point) : nat :=
  match p with
  | PendingRejoin d => d
  | LastCommit l => attempts_time true l
  | LeaveGroup d => d
  | CloseFetcher | CloseClient => 0
  end.

(* the paths of stop(): optional pending rejoin (JoinGroup + SyncGroup at most), the last commit
   (group consumers with auto-commit), one LeaveGroup attempt (if a generation was joined), closes *)
Inductive path :=
| PathFull (rejoin : option nat) (commit : option (list (attempt * nat))) (leave : option nat).

Definition points (p : path) : list point :=
  match p with
  | PathFull r c l =>
      (match r with Some d => [PendingRejoin d] | None => [] end) ++
      (match c with Some a => [LastCommit a] | None => [] end) ++
      (match l with Some d => [LeaveGroup d] | None => [] end) ++ [CloseFetcher; CloseClient]
  end.

Definition stop_time (p : path) : nat := fold_left Nat.add (map point_time (points p)) 0.

Definition opt_le (o : option nat) (b : nat) : bool := match o with Some d => d <=? b | None => true end.

(* every single await is bounded by the request timeout T (a pending rejoin is two requests) *)
Definition bounded (T : nat) (p : path) : bool :=
  match p with
  | PathFull r c l =>
      opt_le r (2 * T) &&
      (match c with Some a => forallb (fun ad => snd ad <=? T) a | None => true end) &&
      opt_le l T
  end.
