(* C07_Txn.v — transactional producer instances composed with the environment
   (transaction coordinator, partition logs with markers, transactional group offsets).

   Client part (per producer instance; read from the code, not idealised):
     aiokafka/producer/transaction_manager.py  state, _txn_partitions, _pending_txn_partitions,
       _txn_consumer_group, _pending_txn_offsets, begin/committing/aborting/complete/error/fatal,
       maybe_add_partition_to_txn, add_offsets_to_txn, partition_added, consumer_group_added,
       offset_committed — transitions through the TRANSLATED table (C16_TxnApi.table);
     aiokafka/producer/sender.py  _sender_routine (one transactional task at a time, muting of
       partitions_to_add), _maybe_do_transactional_request (priority AddPartitions > AddOffsets >
       TxnOffsetCommit > EndTxn), _do_txn_commit (flush_for_commit, empty-transaction shortcut);
     aiokafka/producer/message_accumulator.py  batches per partition, _pop_batch / reenqueue /
       flush_for_commit; producer.py send guard.
   Environment part (the executable twin of harness/simkit/txncoord.py + cluster.py):
     coordinator Empty / Ongoing / Prepare(commit|abort) / Complete(commit|abort), epoch, registered
     partitions; one global log of (partition, entry) in arrival order with data entries and
     markers; the transactional offsets of the consumer group are the log of the pseudo partition
     [GROUPP] (AddOffsetsToTxn registers it, TxnOffsetCommit appends to it, the commit marker
     materialises it) — exactly how Kafka stores them in __consumer_offsets.
   Reader: [rc_view] — what a read-committed consumer sees of a partition.

   [step s e = None]: the model does not allow e in s.  Traces recorded from the real producer under
   the simulator are replayed by [replay] inside Coq (harness/c07.py). *)
From Coq Require Import ZArith List Bool Arith.
From Verif Require Import Imp TxnTable C16_TxnApi.
Import ListNotations.

Definition GROUPP : nat := 99.     (* pseudo partition holding the group's transactional offsets *)

(* ---------- small list helpers ------------------------------------------------------------------ *)
Definition memn (x : nat) (l : list nat) : bool := existsb (Nat.eqb x) l.
Definition addn (x : nat) (l : list nat) : list nat := if memn x l then l else l ++ [x].
Fixpoint unionn (l m : list nat) : list nat :=
  match m with [] => l | x :: m' => unionn (addn x l) m' end.
Definition remn (x : nat) (l : list nat) : list nat := filter (fun y => negb (Nat.eqb x y)) l.
Definition is_niln {A} (l : list A) : bool := match l with [] => true | _ => false end.

(* ---------- environment -------------------------------------------------------------------------- *)
Definition tag := (nat * nat)%type.          (* (instance, index of its application transaction) *)
Inductive entry :=
| Data (ep : nat) (tg : tag) (items : list nat)
| Marker (ep : nat) (commit : bool).

Inductive cstate := EEmpty | EOngoing | EPrep (commit : bool) | EDone (commit : bool).

Record env := mkE {
  est : cstate;
  eep : nat;                               (* producer epoch the coordinator holds *)
  einit : bool;                            (* an InitProducerId has succeeded at least once *)
  eparts : list nat;                       (* registered partitions (GROUPP = the group) *)
  glog : list (nat * entry)                (* all partition logs, interleaved in arrival order *)
}.

Definition log_of (p : nat) (g : list (nat * entry)) : list entry :=
  map snd (filter (fun x => Nat.eqb (fst x) p) g).

(* read-committed view of one partition log: left-to-right, data of the open transaction is held
   back until its marker; what is still open at the end is above the last stable offset *)
Definition rc_step (st : list nat * list nat) (e : entry) : list nat * list nat :=
  let '(open, vis) := st in
  match e with
  | Data _ _ items => (open ++ items, vis)
  | Marker _ true => ([], vis ++ open)
  | Marker _ false => ([], vis)
  end.
Definition rc_state (l : list entry) : list nat * list nat := fold_left rc_step l ([], []).
Definition rc_view (l : list entry) : list nat := snd (rc_state l).
Definition rc_open (l : list entry) : list nat := fst (rc_state l).

Definition markers (ps : list nat) (ep : nat) (commit : bool) : list (nat * entry) :=
  map (fun p => (p, Marker ep commit)) ps.

(* ---------- client -------------------------------------------------------------------------------- *)
Record batch := mkB { bid : nat; bpart : nat; btag : nat; bitems : list nat }.

Inductive skind := KParts | KOffs | KToc | KEnd.
Inductive sstat := SPicked | SApplied | SNotApplied.   (* what happened to the task's request *)

Record client := mkC {
  alive : bool;
  cep : nat;                       (* producer epoch of this instance *)
  cst : tst;                       (* TransactionManager.state *)
  txn_parts : list nat;            (* _txn_partitions *)
  pend_parts : list nat;           (* _pending_txn_partitions *)
  grp : bool;                      (* _txn_consumer_group is not None *)
  pend_offs : list (list nat);     (* _pending_txn_offsets: entries of offset items *)
  queue : list batch;              (* accumulator, not yet drained (per partition: in order) *)
  inflight : list batch;           (* drained and unresolved (_pending_batches) *)
  slot : option (skind * sstat);   (* the single transactional task *)
  kcur : nat;                      (* index of the current application transaction *)
  (* ghost *)
  accepted : list (nat * nat);     (* (item, partition) accepted in transaction kcur *)
  lostb : bool                     (* a batch of transaction kcur failed *)
}.

Definition client0 : client :=
  mkC true 0 UNINIT [] [] false [] [] [] None 0 [] false.

Definition has_part_q (p : nat) (q : list batch) : bool := existsb (fun b => Nat.eqb (bpart b) p) q.

(* first batch of partition p in the queue, and the queue without it *)
Fixpoint take_head (p : nat) (q : list batch) : option (batch * list batch) :=
  match q with
  | [] => None
  | b :: q' => if Nat.eqb (bpart b) p then Some (b, q')
               else match take_head p q' with
                    | Some (x, r) => Some (x, b :: r)
                    | None => None
                    end
  end.

(* append an item to the LAST batch of partition p *)
Fixpoint snoc_item (p : nat) (bidx : nat) (x : nat) (q : list batch) : option (list batch) :=
  match q with
  | [] => None
  | b :: q' =>
      if Nat.eqb (bpart b) p && negb (has_part_q p q') then
        if Nat.eqb (bid b) bidx then Some (mkB (bid b) (bpart b) (btag b) (bitems b ++ [x]) :: q') else None
      else match snoc_item p bidx x q' with Some r => Some (b :: r) | None => None end
  end.

Fixpoint take_bid (n : nat) (q : list batch) : option (batch * list batch) :=
  match q with
  | [] => None
  | b :: q' => if Nat.eqb (bid b) n then Some (b, q')
               else match take_bid n q' with Some (x, r) => Some (x, b :: r) | None => None end
  end.

(* _maybe_do_transactional_request: the request the sender picks next *)
Definition next_kind (c : client) : option skind :=
  if negb (is_niln (pend_parts c)) then Some KParts
  else if negb (is_niln (pend_offs c)) then (if grp c then Some KToc else Some KOffs)
  else match cst c with COMMITTING | ABORTING => Some KEnd | _ => None end.

Definition is_empty_c (c : client) : bool := is_niln (txn_parts c) && negb (grp c).

(* ---------- global state and events --------------------------------------------------------------- *)
Inductive outcome := OCommitted | OAborted.

Record gstate := mkG {
  clients : list client;
  genv : env;
  ended : list (tag * outcome * list (nat * nat) * bool)
                                   (* ghost: application transactions whose commit / abort returned:
                                      tag, outcome, accepted (item, partition), some batch failed *)
}.

Definition g0 (n : nat) : gstate :=
  mkG (repeat client0 n) (mkE EEmpty 0 false [] []) [].

Inductive verdict := VApplied | VNot.       (* did the broker apply the request *)

Inductive event :=
(* environment alone *)
| EFence                                  (* InitProducerId meets an Ongoing transaction: epoch bump, PrepareAbort *)
| EMarkers                                (* the coordinator writes the markers of the prepared transaction *)
| EInitOk                                 (* an InitProducerId succeeds at the coordinator: epoch bump *)
| AStart (i : nat) (ep : nat)             (* instance i received its producer id and epoch ep *)
(* application / TransactionManager of instance i *)
| ABegin (i : nat)
| AAccept (i : nat) (x : nat) (p : nat) (b : nat) (newb : bool)   (* record x accepted into batch b *)
| AOffsets (i : nat) (items : list nat)
| ACommitting (i : nat)
| AAborting (i : nat)
| AComplete (i : nat)                     (* complete_transaction: commit/abort returns normally *)
| AError (i : nat)                        (* error_transaction *)
| AFatal (i : nat)                        (* fatal_error *)
| AKill (i : nat)                         (* the process is gone *)
(* sender of instance i *)
| TPick (i : nat) (k : option skind)      (* _maybe_do_transactional_request returned this task *)
| TDone (i : nat)                         (* the transactional task finished *)
| CPartAdded (i : nat) (p : nat)
| CGroupAdded (i : nat)
| COffCommitted (i : nat) (x : nat)
| SDrain (i : nat) (b : nat)
| SOk (i : nat) (b : nat)
| SRetry (i : nat) (b : nat)
| SFail (i : nat) (b : nat)
(* requests reaching the cluster *)
| RAddParts (i : nat) (ps : list nat) (v : verdict)
| RAddOffs (i : nat) (v : verdict)
| RToc (i : nat) (items : list nat) (v : verdict)
| REndTxn (i : nat) (commit : bool) (v : verdict)
| RProduce (i : nat) (b : nat) (v : verdict).   (* v = VApplied: appended by the leader *)

Fixpoint set_nth {A} (n : nat) (x : A) (l : list A) : list A :=
  match l, n with
  | [], _ => []
  | _ :: l', O => x :: l'
  | y :: l', S n' => y :: set_nth n' x l'
  end.

Definition get (s : gstate) (i : nat) : option client :=
  match nth_error (clients s) i with
  | Some c => if alive c then Some c else None
  | None => None
  end.
Definition put (s : gstate) (i : nat) (c : client) : gstate :=
  mkG (set_nth i c (clients s)) (genv s) (ended s).
Definition put_env (s : gstate) (e : env) : gstate := mkG (clients s) e (ended s).

(* field updates *)
Definition c_st (c : client) (t : tst) :=
  mkC (alive c) (cep c) t (txn_parts c) (pend_parts c) (grp c) (pend_offs c) (queue c) (inflight c)
      (slot c) (kcur c) (accepted c) (lostb c).
Definition c_slot (c : client) (x : option (skind * sstat)) :=
  mkC (alive c) (cep c) (cst c) (txn_parts c) (pend_parts c) (grp c) (pend_offs c) (queue c) (inflight c)
      x (kcur c) (accepted c) (lostb c).
Definition c_queues (c : client) (q f : list batch) :=
  mkC (alive c) (cep c) (cst c) (txn_parts c) (pend_parts c) (grp c) (pend_offs c) q f
      (slot c) (kcur c) (accepted c) (lostb c).
Definition c_clear (c : client) (t : tst) :=       (* error_transaction / fatal_error *)
  mkC (alive c) (cep c) t [] [] false [] (queue c) (inflight c) (slot c) (kcur c) (accepted c) (lostb c).

Definition slot_is (c : client) (k : skind) (st : sstat) : bool :=
  match slot c with
  | Some (k', st') => match k, k' with
                      | KParts, KParts | KOffs, KOffs | KToc, KToc | KEnd, KEnd =>
                          match st, st' with
                          | SPicked, SPicked | SApplied, SApplied | SNotApplied, SNotApplied => true
                          | _, _ => false
                          end
                      | _, _ => false
                      end
  | None => false
  end.
Definition slot_kind (c : client) (k : skind) : bool :=
  slot_is c k SPicked || slot_is c k SApplied || slot_is c k SNotApplied.
Definition vstat (v : verdict) : sstat := match v with VApplied => SApplied | VNot => SNotApplied end.

Definition not_prep (e : env) : bool := match est e with EPrep _ => false | _ => true end.

Definition tagof (i : nat) (c : client) : tag := (i, kcur c).

Definition list_eqb (l m : list nat) : bool :=
  (Nat.eqb (length l) (length m)) && forallb (fun x => memn x m) l && forallb (fun x => memn x l) m.

Definition step (s : gstate) (e : event) : option gstate :=
  let en := genv s in
  match e with
  (* ----- environment ----- *)
  | EFence =>
      match est en with
      | EOngoing => Some (put_env s (mkE (EPrep false) (S (eep en)) (einit en) (eparts en) (glog en)))
      | _ => None
      end
  | EMarkers =>
      match est en with
      | EPrep c => Some (put_env s (mkE (EDone c) (eep en) (einit en) []
                                        (glog en ++ markers (eparts en) (eep en) c)))
      | _ => None
      end
  | EInitOk =>
      match est en with
      | EEmpty | EDone _ =>
          let ep := if einit en then S (eep en) else 0%nat in
          Some (put_env s (mkE EEmpty ep true [] (glog en)))
      | _ => None
      end
  | AStart i ep =>
      match get s i with
      | Some c =>
          match cst c, trans UNINIT READY with
          | UNINIT, Some t =>
              if einit en && Nat.leb ep (eep en) then
                Some (put s i (mkC true ep t [] [] false [] [] [] None 0 [] false))
              else None
          | _, _ => None
          end
      | None => None
      end
  (* ----- application / transaction manager ----- *)
  | ABegin i =>
      match get s i with
      | Some c => match trans (cst c) IN_TXN with
                  | Some t => Some (put s i (mkC true (cep c) t (txn_parts c) (pend_parts c) (grp c)
                                                 (pend_offs c) (queue c) (inflight c) (slot c)
                                                 (S (kcur c)) [] false))
                  | None => None
                  end
      | None => None
      end
  | AAccept i x p b newb =>
      match get s i with
      | Some c =>
          match cst c with
          | IN_TXN =>
              let acc := accepted c ++ [(x, p)] in
              if newb then
                (* _append_batch: only when the partition has no queued batch; maybe_add_partition_to_txn *)
                if has_part_q p (queue c) then None
                else
                  let pp := if memn p (txn_parts c) || memn p (pend_parts c) then pend_parts c
                            else pend_parts c ++ [p] in
                  Some (put s i (mkC true (cep c) (cst c) (txn_parts c) pp (grp c) (pend_offs c)
                                     (queue c ++ [mkB b p (kcur c) [x]]) (inflight c) (slot c) (kcur c)
                                     acc (lostb c)))
              else
                match snoc_item p b x (queue c) with
                | Some q => Some (put s i (mkC true (cep c) (cst c) (txn_parts c) (pend_parts c) (grp c)
                                               (pend_offs c) q (inflight c) (slot c) (kcur c) acc (lostb c)))
                | None => None
                end
          | _ => None
          end
      | None => None
      end
  | AOffsets i items =>
      match get s i with
      | Some c =>
          match cst c with
          | IN_TXN => Some (put s i (mkC true (cep c) (cst c) (txn_parts c) (pend_parts c) (grp c)
                                         (pend_offs c ++ [items]) (queue c) (inflight c) (slot c) (kcur c)
                                         (accepted c ++ map (fun x => (x, GROUPP)) items) (lostb c)))
          | _ => None
          end
      | None => None
      end
  | ACommitting i =>
      match get s i with
      | Some c => match cst c, trans (cst c) COMMITTING with
                  | ABORTABLE, _ => None           (* commit raises the stored error instead *)
                  | _, Some t => Some (put s i (c_st c t))
                  | _, None => None
                  end
      | None => None
      end
  | AAborting i =>
      match get s i with
      | Some c => match trans (cst c) ABORTING with
                  | Some t => Some (put s i (c_st c t))
                  | None => None
                  end
      | None => None
      end
  | AComplete i =>
      match get s i with
      | Some c =>
          (* _do_txn_commit: either EndTxn was answered with success, or the transaction is empty
             for the client and no request is sent at all *)
          if is_niln (pend_parts c) && is_niln (pend_offs c)
             && (slot_is c KEnd SApplied || (slot_is c KEnd SPicked && is_empty_c c)) then
            match cst c, trans (cst c) READY with
            | COMMITTING, Some t | ABORTING, Some t =>
                let o := match cst c with COMMITTING => OCommitted | _ => OAborted end in
                Some (mkG (set_nth i (mkC true (cep c) t [] (pend_parts c) false (pend_offs c) (queue c)
                                          (inflight c) (slot c) (kcur c) (accepted c) (lostb c)) (clients s))
                          (genv s) (ended s ++ [(tagof i c, o, accepted c, lostb c)]))
            | _, _ => None
            end
          else None
      | None => None
      end
  | AError i =>
      match get s i with
      | Some c => match trans (cst c) ABORTABLE with
                  | Some t => Some (put s i (c_clear c t))
                  | None => None
                  end
      | None => None
      end
  | AFatal i =>
      match get s i with
      | Some c => match trans (cst c) FATAL with
                  | Some t => Some (put s i (c_clear c t))
                  | None => None
                  end
      | None => None
      end
  | AKill i =>
      match nth_error (clients s) i with
      | Some c => Some (put s i (mkC false (cep c) (cst c) (txn_parts c) (pend_parts c) (grp c) (pend_offs c)
                                     (queue c) (inflight c) (slot c) (kcur c) (accepted c) (lostb c)))
      | None => None
      end
  (* ----- sender: the single transactional task ----- *)
  | TPick i k =>
      match get s i with
      | Some c =>
          match slot c with
          | Some _ => None                                   (* one transactional task at a time *)
          | None =>
              match k, next_kind c with
              | None, None => Some s
              | Some KParts, Some KParts => Some (put s i (c_slot c (Some (KParts, SPicked))))
              | Some KOffs, Some KOffs => Some (put s i (c_slot c (Some (KOffs, SPicked))))
              | Some KToc, Some KToc => Some (put s i (c_slot c (Some (KToc, SPicked))))
              | Some KEnd, Some KEnd => Some (put s i (c_slot c (Some (KEnd, SPicked))))
              | _, _ => None                                 (* not the request the priority rule picks *)
              end
          end
      | None => None
      end
  | TDone i =>
      match get s i with
      | Some c => match slot c with Some _ => Some (put s i (c_slot c None)) | None => None end
      | None => None
      end
  | CPartAdded i p =>
      match get s i with
      | Some c =>
          if slot_is c KParts SApplied && memn p (pend_parts c) then
            Some (put s i (mkC true (cep c) (cst c) (addn p (txn_parts c)) (remn p (pend_parts c)) (grp c)
                               (pend_offs c) (queue c) (inflight c) (slot c) (kcur c) (accepted c) (lostb c)))
          else None
      | None => None
      end
  | CGroupAdded i =>
      match get s i with
      | Some c =>
          if slot_is c KOffs SApplied then
            Some (put s i (mkC true (cep c) (cst c) (txn_parts c) (pend_parts c) true (pend_offs c) (queue c)
                               (inflight c) (slot c) (kcur c) (accepted c) (lostb c)))
          else None
      | None => None
      end
  | COffCommitted i x =>
      match get s i with
      | Some c =>
          if slot_is c KToc SApplied then
            match pend_offs c with
            | items :: rest =>
                if memn x items then
                  let items' := remn x items in
                  Some (put s i (mkC true (cep c) (cst c) (txn_parts c) (pend_parts c) (grp c)
                                     (if is_niln items' then rest else items' :: rest) (queue c) (inflight c)
                                     (slot c) (kcur c) (accepted c) (lostb c)))
                else None
            | [] => None
            end
          else None
      | None => None
      end
  (* ----- sender: batches ----- *)
  | SDrain i b =>
      match get s i with
      | Some c =>
          match take_bid b (queue c) with
          | Some (x, q) =>
              (* the head batch of its partition; the partition is not waiting for AddPartitionsToTxn
                 (muting) and has no batch in flight *)
              match take_head (bpart x) (queue c) with
              | Some (h, _) =>
                  if Nat.eqb (bid h) b && negb (memn (bpart x) (pend_parts c))
                     && negb (has_part_q (bpart x) (inflight c))
                  then Some (put s i (c_queues c q (inflight c ++ [x])))
                  else None
              | None => None
              end
          | None => None
          end
      | None => None
      end
  | SOk i b =>
      match get s i with
      | Some c => match take_bid b (inflight c) with
                  | Some (_, f) => Some (put s i (c_queues c (queue c) f))
                  | None => None
                  end
      | None => None
      end
  | SRetry i b =>
      match get s i with
      | Some c => match take_bid b (inflight c) with
                  | Some (x, f) => Some (put s i (c_queues c (x :: queue c) f))
                  | None => None
                  end
      | None => None
      end
  | SFail i b =>
      match get s i with
      | Some c =>
          let c' := match take_bid b (inflight c) with
                    | Some (_, f) => Some (c_queues c (queue c) f)
                    | None => match take_bid b (queue c) with
                              | Some (_, q) => Some (c_queues c q (inflight c))
                              | None => None
                              end
                    end in
          match c' with
          | Some c1 => Some (put s i (mkC true (cep c1) (cst c1) (txn_parts c1) (pend_parts c1) (grp c1)
                                          (pend_offs c1) (queue c1) (inflight c1) (slot c1) (kcur c1)
                                          (accepted c1) true))
          | None => None
          end
      | None => None
      end
  (* ----- requests at the cluster ----- *)
  | RAddParts i ps v =>
      match get s i with
      | Some c =>
          if slot_is c KParts SPicked && list_eqb ps (pend_parts c) && negb (is_niln ps) then
            let s1 := put s i (c_slot c (Some (KParts, vstat v))) in
            match v with
            | VApplied =>
                if Nat.eqb (cep c) (eep en) && not_prep en then
                  Some (put_env s1 (mkE EOngoing (eep en) (einit en) (unionn (eparts en) ps) (glog en)))
                else None
            | VNot => Some s1
            end
          else None
      | None => None
      end
  | RAddOffs i v =>
      match get s i with
      | Some c =>
          if slot_is c KOffs SPicked then
            let s1 := put s i (c_slot c (Some (KOffs, vstat v))) in
            match v with
            | VApplied =>
                if Nat.eqb (cep c) (eep en) && not_prep en then
                  Some (put_env s1 (mkE EOngoing (eep en) (einit en) (addn GROUPP (eparts en)) (glog en)))
                else None
            | VNot => Some s1
            end
          else None
      | None => None
      end
  | RToc i items v =>
      match get s i with
      | Some c =>
          match pend_offs c with
          | hd :: _ =>
              if slot_is c KToc SPicked && list_eqb items hd then
                let s1 := put s i (c_slot c (Some (KToc, vstat v))) in
                match v with
                | VApplied =>
                    if Nat.eqb (cep c) (eep en) then
                      Some (put_env s1 (mkE (est en) (eep en) (einit en) (eparts en)
                                            (glog en ++ [(GROUPP, Data (cep c) (tagof i c) items)])))
                    else None
                | VNot => Some s1
                end
              else None
          | [] => None
          end
      | None => None
      end
  | REndTxn i commit v =>
      match get s i with
      | Some c =>
          (* EndTxn leaves only after flush_for_commit: nothing queued, nothing in flight; and the
             result is the one the application asked for *)
          if slot_is c KEnd SPicked && is_niln (queue c) && is_niln (inflight c)
             && negb (is_empty_c c)
             && (match cst c, commit with COMMITTING, true | ABORTING, false => true | _, _ => false end)
          then
            let s1 := put s i (c_slot c (Some (KEnd, vstat v))) in
            match v with
            | VApplied =>
                if Nat.eqb (cep c) (eep en) then
                  match est en with
                  | EOngoing => Some (put_env s1 (mkE (EPrep commit) (eep en) (einit en) (eparts en) (glog en)))
                  | EDone c0 => if Bool.eqb c0 commit then Some s1 else None    (* retried EndTxn *)
                  | _ => None
                  end
                else None
            | VNot => Some s1
            end
          else None
      | None => None
      end
  | RProduce i b v =>
      (* also a dead instance's last request may still be applied *)
      match nth_error (clients s) i with
      | Some c =>
          match take_bid b (inflight c) with
          | Some (x, _) =>
              match v with
              | VApplied =>
                  if Nat.eqb (cep c) (eep en) then
                    Some (put_env s (mkE (est en) (eep en) (einit en) (eparts en)
                                         (glog en ++ [(bpart x, Data (cep c) (i, btag x) (bitems x))])))
                  else None
              | VNot => Some s
              end
          | None => None
          end
      | None => None
      end
  end.

Fixpoint run (s : gstate) (tr : list event) : option gstate :=
  match tr with
  | [] => Some s
  | e :: tr' => match step s e with Some s' => run s' tr' | None => None end
  end.

Fixpoint first_reject (s : gstate) (tr : list event) (n : nat) : option nat :=
  match tr with
  | [] => None
  | e :: tr' => match step s e with Some s' => first_reject s' tr' (S n) | None => Some n end
  end.

(* ---------- outputs for the correspondence ---------------------------------------------------------- *)
(* (partition, epoch, kind 0 data / 1 commit marker / 2 abort marker, items) *)
Definition entry_obs (x : nat * entry) : nat * nat * nat * list nat :=
  match snd x with
  | Data ep _ items => (fst x, ep, 0, items)
  | Marker ep c => (fst x, ep, if c then 1 else 2, [])
  end%nat.
Definition est_num (c : cstate) : nat :=
  match c with EEmpty => 0 | EOngoing => 1 | EPrep true => 2 | EPrep false => 3
             | EDone true => 4 | EDone false => 5 end.
Definition outcome_num (o : outcome) : nat := match o with OCommitted => 1 | OAborted => 0 end.

(* inl (global log, coordinator (state, epoch, partitions), read-committed views per partition,
        ended application transactions, client states)  /  inr (index of the rejected event) *)
Definition replay (n : nat) (ps : list nat) (tr : list event) :=
  match run (g0 n) tr with
  | Some s =>
      inl (map entry_obs (glog (genv s)),
           (est_num (est (genv s)), eep (genv s), eparts (genv s)),
           map (fun p => (p, rc_view (log_of p (glog (genv s))))) ps,
           map (fun x => match x with (tg, o, acc, lost) => (tg, outcome_num o) end) (ended s),
           map (fun c => tcode (cst c)) (clients s))
  | None => inr (match first_reject (g0 n) tr O with Some k => k | None => O end)
  end.
