(* C07_Txn.v — transactional producer instances composed with the environment
   (transaction coordinator, partition logs with markers, transactional group offsets).

   Client part (per producer instance; read from the code, not idealised):
     aiokafka/producer/transaction_manager.py  state, _txn_partitions, _pending_txn_partitions,
       _txn_consumer_group, _pending_txn_offsets, begin/committing/aborting/complete/error/fatal,
       maybe_add_partition_to_txn, add_offsets_to_txn, partition_added, consumer_group_added,
       offset_committed — transitions through the TRANSLATED table (C16_TxnApi.table);
     aiokafka/producer/sender.py  _sender_routine (one transactional task at a time, muting of
       partitions_to_add), _maybe_do_transactional_request (priority AddPartitions > AddOffsets >
       TxnOffsetCommit > EndTxn), _do_txn_commit (flush_for_commit, empty-transaction shortcut);
     aiokafka/producer/message_accumulator.py  batches per partition, _pop_batch / reenqueue /
       flush_for_commit; producer.py send guard.
   Environment part (the executable twin of harness/simkit/txncoord.py + cluster.py):
     coordinator Empty / Ongoing / Prepare(commit|abort) / Complete(commit|abort), epoch, registered
     partitions; one global log of (partition, entry) in arrival order with data entries and
     markers; the transactional offsets of the consumer group are the log of the pseudo partition
     [GROUPP] (AddOffsetsToTxn registers it, TxnOffsetCommit appends to it, the commit marker
     materialises it) — exactly how Kafka stores them in __consumer_offsets.
   Reader: [rc_view] — what a read-committed consumer sees of a partition.

   [step s e = None]: the model does not allow e in s.  Traces recorded from the real producer under
   the simulator are replayed by [replay] inside Coq (harness/c07.py). *)
From Coq Require Import ZArith List Bool Arith.
From Verif Require Import Imp TxnTable C16_TxnApi.
Import ListNotations.

Definition GROUPP : nat := 99.     (* pseudo partition holding the group's transactional offsets *)

(* ---------- small list helpers ------------------------------------------------------------------ *)
Definition memn (x : nat) (l : list nat) : bool := existsb (Nat.eqb x) l.
Definition addn (x : nat) (l : list nat) : list nat := if memn x l then l else l ++ [x].
Fixpoint unionn (l m : list nat) : list nat :=
  match m with [] => l | x :: m' => unionn (addn x l) m' end.
Definition remn (x : nat) (l : list nat) : list nat := filter (fun y => negb (Nat.eqb x y)) l.
Definition is_niln {A} (l : list A) : bool := match l with [] => true | _ => false end.

(* ---------- environment -------------------------------------------------------------------------- *)
Definition tag := (nat * nat)%type.          (* (instance, index of its application transaction) *)
Inductive entry :=
| Data (ep : nat) (tg : tag) (items : list nat)
| Marker (ep : nat) (commit : bool).

Inductive cstate := EEmpty | EOngoing | EPrep (commit : bool) | EDone (commit : bool).

Record env := mkE {
  est : cstate;
  eep : nat;                               (* producer epoch the coordinator holds *)
  einit : bool;                            (* an InitProducerId has succeeded at least once *)
  eissued : list nat;                      (* epochs handed out by InitProducerId, not yet received *)
  eparts : list nat;                       (* registered partitions (GROUPP = the group) *)
  glog : list (nat * entry);               (* all partition logs, interleaved in arrival order *)
  (* ghost *)
  eowner : option tag;                     (* the application transaction that opened the current
                                              coordinator transaction *)
  edone : list (option tag * bool)         (* ended coordinator transactions: owner, committed? *)
}.

Definition log_of (p : nat) (g : list (nat * entry)) : list entry :=
  map snd (filter (fun x => Nat.eqb (fst x) p) g).

(* read-committed view of one partition log: left-to-right, data of the open transaction is held
   back until its marker; what is still open at the end is above the last stable offset.
   Items are paired with the tag of the application transaction that wrote them. *)
Definition rc_step (st : list (tag * nat) * list (tag * nat)) (e : entry)
  : list (tag * nat) * list (tag * nat) :=
  let '(open, vis) := st in
  match e with
  | Data _ tg items => (open ++ map (fun x => (tg, x)) items, vis)
  | Marker _ true => ([], vis ++ open)
  | Marker _ false => ([], vis)
  end.
Definition rc_state (l : list entry) := fold_left rc_step l ([], []).
Definition rc_view_t (l : list entry) : list (tag * nat) := snd (rc_state l).
Definition rc_open_t (l : list entry) : list (tag * nat) := fst (rc_state l).
Definition rc_view (l : list entry) : list nat := map snd (rc_view_t l).

Definition markers (ps : list nat) (ep : nat) (commit : bool) : list (nat * entry) :=
  map (fun p => (p, Marker ep commit)) ps.

(* ---------- client -------------------------------------------------------------------------------- *)
Record batch := mkB { bid : nat; bpart : nat; btag : nat; bitems : list nat; bsent : bool; bapp : bool }.
(* bsent: drained at least once (its builder is closed: no more records); bapp (ghost): the leader
   has appended it *)

Inductive skind := KParts | KOffs | KToc | KEnd.
Inductive sstat := SPicked | SApplied | SNotApplied.   (* what happened to the task's request *)

Record client := mkC {
  alive : bool;
  cep : nat;                       (* producer epoch of this instance *)
  cst : tst;                       (* TransactionManager.state *)
  txn_parts : list nat;            (* _txn_partitions *)
  pend_parts : list nat;           (* _pending_txn_partitions *)
  grp : bool;                      (* _txn_consumer_group is not None *)
  pend_offs : list (list nat);     (* _pending_txn_offsets: entries of offset items *)
  queue : list batch;              (* accumulator, not yet drained (per partition: in order) *)
  inflight : list batch;           (* drained and unresolved (_pending_batches) *)
  deadb : list batch;              (* drained batches whose futures were failed while the produce task
                                      is still running (fail_all): it may still send / re-send them *)
  slot : option (skind * sstat);   (* the single transactional task *)
  kcur : nat;                      (* index of the current application transaction *)
  (* ghost, about application transaction kcur *)
  accepted : list (nat * nat);     (* (item, partition) accepted *)
  lostb : bool;                    (* a batch failed / pending offsets were dropped *)
  capp : list (nat * nat);         (* (item, partition) appended by the brokers *)
  csent : bool;                    (* an EndTxn(commit) was applied *)
  cowned : bool;                   (* it has opened a coordinator transaction *)
  ctoc : list nat;                 (* offset items of the TxnOffsetCommit the group coordinator applied last *)
  cerr : bool;                     (* fatal_error happened (it clears the registered sets) *)
  creq : list nat;                 (* partitions of the AddPartitionsToTxn request the coordinator applied last *)
  cend : bool                      (* an EndTxn of this transaction was applied by the coordinator *)
}.

Definition client0 : client :=
  mkC true 0 UNINIT [] [] false [] [] [] [] None 0 [] false [] false false [] false [] false.

(* field updates *)
Definition set_alive (c : client) (x : bool) :=
  mkC x (cep c) (cst c) (txn_parts c) (pend_parts c) (grp c) (pend_offs c) (queue c) (inflight c) (deadb c)
      (slot c) (kcur c) (accepted c) (lostb c) (capp c) (csent c) (cowned c) (ctoc c) (cerr c) (creq c) (cend c).
Definition set_cep (c : client) (x : nat) :=
  mkC (alive c) x (cst c) (txn_parts c) (pend_parts c) (grp c) (pend_offs c) (queue c) (inflight c) (deadb c)
      (slot c) (kcur c) (accepted c) (lostb c) (capp c) (csent c) (cowned c) (ctoc c) (cerr c) (creq c) (cend c).
Definition set_cst (c : client) (x : tst) :=
  mkC (alive c) (cep c) x (txn_parts c) (pend_parts c) (grp c) (pend_offs c) (queue c) (inflight c) (deadb c)
      (slot c) (kcur c) (accepted c) (lostb c) (capp c) (csent c) (cowned c) (ctoc c) (cerr c) (creq c) (cend c).
Definition set_parts (c : client) (t p : list nat) :=
  mkC (alive c) (cep c) (cst c) t p (grp c) (pend_offs c) (queue c) (inflight c) (deadb c)
      (slot c) (kcur c) (accepted c) (lostb c) (capp c) (csent c) (cowned c) (ctoc c) (cerr c) (creq c) (cend c).
Definition set_grp (c : client) (x : bool) :=
  mkC (alive c) (cep c) (cst c) (txn_parts c) (pend_parts c) x (pend_offs c) (queue c) (inflight c) (deadb c)
      (slot c) (kcur c) (accepted c) (lostb c) (capp c) (csent c) (cowned c) (ctoc c) (cerr c) (creq c) (cend c).
Definition set_offs (c : client) (x : list (list nat)) :=
  mkC (alive c) (cep c) (cst c) (txn_parts c) (pend_parts c) (grp c) x (queue c) (inflight c) (deadb c)
      (slot c) (kcur c) (accepted c) (lostb c) (capp c) (csent c) (cowned c) (ctoc c) (cerr c) (creq c) (cend c).
Definition set_queue (c : client) (x : list batch) :=
  mkC (alive c) (cep c) (cst c) (txn_parts c) (pend_parts c) (grp c) (pend_offs c) x (inflight c) (deadb c)
      (slot c) (kcur c) (accepted c) (lostb c) (capp c) (csent c) (cowned c) (ctoc c) (cerr c) (creq c) (cend c).
Definition set_inflight (c : client) (x : list batch) :=
  mkC (alive c) (cep c) (cst c) (txn_parts c) (pend_parts c) (grp c) (pend_offs c) (queue c) x (deadb c)
      (slot c) (kcur c) (accepted c) (lostb c) (capp c) (csent c) (cowned c) (ctoc c) (cerr c) (creq c) (cend c).
Definition set_deadb (c : client) (x : list batch) :=
  mkC (alive c) (cep c) (cst c) (txn_parts c) (pend_parts c) (grp c) (pend_offs c) (queue c) (inflight c) x
      (slot c) (kcur c) (accepted c) (lostb c) (capp c) (csent c) (cowned c) (ctoc c) (cerr c) (creq c) (cend c).
Definition set_slot (c : client) (x : option (skind * sstat)) :=
  mkC (alive c) (cep c) (cst c) (txn_parts c) (pend_parts c) (grp c) (pend_offs c) (queue c) (inflight c) (deadb c)
      x (kcur c) (accepted c) (lostb c) (capp c) (csent c) (cowned c) (ctoc c) (cerr c) (creq c) (cend c).
Definition set_accepted (c : client) (x : list (nat * nat)) :=
  mkC (alive c) (cep c) (cst c) (txn_parts c) (pend_parts c) (grp c) (pend_offs c) (queue c) (inflight c) (deadb c)
      (slot c) (kcur c) x (lostb c) (capp c) (csent c) (cowned c) (ctoc c) (cerr c) (creq c) (cend c).
Definition set_lostb (c : client) (x : bool) :=
  mkC (alive c) (cep c) (cst c) (txn_parts c) (pend_parts c) (grp c) (pend_offs c) (queue c) (inflight c) (deadb c)
      (slot c) (kcur c) (accepted c) x (capp c) (csent c) (cowned c) (ctoc c) (cerr c) (creq c) (cend c).
Definition set_capp (c : client) (x : list (nat * nat)) :=
  mkC (alive c) (cep c) (cst c) (txn_parts c) (pend_parts c) (grp c) (pend_offs c) (queue c) (inflight c) (deadb c)
      (slot c) (kcur c) (accepted c) (lostb c) x (csent c) (cowned c) (ctoc c) (cerr c) (creq c) (cend c).
Definition set_csent (c : client) (x : bool) :=
  mkC (alive c) (cep c) (cst c) (txn_parts c) (pend_parts c) (grp c) (pend_offs c) (queue c) (inflight c) (deadb c)
      (slot c) (kcur c) (accepted c) (lostb c) (capp c) x (cowned c) (ctoc c) (cerr c) (creq c) (cend c).
Definition set_ctoc (c : client) (x : list nat) :=
  mkC (alive c) (cep c) (cst c) (txn_parts c) (pend_parts c) (grp c) (pend_offs c) (queue c) (inflight c) (deadb c)
      (slot c) (kcur c) (accepted c) (lostb c) (capp c) (csent c) (cowned c) x (cerr c) (creq c) (cend c).
Definition set_cerr (c : client) (x : bool) :=
  mkC (alive c) (cep c) (cst c) (txn_parts c) (pend_parts c) (grp c) (pend_offs c) (queue c) (inflight c) (deadb c)
      (slot c) (kcur c) (accepted c) (lostb c) (capp c) (csent c) (cowned c) (ctoc c) x (creq c) (cend c).
Definition set_creq (c : client) (x : list nat) :=
  mkC (alive c) (cep c) (cst c) (txn_parts c) (pend_parts c) (grp c) (pend_offs c) (queue c) (inflight c) (deadb c)
      (slot c) (kcur c) (accepted c) (lostb c) (capp c) (csent c) (cowned c) (ctoc c) (cerr c) x (cend c).
Definition set_cend (c : client) (x : bool) :=
  mkC (alive c) (cep c) (cst c) (txn_parts c) (pend_parts c) (grp c) (pend_offs c) (queue c) (inflight c) (deadb c)
      (slot c) (kcur c) (accepted c) (lostb c) (capp c) (csent c) (cowned c) (ctoc c) (cerr c) (creq c) x.
Definition set_cowned (c : client) (x : bool) :=
  mkC (alive c) (cep c) (cst c) (txn_parts c) (pend_parts c) (grp c) (pend_offs c) (queue c) (inflight c) (deadb c)
      (slot c) (kcur c) (accepted c) (lostb c) (capp c) (csent c) x (ctoc c) (cerr c) (creq c) (cend c).
(* begin_transaction: a new application transaction *)
Definition new_txn (c : client) (t : tst) :=
  mkC (alive c) (cep c) t (txn_parts c) (pend_parts c) (grp c) (pend_offs c) (queue c) (inflight c) []
      (slot c) (S (kcur c)) [] false [] false false [] false [] false.
(* fatal_error: partitions, group and pending offsets are forgotten *)
Definition c_clear (c : client) (t : tst) :=
  set_cerr (set_lostb (set_offs (set_grp (set_parts (set_cst c t) [] []) false) []) true) true.
(* error_transaction: what the coordinator has registered (_txn_partitions, _txn_consumer_group) is
   kept — the abort has to end it there —, the pending partitions and offsets are dropped *)
Definition c_err (c : client) (t : tst) :=
  set_lostb (set_offs (set_parts (set_cst c t) (txn_parts c) []) []) true.

Definition has_part_q (p : nat) (q : list batch) : bool := existsb (fun b => Nat.eqb (bpart b) p) q.
Definition has_bid (n : nat) (q : list batch) : bool := existsb (fun b => Nat.eqb (bid b) n) q.

(* first batch of partition p in the queue *)
Fixpoint head_of (p : nat) (q : list batch) : option batch :=
  match q with
  | [] => None
  | b :: q' => if Nat.eqb (bpart b) p then Some b else head_of p q'
  end.

(* append an item to the LAST batch of partition p, which must be batch bidx *)
Fixpoint snoc_item (p : nat) (bidx : nat) (x : nat) (q : list batch) : option (list batch) :=
  match q with
  | [] => None
  | b :: q' =>
      if Nat.eqb (bpart b) p && negb (has_part_q p q') then
        if Nat.eqb (bid b) bidx && negb (bsent b)
        then Some (mkB (bid b) (bpart b) (btag b) (bitems b ++ [x]) false (bapp b) :: q') else None
      else match snoc_item p bidx x q' with Some r => Some (b :: r) | None => None end
  end.

Fixpoint take_bid (n : nat) (q : list batch) : option (batch * list batch) :=
  match q with
  | [] => None
  | b :: q' => if Nat.eqb (bid b) n then Some (b, q')
               else match take_bid n q' with Some (x, r) => Some (x, b :: r) | None => None end
  end.

(* mark the first batch with this id as appended *)
Fixpoint mark_app (n : nat) (q : list batch) : list batch :=
  match q with
  | [] => []
  | b :: q' => if Nat.eqb (bid b) n then mkB (bid b) (bpart b) (btag b) (bitems b) (bsent b) true :: q'
               else b :: mark_app n q'
  end.

(* _maybe_do_transactional_request: the request the sender picks next *)
Definition next_kind (c : client) : option skind :=
  if negb (is_niln (pend_parts c)) then Some KParts
  else if negb (is_niln (pend_offs c)) then (if grp c then Some KToc else Some KOffs)
  else match cst c with COMMITTING | ABORTING => Some KEnd | _ => None end.

Definition is_empty_c (c : client) : bool := is_niln (txn_parts c) && negb (grp c).

(* ---------- global state and events --------------------------------------------------------------- *)
Inductive outcome := OCommitted | OAborted.

Record gstate := mkG {
  clients : list client;
  genv : env;
  ended : list (tag * outcome * list (nat * nat))
                                   (* ghost: application transactions whose commit / abort returned,
                                      with the (item, partition) pairs they had accepted *)
}.

Definition env0 : env := mkE EEmpty 0 false [] [] [] None [].
Definition g0 (n : nat) : gstate := mkG (repeat client0 n) env0 [].

Inductive verdict := VApplied | VNot.       (* did the broker apply the request *)

Inductive event :=
(* environment alone *)
| EFence                                  (* InitProducerId meets an Ongoing transaction: epoch bump, PrepareAbort *)
| EMarkers                                (* the coordinator writes the markers of the prepared transaction *)
| EInitOk                                 (* an InitProducerId succeeds at the coordinator: epoch bump *)
(* application / TransactionManager of instance i *)
| AStart (i : nat) (ep : nat)             (* instance i received its producer id and epoch ep *)
| ABegin (i : nat)
| AAccept (i : nat) (x : nat) (p : nat) (b : nat) (newb : bool)   (* record x accepted into batch b *)
| AOffsets (i : nat) (items : list nat)
| ACommitting (i : nat)
| AAborting (i : nat)
| AComplete (i : nat)                     (* complete_transaction: commit/abort returns normally *)
| AError (i : nat)                        (* error_transaction *)
| AFatal (i : nat)                        (* fatal_error *)
| AKill (i : nat)                         (* the process is gone *)
(* sender of instance i *)
| TPick (i : nat) (k : option skind)      (* _maybe_do_transactional_request returned this task *)
| TDone (i : nat)                         (* the transactional task finished *)
| CPartAdded (i : nat) (p : nat)
| CGroupAdded (i : nat)
| COffCommitted (i : nat) (x : nat)
| SDrain (i : nat) (b : nat)
| SOk (i : nat) (b : nat)
| SRetry (i : nat) (b : nat)
| SFail (i : nat) (b : nat)
(* requests reaching the cluster *)
| RAddParts (i : nat) (ps : list nat) (v : verdict)
| RAddOffs (i : nat) (v : verdict)
| RToc (i : nat) (items : list nat) (v : verdict)
| REndTxn (i : nat) (commit : bool) (v : verdict)
| RProduce (i : nat) (b : nat) (v : verdict).   (* v = VApplied: appended by the leader *)

Fixpoint set_nth {A} (n : nat) (x : A) (l : list A) : list A :=
  match l, n with
  | [], _ => []
  | _ :: l', O => x :: l'
  | y :: l', S n' => y :: set_nth n' x l'
  end.

Definition get (s : gstate) (i : nat) : option client :=
  match nth_error (clients s) i with
  | Some c => if alive c then Some c else None
  | None => None
  end.
Definition put (s : gstate) (i : nat) (c : client) : gstate :=
  mkG (set_nth i c (clients s)) (genv s) (ended s).
Definition put_env (s : gstate) (e : env) : gstate := mkG (clients s) e (ended s).

Definition skind_eqb (a b : skind) : bool :=
  match a, b with KParts, KParts | KOffs, KOffs | KToc, KToc | KEnd, KEnd => true | _, _ => false end.
Definition sstat_eqb (a b : sstat) : bool :=
  match a, b with SPicked, SPicked | SApplied, SApplied | SNotApplied, SNotApplied => true | _, _ => false end.
Definition slot_is (c : client) (k : skind) (st : sstat) : bool :=
  match slot c with Some (k', st') => skind_eqb k k' && sstat_eqb st st' | None => false end.
Definition vstat (v : verdict) : sstat := match v with VApplied => SApplied | VNot => SNotApplied end.

Definition not_prep (e : env) : bool := match est e with EPrep _ => false | _ => true end.
Definition is_ongoing (e : env) : bool := match est e with EOngoing => true | _ => false end.

Definition tagof (i : nat) (c : client) : tag := (i, kcur c).
Definition tag_eqb (a b : tag) : bool := Nat.eqb (fst a) (fst b) && Nat.eqb (snd a) (snd b).
Definition owner_is (e : env) (t : tag) : bool :=
  match eowner e with Some o => tag_eqb o t | None => false end.

Definition list_eqb (l m : list nat) : bool :=
  (Nat.eqb (length l) (length m)) && forallb (fun x => memn x m) l && forallb (fun x => memn x l) m.

(* the coordinator's open transaction has no data entry yet: nothing is open on any registered
   partition (nor on the group's offsets) *)
Definition no_open (en : env) : bool :=
  forallb (fun p => match rc_open_t (log_of p (glog en)) with [] => true | _ => false end) (eparts en).

(* environment transitions *)
(* The application transaction that registers while the coordinator has no transaction open becomes its
   owner (ghost).  A registration applied while the open coordinator transaction still holds no data
   takes it over: an application transaction that ended without EndTxn because none of its registrations
   had been acknowledged (their replies were lost) leaves such an empty transaction behind, and the next
   one simply continues it, as with the Java client. *)
Definition env_add (en : env) (ps : list nat) (t : tag) : env :=
  mkE EOngoing (eep en) (einit en) (eissued en) (unionn (eparts en) ps) (glog en)
      (if is_ongoing en then (if no_open en then Some t else eowner en) else Some t) (edone en).
Definition env_append (en : env) (p : nat) (x : entry) : env :=
  mkE (est en) (eep en) (einit en) (eissued en) (eparts en) (glog en ++ [(p, x)]) (eowner en) (edone en).
Definition env_st (en : env) (st : cstate) (ep : nat) : env :=
  mkE st ep (einit en) (eissued en) (eparts en) (glog en) (eowner en) (edone en).

Definition with_client (s : gstate) (i : nat) (f : client -> option client) : option gstate :=
  match get s i with
  | Some c => match f c with Some c' => Some (put s i c') | None => None end
  | None => None
  end.

Definition pairs (p : nat) (items : list nat) : list (nat * nat) := map (fun x => (x, p)) items.

Definition step (s : gstate) (e : event) : option gstate :=
  let en := genv s in
  match e with
  (* ----- environment ----- *)
  | EFence =>
      match est en with
      | EOngoing => Some (put_env s (env_st en (EPrep false) (S (eep en))))
      | _ => None
      end
  | EMarkers =>
      match est en with
      | EPrep c => Some (put_env s (mkE (EDone c) (eep en) (einit en) (eissued en) []
                                        (glog en ++ markers (eparts en) (eep en) c)
                                        None (edone en ++ [(eowner en, c)])))
      | _ => None
      end
  | EInitOk =>
      match est en with
      | EEmpty | EDone _ =>
          let ep := if einit en then S (eep en) else eep en in
          Some (put_env s (mkE EEmpty ep true (ep :: eissued en) [] (glog en) None (edone en)))
      | _ => None
      end
  (* ----- application / transaction manager ----- *)
  | AStart i ep =>
      match get s i with
      | Some c =>
          match cst c, trans UNINIT READY with
          | UNINIT, Some t =>
              if memn ep (eissued en) then
                Some (mkG (set_nth i (set_cep (set_cst c t) ep) (clients s))
                          (mkE (est en) (eep en) (einit en) (remn ep (eissued en)) (eparts en) (glog en)
                               (eowner en) (edone en))
                          (ended s))
              else None
          | _, _ => None
          end
      | None => None
      end
  | ABegin i =>
      with_client s i (fun c =>
        (* begin_transaction runs in the application after the previous commit/abort returned: the
           transactional task that completed it has ended *)
        match slot c, trans (cst c) IN_TXN with
        | None, Some t => Some (new_txn c t)
        | _, _ => None
        end)
  | AAccept i x p b newb =>
      with_client s i (fun c =>
        match cst c with
        | IN_TXN =>
            if Nat.eqb p GROUPP then None else
            let c1 := set_accepted c (accepted c ++ [(x, p)]) in
            if newb then
              (* _append_batch: only when the partition has no queued batch; maybe_add_partition_to_txn *)
              if has_part_q p (queue c) || has_bid b (queue c ++ inflight c ++ deadb c) then None
              else
                let pp := if memn p (txn_parts c) || memn p (pend_parts c) then pend_parts c
                          else pend_parts c ++ [p] in
                Some (set_queue (set_parts c1 (txn_parts c) pp) (queue c ++ [mkB b p (kcur c) [x] false false]))
            else
              match snoc_item p b x (queue c) with
              | Some q => Some (set_queue c1 q)
              | None => None
              end
        | _ => None
        end)
  | AOffsets i items =>
      with_client s i (fun c =>
        match cst c with
        | IN_TXN => Some (set_accepted (set_offs c (pend_offs c ++ [items]))
                                       (accepted c ++ pairs GROUPP items))
        | _ => None
        end)
  | ACommitting i =>
      with_client s i (fun c =>
        match cst c, trans (cst c) COMMITTING with
        | ABORTABLE, _ => None           (* commit raises the stored error instead *)
        | _, Some t => Some (set_cst c t)
        | _, None => None
        end)
  | AAborting i =>
      with_client s i (fun c =>
        match trans (cst c) ABORTING with Some t => Some (set_cst c t) | None => None end)
  | AComplete i =>
      match get s i with
      | Some c =>
          (* _do_txn_commit after flush_for_commit: either EndTxn was answered with success, or the
             transaction is empty for the client and no request is sent at all *)
          if is_niln (pend_parts c) && is_niln (pend_offs c) && is_niln (queue c) && is_niln (inflight c)
             && (slot_is c KEnd SApplied || (slot_is c KEnd SPicked && is_empty_c c)) then
            match cst c, trans (cst c) READY with
            | COMMITTING, Some t | ABORTING, Some t =>
                let o := match cst c with COMMITTING => OCommitted | _ => OAborted end in
                Some (mkG (set_nth i (set_deadb (set_grp (set_parts (set_cst c t) [] (pend_parts c)) false) [])
                                   (clients s))
                          (genv s) (ended s ++ [(tagof i c, o, accepted c)]))
            | _, _ => None
            end
          else None
      | None => None
      end
  | AError i =>
      with_client s i (fun c =>
        (* only the AddPartitionsToTxn / AddOffsetsToTxn / TxnOffsetCommit handlers call it *)
        match slot c, cst c with
        | Some (KParts, _), IN_TXN | Some (KOffs, _), IN_TXN | Some (KToc, _), IN_TXN
        | Some (KParts, _), COMMITTING | Some (KOffs, _), COMMITTING | Some (KToc, _), COMMITTING
        | Some (KParts, _), ABORTING | Some (KOffs, _), ABORTING | Some (KToc, _), ABORTING =>
            (* Sender._abortable_error: the queued batches of the partitions still waiting for
               AddPartitionsToTxn have been failed (fail_partitions) before the sets are cleared *)
            if forallb (fun b => negb (memn (bpart b) (pend_parts c))) (queue c) then
              match trans (cst c) ABORTABLE with Some t => Some (c_err c t) | None => None end
            else None
        | _, _ => None
        end)
  | AFatal i =>
      with_client s i (fun c =>
        (* the sender task exists only once the producer id has been obtained *)
        if (tcode (cst c) =? 1)%Z then None
        else match trans (cst c) FATAL with Some t => Some (c_clear c t) | None => None end)
  | AKill i =>
      match nth_error (clients s) i with
      | Some c => Some (put s i (set_alive c false))
      | None => None
      end
  (* ----- sender: the single transactional task ----- *)
  | TPick i k =>
      with_client s i (fun c =>
        match slot c with
        | Some _ => None                                   (* one transactional task at a time *)
        | None =>
            match k, next_kind c with
            | None, None => Some c
            | Some k1, Some k2 => if skind_eqb k1 k2 then Some (set_slot c (Some (k1, SPicked))) else None
            | _, _ => None                                 (* not the request the priority rule picks *)
            end
        end)
  | TDone i =>
      with_client s i (fun c =>
        match slot c with Some _ => Some (set_slot c None) | None => None end)
  | CPartAdded i p =>
      with_client s i (fun c =>
        if slot_is c KParts SApplied && memn p (pend_parts c) && memn p (creq c)
        then Some (set_parts c (addn p (txn_parts c)) (remn p (pend_parts c))) else None)
  | CGroupAdded i =>
      with_client s i (fun c => if slot_is c KOffs SApplied then Some (set_grp c true) else None)
  | COffCommitted i x =>
      with_client s i (fun c =>
        if slot_is c KToc SApplied && memn x (ctoc c) then
          match pend_offs c with
          | items :: rest =>
              if memn x items then
                let items' := remn x items in
                Some (set_offs c (if is_niln items' then rest else items' :: rest))
              else None
          | [] => None
          end
        else None)
  (* ----- sender: batches ----- *)
  | SDrain i b =>
      with_client s i (fun c =>
        match take_bid b (queue c) with
        | Some (x, q) =>
            (* the head batch of its partition; the partition is not waiting for AddPartitionsToTxn
               (muting) and has no batch in flight *)
            match head_of (bpart x) (queue c) with
            | Some h =>
                if Nat.eqb (bid h) b && negb (memn (bpart x) (pend_parts c))
                   && negb (has_part_q (bpart x) (inflight c))
                   && negb (tcode (cst c) =? 7)%Z          (* the sender is gone after fatal_error *)
                then Some (set_inflight (set_queue c q)
                                        (inflight c ++ [mkB (bid x) (bpart x) (btag x) (bitems x) true (bapp x)]))
                else None
            | None => None
            end
        | None => None
        end)
  | SOk i b =>
      with_client s i (fun c =>
        match take_bid b (inflight c) with
        | Some (x, f) => if bapp x then Some (set_inflight c f) else None
        | None => match cst c with FATAL => if has_bid b (deadb c) then Some c else None | _ => None end
        end)
  | SRetry i b =>
      with_client s i (fun c =>
        match take_bid b (inflight c) with
        | Some (x, f) => Some (set_queue (set_inflight c f) (x :: queue c))
        | None => match cst c with FATAL => if has_bid b (deadb c) then Some c else None | _ => None end
        end)
  | SFail i b =>
      with_client s i (fun c =>
        match take_bid b (inflight c) with
        | Some (x, f) => Some (set_lostb (set_deadb (set_inflight c f) (deadb c ++ [x])) true)
        | None => match take_bid b (queue c) with
                  | Some (_, q) => Some (set_lostb (set_queue c q) true)
                  | None => match cst c with
                            | FATAL => if has_bid b (deadb c) then Some c else None
                            | _ => None
                            end
                  end
        end)
  (* ----- requests at the cluster ----- *)
  | RAddParts i ps v =>
      match get s i with
      | Some c =>
          (* the request carries the pending partitions as they were when the handler built it, i.e. at
             some moment after the task was picked: a send() that creates a batch for another new
             partition before the request reaches the coordinator adds to the END of the pending list *)
          if slot_is c KParts SPicked && list_eqb ps (firstn (length ps) (pend_parts c)) && negb (is_niln ps) then
            match v with
            | VApplied =>
                if Nat.eqb (cep c) (eep en) && not_prep en
                then Some (put_env (put s i (set_creq (set_cowned (set_slot c (Some (KParts, SApplied)))
                                                                  (cowned c || negb (owner_is en (tagof i c)))) ps))
                                   (env_add en ps (tagof i c)))
                else None
            | VNot => Some (put s i (set_slot c (Some (KParts, SNotApplied))))
            end
          else None
      | None => None
      end
  | RAddOffs i v =>
      match get s i with
      | Some c =>
          if slot_is c KOffs SPicked then
            match v with
            | VApplied =>
                if Nat.eqb (cep c) (eep en) && not_prep en
                then Some (put_env (put s i (set_cowned (set_slot c (Some (KOffs, SApplied)))
                                                        (cowned c || negb (owner_is en (tagof i c)))))
                                   (env_add en [GROUPP] (tagof i c)))
                else None
            | VNot => Some (put s i (set_slot c (Some (KOffs, SNotApplied))))
            end
          else None
      | None => None
      end
  | RToc i items v =>
      match get s i with
      | Some c =>
          match pend_offs c with
          | hd :: _ =>
              if slot_is c KToc SPicked && list_eqb items hd then
                match v with
                | VApplied =>
                    if Nat.eqb (cep c) (eep en)
                    then Some (put_env (put s i (set_ctoc (set_capp (set_slot c (Some (KToc, SApplied)))
                                                                    (capp c ++ pairs GROUPP items)) items))
                                       (env_append en GROUPP (Data (cep c) (tagof i c) items)))
                    else None
                | VNot => Some (put s i (set_slot c (Some (KToc, SNotApplied))))
                end
              else None
          | [] => None
          end
      | None => None
      end
  | REndTxn i commit v =>
      match get s i with
      | Some c =>
          (* EndTxn leaves only after flush_for_commit: nothing queued, nothing in flight; and the
             result is the one the application asked for *)
          if slot_is c KEnd SPicked && is_niln (queue c) && is_niln (inflight c)
             && is_niln (pend_parts c) && is_niln (pend_offs c) && negb (is_empty_c c)
             && (match cst c, commit with COMMITTING, true | ABORTING, false => true | _, _ => false end)
          then
            match v with
            | VApplied =>
                let c1 := set_cend (set_deadb (set_csent (set_slot c (Some (KEnd, SApplied))) (csent c || commit)) [])
                                   true in
                if Nat.eqb (cep c) (eep en) then
                  match est en with
                  | EOngoing => Some (put_env (put s i c1) (env_st en (EPrep commit) (eep en)))
                  | EDone c0 => if Bool.eqb c0 commit then Some (put s i c1) else None    (* retried EndTxn *)
                  | _ => None
                  end
                else None
            | VNot => Some (put s i (set_slot c (Some (KEnd, SNotApplied))))
            end
          else None
      | None => None
      end
  | RProduce i b v =>
      (* also the last request of a process that has just died may still be applied *)
      match nth_error (clients s) i with
      | Some c =>
          let pool := inflight c ++ (match cst c with FATAL => deadb c | _ => [] end) in
          match take_bid b pool with
          | Some (x, _) =>
              match v with
              | VApplied =>
                  if Nat.eqb (cep c) (eep en)
                  then Some (put_env (put s i (set_capp (set_inflight c (mark_app b (inflight c)))
                                                        (capp c ++ pairs (bpart x) (bitems x))))
                                     (env_append en (bpart x) (Data (cep c) (i, btag x) (bitems x))))
                  else None
              | VNot => Some s
              end
          | None => None
          end
      | None => None
      end
  end.

Fixpoint run (s : gstate) (tr : list event) : option gstate :=
  match tr with
  | [] => Some s
  | e :: tr' => match step s e with Some s' => run s' tr' | None => None end
  end.

Fixpoint first_reject (s : gstate) (tr : list event) (n : nat) : option nat :=
  match tr with
  | [] => None
  | e :: tr' => match step s e with Some s' => first_reject s' tr' (S n) | None => Some n end
  end.

(* ---------- the client obligations, as checks on (state, event) --------------------------------- *)
(* 1 add_before_produce   2 end_after_acks   3 no_write_outside_txn   4 end_reaches_coordinator *)
Definition last_done_owner (en : env) : option tag :=
  match rev (edone en) with (o, _) :: _ => o | [] => None end.

Definition ob (s : gstate) (e : event) : option nat :=
  let en := genv s in
  match e with
  | RProduce i b VApplied =>
      match nth_error (clients s) i with
      | Some c =>
          match take_bid b (inflight c ++ (match cst c with FATAL => deadb c | _ => [] end)) with
          | Some (x, _) =>
              if negb (is_ongoing en && memn (bpart x) (eparts en)) then Some 1%nat
              else if negb (Nat.eqb (btag x) (kcur c) && owner_is en (i, btag x)) then Some 3%nat
              else None
          | None => None
          end
      | None => None
      end
  | RToc i _ VApplied =>
      match get s i with
      | Some c => if negb (is_ongoing en && memn GROUPP (eparts en)) then Some 1%nat
                  else if negb (owner_is en (tagof i c)) then Some 3%nat else None
      | None => None
      end
  | RAddParts i _ VApplied | RAddOffs i VApplied =>
      match get s i with
      | Some c =>
          (* registering into a coordinator transaction that another application transaction
             opened and wrote to, or opening / taking over a second one, is writing outside the
             transaction; taking over an open transaction that holds no data is not *)
          if is_ongoing en then (if owner_is en (tagof i c) || (no_open en && negb (cowned c)) then None
                                 else Some 3%nat)
          else (if cowned c then Some 3%nat else None)
      | None => None
      end
  | REndTxn i commit VApplied =>
      match get s i with
      | Some c =>
          match est en with
          | EOngoing => if negb (owner_is en (tagof i c)) then Some 3%nat
                        else if commit && lostb c then Some 2%nat else None
          | EDone _ => match last_done_owner en with
                       | Some o => if tag_eqb o (tagof i c) then None else Some 4%nat
                       | None => Some 4%nat
                       end
          | _ => None
          end
      | None => None
      end
  | AComplete i =>
      match get s i with
      | Some c =>
          (* abort is reported only if no EndTxn(commit) of this transaction was applied; a commit
             completes without EndTxn only if the transaction accepted nothing; an abort completes
             without EndTxn only if the coordinator holds no open transaction of it — or holds one that
             is still empty: the client skips EndTxn when none of its registrations was acknowledged
             (is_empty_transaction, guard of AComplete) and then nothing of it was produced or
             offset-committed; registrations whose replies were lost may be left at the coordinator *)
          if (match cst c with ABORTING => csent c | _ => false end) then Some 4%nat
          else if slot_is c KEnd SApplied then None
          else match cst c with
               | ABORTING => if owner_is en (tagof i c) && negb (is_niln (capp c) && no_open en)
                             then Some 4%nat else None
               | _ => if is_niln (accepted c) then None else Some 4%nat
               end
      | None => None
      end
  | _ => None
  end.

(* freshness of item ids (a property of the workload, not of the client) *)
Definition all_accepted (s : gstate) : list (nat * nat) :=
  flat_map accepted (clients s) ++ flat_map (fun x => snd x) (ended s).
Definition fresh (s : gstate) (e : event) : bool :=
  match e with
  | AAccept _ x _ _ _ => negb (memn x (map fst (all_accepted s)))
  | AOffsets _ items => forallb (fun x => negb (memn x (map fst (all_accepted s)))) items
  | _ => true
  end.

Fixpoint all_fresh (s : gstate) (tr : list event) : bool :=
  match tr with
  | [] => true
  | e :: tr' => fresh s e && match step s e with Some s' => all_fresh s' tr' | None => true end
  end.

(* run with the obligations enforced *)
Fixpoint run_ob (s : gstate) (tr : list event) : option gstate :=
  match tr with
  | [] => Some s
  | e :: tr' => match ob s e with
                | Some _ => None
                | None => match step s e with Some s' => run_ob s' tr' | None => None end
                end
  end.

(* first obligation violated along an accepted trace: (event index, obligation number) *)
Fixpoint first_ob (s : gstate) (tr : list event) (n : nat) : option (nat * nat) :=
  match tr with
  | [] => None
  | e :: tr' => match ob s e with
                | Some k => Some (n, k)
                | None => match step s e with Some s' => first_ob s' tr' (S n) | None => None end
                end
  end.

(* ---------- outputs for the correspondence ---------------------------------------------------------- *)
(* (partition, epoch, kind 0 data / 1 commit marker / 2 abort marker, items) *)
Definition entry_obs (x : nat * entry) : nat * nat * nat * list nat :=
  match snd x with
  | Data ep _ items => (fst x, ep, 0, items)
  | Marker ep c => (fst x, ep, if c then 1 else 2, [])
  end%nat.
Definition est_num (c : cstate) : nat :=
  match c with EEmpty => 0 | EOngoing => 1 | EPrep true => 2 | EPrep false => 3
             | EDone true => 4 | EDone false => 5 end.
Definition outcome_num (o : outcome) : nat := match o with OCommitted => 1 | OAborted => 0 end.

(* inl (global log, coordinator (state, epoch, partitions), read-committed views per partition,
        ended application transactions, client states, first obligation violated (event index,
        obligation) or (0, 0))  /  inr (index of the rejected event) *)
Definition replay (n : nat) (ps : list nat) (tr : list event) :=
  match run (g0 n) tr with
  | Some s =>
      inl (map entry_obs (glog (genv s)),
           (est_num (est (genv s)), eep (genv s), eparts (genv s)),
           map (fun p => (p, rc_view (log_of p (glog (genv s))))) ps,
           map (fun x => match x with (tg, o, acc) => (tg, outcome_num o) end) (ended s),
           map (fun c => tcode (cst c)) (clients s),
           (match first_ob (g0 n) tr O with Some x => x | None => (O, O) end,
            all_fresh (g0 n) tr))
  | None => inr (match first_reject (g0 n) tr O with Some k => k | None => O end)
  end.
