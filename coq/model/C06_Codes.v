(* C06_Codes.v — the error codes a Kafka group coordinator can put into a reply, per API (written
   from kafka.coordinator.group.GroupCoordinator; the same table drives the fault generator of the
   simulations, harness/impl/consumer_sim.py API_ERROR_CODES), and the classification of a
   translated dispatch chain that the statements in props/C06.v use. *)
From Coq Require Import ZArith List Bool.
From Verif Require Import DispatchActs.
Import ListNotations.
Open Scope Z_scope.

(* retriable coordinator-side conditions: none of them may end the member *)
Definition kafka_heartbeat_codes : list Z := [15; 16; 22; 25; 27].
Definition kafka_join_codes      : list Z := [14; 15; 16; 25].
Definition kafka_sync_codes      : list Z := [15; 16; 22; 25; 27].
Definition kafka_commit_codes    : list Z := [14; 15; 16; 22; 25; 27].
Definition MEMBER_ID_REQUIRED : Z := 79.
(* configuration / authorization conditions: reported to the application *)
Definition kafka_join_fatal_codes : list Z := [23; 24; 26; 30].

Inductive jclass := JOk | JRetryWithId | JRetryLater | JRaised.

Definition classify_join (retry_chain main_chain : Z -> list act) (c : Z) : jclass :=
  if has ARetryJoin (retry_chain c) then JRetryWithId
  else if has ASuccess (main_chain c) then JOk
  else if fatal (main_chain c) then JRaised
  else JRetryLater.

(* what the validation harness can observe of a chain when it runs the real handler: the recorded
   coordinator calls and sleeps in order, and how the handler ended *)
Definition observable (a : act) : bool :=
  match a with
  | ACoordinatorDead | ARequestRejoin | AResetGeneration | ABackoff => true
  | _ => false
  end.
Definition obs (l : list act) : list act := filter observable l.
Definition ending (l : list act) : act :=
  match filter (fun a => is_raise a || match a with AReturn _ => true | _ => false end) l with
  | a :: _ => a
  | [] => if has AErrored l then ARaiseSame else AFallThrough
  end.
