(* C14 / C15 — sticky assignor (aiokafka/coordinator/assignors/sticky/*.py).
   Executable definitions only:
     1. the boolean checkers of the property ([valid_b], [within_one_b], [kip54_balanced_b]);
     2. StickyAbs: the abstract nondeterministic machine (Drop / Assign / Snap / Move / Revert);
     3. StickyCtl: the control skeleton of StickyAssignmentExecutor as a *checker of op logs*:
        it replays the log recorded from the real executor, checking at every step the guard
        the code evaluates there (`_assign_partition`'s choice of the least loaded potential
        consumer, `_is_balanced`, the two triggers of `_perform_reassignments`, the
        substitution of `PartitionMovements.get_partition_to_be_moved`, the final revert
        decision of `balance`, recomputed).  What it abstracts: the order in which partitions are visited
        (`sorted_partitions`), i.e. which enabled step is taken next, and hash-order choices;
     4. [init_current]: `_init_current_assignments` (generation conflict resolution).
   A state is a list of ownership triples (owner, (topic, partition)); the order of the list
   is irrelevant to everything below (the code's per-consumer list order only matters for
   the visiting order, which is abstracted). *)
From Coq Require Import Arith List Bool PeanoNat ZArith.
From Verif Require Import C14_Assignors.
Import ListNotations.

Definition tp_eqb (a b : tp) : bool := Nat.eqb (fst a) (fst b) && Nat.eqb (snd a) (snd b).
Definition mem_tp (x : tp) (l : list tp) : bool := existsb (tp_eqb x) l.

Definition has_partition_b (ppt : layout) (x : tp) : bool :=
  match lookup_parts ppt (fst x) with Some n => snd x <? n | None => false end.

Definition is_member_b (ms : members_t) (c : member) : bool := mem_nat c (map fst ms).

(* c is a potential consumer of x: partition_to_all_potential_consumers[x] contains c *)
Definition potential_b (ppt : layout) (ms : members_t) (c : member) (x : tp) : bool :=
  is_member_b ms c && mem_nat (fst x) (subs_of ms c) && has_partition_b ppt x.

Definition potentials (ppt : layout) (ms : members_t) (x : tp) : list member :=
  filter (fun c => potential_b ppt ms c x) (map fst ms).

(* every partition the cluster stub knows *)
Definition all_parts (ppt : layout) : list tp :=
  flat_map (fun t => match lookup_parts ppt t with
                     | Some n => map (pair t) (seq 0 n)
                     | None => []
                     end) (nodup Nat.eq_dec (map fst ppt)).

Fixpoint owner (st : triples) (x : tp) : option member :=
  match st with
  | [] => None
  | (m, y) :: r => if tp_eqb y x then Some m else owner r x
  end.

Definition owns_b (st : triples) (c : member) (x : tp) : bool :=
  match owner st x with Some o => Nat.eqb o c | None => false end.

Fixpoint nodup_tp_b (l : list tp) : bool :=
  match l with
  | [] => true
  | x :: r => negb (mem_tp x r) && nodup_tp_b r
  end.

(* ------------------------------------------------------------------ 1. checkers *)
Definition valid_b (ppt : layout) (ms : members_t) (tr : triples) : bool :=
  nodup_tp_b (map snd tr)
  && forallb (fun e => potential_b ppt ms (fst e) (snd e)) tr
  && forallb (fun x => match potentials ppt ms x with
                       | [] => true
                       | _ => match owner tr x with Some _ => true | None => false end
                       end) (all_parts ppt).

Definition within_one_b (ms : members_t) (tr : triples) : bool :=
  forallb (fun a => forallb (fun b => load tr a <=? load tr b + 1) (map fst ms)) (map fst ms).

Definition kip54_balanced_b (ms : members_t) (tr : triples) : bool :=
  forallb (fun e =>
    forallb (fun o => negb (mem_nat (fst (snd e)) (subs_of ms o)) || (load tr (fst e) <? load tr o + 2))
            (map fst ms)) tr.

(* ------------------------------------------------------------------ 2. StickyAbs *)
Inductive aop :=
| ADrop                              (* _populate_partitions_to_reassign: forget invalid ownerships *)
| AAssign (x : tp) (c : member)      (* _assign_partition *)
| ASnap                              (* prebalance deep copy *)
| AMove (x : tp) (c : member)        (* _move_partition *)
| ARevert.                           (* restore the prebalance copy *)

Definition drop (ppt : layout) (ms : members_t) (st : triples) : triples :=
  filter (fun e => potential_b ppt ms (fst e) (snd e)) st.

Definition set_owner (st : triples) (x : tp) (c : member) : triples :=
  map (fun e => if tp_eqb (snd e) x then (c, x) else e) st.

Definition abs_step (ppt : layout) (ms : members_t) (s : triples * option triples) (o : aop)
  : option (triples * option triples) :=
  let '(st, snap) := s in
  match o with
  | ADrop => Some (drop ppt ms st, snap)
  | AAssign x c =>
    match owner st x with
    | Some _ => None
    | None => if potential_b ppt ms c x then Some (st ++ [(c, x)], snap) else None
    end
  | ASnap => Some (st, Some st)
  | AMove x c =>
    match owner st x with
    | None => None
    | Some _ => if potential_b ppt ms c x then Some (set_owner st x c, snap) else None
    end
  | ARevert => match snap with Some sn => Some (sn, snap) | None => None end
  end.

Fixpoint abs_run (ppt : layout) (ms : members_t) (s : triples * option triples) (ops : list aop)
  : option (triples * option triples) :=
  match ops with
  | [] => Some s
  | o :: r => match abs_step ppt ms s o with Some s' => abs_run ppt ms s' r | None => None end
  end.

(* ------------------------------------------------------------------ 3. StickyCtl *)
(* len(consumer_to_all_potential_partitions[c]) *)
Definition npot (ppt : layout) (ms : members_t) (c : member) : nat :=
  fold_right Nat.add 0
    (map (fun t => match lookup_parts ppt t with Some n => n | None => 0 end) (subs_of ms c)).

(* consumer_to_all_potential_partitions[c] *)
Definition potential_parts (ppt : layout) (ms : members_t) (c : member) : list tp :=
  flat_map (fun t => match lookup_parts ppt t with
                     | Some n => map (pair t) (seq 0 n)
                     | None => []
                     end) (subs_of ms c).

(* _can_partition_participate_in_reassignment *)
Definition movable_b (ppt : layout) (ms : members_t) (x : tp) : bool :=
  2 <=? length (potentials ppt ms x).

(* _can_consumer_participate_in_reassignment *)
Definition can_participate (ppt : layout) (ms : members_t) (st : triples) (c : member) : bool :=
  (load st c <? npot ppt ms c)
  || existsb (fun e => Nat.eqb (fst e) c && movable_b ppt ms (snd e)) st.

(* the consumers left in current_assignment / sorted_current_subscriptions after the
   "fixed" ones have been taken out *)
Definition scope (ppt : layout) (ms : members_t) (st : triples) : list member :=
  filter (can_participate ppt ms st) (map fst ms).

(* first element of sorted_current_subscriptions (key (len, id)) among cs *)
Definition less_loaded (st : triples) (a b : member) : bool :=
  (load st a <? load st b) || ((load st a =? load st b) && (a <? b)).
Fixpoint least_loaded (st : triples) (cs : list member) : option member :=
  match cs with
  | [] => None
  | c :: r => match least_loaded st r with
              | None => Some c
              | Some b => if less_loaded st b c then Some b else Some c
              end
  end.

Definition pairs_within_one (st : triples) (cs : list member) : bool :=
  forallb (fun a => forallb (fun b => load st a <=? load st b + 1) cs) cs.

(* _is_balanced, over the consumers in scope *)
Definition is_balanced_b (ppt : layout) (ms : members_t) (st : triples) (sc : list member) : bool :=
  pairs_within_one st sc
  || forallb (fun c =>
       (load st c =? npot ppt ms c)
       || forallb (fun x => owns_b st c x
                            || match owner st x with
                               | Some o => negb (load st c <? load st o)
                               | None => false          (* KeyError in the code *)
                               end) (potential_parts ppt ms c)) sc.

(* _get_balance_score *)
Definition absdiff (a b : nat) : nat := (a - b) + (b - a).
Fixpoint score (st : triples) (cs : list member) : nat :=
  match cs with
  | [] => 0
  | c :: r => fold_right Nat.add 0 (map (fun d => absdiff (load st c) (load st d)) r) + score st r
  end.

(* PartitionMovements.partition_movements : partition -> (src, dst) *)
Notation mvmap := (list ((nat * nat) * (nat * nat))) (only parsing).
Fixpoint mv_get (mv : mvmap) (x : tp) : option (member * member) :=
  match mv with
  | [] => None
  | (y, p) :: r => if tp_eqb y x then Some p else mv_get r x
  end.
Definition mv_remove (mv : mvmap) (x : tp) : mvmap := filter (fun e => negb (tp_eqb (fst e) x)) mv.

(* get_partition_to_be_moved: the set of partitions it may return (next(iter(set))) *)
Definition candidates (mv : mvmap) (x : tp) (c c' : member) : list tp :=
  let old := match mv_get mv x with Some (s, _) => s | None => c end in
  match map fst (filter (fun e => Nat.eqb (fst (fst e)) (fst x)
                                  && Nat.eqb (fst (snd e)) c' && Nat.eqb (snd (snd e)) old) mv) with
  | [] => [x]
  | qs => qs
  end.

(* move_partition(q, old_consumer = o, new_consumer = c') *)
Definition mv_move (mv : mvmap) (q : tp) (o c' : member) : mvmap :=
  match mv_get mv q with
  | Some (s, _) => if Nat.eqb s c' then mv_remove mv q else mv_remove mv q ++ [(q, (s, c'))]
  | None => mv ++ [(q, (o, c'))]
  end.

Notation prevmap := (list ((nat * nat) * nat)) (only parsing).   (* previous_assignment *)
Fixpoint prev_get (prev : prevmap) (x : tp) : option member :=
  match prev with
  | [] => None
  | (y, c) :: r => if tp_eqb y x then Some c else prev_get r x
  end.

(* len(self.current_assignment[c]) where current_assignment is a defaultdict from which the
   fixed consumers have been deleted *)
Definition load_sc (st : triples) (sc : list member) (c : member) : nat :=
  if mem_nat c sc then load st c else 0.

(* the two triggers of _perform_reassignments for partition x owned by c.  The previous
   owner (lower-generation claimant) counts only if it is a potential consumer of x
   (/repo c41f241); the membership test comes first, so the defaultdict is not touched for
   a claimant that was removed as a "fixed" consumer. *)
Definition prev_trigger (ppt : layout) (ms : members_t) (prev : prevmap) (st : triples)
  (sc : list member) (x : tp) (c : member) : option member :=
  match prev_get prev x with
  | Some pc => if mem_nat pc (potentials ppt ms x) && (load_sc st sc pc + 1 <? load st c)
               then Some pc else None
  | None => None
  end.
Definition gen_trigger (ppt : layout) (ms : members_t) (st : triples) (x : tp) (c : member) : bool :=
  existsb (fun o => load st o + 1 <? load st c) (potentials ppt ms x).

Definition opt_nat_eqb (a : option nat) (b : nat) : bool :=
  match a with Some a' => Nat.eqb a' b | None => false end.

(* one logged `_reassign_partition_to_consumer(x, c')` + `_move_partition(q, c')` *)
Definition ctl_reassign (ppt : layout) (ms : members_t) (prev : prevmap) (sc : list member)
  (s : triples * mvmap) (r : tp * member * tp) : option (triples * mvmap) :=
  let '(st, mv) := s in
  let '(x, c', q) := r in
  if is_balanced_b ppt ms st sc then None else
  if negb (movable_b ppt ms x) then None else
  match owner st x with
  | None => None
  | Some c =>
    let target_ok :=
      match prev_trigger ppt ms prev st sc x c with
      | Some pc => Nat.eqb pc c'
      | None => gen_trigger ppt ms st x c
                && opt_nat_eqb (least_loaded st (filter (fun o => potential_b ppt ms o x) sc)) c'
      end in
    if target_ok && mem_tp q (candidates mv x c c') && mem_nat c' sc then
      match owner st q with
      | None => None
      | Some oq => Some (set_owner st q c', mv_move mv q oq c')
      end
    else None
  end.

Fixpoint ctl_reassigns (ppt : layout) (ms : members_t) (prev : prevmap) (sc : list member)
  (s : triples * mvmap) (rs : list (tp * member * tp)) : option (triples * mvmap) :=
  match rs with
  | [] => Some s
  | r :: rest => match ctl_reassign ppt ms prev sc s r with
                 | Some s' => ctl_reassigns ppt ms prev sc s' rest
                 | None => None
                 end
  end.

(* one logged `_assign_partition(x)` that gave x to c *)
Definition ctl_assign (ppt : layout) (ms : members_t) (st : triples) (a : tp * member)
  : option triples :=
  let '(x, c) := a in
  match owner st x with
  | Some _ => None
  | None =>
    if opt_nat_eqb (least_loaded st (potentials ppt ms x)) c then Some (st ++ [(c, x)]) else None
  end.

Fixpoint ctl_assigns (ppt : layout) (ms : members_t) (st : triples) (l : list (tp * member))
  : option triples :=
  match l with
  | [] => Some st
  | a :: r => match ctl_assign ppt ms st a with
              | Some st' => ctl_assigns ppt ms st' r
              | None => None
              end
  end.

(* the assign loop of balance(): `for partition in unassigned_partitions: if no potential
   consumer: continue; _assign_partition(partition)` *)
Fixpoint assign_loop (ppt : layout) (ms : members_t) (st : triples) (xs : list tp) : triples :=
  match xs with
  | [] => st
  | x :: r =>
    match owner st x, least_loaded st (potentials ppt ms x) with
    | None, Some c => assign_loop ppt ms (st ++ [(c, x)]) r
    | _, _ => assign_loop ppt ms st r
    end
  end.

(* after the assign loop every partition with a potential consumer is owned *)
Definition complete_b (ppt : layout) (ms : members_t) (st : triples) : bool :=
  forallb (fun x => match potentials ppt ms x with
                    | [] => true
                    | _ => match owner st x with Some _ => true | None => false end
                    end) (all_parts ppt).

(* the reassignment loop may stop: _is_balanced() holds, or a whole pass finds no trigger *)
Definition no_trigger_b (ppt : layout) (ms : members_t) (prev : prevmap) (sc : list member)
  (st : triples) : bool :=
  forallb (fun e =>
    negb (movable_b ppt ms (snd e))
    || (match prev_trigger ppt ms prev st sc (snd e) (fst e) with Some _ => false | None => true end
        && negb (gen_trigger ppt ms st (snd e) (fst e)))) st.
Definition end_ok (ppt : layout) (ms : members_t) (prev : prevmap) (sc : list member)
  (st : triples) : bool :=
  is_balanced_b ppt ms st sc || no_trigger_b ppt ms prev sc st.

Definition isnil {A : Type} (l : list A) : bool := match l with [] => true | _ => false end.

Record ctl_result := {
  cr_final : triples;        (* executor.current_assignment at the end of balance() *)
  cr_reverted : bool;        (* the prebalance copy was restored *)
  cr_prebalance : triples;   (* state after the assign loop *)
  cr_balanced : triples      (* state after the reassignment loops, before the revert decision *)
}.

(* [obs_revert]: whether the real run restored the copy; the decision is recomputed here and
   must agree. *)
Definition ctl_run (ppt : layout) (ms : members_t) (prev : prevmap) (st0 : triples)
  (assigns : list (tp * member)) (reassigns : list (tp * member * tp)) (obs_revert : bool)
  : option ctl_result :=
  let st1 := drop ppt ms st0 in
  let initializing := isnil st1 in
  match ctl_assigns ppt ms st1 assigns with
  | None => None
  | Some st2 =>
    if negb (complete_b ppt ms st2) then None else
    let sc := scope ppt ms st2 in
    match ctl_reassigns ppt ms prev sc (st2, []) reassigns with
    | None => None
    | Some (st3, _) =>
      if negb (end_ok ppt ms prev sc st3) then None else
      let performed := negb (isnil reassigns) in
      let rev_model := negb initializing && performed && (score st2 sc <=? score st3 sc) in
      let agree := Bool.eqb obs_revert rev_model in
      if agree then
        Some {| cr_final := if obs_revert then st2 else st3; cr_reverted := obs_revert;
                cr_prebalance := st2; cr_balanced := st3 |}
      else None
    end
  end.

(* the same run as a sequence of StickyAbs operations *)
Definition ctl_aops (assigns : list (tp * member)) (reassigns : list (tp * member * tp))
  (rev : bool) : list aop :=
  ADrop :: map (fun a => AAssign (fst a) (snd a)) assigns
  ++ ASnap :: map (fun r => AMove (snd r) (snd (fst r))) reassigns
  ++ (if rev then [ARevert] else []).

(* ------------------------------------------------------------------ 4. _init_current_assignments *)
(* claims: per member in dict order (id, generation, claimed partitions in user-data order) *)
Notation claims_t := (list (nat * Z * list (nat * nat))) (only parsing).
Notation gens_t := (list (Z * nat)) (only parsing).       (* dict generation -> consumer *)

Fixpoint gens_put (g : Z) (c : member) (l : gens_t) : gens_t :=
  match l with
  | [] => [(g, c)]
  | (g', c') :: r => if Z.eqb g g' then (g, c) :: r else (g', c') :: gens_put g c r
  end.
Definition gens_mem (g : Z) (l : gens_t) : bool := existsb (fun e => Z.eqb (fst e) g) l.

Fixpoint claim_put (acc : list ((nat * nat) * gens_t)) (x : tp) (g : Z) (c : member)
  : list ((nat * nat) * gens_t) :=
  match acc with
  | [] => [(x, [(g, c)])]
  | (y, gens) :: r =>
    if tp_eqb y x then
      (* `if generation and generation in consumers`: same-generation double claim is skipped
         (but generation 0 is falsy: the later claim overwrites) *)
      if negb (Z.eqb g 0) && gens_mem g gens then (y, gens) :: r
      else (y, gens_put g c gens) :: r
    else (y, gens) :: claim_put r x g c
  end.

Definition claim_table (claims : claims_t) : list ((nat * nat) * gens_t) :=
  fold_left (fun acc cl => let '(c, g, xs) := cl in
                           fold_left (fun acc' x => claim_put acc' x g c) xs acc) claims [].

(* consumer of the highest generation, and of the second highest if any *)
Fixpoint gens_max (l : gens_t) : option (Z * nat) :=
  match l with
  | [] => None
  | e :: r => match gens_max r with
              | None => Some e
              | Some b => if Z.ltb (fst b) (fst e) then Some e else Some b
              end
  end.
Definition gens_without (g : Z) (l : gens_t) : gens_t := filter (fun e => negb (Z.eqb (fst e) g)) l.

Definition init_current (claims : claims_t) : triples * prevmap :=
  let tab := claim_table claims in
  (flat_map (fun e => match gens_max (snd e) with Some (_, c) => [(c, fst e)] | None => [] end) tab,
   flat_map (fun e => match gens_max (snd e) with
                      | Some (g, _) => match gens_max (gens_without g (snd e)) with
                                       | Some (_, c2) => [(fst e, c2)]
                                       | None => []
                                       end
                      | None => []
                      end) tab).

(* ------------------------------------------------------------------ C15 vocabulary *)
(* partitions owned in [old] by a member of [keep] whose owner differs in [new] *)
Definition moved_among (keep : list member) (old new : triples) : list (member * tp * member) :=
  flat_map (fun e =>
    if mem_nat (fst e) keep then
      match owner new (snd e) with
      | Some o => if Nat.eqb o (fst e) then [] else
                  if mem_nat o keep then [(fst e, snd e, o)] else []
      | None => []
      end
    else []) old.
