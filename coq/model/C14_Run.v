(* C14 / C15 — case runner shared by the in-Coq evaluation (vm_compute) and the OCaml
   extraction: decodes one case from a stream of small naturals, evaluates the models /
   checkers, encodes the outcome as a stream of naturals.  No proof depends on this file;
   a decoding bug shows up as a disagreement with the real code, never as agreement. *)
From Coq Require Import Arith List Bool PeanoNat ZArith.
From Verif Require Import C14_Assignors C14_Sticky.
Import ListNotations.

Definition P (A : Type) := list nat -> option (A * list nat).

Definition p_nat : P nat := fun s => match s with [] => None | x :: r => Some (x, r) end.

Fixpoint p_rep {A : Type} (p : P A) (n : nat) : P (list A) :=
  fun s =>
    match n with
    | 0 => Some ([], s)
    | S k => match p s with
             | None => None
             | Some (a, s1) => match p_rep p k s1 with
                               | None => None
                               | Some (l, s2) => Some (a :: l, s2)
                               end
             end
    end.

Definition p_list {A : Type} (p : P A) : P (list A) :=
  fun s => match s with [] => None | n :: r => p_rep p n r end.

Definition p_pair {A B : Type} (pa : P A) (pb : P B) : P (A * B) :=
  fun s => match pa s with
           | None => None
           | Some (a, s1) => match pb s1 with
                             | None => None
                             | Some (b, s2) => Some ((a, b), s2)
                             end
           end.

Definition p_map {A B : Type} (f : A -> B) (p : P A) : P B :=
  fun s => match p s with None => None | Some (a, s1) => Some (f a, s1) end.

Definition p_tp : P (nat * nat) := p_pair p_nat p_nat.
Definition p_layout : P (list (nat * option nat)) :=
  p_list (p_pair p_nat (p_map (fun v => match v with 0 => None | S k => Some k end) p_nat)).
Definition p_members : P (list (nat * list nat)) := p_list (p_pair p_nat (p_list p_nat)).
Definition p_triples : P (list (nat * (nat * nat))) := p_list (p_pair p_nat p_tp).
Definition p_claims : P (list (nat * Z * list (nat * nat))) :=
  p_list (p_pair (p_pair p_nat (p_map (fun g => (Z.of_nat g - 1)%Z) p_nat)) (p_list p_tp)).

(* ---- encoders *)
Definition e_list {A : Type} (e : A -> list nat) (l : list A) : list nat :=
  length l :: flat_map e l.
Definition e_assignment (out : list (nat * list (nat * list nat))) : list nat :=
  e_list (fun ma => fst ma :: e_list (fun tps => fst tps :: e_list (fun p => [p]) (snd tps)) (snd ma)) out.
Definition e_bool (b : bool) : nat := if b then 1 else 0.

(* ---- set comparison of small lists *)
Definition triple_eqb (a b : nat * (nat * nat)) : bool := Nat.eqb (fst a) (fst b) && tp_eqb (snd a) (snd b).
Definition subset_b {A : Type} (eqb : A -> A -> bool) (a b : list A) : bool :=
  forallb (fun x => existsb (eqb x) b) a.
Definition same_set_b {A : Type} (eqb : A -> A -> bool) (a b : list A) : bool :=
  Nat.eqb (length a) (length b) && subset_b eqb a b && subset_b eqb b a.
Definition prev_eqb (a b : (nat * nat) * nat) : bool := tp_eqb (fst a) (fst b) && Nat.eqb (snd a) (snd b).

(* ---- kind 0: range + round-robin on (layout, members) *)
Definition run_rr_range (s : list nat) : list nat :=
  match p_pair p_layout p_members s with
  | None => [99]
  | Some ((ppt, ms), _) =>
    e_assignment (range_assign ppt ms)
    ++ match roundrobin_assign ppt ms with
       | None => [0]
       | Some out => 1 :: e_assignment out
       end
  end.

(* ---- kind 1: one sticky run: claims, observed init, op log, observed revert, final *)
Definition run_sticky (s : list nat) : list nat :=
  match p_pair (p_pair (p_pair p_layout p_members) (p_pair p_claims (p_pair p_triples (p_list (p_pair p_tp p_nat)))))
               (p_pair (p_pair (p_list (p_pair p_tp p_nat)) (p_list (p_pair (p_pair p_tp p_nat) p_tp)))
                       (p_pair p_nat p_triples)) s with
  | None => [99]
  | Some ((((ppt, ms), (claims, (obs_init, obs_prev))), ((assigns, reassigns), (obs_rev, final))), _) =>
    let '(st0, prev) := init_current claims in
    let rev := negb (Nat.eqb obs_rev 0) in
    let r := ctl_run ppt ms prev st0 assigns reassigns rev in
    [ e_bool (same_set_b triple_eqb st0 obs_init);
      e_bool (same_set_b prev_eqb prev obs_prev);
      e_bool (match r with Some _ => true | None => false end);
      e_bool (match r with Some c => same_set_b triple_eqb (cr_final c) final | None => false end);
      e_bool (match abs_run ppt ms (st0, None) (ctl_aops assigns reassigns rev) with
              | Some (st, _) => same_set_b triple_eqb st final
              | None => false
              end);
      e_bool (valid_b ppt ms final);
      e_bool (within_one_b ms final);
      e_bool (kip54_balanced_b ms final);
      e_bool (match r with Some c => kip54_balanced_b ms (cr_balanced c) | None => false end);
      e_bool (isnil prev) ]
  end.

(* ---- kind 2: C15 pair: members to keep, old and new ownership *)
Definition run_moved (s : list nat) : list nat :=
  match p_pair (p_list p_nat) (p_pair p_triples p_triples) s with
  | None => [99]
  | Some ((keep, (old, new)), _) => [length (moved_among keep old new)]
  end.

(* ---- kind 3: the proved checkers on a given assignment (triples) *)
Definition run_checkers (s : list nat) : list nat :=
  match p_pair (p_pair p_layout p_members) p_triples s with
  | None => [99]
  | Some (((ppt, ms), tr), _) =>
    [ e_bool (valid_b ppt ms tr); e_bool (within_one_b ms tr); e_bool (kip54_balanced_b ms tr) ]
  end.

Definition run_case (s : list nat) : list nat :=
  match s with
  | 0 :: r => run_rr_range r
  | 1 :: r => run_sticky r
  | 2 :: r => run_moved r
  | 3 :: r => run_checkers r
  | _ => [98]
  end.
