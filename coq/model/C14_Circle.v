(* C14 — the third way the sticky assignor's balancing loop ends since /repo 0d5eafa: the assignment at the end of a
   pass has been seen at the end of an earlier pass (the passes go round in a circle).  [ctl_run] (C14_Sticky.v) knows
   the two proper exits - balanced, or a pass without a move - and its theorems speak about those; runs that end here
   are checked against [ctl_run_circle]: every logged move is enabled exactly as in [ctl_run], neither proper exit
   holds at the end, and the final ownership had already been reached after an earlier move.  Such a run yields a
   valid assignment (proof/C14_circle.v) which need not be balanced (props/C14.v: c14_sticky_circle_unbalanced). *)
From Coq Require Import Arith List Bool.
From Verif Require Import C14_Assignors C14_lists C14_Sticky C14_Run.
Import ListNotations.

(* ownership after each logged move *)
Fixpoint ctl_states (ppt : layout) (ms : members_t) (prev : prevmap) (sc : list member)
  (s : triples * mvmap) (rs : list (tp * member * tp)) : option (list triples) :=
  match rs with
  | [] => Some []
  | r :: rest =>
      match ctl_reassign ppt ms prev sc s r with
      | Some s' => match ctl_states ppt ms prev sc s' rest with
                   | Some l => Some (fst s' :: l)
                   | None => None
                   end
      | None => None
      end
  end.

Definition circle_b (ppt : layout) (ms : members_t) (prev : prevmap) (sc : list member)
  (st2 : triples) (rs : list (tp * member * tp)) (st3 : triples) : bool :=
  match ctl_states ppt ms prev sc (st2, []) rs with
  | Some sts => existsb (same_set_b triple_eqb st3) (removelast sts)
  | None => false
  end.

Definition ctl_run_circle (ppt : layout) (ms : members_t) (prev : prevmap) (st0 : triples)
  (assigns : list (tp * member)) (reassigns : list (tp * member * tp)) (obs_revert : bool)
  : option ctl_result :=
  let st1 := drop ppt ms st0 in
  let initializing := isnil st1 in
  match ctl_assigns ppt ms st1 assigns with
  | None => None
  | Some st2 =>
    if negb (complete_b ppt ms st2) then None else
    let sc := scope ppt ms st2 in
    match ctl_reassigns ppt ms prev sc (st2, []) reassigns with
    | None => None
    | Some (st3, _) =>
      if end_ok ppt ms prev sc st3 then None else              (* a proper exit: ctl_run's business *)
      if negb (circle_b ppt ms prev sc st2 reassigns st3) then None else
      let performed := negb (isnil reassigns) in
      let rev_model := negb initializing && performed && (score st2 sc <=? score st3 sc) in
      if Bool.eqb obs_revert rev_model then
        Some {| cr_final := if obs_revert then st2 else st3; cr_reverted := obs_revert;
                cr_prebalance := st2; cr_balanced := st3 |}
      else None
    end
  end.

(* one recorded sticky run (same stream as C14_Run.run_sticky) judged as a circle run:
   [accepted; final = returned; returned valid; returned KIP-54 balanced] *)
Definition run_sticky_circle (s : list nat) : list nat :=
  match p_pair (p_pair (p_pair p_layout p_members) (p_pair p_claims (p_pair p_triples (p_list (p_pair p_tp p_nat)))))
               (p_pair (p_pair (p_list (p_pair p_tp p_nat)) (p_list (p_pair (p_pair p_tp p_nat) p_tp)))
                       (p_pair p_nat p_triples)) s with
  | None => [99]
  | Some ((((ppt, ms), (claims, (obs_init, obs_prev))), ((assigns, reassigns), (obs_rev, final))), _) =>
    let '(st0, prev) := init_current claims in
    let rev := negb (Nat.eqb obs_rev 0) in
    let r := ctl_run_circle ppt ms prev st0 assigns reassigns rev in
    [ e_bool (match r with Some _ => true | None => false end);
      e_bool (match r with Some c => same_set_b triple_eqb (cr_final c) final | None => false end);
      e_bool (valid_b ppt ms final);
      e_bool (kip54_balanced_b ms final) ]
  end.
