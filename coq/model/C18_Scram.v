(* C18_Scram.v — executable model of aiokafka.conn.ScramAuthenticator (conn.py:660-754).

   Byte strings are [list Z].  The Python code works on [str] (server messages are decoded
   from UTF-8 first, the transcript is re-encoded before it is MACed); since every
   separator the code looks for (',' '=') is ASCII and UTF-8 is prefix-free, splitting /
   prefix tests on the UTF-8 bytes coincide with the same operations on code points, so the
   model works on bytes throughout and keeps only the *validity* test of the decoding step
   ([utf8_ok]; invalid input = UnicodeDecodeError).

   The hash primitives are abstract: the section below is parametrised by
     H      hashlib.sha256/sha512(x).digest()
     HMAC   hmac.new(key, msg, H).digest()
     Hi     hashlib.pbkdf2_hmac(name, password, salt, iterations)
     b64    base64.b64encode
     unb64  base64.b64decode (non-validating; None = binascii.Error)
   No hypothesis is needed to *define* the model; the hypotheses used by the theorems are
   stated where they are used (proof/C18_proof.v, props/C18.v).

   Exceptions are represented by the name of the Python exception class. *)
From Coq Require Import ZArith Ascii String List Bool.
From Verif Require Import Imp.
Import ListNotations.
Open Scope Z_scope.

Definition bytes := list Z.

(* ------------------------------------------------------------------ generic helpers *)
Fixpoint list_eqb (a b : bytes) : bool :=
  match a, b with
  | [], [] => true
  | x :: a', y :: b' => (x =? y) && list_eqb a' b'
  | _, _ => false
  end.

(* str.startswith *)
Fixpoint is_prefix (p s : bytes) : bool :=
  match p, s with
  | [], _ => true
  | x :: p', y :: s' => (x =? y) && is_prefix p' s'
  | _ :: _, [] => false
  end.

Fixpoint strip_prefix (p s : bytes) : option bytes :=
  match p, s with
  | [], _ => Some s
  | x :: p', y :: s' => if x =? y then strip_prefix p' s' else None
  | _ :: _, [] => None
  end.

(* s.replace(chr c, r) for a one-character pattern *)
Definition replace1 (c : Z) (r : bytes) (s : bytes) : bytes :=
  flat_map (fun b => if b =? c then r else [b]) s.

(* s.split(chr c): always at least one piece *)
Fixpoint split_on (c : Z) (s : bytes) : list bytes :=
  match s with
  | [] => [[]]
  | b :: s' =>
      if b =? c then [] :: split_on c s'
      else match split_on c s' with
           | p :: ps => (b :: p) :: ps
           | [] => [[b]]
           end
  end.

(* s.split(chr c, 1) when it yields two parts; None when c does not occur *)
Fixpoint split1 (c : Z) (s : bytes) : option (bytes * bytes) :=
  match s with
  | [] => None
  | b :: s' =>
      if b =? c then Some ([], s')
      else match split1 c s' with
           | Some (k, v) => Some (b :: k, v)
           | None => None
           end
  end.

Fixpoint traverse {A B} (f : A -> option B) (l : list A) : option (list B) :=
  match l with
  | [] => Some []
  | x :: l' => match f x, traverse f l' with
               | Some y, Some ys => Some (y :: ys)
               | _, _ => None
               end
  end.

(* dict(pair.split("=", 1) for pair in msg.split(",")) ; None = ValueError (a pair without '=') *)
Definition parse_attrs (msg : bytes) : option (list (bytes * bytes)) :=
  traverse (split1 61) (split_on 44 msg).

(* dict lookup: the last binding of a repeated key wins *)
Definition lookup (k : bytes) (attrs : list (bytes * bytes)) : option bytes :=
  match find (fun kv => list_eqb (fst kv) k) (rev attrs) with
  | Some kv => Some (snd kv)
  | None => None
  end.

(* bytes(l ^ r for l, r in zip(left, right)) *)
Fixpoint xor_bytes (l r : bytes) : bytes :=
  match l, r with
  | x :: l', y :: r' => Z.lxor x y :: xor_bytes l' r'
  | _, _ => []
  end.

(* ------------------------------------------------------------------ bytes.decode("utf-8") succeeds *)
Definition in_range (lo hi b : Z) : bool := (lo <=? b) && (b <=? hi).
Definition cont (b : Z) : bool := in_range 128 191 b.

Fixpoint utf8_ok (s : bytes) : bool :=
  match s with
  | [] => true
  | b0 :: t0 =>
      if in_range 0 127 b0 then utf8_ok t0
      else match t0 with
      | [] => false
      | b1 :: t1 =>
          if in_range 194 223 b0 then cont b1 && utf8_ok t1
          else match t1 with
          | [] => false
          | b2 :: t2 =>
              if in_range 224 239 b0 then
                (if b0 =? 224 then in_range 160 191 b1
                 else if b0 =? 237 then in_range 128 159 b1
                 else cont b1) && cont b2 && utf8_ok t2
              else match t2 with
              | [] => false
              | b3 :: t3 =>
                  if in_range 240 244 b0 then
                    (if b0 =? 240 then in_range 144 191 b1
                     else if b0 =? 244 then in_range 128 143 b1
                     else cont b1) && cont b2 && cont b3 && utf8_ok t3
                  else false
              end
          end
      end
  end.

(* ------------------------------------------------------------------ int(text) on ASCII text
   optional ASCII whitespace around, optional sign, decimal digits with single underscores
   between digits.  None = ValueError.  (Text with non-ASCII characters — Unicode digits and
   spaces, which int() also accepts — is outside the model: it answers None.) *)
Definition is_space (b : Z) : bool := in_range 9 13 b || (b =? 32).
Definition is_digit (b : Z) : bool := in_range 48 57 b.

Fixpoint lstrip (s : bytes) : bytes :=
  match s with
  | b :: s' => if is_space b then lstrip s' else s
  | [] => []
  end.
Definition strip (s : bytes) : bytes := rev (lstrip (rev (lstrip s))).

Fixpoint digits_val (s : bytes) (acc : Z) (prev_digit : bool) : option Z :=
  match s with
  | [] => if prev_digit then Some acc else None
  | b :: r =>
      if is_digit b then digits_val r (10 * acc + (b - 48)) true
      else if (b =? 95) && prev_digit then digits_val r acc false
      else None
  end.

Definition py_int (s : bytes) : option Z :=
  match strip s with
  | [] => None
  | b :: r =>
      if b =? 45 then match digits_val r 0 false with Some v => Some (- v) | None => None end
      else if b =? 43 then digits_val r 0 false
      else digits_val (b :: r) 0 false
  end.

(* str(n) for n >= 0 (used by the server model only) *)
Fixpoint dec_digits (fuel : nat) (n : Z) (acc : bytes) : bytes :=
  match fuel with
  | O => acc
  | S f =>
      if n <? 10 then (48 + n) :: acc
      else dec_digits f (n / 10) ((48 + n mod 10) :: acc)
  end.
Definition dec (n : Z) : bytes := dec_digits (S (Z.to_nat (Z.log2 n))) n [].

(* ------------------------------------------------------------------ string constants *)
Definition s_gs2 : bytes := [110; 44; 44].                                   (* "n,," *)
Definition s_n_eq : bytes := [110; 61].                                      (* "n="  *)
Definition s_r_eq : bytes := [114; 61].                                      (* "r="  *)
Definition s_comma_r_eq : bytes := [44; 114; 61].                            (* ",r=" *)
Definition s_cbind : bytes := [99; 61; 98; 105; 119; 115].                   (* "c=biws" *)
Definition s_comma_p_eq : bytes := [44; 112; 61].                            (* ",p=" *)
Definition s_client_key : bytes := [67; 108; 105; 101; 110; 116; 32; 75; 101; 121].  (* "Client Key" *)
Definition s_server_key : bytes := [83; 101; 114; 118; 101; 114; 32; 75; 101; 121].  (* "Server Key" *)
Definition k_r : bytes := [114].
Definition k_s : bytes := [115].
Definition k_i : bytes := [105].
Definition k_v : bytes := [118].
Definition esc_eq : bytes := [61; 51; 68].                                   (* "=3D" *)
Definition esc_comma : bytes := [61; 50; 67].                                (* "=2C" *)

(* ------------------------------------------------------------------ the client *)
(* first_message: username.replace("=", "=3D").replace(",", "=2C") — in this order *)
Definition escape_user (u : bytes) : bytes :=
  replace1 44 esc_comma (replace1 61 esc_eq u).

Definition client_first_bare (user cnonce : bytes) : bytes :=
  s_n_eq ++ escape_user user ++ s_comma_r_eq ++ cnonce.

Definition client_first (user cnonce : bytes) : bytes :=
  s_gs2 ++ client_first_bare user cnonce.

(* _auth_message after process_server_first_message; [rn] is the server's r attribute *)
Definition auth_message (user cnonce server_first rn : bytes) : bytes :=
  client_first_bare user cnonce ++ [44] ++ server_first ++ [44] ++ s_cbind ++ s_comma_r_eq ++ rn.

Definition client_final (rn proof_b64 : bytes) : bytes :=
  s_cbind ++ s_comma_r_eq ++ rn ++ s_comma_p_eq ++ proof_b64.

Inductive out : Type :=
| Emit (m : bytes)          (* the generator yields (m, True) *)
| Raised (e : string)       (* the generator raises *)
| Complete.                 (* StopIteration: _step returns None, login complete *)

Section Scram.
  Variable H : bytes -> bytes.
  Variable HMAC : bytes -> bytes -> bytes.            (* key, message *)
  Variable Hi : bytes -> bytes -> Z -> bytes.         (* password, salt, iterations *)
  Variable b64 : bytes -> bytes.
  Variable unb64 : bytes -> option bytes.

  Definition salted_password (pw salt : bytes) (i : Z) : bytes := Hi pw salt i.
  Definition client_key (sp : bytes) : bytes := HMAC sp s_client_key.
  Definition stored_key (sp : bytes) : bytes := H (client_key sp).
  Definition server_key (sp : bytes) : bytes := HMAC sp s_server_key.
  Definition client_proof (sp auth : bytes) : bytes :=
    xor_bytes (client_key sp) (HMAC (stored_key sp) auth).
  Definition expected_server_sig (pw salt : bytes) (i : Z) (auth : bytes) : bytes :=
    HMAC (server_key (salted_password pw salt i)) auth.

  (* process_server_first_message + final_message: client-final and the expected server
     signature, or the exception raised (in the order the Python code evaluates) *)
  Definition step2 (user pw cnonce sf : bytes) : result (bytes * bytes) :=
    if negb (utf8_ok sf) then Exn "UnicodeDecodeError" else
    match parse_attrs sf with
    | None => Exn "ValueError"
    | Some attrs =>
    match lookup k_r attrs with
    | None => Exn "KeyError"
    | Some rn =>
    if negb (is_prefix cnonce rn) then Exn "ValueError" else
    match lookup k_s attrs with
    | None => Exn "KeyError"
    | Some stxt =>
    match unb64 stxt with
    | None => Exn "Error"                 (* binascii.Error *)
    | Some salt =>
    match lookup k_i attrs with
    | None => Exn "KeyError"
    | Some itxt =>
    match py_int itxt with
    | None => Exn "ValueError"
    | Some i =>
    if (i >? 2147483647) || (i <? - 9223372036854775808) then Exn "OverflowError"
    else if i <? 1 then Exn "ValueError"
    else
      let sp := salted_password pw salt i in
      let auth := auth_message user cnonce sf rn in
      Ok (client_final rn (b64 (client_proof sp auth)), expected_server_sig pw salt i auth)
    end end end end end end.

  (* process_server_final_message *)
  Definition step3 (expected_sig sfinal : bytes) : result unit :=
    if negb (utf8_ok sfinal) then Exn "UnicodeDecodeError" else
    match parse_attrs sfinal with
    | None => Exn "ValueError"
    | Some attrs =>
    match lookup k_v attrs with
    | None => Exn "KeyError"
    | Some vtxt =>
    match unb64 vtxt with
    | None => Exn "Error"
    | Some v => if list_eqb expected_sig v then Ok tt else Exn "ValueError"
    end end end.

  (* the generator authenticator_scram driven by _step(None), _step(sf), _step(sfinal) *)
  Definition session (user pw cnonce sf sfinal : bytes) : list out :=
    Emit (client_first user cnonce) ::
    match step2 user pw cnonce sf with
    | Exn e => [Raised e]
    | Ok (cfin, sig) =>
        Emit cfin ::
        match step3 sig sfinal with
        | Ok _ => [Complete]
        | Exn e => [Raised e]
        end
    end.

  (* ---------------------------------------------------------------- RFC 5802 server *)
  (* the check of section 3: ClientKey := proof xor ClientSignature; H(ClientKey) = StoredKey *)
  Definition srv_accepts (stored auth proof : bytes) : bool :=
    list_eqb (H (xor_bytes proof (HMAC stored auth))) stored.

  Definition srv_stored_key (pw salt : bytes) (i : Z) : bytes := stored_key (Hi pw salt i).

  Definition srv_first (cnonce snonce salt : bytes) (i : Z) : bytes :=
    s_r_eq ++ cnonce ++ snonce ++ [44; 115; 61] ++ b64 salt ++ [44; 105; 61] ++ dec i.

  (* server side handling of client-final: "c=biws" "," "r=" nonce "," "p=" proof; the
     AuthMessage is built from what the server saw: the bare client-first, its own
     server-first, and the client-final without proof *)
  Definition srv_verify (stored bare sf nonce cfinal : bytes) : bool :=
    match split1 44 cfinal with
    | None => false
    | Some (a, rest) =>
    match split1 44 rest with
    | None => false
    | Some (b, c) =>
    match strip_prefix [112; 61] c with
    | None => false
    | Some ptxt =>
    match unb64 ptxt with
    | None => false
    | Some proof =>
        list_eqb a s_cbind && list_eqb b (s_r_eq ++ nonce) &&
        srv_accepts stored (bare ++ [44] ++ sf ++ [44] ++ a ++ [44] ++ b) proof
    end end end end.

  Definition srv_final (pw salt : bytes) (i : Z) (auth : bytes) : bytes :=
    [118; 61] ++ b64 (expected_server_sig pw salt i auth).
End Scram.

(* ------------------------------------------------------------------ RFC 5802 grammar of client-first
   gs2-header "n,," ; "n=" saslname ; ",r=" nonce ; nothing else.
   saslname = 1*(value-safe-char / "=2C" / "=3D") *)
Fixpoint unescape (s : bytes) : option bytes :=
  match s with
  | [] => Some []
  | b :: r =>
      if b =? 44 then None
      else if b =? 61 then
        match r with
        | b1 :: b2 :: r' =>
            if (b1 =? 50) && (b2 =? 67) then option_map (cons 44) (unescape r')
            else if (b1 =? 51) && (b2 =? 68) then option_map (cons 61) (unescape r')
            else None
        | _ => None
        end
      else option_map (cons b) (unescape r)
  end.

(* printable = %x21-2B / %x2D-7E *)
Definition printable (b : Z) : bool := in_range 33 126 b && negb (b =? 44).

Definition rfc_parse_client_first (m : bytes) : option (bytes * bytes * bytes) :=
  match strip_prefix s_gs2 m with
  | None => None
  | Some bare =>
  match strip_prefix s_n_eq bare with
  | None => None
  | Some rest =>
  match split1 44 rest with
  | None => None
  | Some (sasl, rest2) =>
  match sasl, unescape sasl, strip_prefix s_r_eq rest2 with
  | _ :: _, Some user, Some (n0 :: nonce') =>
      if forallb printable (n0 :: nonce') then Some (bare, user, n0 :: nonce') else None
  | _, _, _ => None
  end end end end.

(* ------------------------------------------------------------------ oracle tables
   Instantiation of the abstract primitives by finite association lists computed by the
   harness with hashlib / hmac / base64 for the inputs that occur in a case.  A miss yields
   a poison value that no real digest / encoding can equal. *)
Module Oracle.
  (* byte strings enter as hex literals *)
  Definition hexval (c : ascii) : Z :=
    let n := Z.of_N (N_of_ascii c) in if n <? 58 then n - 48 else n - 87.
  Fixpoint hx (s : string) : bytes :=
    match s with
    | String a (String b r) => (16 * hexval a + hexval b) :: hx r
    | _ => []
    end.

  Definition poison : bytes := [-1].
  Fixpoint assoc {V} (k : bytes) (t : list (bytes * V)) : option V :=
    match t with
    | [] => None
    | (k', v) :: t' => if list_eqb k k' then Some v else assoc k t'
    end.
  Fixpoint assoc2 {V} (k1 k2 : bytes) (t : list (bytes * bytes * V)) : option V :=
    match t with
    | [] => None
    | (a, b, v) :: t' => if list_eqb k1 a && list_eqb k2 b then Some v else assoc2 k1 k2 t'
    end.
  Fixpoint assoc3 {V} (k1 k2 : bytes) (k3 : Z) (t : list (bytes * bytes * Z * V)) : option V :=
    match t with
    | [] => None
    | (a, b, c, v) :: t' =>
        if list_eqb k1 a && list_eqb k2 b && (k3 =? c) then Some v else assoc3 k1 k2 k3 t'
    end.
  Definition dflt (o : option bytes) : bytes := match o with Some v => v | None => poison end.

  Record tables := {
    tH : list (bytes * bytes);
    tHMAC : list (bytes * bytes * bytes);
    tHi : list (bytes * bytes * Z * bytes);
    tB64 : list (bytes * bytes);
    tUnb64 : list (bytes * option bytes)
  }.
  Definition oH (t : tables) x := dflt (assoc x (tH t)).
  Definition oHMAC (t : tables) k m := dflt (assoc2 k m (tHMAC t)).
  Definition oHi (t : tables) p s i := dflt (assoc3 p s i (tHi t)).
  Definition oB64 (t : tables) x := dflt (assoc x (tB64 t)).
  (* a miss is reported as a successful decoding to poison, so that it cannot be confused
     with binascii.Error *)
  Definition oUnb64 (t : tables) x : option bytes :=
    match assoc x (tUnb64 t) with Some r => r | None => Some poison end.

  Definition run_session (t : tables) (user pw cnonce sf sfinal : bytes) : list out :=
    session (oH t) (oHMAC t) (oHi t) (oB64 t) (oUnb64 t) user pw cnonce sf sfinal.

  (* the server model, for cross-checking against the independent Python server *)
  Definition run_server (t : tables) (pw cnonce snonce salt : bytes) (i : Z) (cfirst cfinal : bytes)
    : option (bytes * bytes) * bytes * bool * bytes :=
    let sf := srv_first (oB64 t) cnonce snonce salt i in
    match rfc_parse_client_first cfirst with
    | None => (None, sf, false, [])
    | Some (bare, user, nonce) =>
        let rn := cnonce ++ snonce in
        let auth := bare ++ [44] ++ sf ++ [44] ++ s_cbind ++ s_comma_r_eq ++ rn in
        (Some (user, nonce), sf,
         srv_verify (oH t) (oHMAC t) (oUnb64 t) (srv_stored_key (oH t) (oHMAC t) (oHi t) pw salt i)
                    bare sf rn cfinal,
         srv_final (oHMAC t) (oHi t) (oB64 t) pw salt i auth)
    end.
End Oracle.
