(* Producer.v — C01/C02: per-partition model of accumulator + sender + transaction manager
   (sequence stamping) composed with the partition leader's idempotence rule.
   Executable: [run] replays a boundary trace recorded from the real producer under the
   simulator; [step s e = None] means the model does not allow e in s.

   Code modelled (aiokafka/producer): MessageAccumulator.add_message/_pop_batch/reenqueue/
   drain_by_nodes, Sender._sender_routine muting, SendProduceReqHandler, MessageBatch.done/
   failure; TransactionManager.increment_sequence_number is the TRANSLATED function
   (gen/IncrSeq.v).  Broker rule: Kafka's ProducerStateManager in-sequence check. *)
From Coq Require Import ZArith List Bool.
From Verif Require Import Imp IncrSeq.
Import ListNotations.
Open Scope Z_scope.

Definition incr (s n : Z) : Z := IncrSeq.post n s.
Definition incr_kafka (s n : Z) : Z := (s + n) mod 2147483648.     (* Kafka's wrap rule *)

Inductive verdict := Appended | Duplicate | OutOfOrder.
Inductive loc := InQueue | Sent | Applied (v : verdict).

Record pbatch := mkPB {
  precs : list nat;        (* record ids, in append order *)
  pseq : Z;                (* base sequence stamped at first drain *)
  ploc : loc;
  inlog : bool             (* ghost: already appended by the leader *)
}.

Record st := mkSt {
  uq : list (list nat);    (* deque of not yet drained batches, head first *)
  pend : option pbatch;    (* the drained, unacknowledged batch of this partition *)
  nseq : Z;                (* TransactionManager._sequence_numbers[tp] *)
  blog : list (list nat * Z);   (* leader log: (records, base sequence), oldest first *)
  bstate : option (Z * Z); (* leader's last (base sequence, count) for this producer *)
  acked : list nat;        (* records whose future resolved with metadata *)
  failed : list nat;       (* records whose future resolved with an error *)
  accepted : list nat;     (* ghost: every accepted record, in acceptance order *)
  base : Z                 (* ghost: sequence counter at the start *)
}.

Inductive ev :=
| Accept (r : nat) (newb : bool)   (* send() accepted r; newb: it starts a new batch *)
| Drain                            (* sender takes the head batch (stamping it on first drain) and sends it *)
| Arrive                           (* the produce request reaches the leader and is applied *)
| ReplyOk                          (* client receives the success reply -> futures resolved *)
| ReplyRetry                       (* client observes a retriable failure -> reenqueue at the FRONT *)
| ReplyFatal                       (* client receives a non-retriable error -> futures failed *)
| FlushRet.                        (* flush()/stop() returns: only when nothing is queued or in flight *)

Definition zlen' (l : list nat) : Z := Z.of_nat (length l).

Definition bexpected (b : option (Z * Z)) : Z :=
  match b with None => 0 | Some (ls, lc) => (ls + lc) mod 2147483648 end.

Definition broker_verdict (b : option (Z * Z)) (sq cnt : Z) : verdict :=
  if sq =? bexpected b then Appended
  else match b with
       | Some (ls, lc) => if (sq =? ls) && (cnt =? lc) then Duplicate else OutOfOrder
       | None => OutOfOrder
       end.

Fixpoint snoc_last (l : list (list nat)) (r : nat) : option (list (list nat)) :=
  match l with
  | [] => None
  | [b] => Some [b ++ [r]]
  | b :: tl => match snoc_last tl r with Some tl' => Some (b :: tl') | None => None end
  end.

Definition step (s : st) (e : ev) : option (st * option verdict) :=
  match e with
  | Accept r newb =>
      if newb then
        Some (mkSt (uq s ++ [[r]]) (pend s) (nseq s) (blog s) (bstate s) (acked s) (failed s)
                   (accepted s ++ [r]) (base s), None)
      else match snoc_last (uq s) r with
           | Some q' => Some (mkSt q' (pend s) (nseq s) (blog s) (bstate s) (acked s) (failed s)
                                   (accepted s ++ [r]) (base s), None)
           | None => None
           end
  | Drain =>
      match pend s with
      | Some p =>
          match ploc p with
          | InQueue => Some (mkSt (uq s) (Some (mkPB (precs p) (pseq p) Sent (inlog p))) (nseq s)
                                  (blog s) (bstate s) (acked s) (failed s) (accepted s) (base s), None)
          | _ => None                (* the partition is muted while its batch is in flight *)
          end
      | None =>
          match uq s with
          | b :: rest =>
              Some (mkSt rest (Some (mkPB b (nseq s) Sent false)) (incr (nseq s) (zlen' b))
                         (blog s) (bstate s) (acked s) (failed s) (accepted s) (base s), None)
          | [] => None
          end
      end
  | Arrive =>
      match pend s with
      | Some p =>
          match ploc p with
          | Sent =>
              let v := broker_verdict (bstate s) (pseq p) (zlen' (precs p)) in
              match v with
              | Appended =>
                  Some (mkSt (uq s) (Some (mkPB (precs p) (pseq p) (Applied v) true)) (nseq s)
                             (blog s ++ [(precs p, pseq p)]) (Some (pseq p, zlen' (precs p)))
                             (acked s) (failed s) (accepted s) (base s), Some v)
              | _ =>
                  Some (mkSt (uq s) (Some (mkPB (precs p) (pseq p) (Applied v) (inlog p))) (nseq s)
                             (blog s) (bstate s) (acked s) (failed s) (accepted s) (base s), Some v)
              end
          | _ => None
          end
      | None => None
      end
  | ReplyOk =>
      match pend s with
      | Some p =>
          match ploc p with
          | Applied Appended | Applied Duplicate =>
              Some (mkSt (uq s) None (nseq s) (blog s) (bstate s) (acked s ++ precs p) (failed s)
                         (accepted s) (base s), None)
          | _ => None
          end
      | None => None
      end
  | ReplyRetry =>
      match pend s with
      | Some p =>
          match ploc p with
          | InQueue => None
          | _ => Some (mkSt (uq s) (Some (mkPB (precs p) (pseq p) InQueue (inlog p))) (nseq s)
                            (blog s) (bstate s) (acked s) (failed s) (accepted s) (base s), None)
          end
      | None => None
      end
  | ReplyFatal =>
      match pend s with
      | Some p =>
          match ploc p with
          | Applied OutOfOrder =>
              Some (mkSt (uq s) None (nseq s) (blog s) (bstate s) (acked s) (failed s ++ precs p)
                         (accepted s) (base s), None)
          | _ => None
          end
      | None => None
      end
  | FlushRet =>
      match pend s, uq s with
      | None, [] => Some (s, None)
      | _, _ => None
      end
  end.

Fixpoint run (s : st) (tr : list ev) : option (st * list verdict) :=
  match tr with
  | [] => Some (s, [])
  | e :: tr' =>
      match step s e with
      | Some (s', ov) =>
          match run s' tr' with
          | Some (s'', vs) => Some (s'', match ov with Some v => v :: vs | None => vs end)
          | None => None
          end
      | None => None
      end
  end.

(* a fresh producer id on a fresh or established partition: counter 0, leader knows nothing *)
Definition init0 : st := mkSt [] None 0 [] None [] [] [] 0.
(* a partition where the producer already wrote up to sequence s0 (last batch (ls, lc)) *)
Definition init_at (ls lc : Z) : st :=
  mkSt [] None ((ls + lc) mod 2147483648) [] (Some (ls, lc)) [] [] [] ((ls + lc) mod 2147483648).

Definition log_records (s : st) : list nat := concat (map fst (blog s)).
Definition count_accepts (tr : list ev) : Z :=
  Z.of_nat (length (filter (fun e => match e with Accept _ _ => true | _ => false end) tr)).

(* ---------- non-idempotent variant: no sequence, the leader appends whatever arrives ------ *)
Record nst := mkN {
  nuq : list (list nat);
  npend : option (list nat * loc);
  nlog : list (list nat);          (* leader log, batch by batch *)
  ndr : list (list nat);           (* ghost: batches in first-drain order *)
  naccepted : list nat
}.

Definition nstep (s : nst) (e : ev) : option nst :=
  match e with
  | Accept r newb =>
      if newb then Some (mkN (nuq s ++ [[r]]) (npend s) (nlog s) (ndr s) (naccepted s ++ [r]))
      else match snoc_last (nuq s) r with
           | Some q' => Some (mkN q' (npend s) (nlog s) (ndr s) (naccepted s ++ [r]))
           | None => None
           end
  | Drain =>
      match npend s with
      | Some (b, InQueue) => Some (mkN (nuq s) (Some (b, Sent)) (nlog s) (ndr s) (naccepted s))
      | Some _ => None
      | None => match nuq s with
                | b :: rest => Some (mkN rest (Some (b, Sent)) (nlog s) (ndr s ++ [b]) (naccepted s))
                | [] => None
                end
      end
  | Arrive =>
      match npend s with
      | Some (b, Sent) =>
          Some (mkN (nuq s) (Some (b, Applied Appended)) (nlog s ++ [b]) (ndr s) (naccepted s))
      | _ => None
      end
  | ReplyOk =>
      match npend s with
      | Some (b, Applied _) => Some (mkN (nuq s) None (nlog s) (ndr s) (naccepted s))
      | _ => None
      end
  | ReplyRetry =>
      match npend s with
      | Some (b, InQueue) => None
      | Some (b, _) => Some (mkN (nuq s) (Some (b, InQueue)) (nlog s) (ndr s) (naccepted s))
      | None => None
      end
  | ReplyFatal =>
      match npend s with
      | Some (b, _) => Some (mkN (nuq s) None (nlog s) (ndr s) (naccepted s))   (* expired / non-retriable *)
      | None => None
      end
  | FlushRet =>
      match npend s, nuq s with
      | None, [] => Some s
      | _, _ => None
      end
  end.

Fixpoint nrun (s : nst) (tr : list ev) : option nst :=
  match tr with
  | [] => Some s
  | e :: tr' => match nstep s e with Some s' => nrun s' tr' | None => None end
  end.

Definition ninit : nst := mkN [] None [] [] [].

(* [stut bs ks]: batch i of bs repeated ks[i] times, in order *)
Fixpoint stut (bs : list (list nat)) (ks : list nat) : list (list nat) :=
  match bs, ks with
  | b :: bs', k :: ks' => repeat b k ++ stut bs' ks'
  | _, _ => []
  end.

(* ---------- helpers for the correspondence check (evaluated by vm_compute) ----------------- *)
Fixpoint first_reject (s : st) (tr : list ev) (i : nat) : option nat :=
  match tr with
  | [] => None
  | e :: tr' => match step s e with
                | Some (s', _) => first_reject s' tr' (S i)
                | None => Some i
                end
  end.

Fixpoint nfirst_reject (s : nst) (tr : list ev) (i : nat) : option nat :=
  match tr with
  | [] => None
  | e :: tr' => match nstep s e with
                | Some s' => nfirst_reject s' tr' (S i)
                | None => Some i
                end
  end.

Definition verdict_code (v : verdict) : nat :=
  match v with Appended => 0 | Duplicate => 1 | OutOfOrder => 2 end%nat.

(* outcome of replaying a trace: inl (log records, verdict codes, acked) or inr (index rejected) *)
Definition replay (s0 : st) (tr : list ev) : (list nat * list nat * list nat) + nat :=
  match run s0 tr with
  | Some (s', vs) => inl (log_records s', map verdict_code vs, acked s')
  | None => inr (match first_reject s0 tr O with Some i => i | None => O end)
  end.

Definition nreplay (tr : list ev) : (list (list nat)) + nat :=
  match nrun ninit tr with
  | Some s' => inl (nlog s')
  | None => inr (match nfirst_reject ninit tr O with Some i => i | None => O end)
  end.
