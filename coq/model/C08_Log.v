(* C08_Log.v — executable model for property C08 (isolation filter).

   Part 1  transactional partition logs, as a construction from the interleaved operations of
           any number of producers (data batches, commit/abort markers, plain batches),
           including what compaction leaves behind; the derived notions committed / aborted /
           open, LSO, HW; the broker's answer to a Fetch (batches + aborted-transaction index).
   Part 2  `unpack` — the Gallina version of PartitionRecords._unpack_records
           (aiokafka/consumer/fetcher.py).  `_consume_aborted_up_to` is NOT written here: it is
           the translated function gen/ConsumeAborted.v, regenerated from /repo on every run.

   Only definitions live here (everything is run by vm_compute in the correspondence);
   the proofs are in proof/C08_*.v, the public statements in props/C08.v. *)
From Coq Require Import ZArith List Bool.
From Verif Require Import Imp ConsumeAborted.
Import ListNotations.
Open Scope Z_scope.

(* ------------------------------------------------------------------------------------------ *)
(** * Records and batches (message format v2) *)

(* A record: its offset and a tag.  For a data record the tag stands for its key/value/headers
   (the harness derives the bytes from it); for the single record of a control batch the tag is
   the big-endian uint32 made of the first four key bytes = version * 65536 + type, so that the
   abort marker ControlRecord(version 0, type 0) is tag 0 and the commit marker (0, 1) is 1. *)
Record rec := mkrec { r_off : Z; r_tag : Z }.

Record batch := mkbatch {
  b_base : Z;            (* BaseOffset *)
  b_last : Z;            (* BaseOffset + LastOffsetDelta, kept by compaction *)
  b_pid  : Z;            (* ProducerId (-1 when the producer is not idempotent) *)
  b_txn  : bool;         (* attributes bit 4 *)
  b_ctl  : bool;         (* attributes bit 5 *)
  b_recs : list rec }.   (* the records still present *)

Definition b_next (b : batch) : Z := b_last b + 1.    (* DefaultRecordBatch.next_offset *)

Definition ABORT_TAG : Z := 0.
Definition COMMIT_TAG : Z := 1.

(* ------------------------------------------------------------------------------------------ *)
(** * Part 1 — well-formed transactional logs *)

(* What was appended to the partition, in log order.  A log is whatever a sequence of these
   operations builds — producers interleave arbitrarily because the sequence is arbitrary.

   ODataOp pid txn n kept : a producer batch of [n] offsets.  [txn] = written inside a
       transaction of producer [pid] (it opens one if [pid] has none open).  [kept] says what
       is in the log *now*: [None] = the cleaner removed the whole batch; [Some ks] = the batch
       is present with base offset and last offset unchanged and the records [ks] =
       (offset delta, tag) still in it ([Some []] = an empty batch, which Kafka retains to
       remember the producer's last sequence number).
   OMarkerOp pid commit : the transaction coordinator's end-transaction marker for [pid]: a
       control batch of one record.  It ends the open transaction of [pid] if there is one;
       otherwise it is a solitary marker (the partition was added to a transaction that wrote
       nothing to it, or everything the transaction wrote was compacted away earlier).
       Markers are always present (Kafka removes a marker only together with the index entry,
       after every batch of its transaction is gone — such a transaction is represented here
       by dropped plain batches).

   Deliberately more liberal than a broker: non-transactional batches may carry any producer
   id (also one that has a transaction open), any id (also -1) may run transactions.  The
   theorems hold for this larger class. *)
Inductive op :=
| ODataOp (pid : Z) (txn : bool) (n : Z) (kept : option (list (Z * Z)))
| OMarkerOp (pid : Z) (commit : bool).

(* side conditions of an operation: a batch spans at least one offset; the surviving records
   have strictly increasing deltas inside the span *)
Fixpoint deltas_ok (lo n : Z) (ks : list (Z * Z)) : bool :=
  match ks with
  | [] => true
  | k :: ks' => (lo <=? fst k) && (fst k <? n) && deltas_ok (fst k + 1) n ks'
  end.

Definition valid_op (o : op) : bool :=
  match o with
  | ODataOp _ _ n kept =>
      (1 <=? n) && match kept with None => true | Some ks => deltas_ok 0 n ks end
  | OMarkerOp _ _ => true
  end.

(* a finished transaction *)
Record txn := mktxn { t_pid : Z; t_first : Z; t_last : Z; t_commit : bool }.
(* t_first = base offset of its first batch as appended; t_last = offset of its marker *)

Record lstate := mkls {
  leo : Z;                    (* log end offset *)
  rbs : list batch;           (* batches present, newest first *)
  opn : list (Z * Z);         (* open transactions: (producer id, first offset) *)
  dne : list txn }.           (* finished transactions, newest first *)

Definition find_open (p : Z) (o : list (Z * Z)) : option Z :=
  match find (fun e => fst e =? p) o with Some e => Some (snd e) | None => None end.
Definition remove_open (p : Z) (o : list (Z * Z)) : list (Z * Z) :=
  filter (fun e => negb (fst e =? p)) o.

Definition marker_batch (o p : Z) (commit : bool) : batch :=
  mkbatch o o p true true [mkrec o (if commit then COMMIT_TAG else ABORT_TAG)].

Definition data_batch (o p : Z) (t : bool) (n : Z) (ks : list (Z * Z)) : batch :=
  mkbatch o (o + n - 1) p t false (map (fun k => mkrec (o + fst k) (snd k)) ks).

Definition apply_op (s : lstate) (o : op) : lstate :=
  match o with
  | ODataOp p t n kept =>
      let opn' := if t then match find_open p (opn s) with
                            | Some _ => opn s
                            | None => (p, leo s) :: opn s
                            end
                  else opn s in
      let rbs' := match kept with
                  | None => rbs s
                  | Some ks => data_batch (leo s) p t n ks :: rbs s
                  end in
      mkls (leo s + n) rbs' opn' (dne s)
  | OMarkerOp p c =>
      let b := marker_batch (leo s) p c in
      match find_open p (opn s) with
      | Some fo => mkls (leo s + 1) (b :: rbs s) (remove_open p (opn s))
                        (mktxn p fo (leo s) c :: dne s)
      | None => mkls (leo s + 1) (b :: rbs s) (opn s) (dne s)
      end
  end.

Definition empty_log : lstate := mkls 0 [] [] [].
Definition build (ops : list op) : lstate := fold_left apply_op ops empty_log.

(* the batches of the log, in offset order *)
Definition batches (s : lstate) : list batch := rev (rbs s).

(** ** Derived notions *)

(* transaction [t] contains batch [b]: same producer, started at or before it, marker after it *)
Definition spans (t : txn) (b : batch) : bool :=
  (t_pid t =? b_pid b) && (t_first t <=? b_base b) && (b_base b <? t_last t).

Definition is_data_txn (b : batch) : bool := b_txn b && negb (b_ctl b).

(* the transaction of batch [b] was aborted / committed / is still open *)
Definition aborted (s : lstate) (b : batch) : bool :=
  is_data_txn b && existsb (fun t => spans t b && negb (t_commit t)) (dne s).
Definition committed (s : lstate) (b : batch) : bool :=
  is_data_txn b && existsb (fun t => spans t b && t_commit t) (dne s).
Definition in_open (s : lstate) (b : batch) : bool :=
  is_data_txn b && existsb (fun e => (fst e =? b_pid b) && (snd e <=? b_base b)) (opn s).

(* high watermark = log end.  (A log whose high watermark is below its end is seen by
   consumers as its prefix below the high watermark; a transaction whose marker is not yet
   below the high watermark is open in that prefix — Kafka's "first unstable offset".) *)
Definition hw (s : lstate) : Z := leo s.

(* last stable offset: first offset of the earliest transaction still open, else the log end *)
Definition lso (s : lstate) : Z := fold_right Z.min (leo s) (map snd (opn s)).

Inductive iso := RU | RC.     (* read_uncommitted | read_committed *)
Definition bound (s : lstate) (i : iso) : Z := match i with RC => lso s | RU => hw s end.

(** ** The broker's answer to Fetch(offset f) *)

(* Batches: from the batch containing [f] (or the first one after it when [f] falls in a hole
   left by the cleaner) up to a cut: [k] batches, none reaching the bound.  Every cut of the
   log = every [k]. *)
Definition response (s : lstate) (bnd f : Z) (k : nat) : list batch :=
  firstn k (filter (fun b => (f <=? b_last b) && (b_last b <? bnd)) (batches s)).

(* The aborted-transaction index of the answer: a list of (producer id, first offset).
   Kafka returns every aborted transaction with marker offset >= f and first offset < u for
   some u at or after the end of the returned data, in index order; the model allows ANY list
   (any order, repetitions) that
     - mentions only aborted transactions whose marker is at or after [f], and
     - mentions every aborted transaction that has a batch in the answer. *)
Definition index_ok (s : lstate) (f : Z) (resp : list batch) (idx : list (Z * Z)) : Prop :=
  (forall e, In e idx ->
     exists t, In t (dne s) /\ t_commit t = false /\ e = (t_pid t, t_first t) /\ f <= t_last t)
  /\
  (forall t b, In t (dne s) -> t_commit t = false -> In b resp -> is_data_txn b = true ->
     spans t b = true -> In (t_pid t, t_first t) idx).

(* read_uncommitted: the index is ignored by the consumer (the broker sends none) *)
Definition index_req (s : lstate) (i : iso) (f : Z) (resp : list batch) (idx : list (Z * Z)) : Prop :=
  match i with RC => index_ok s f resp idx | RU => True end.

(* what Kafka computes (LogSegment.collectAbortedTxns) for upper bound [u] *)
Definition kafka_index (s : lstate) (f u : Z) : list (Z * Z) :=
  map (fun t => (t_pid t, t_first t))
      (filter (fun t => negb (t_commit t) && (f <=? t_last t) && (t_first t <? u)) (rev (dne s))).

(** ** The views of the property statement (reference semantics) *)

(* what a consumer at isolation level [i] is entitled to see of batch [b] *)
Definition deliverable (s : lstate) (i : iso) (b : batch) : bool :=
  negb (b_ctl b) &&
  match i with
  | RU => true
  | RC => negb (b_txn b) || committed s b
  end.

(* records of the batches [bs] visible at level [i] with offsets in [lo, hi) *)
Definition view_of (s : lstate) (i : iso) (lo hi : Z) (bs : list batch) : list rec :=
  flat_map (fun b => if deliverable s i b
                     then filter (fun r => (lo <=? r_off r) && (r_off r <? hi)) (b_recs b)
                     else []) bs.

(* the records visible at level [i] in the whole log below its bound, from offset [lo] *)
Definition view (s : lstate) (i : iso) (lo hi : Z) : list rec :=
  view_of s i lo hi (filter (fun b => b_last b <? bound s i) (batches s)).

(* ------------------------------------------------------------------------------------------ *)
(** * Part 2 — PartitionRecords._unpack_records *)

(* self._aborted_producers: a Python set, modelled as a list used only through membership *)
Definition ap_mem (p : Z) (ap : list Z) : bool := existsb (Z.eqb p) ap.
Definition ap_discard (p : Z) (ap : list Z) : list Z := filter (fun x => negb (x =? p)) ap.

(* PartitionRecords.__init__: sorted(aborted_transactions or [], key=lambda x: x[1])
   (Python's sort is stable: insertion after the last element with a key <= the new key) *)
Fixpoint insert_by_first (e : Z * Z) (l : list (Z * Z)) : list (Z * Z) :=
  match l with
  | [] => [e]
  | x :: l' => if snd e <? snd x then e :: l else x :: insert_by_first e l'
  end.
Definition sort_by_first (l : list (Z * Z)) : list (Z * Z) :=
  fold_left (fun acc e => insert_by_first e acc) l [].

(* _contains_abort_marker: next(batch) then ControlRecord.parse(key) == ABORT_MARKER;
   a control batch without records (left behind by the log cleaner) carries no marker: False
   (it raised KafkaError before /repo 15c7aa6 "fix: an empty control batch no longer stops a read_committed
   consumer"; the option type and the Raise decision below are kept for that history) *)
Definition contains_abort_marker (b : batch) : option bool :=
  match b_recs b with
  | [] => Some false
  | r :: _ => Some (r_tag r =? ABORT_TAG)
  end.

(* the `for record in next_batch` loop: records below next_fetch_offset are skipped, a
   delivered record moves next_fetch_offset to its offset + 1 *)
Fixpoint take_recs (nfo : Z) (rs : list rec) : list rec * Z :=
  match rs with
  | [] => ([], nfo)
  | r :: rs' =>
      if r_off r <? nfo then take_recs nfo rs'
      else let p := take_recs (r_off r + 1) rs' in (r :: fst p, snd p)
  end.

(* what one turn of the `while records.has_next()` loop decides *)
Inductive decision :=
| Skip                      (* `continue` after moving next_fetch_offset to next_offset *)
| Deliver                   (* iterate the records, then move next_fetch_offset *)
| Raise.                    (* KafkaError("Control batch did not contain any records") *)

(* the read_committed block: returns the queue and the producer set afterwards, and whether
   the batch is skipped as aborted *)
Definition rc_block (b : batch) (q : list (Z * Z)) (ap : list Z)
  : list (Z * Z) * list Z * decision :=
  let ca := ConsumeAborted.post (b_base b) q in       (* self._consume_aborted_up_to(base) *)
  let q1 := fst ca in
  let ap1 := snd ca ++ ap in
  let marker := if b_ctl b then contains_abort_marker b else Some false in
  match marker with
  | None => (q1, ap1, Raise)
  | Some m =>
      let ap2 := if m then ap_discard (b_pid b) ap1 else ap1 in
      if b_txn b && ap_mem (b_pid b) ap2 then (q1, ap2, Skip) else (q1, ap2, Deliver)
  end.

Definition decide (i : iso) (b : batch) (q : list (Z * Z)) (ap : list Z)
  : list (Z * Z) * list Z * decision :=
  let r := match i with
           | RC => rc_block b q ap         (* v2 batches: producer_id is never None *)
           | RU => (q, ap, Deliver)
           end in
  match snd r with
  | Deliver => if b_ctl b then (fst r, Skip) else r   (* control batches are never delivered *)
  | _ => r
  end.

(* result: delivered records, next_fetch_offset when the iterator stops, raised? *)
Fixpoint unpack_loop (i : iso) (bs : list batch) (q : list (Z * Z)) (ap : list Z) (nfo : Z)
  : list rec * Z * bool :=
  match bs with
  | [] => ([], nfo, false)
  | b :: bs' =>
      match decide i b q ap with
      | (_, _, Raise) => ([], nfo, true)
      | (q', ap', Skip) => unpack_loop i bs' q' ap' (b_next b)
      | (q', ap', Deliver) =>
          let d := take_recs nfo (b_recs b) in
          let r := unpack_loop i bs' q' ap' (b_next b) in
          (fst d ++ fst (fst r), snd (fst r), snd r)
      end
  end.

Definition unpack (i : iso) (f : Z) (idx : list (Z * Z)) (bs : list batch)
  : list rec * Z * bool :=
  unpack_loop i bs (sort_by_first idx) [] f.

Definition delivered (x : list rec * Z * bool) : list rec := fst (fst x).
Definition position (x : list rec * Z * bool) : Z := snd (fst x).
Definition raised (x : list rec * Z * bool) : bool := snd x.

(* ------------------------------------------------------------------------------------------ *)
(** * Consuming a log through a sequence of fetches (for cut invariance) *)

(* one fetch: cut [k], index [idx]; the next fetch starts at the position reached *)
Fixpoint fetch_seq (s : lstate) (i : iso) (f : Z) (cuts : list (nat * list (Z * Z)))
  : list rec * Z * bool :=
  match cuts with
  | [] => ([], f, false)
  | (k, idx) :: cuts' =>
      let x := unpack i f idx (response s (bound s i) f k) in
      if raised x then x
      else let y := fetch_seq s i (position x) cuts' in
           (delivered x ++ delivered y, position y, raised y)
  end.

(* every index of the sequence is one the broker may return for that fetch *)
Fixpoint cuts_ok (s : lstate) (i : iso) (f : Z) (cuts : list (nat * list (Z * Z))) : Prop :=
  match cuts with
  | [] => True
  | (k, idx) :: cuts' =>
      let resp := response s (bound s i) f k in
      index_req s i f resp idx /\ cuts_ok s i (position (unpack i f idx resp)) cuts'
  end.
