(* WireTables.v — C11: the record types of the tables that translator/schema2gallina.py
   emits into gen/Schemas.v (definitions only). *)
From Coq Require Import ZArith List String.
From Verif Require Import Wire.
Import ListNotations.
Open Scope Z_scope.

(* one RequestStruct subclass, as found by introspection of the imported module *)
Record req_entry := mkReq {
  rq_name : string;          (* class name *)
  rq_name_ver : Z;           (* the N of the `_vN` suffix of the class name, -1 if none *)
  rq_key : Z;                (* API_KEY *)
  rq_ver : Z;                (* API_VERSION (what goes into the request header) *)
  rq_flex : bool;            (* FLEXIBLE_VERSION *)
  rq_req_header : string;    (* class of build_request_header(...) *)
  rq_resp_header : string;   (* class returned by parse_response_header(...) *)
  rq_resp_name : string;     (* RESPONSE_TYPE.__name__ *)
  rq_resp_key : Z;           (* RESPONSE_TYPE.API_KEY *)
  rq_resp_ver : Z;           (* RESPONSE_TYPE.API_VERSION *)
  rq_schema : ty;            (* SCHEMA *)
  rq_resp_schema : ty        (* RESPONSE_TYPE.SCHEMA *)
}.

Record resp_entry := mkResp {
  rs_name : string;
  rs_name_ver : Z;
  rs_key : Z;
  rs_ver : Z;
  rs_schema : ty
}.

(* one Request builder: API_KEY, ALLOW_UNKNOWN_API_VERSION, _CLASSES in order *)
Record builder_entry := mkBuilder {
  bd_name : string;
  bd_key : Z;
  bd_allow_unknown : bool;
  bd_classes : list (string * Z)   (* (class name, API_VERSION) *)
}.
