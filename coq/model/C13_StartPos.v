(* C13_StartPos.v — executable model for property C13 (consumption starts at the committed
   offset, else per auto_offset_reset).

   Per-partition model of how a valid position is established after assignment:
   Fetcher._update_fetch_positions (committed lookup, then ListOffsets reset, re-checking for a
   concurrent seek after every await), TopicPartitionState (await_reset / reset_to / seek /
   fetch_committed / update_committed), the OffsetOutOfRange branch of _proc_fetch_request,
   the coordinator's commit-refresh routine (GroupCoordinator) / NoGroupCoordinator, composed
   with the environment: the group's offset store and the partition leader's answer to
   ListOffsets (log start / high watermark / last stable offset by isolation level).
   `step c s e = None` = the model does not allow e in s.  Definitions only; proofs in
   proof/C13_proof.v, public statements in props/C13.v. *)
From Coq Require Import ZArith List Bool.
Import ListNotations.
Open Scope Z_scope.

Inductive strat := Earliest | Latest.                 (* OffsetResetStrategy -2 / -1 *)
Inductive policy := PEarliest | PLatest | PNone.      (* auto_offset_reset *)
Inductive iso := RU | RC.                             (* isolation_level *)
Inductive errk := NoOffset | OutOfRangeErr.           (* NoOffsetForPartitionError / OffsetOutOfRangeError *)

Record cfg := mkCfg {
  c_policy : policy;
  c_iso : iso;
  c_group : bool;               (* group_id set: committed offsets come from the coordinator *)
  c_committed : option Z }.     (* what the group's offset store holds for this partition *)

(* what the consumer can learn about committed offsets *)
Definition eff_committed (c : cfg) : option Z := if c_group c then c_committed c else None.

Definition policy_strat (p : policy) : option strat :=
  match p with PEarliest => Some Earliest | PLatest => Some Latest | PNone => None end.

(* the leader's answer to ListOffsets(strategy) at isolation level i *)
Definition answer (i : iso) (s : strat) (lstart hw lso : Z) : Z :=
  match s with
  | Earliest => lstart
  | Latest => match i with RC => lso | RU => hw end
  end.

(* how a position came about *)
Inductive origin :=
| OCommitted (c : Z)
| OReset (s : strat) (lstart hw lso : Z)
| OSeek (o : Z).

Record st := mkSt {
  pos : option Z;                 (* TopicPartitionState._position *)
  rst : option strat;             (* _reset_strategy (awaiting_reset) *)
  nwait : nat;                    (* fetch_committed() futures not yet resolved *)
  resolved : list (option Z);     (* resolved ones whose awaiting task has not resumed yet *)
  looking : bool;                 (* an OffsetFetch for this partition is in flight *)
  lo : list strat;                (* ListOffsets requests in flight, by the strategy asked *)
  err : option errk;              (* FetchError buffered for the application *)
  origin_ : option origin;        (* ghost: how the current position was established *)
  first : option (Z * origin);    (* ghost: the first valid position since assignment *)
  oor : bool;                     (* ghost: an out-of-range report was accepted since assignment *)
  surfaced : list errk            (* ghost: errors raised to the application *)
}.

Definition fresh : st := mkSt None None O [] false [] None None None false [].

Inductive ev :=
| Assigned                          (* a new TopicPartitionState (assign() / group assignment) *)
| CommittedReq                      (* _update_fetch_positions: await tp_state.fetch_committed() *)
| LookupSent                        (* the coordinator sends OffsetFetch for this partition *)
| LookupErr                         (* that request failed (retriable error in a partition or — OffsetFetch
                                       v2+ — in the top-level error_code / timeout / no coordinator) *)
| LookupOk (c : option Z)           (* update_committed(c): every waiting future is resolved *)
| CommittedResp (c : option Z)      (* the awaiting task resumes with c *)
| ListOffsetsSent (s : strat)       (* _proc_offset_request with this partition's strategy *)
| ListOffsetsResp (s : strat) (lstart hw lso : Z)
                                    (* it returned and the offset was APPLIED (reset_to); the leader's
                                       state when it answered *)
| ListOffsetsIgnored (s : strat)    (* it returned and the offset was NOT applied *)
| ListOffsetsErr (s : strat)        (* it raised *)
| OutOfRange (o : Z)                (* a fetch reply for offset o carries OFFSET_OUT_OF_RANGE *)
| Consumed (p : Z)                  (* records were handed out: the position is now p *)
| Seek (o : Z)                      (* consumer.seek *)
| SeekTo (s : strat)                (* seek_to_beginning / seek_to_end *)
| ErrRaised (e : errk)              (* the buffered error is raised by getone / getmany *)
| Position (p : Z).                 (* position() returned p *)

Definition strat_eqb (a b : strat) : bool :=
  match a, b with Earliest, Earliest | Latest, Latest => true | _, _ => false end.

Fixpoint remove_strat (x : strat) (l : list strat) : option (list strat) :=
  match l with
  | [] => None
  | y :: l' => if strat_eqb x y then Some l'
               else match remove_strat x l' with Some r => Some (y :: r) | None => None end
  end.

Definition oz_eqb (a b : option Z) : bool :=
  match a, b with
  | None, None => true
  | Some x, Some y => x =? y
  | _, _ => false
  end.

Definition errk_eqb (a b : errk) : bool :=
  match a, b with NoOffset, NoOffset | OutOfRangeErr, OutOfRangeErr => true | _, _ => false end.

Definition is_some {A} (o : option A) : bool := match o with Some _ => true | None => false end.

(* the position becomes valid with value p and origin og *)
Definition set_pos (s : st) (p : Z) (og : origin) (nw : nat) (res : list (option Z)) (lk : bool)
                   (los : list strat) : st :=
  mkSt (Some p) None nw res lk los (err s) (Some og)
       (match first s with Some f => Some f | None => Some (p, og) end) (oor s) (surfaced s).

Definition step (c : cfg) (s : st) (e : ev) : option st :=
  match e with
  | Assigned => Some fresh
  | CommittedReq =>
      (* only for a partition with neither a valid position nor a pending reset, and nothing buffered *)
      match pos s, rst s, err s with
      | None, None, None =>
          Some (mkSt (pos s) (rst s) (S (nwait s)) (resolved s) (looking s) (lo s) (err s)
                     (origin_ s) (first s) (oor s) (surfaced s))
      | _, _, _ => None
      end
  | LookupSent =>
      if c_group c && negb (looking s) && negb (Nat.eqb (nwait s) O) then
        Some (mkSt (pos s) (rst s) (nwait s) (resolved s) true (lo s) (err s)
                   (origin_ s) (first s) (oor s) (surfaced s))
      else None
  | LookupErr =>
      if looking s then
        Some (mkSt (pos s) (rst s) (nwait s) (resolved s) false (lo s) (err s)
                   (origin_ s) (first s) (oor s) (surfaced s))
      else None
  | LookupOk v =>
      (* group: the reply of the OffsetFetch in flight, carrying what the store holds;
         group-less: NoGroupCoordinator answers UNKNOWN_OFFSET by itself *)
      if negb (Nat.eqb (nwait s) O) && oz_eqb v (eff_committed c) &&
         (if c_group c then looking s else true) then
        Some (mkSt (pos s) (rst s) O (resolved s ++ repeat v (nwait s)) false (lo s) (err s)
                   (origin_ s) (first s) (oor s) (surfaced s))
      else None
  | CommittedResp v =>
      match resolved s with
      | v' :: rest =>
          if oz_eqb v v' then
            if is_some (pos s) || is_some (rst s) then
              (* a seek() / seek_to_*() happened while waiting: leave it alone *)
              Some (mkSt (pos s) (rst s) (nwait s) rest (looking s) (lo s) (err s)
                         (origin_ s) (first s) (oor s) (surfaced s))
            else match v with
                 | Some off => Some (set_pos s off (OCommitted off) (nwait s) rest (looking s) (lo s))
                 | None =>
                     match policy_strat (c_policy c) with
                     | Some ps =>
                         Some (mkSt None (Some ps) (nwait s) rest (looking s) (lo s) (err s)
                                    (origin_ s) (first s) (oor s) (surfaced s))
                     | None =>
                         match err s with
                         | None => Some (mkSt None None (nwait s) rest (looking s) (lo s) (Some NoOffset)
                                              (origin_ s) (first s) (oor s) (surfaced s))
                         | Some _ => None
                         end
                     end
                 end
          else None
      | [] => None
      end
  | ListOffsetsSent x =>
      match pos s, rst s with
      | None, Some y =>
          if strat_eqb x y then
            Some (mkSt (pos s) (rst s) (nwait s) (resolved s) (looking s) (x :: lo s) (err s)
                       (origin_ s) (first s) (oor s) (surfaced s))
          else None
      | _, _ => None
      end
  | ListOffsetsResp x lstart hw lso =>
      match remove_strat x (lo s) with
      | Some los =>
          (* applied only `if tp_state.awaiting_reset and tp_state.reset_strategy == <the strategy sent>` *)
          if match rst s with Some y => strat_eqb x y | None => false end then
            Some (set_pos s (answer (c_iso c) x lstart hw lso) (OReset x lstart hw lso)
                          (nwait s) (resolved s) (looking s) los)
          else None
      | None => None
      end
  | ListOffsetsIgnored x =>
      (* no reset pending any more (a seek() won), or another strategy is pending now (a
         seek_to_*() won): the next iteration looks up the right one *)
      match remove_strat x (lo s) with
      | Some los =>
          if match rst s with None => true | Some y => negb (strat_eqb x y) end then
            Some (mkSt (pos s) (rst s) (nwait s) (resolved s) (looking s) los (err s)
                       (origin_ s) (first s) (oor s) (surfaced s))
          else None
      | None => None
      end
  | ListOffsetsErr x =>
      match remove_strat x (lo s) with
      | Some los => Some (mkSt (pos s) (rst s) (nwait s) (resolved s) (looking s) los (err s)
                               (origin_ s) (first s) (oor s) (surfaced s))
      | None => None
      end
  | OutOfRange o =>
      if oz_eqb (pos s) (Some o) then
        match policy_strat (c_policy c) with
        | Some ps => Some (mkSt None (Some ps) (nwait s) (resolved s) (looking s) (lo s) (err s)
                                None (first s) true (surfaced s))
        | None =>
            match err s with
            | None => Some (mkSt (pos s) (rst s) (nwait s) (resolved s) (looking s) (lo s)
                                 (Some OutOfRangeErr) (origin_ s) (first s) true (surfaced s))
            | Some _ => None
            end
        end
      else Some s                    (* stale reply: ignored *)
  | Consumed p =>
      match pos s with
      | Some q => if q <=? p then
                    Some (mkSt (Some p) (rst s) (nwait s) (resolved s) (looking s) (lo s) (err s)
                               (origin_ s) (first s) (oor s) (surfaced s))
                  else None
      | None => None
      end
  | Seek o =>
      Some (mkSt (Some o) None (nwait s) (resolved s) (looking s) (lo s) None (Some (OSeek o))
                 (match first s with Some f => Some f | None => Some (o, OSeek o) end)
                 (oor s) (surfaced s))
  | SeekTo x =>
      Some (mkSt None (Some x) (nwait s) (resolved s) (looking s) (lo s) None None (first s)
                 (oor s) (surfaced s))
  | ErrRaised k =>
      match err s with
      | Some k' => if errk_eqb k k' then
                     Some (mkSt (pos s) (rst s) (nwait s) (resolved s) (looking s) (lo s) None
                                (origin_ s) (first s) (oor s) (surfaced s ++ [k]))
                   else None
      | None => None
      end
  | Position p => if oz_eqb (pos s) (Some p) then Some s else None
  end.

Fixpoint run (c : cfg) (s : st) (tr : list ev) : option st :=
  match tr with
  | [] => Some s
  | e :: tr' => match step c s e with Some s' => run c s' tr' | None => None end
  end.

Fixpoint first_reject (c : cfg) (s : st) (tr : list ev) (i : nat) : option nat :=
  match tr with
  | [] => None
  | e :: tr' => match step c s e with
                | Some s' => first_reject c s' tr' (S i)
                | None => Some i
                end
  end.

(* classes of events *)
Definition user_move (e : ev) : bool :=          (* the application repositions *)
  match e with Seek _ | SeekTo _ => true | _ => false end.
Definition quiet_ev (e : ev) : bool :=           (* nothing that may legitimately move a sought position *)
  match e with Seek _ | SeekTo _ | Consumed _ | OutOfRange _ | Assigned => false | _ => true end.

(* codes for the correspondence output *)
Definition origin_code (o : option origin) : Z :=
  match o with
  | None => 0
  | Some (OCommitted _) => 1
  | Some (OReset Earliest _ _ _) => 2
  | Some (OReset Latest _ _ _) => 3
  | Some (OSeek _) => 4
  end.
Definition errk_code (k : errk) : Z := match k with NoOffset => 1 | OutOfRangeErr => 2 end.

(* outcome of replaying a recorded trace: inl (position, reset pending?, first valid position and
   its origin code, origin code of the current position, errors surfaced) or inr (index rejected) *)
Definition replay (c : cfg) (tr : list ev)
  : (option Z * bool * option (Z * Z) * Z * list Z) + nat :=
  match run c fresh tr with
  | Some s => inl (pos s, is_some (rst s),
                   match first s with Some (f, og) => Some (f, origin_code (Some og)) | None => None end,
                   origin_code (origin_ s), map errk_code (surfaced s))
  | None => inr (match first_reject c fresh tr O with Some i => i | None => O end)
  end.

(* the fault-free continuation from an idle state without a valid position *)
Definition finish (c : cfg) (s : st) (lstart hw lso : Z) : list ev :=
  match rst s with
  | Some x => [ListOffsetsSent x; ListOffsetsResp x lstart hw lso]
  | None =>
      [CommittedReq] ++ (if c_group c then [LookupSent] else []) ++
      [LookupOk (eff_committed c); CommittedResp (eff_committed c)] ++
      match eff_committed c, policy_strat (c_policy c) with
      | None, Some x => [ListOffsetsSent x; ListOffsetsResp x lstart hw lso]
      | _, _ => []
      end
  end.
