(* C09_Crc.v — CRC-32C (Castagnoli, Kafka v2 batches) and CRC-32 (IEEE, legacy messages)
   written from their definition: reflected bitwise polynomial division, then the usual
   256-entry table derived from it.  The table-driven loop has the shape of
   aiokafka/record/_crc32c.py:crc_update and of crc32c_sw in _crecords/crc32c.c
   (byte-at-a-time part); zlib's crc32 is the same loop over the IEEE polynomial. *)
From Coq Require Import ZArith List Bool Lia.
From Verif Require Import C09Bytes.
Import ListNotations.
Open Scope Z_scope.

Definition MASK32 : Z := 4294967295.
Definition POLY_C : Z := 2197175160.   (* 0x82F63B78, CRC-32C reflected *)
Definition POLY_IEEE : Z := 3988292384. (* 0xEDB88320, CRC-32 reflected *)

Definition crc_bit (poly c : Z) : Z :=
  if Z.odd c then Z.lxor (Z.shiftr c 1) poly else Z.shiftr c 1.
Definition crc_entry (poly n : Z) : Z :=
  crc_bit poly (crc_bit poly (crc_bit poly (crc_bit poly
    (crc_bit poly (crc_bit poly (crc_bit poly (crc_bit poly n))))))).
Definition mk_table (poly : Z) : list Z :=
  map (fun n => crc_entry poly (Z.of_nat n)) (seq 0 256).

Definition table_c : list Z := Eval vm_compute in mk_table POLY_C.
Definition table_ieee : list Z := Eval vm_compute in mk_table POLY_IEEE.

(* one byte: crc = table[(crc ^ b) & 0xFF] ^ (crc >> 8), masked to 32 bits *)
Definition crc_step (table : list Z) (crc b : Z) : Z :=
  Z.land (Z.lxor (nth (Z.to_nat (Z.land (Z.lxor crc b) 255)) table 0) (Z.shiftr crc 8)) MASK32.

Definition crc_update (table : list Z) (crc : Z) (data : bytes) : Z :=
  Z.lxor (fold_left (crc_step table) data (Z.lxor crc MASK32)) MASK32.

Definition crc32c (data : bytes) : Z := Z.land (crc_update table_c 0 data) MASK32.
Definition crc32 (data : bytes) : Z := Z.land (crc_update table_ieee 0 data) MASK32.

(* the standard check values *)
Definition check_input : bytes := [49; 50; 51; 52; 53; 54; 55; 56; 57].   (* "123456789" *)
Example crc32c_check : crc32c check_input = 3808858755.   (* 0xE3069283 *)
Proof. vm_compute. reflexivity. Qed.
Example crc32_check : crc32 check_input = 3421780262.     (* 0xCBF43926 *)
Proof. vm_compute. reflexivity. Qed.
Example table_c_is_bitwise : table_c = mk_table POLY_C.
Proof. vm_compute. reflexivity. Qed.
Example table_ieee_is_bitwise : table_ieee = mk_table POLY_IEEE.
Proof. vm_compute. reflexivity. Qed.

Lemma land_mask32 x : Z.land x MASK32 = x mod 4294967296.
Proof. change MASK32 with (Z.ones 32). rewrite Z.land_ones by lia. reflexivity. Qed.

Lemma crc32c_range d : 0 <= crc32c d < 4294967296.
Proof. unfold crc32c. rewrite land_mask32. apply Z.mod_pos_bound. lia. Qed.
Lemma crc32_range d : 0 <= crc32 d < 4294967296.
Proof. unfold crc32. rewrite land_mask32. apply Z.mod_pos_bound. lia. Qed.
