(* C03_Fetcher.v — executable model for property C03 (consumer yields each visible record once,
   in offset order, from its position).

   Part 1  the partition log as the consumer is entitled to see it: batches (base offset, last
           offset, the offsets of the records a consumer at this isolation level may see —
           nothing for control batches, aborted batches, batches emptied by compaction; which
           records these are is C08's business), `visible`, `vis_between`.
   Part 2  PER-PARTITION model of Fetcher + TopicPartitionState + FetchResult / PartitionRecords
           (aiokafka/consumer/fetcher.py, subscription_state.py) composed with the partition
           leader: events are the boundary actions recorded from the real consumer under the
           simulator.  `step s e = None` = the model does not allow e in s.
   Part 3  the API-level SPEC automaton (position + what was delivered, against `visible`).
   Part 4  next_record / fetched_records as scans over the buffered partitions (the
           `partitions` argument).

   Only definitions here (all run by vm_compute in the correspondence); proofs in
   proof/C03_*.v, public statements in props/C03.v. *)
From Coq Require Import ZArith List Bool.
Import ListNotations.
Open Scope Z_scope.

(* ------------------------------------------------------------------------------------------ *)
(** * Part 1 — the log *)

Record batch := mkB {
  b_base : Z;            (* base offset *)
  b_last : Z;            (* last offset (kept by compaction); next_offset = b_last + 1 *)
  b_vis  : list Z }.     (* offsets of the visible records still present, ascending *)

Definition b_next (b : batch) : Z := b_last b + 1.

(* strictly increasing offsets inside [lo, hi] *)
Fixpoint incr_in (lo hi : Z) (l : list Z) : bool :=
  match l with
  | [] => true
  | x :: l' => (lo <=? x) && (x <=? hi) && incr_in (x + 1) hi l'
  end.

(* batches in offset order, not overlapping, each spanning at least one offset *)
Fixpoint wf_from (lo : Z) (L : list batch) : bool :=
  match L with
  | [] => true
  | b :: L' => (lo <=? b_base b) && (b_base b <=? b_last b) &&
               incr_in (b_base b) (b_last b) (b_vis b) && wf_from (b_last b + 1) L'
  end.
Definition wf_log (L : list batch) : bool := wf_from 0 L.

Definition visible (L : list batch) : list Z := flat_map b_vis L.
Definition between (a b : Z) (l : list Z) : list Z :=
  filter (fun r => (a <=? r) && (r <? b)) l.
(* the visible records with offsets in [a, b) *)
Definition vis_between (L : list batch) (a b : Z) : list Z := between a b (visible L).

(* what the leader can answer to Fetch(o): a non-empty prefix of the batches that end at or
   after o — cut anywhere, by max_bytes, by the high watermark / last stable offset at that
   moment (the log only grows, so this is a prefix of the final log's tail) *)
Definition from_off (o : Z) (L : list batch) : list batch :=
  filter (fun b => o <=? b_last b) L.

Fixpoint zlist_eqb (a b : list Z) : bool :=
  match a, b with
  | [], [] => true
  | x :: a', y :: b' => (x =? y) && zlist_eqb a' b'
  | _, _ => false
  end.
Definition batch_eqb (a b : batch) : bool :=
  (b_base a =? b_base b) && (b_last a =? b_last b) && zlist_eqb (b_vis a) (b_vis b).
Fixpoint prefix_b (p l : list batch) : bool :=
  match p, l with
  | [], _ => true
  | x :: p', y :: l' => batch_eqb x y && prefix_b p' l'
  | _ :: _, [] => false
  end.
Definition valid_resp (L : list batch) (o : Z) (bs : list batch) : bool :=
  prefix_b bs (from_off o L).

(* ------------------------------------------------------------------------------------------ *)
(** * Part 2 — the per-partition fetcher model *)

(* the `for record in next_batch` loop of PartitionRecords._unpack_records: records below
   next_fetch_offset are skipped, a yielded record moves next_fetch_offset to its offset + 1 *)
Fixpoint take_recs (nfo : Z) (rs : list Z) : list Z :=
  match rs with
  | [] => []
  | r :: rs' => if r <? nfo then take_recs nfo rs' else r :: take_recs (r + 1) rs'
  end.

(* the whole iterator: records it will yield, and next_fetch_offset once it is exhausted
   (after every batch, whether delivered, skipped as control / aborted, or empty:
   next_fetch_offset = next_offset of that batch) *)
Fixpoint unpack (nfo : Z) (bs : list batch) : list Z * Z :=
  match bs with
  | [] => ([], nfo)
  | b :: bs' => let r := unpack (b_next b) bs' in (take_recs nfo (b_vis b) ++ fst r, snd r)
  end.

(* Fetcher._records[tp] *)
Inductive bufst :=
| NoBuf
| Recs (rem : list Z) (cur fin : Z)
    (* FetchResult with a live PartitionRecords: records not yet yielded,
       next_fetch_offset now, next_fetch_offset when exhausted *)
| Err (code : Z).        (* FetchError *)

Definition has_buf (b : bufst) : bool := match b with NoBuf => false | _ => true end.

Record st := mkSt {
  pos : option Z;            (* TopicPartitionState._position (None: no valid position) *)
  buf : bufst;
  paused : bool;
  inflight : list Z;         (* fetch offsets of requests built and not yet answered *)
  start : option Z;          (* ghost: where the current run of deliveries started *)
  seg : list Z;              (* ghost: records handed out since [start] *)
  hist : list (Z * Z * list Z)   (* ghost: finished runs (start, position at the end, records) *)
}.

Definition init : st := mkSt None NoBuf false [] None [] [].

Inductive ev :=
| FetchSent (o : Z)            (* _get_actions_per_node puts (tp, o) into a FetchRequest *)
| FetchResp (o code : Z) (bs : list batch)
                               (* _proc_fetch_request handles the partition's part of a reply *)
| FetchFail (o : Z)            (* the request failed as a whole (connection lost, timeout) *)
| HandOne (res : option Z)     (* FetchResult.getone() called by next_record, with its result *)
| HandMany (mx : option Z) (res : list Z)
                               (* FetchResult.getall(max_records) called by fetched_records *)
| SetErr (code : Z)            (* _update_fetch_positions: no committed offset, policy none *)
| RaiseErr (code : Z)          (* FetchError.check_raise(): the error goes to the caller *)
| Seek (o : Z)                 (* consumer.seek(tp, o) *)
| SeekReset                    (* seek_to_beginning / seek_to_end: request_offset_reset *)
| ResetTo (o : Z)              (* TopicPartitionState.reset_to(o) by _update_fetch_positions *)
| Pause | Resume
| Position (p : Z).            (* consumer.position(tp) returned p *)

Definition OFFSET_OUT_OF_RANGE : Z := 1.
Definition TOPIC_AUTHORIZATION_FAILED : Z := 29.

Fixpoint remove1 (x : Z) (l : list Z) : option (list Z) :=
  match l with
  | [] => None
  | y :: l' => if x =? y then Some l'
               else match remove1 x l' with Some r => Some (y :: r) | None => None end
  end.

Definition opt_eqb (a : option Z) (b : Z) : bool :=
  match a with Some x => x =? b | None => false end.

(* close the current run of deliveries (a repositioning happens) *)
Definition close (s : st) : list (Z * Z * list Z) :=
  match start s, pos s with
  | Some a, Some p => hist s ++ [(a, p, seg s)]
  | _, _ => hist s
  end.

Definition res_eqb (a b : option Z) : bool :=
  match a, b with
  | None, None => true
  | Some x, Some y => x =? y
  | _, _ => false
  end.

Fixpoint last_or (d : Z) (l : list Z) : Z :=
  match l with [] => d | x :: l' => last_or x l' end.

(* FetchResult.check_assignment fails: paused, or the position is not where this data continues *)
Definition stale (s : st) (cur : Z) : bool := paused s || negb (opt_eqb (pos s) cur).

(* FetchResult.getone, as (result, state afterwards) *)
Definition hand_one (s : st) : option (option Z * st) :=
  match buf s with
  | Recs rem cur fin =>
      if stale s cur then
        (* check_assignment fails: the data is dropped, nothing returned *)
        Some (None, mkSt (pos s) NoBuf (paused s) (inflight s) (start s) (seg s) (hist s))
      else match rem with
           | r :: rem' =>
               Some (Some r, mkSt (Some (r + 1)) (Recs rem' (r + 1) fin) (paused s) (inflight s)
                                  (start s) (seg s ++ [r]) (hist s))
           | [] =>
               Some (None, mkSt (Some fin) NoBuf (paused s) (inflight s) (start s) (seg s) (hist s))
           end
  | _ => None
  end.

(* FetchResult.getall(max_records) *)
Definition hand_many (s : st) (mx : option Z) : option (list Z * st) :=
  match buf s with
  | Recs rem cur fin =>
      if stale s cur then
        Some ([], mkSt (pos s) NoBuf (paused s) (inflight s) (start s) (seg s) (hist s))
      else
        let full := (rem, mkSt (Some fin) NoBuf (paused s) (inflight s) (start s)
                               (seg s ++ rem) (hist s)) in
        match mx with
        | Some m =>
            if (1 <=? m) && (m <=? Z.of_nat (length rem)) then
              let out := firstn (Z.to_nat m) rem in
              let p := last_or cur out + 1 in
              Some (out, mkSt (Some p) (Recs (skipn (Z.to_nat m) rem) p fin) (paused s)
                              (inflight s) (start s) (seg s ++ out) (hist s))
            else Some full
        | None => Some full
        end
  | _ => None
  end.

(* [none] = auto_offset_reset is "none" *)
Definition step (none : bool) (L : list batch) (s : st) (e : ev) : option st :=
  match e with
  | FetchSent o =>
      match buf s with
      | NoBuf =>
          if opt_eqb (pos s) o && negb (paused s) then
            Some (mkSt (pos s) (buf s) (paused s) (o :: inflight s) (start s) (seg s) (hist s))
          else None
      | _ => None
      end
  | FetchFail o =>
      match remove1 o (inflight s) with
      | Some fl => Some (mkSt (pos s) (buf s) (paused s) fl (start s) (seg s) (hist s))
      | None => None
      end
  | FetchResp o code bs =>
      match remove1 o (inflight s) with
      | None => None
      | Some fl =>
          let s0 := mkSt (pos s) (buf s) (paused s) fl (start s) (seg s) (hist s) in
          if negb (opt_eqb (pos s) o) then Some s0          (* the stale-reply rule *)
          else if has_buf (buf s) then Some s0              (* a second reply for an offset whose data is buffered *)
          else if code =? 0 then
            match bs with
            | [] => Some s0
            | _ => if valid_resp L o bs then
                     let u := unpack o bs in
                     Some (mkSt (pos s) (Recs (fst u) o (snd u)) (paused s) fl
                                (start s) (seg s) (hist s))
                   else None
            end
          else if code =? OFFSET_OUT_OF_RANGE then
            if none then
              match buf s with
              | NoBuf => Some (mkSt (pos s) (Err code) (paused s) fl (start s) (seg s) (hist s))
              | _ => None                (* _set_error asserts there is nothing buffered *)
              end
            else Some (mkSt None (buf s) (paused s) fl None [] (close s))   (* await_reset *)
          else if code =? TOPIC_AUTHORIZATION_FAILED then
            match buf s with
            | NoBuf => Some (mkSt (pos s) (Err code) (paused s) fl (start s) (seg s) (hist s))
            | _ => None
            end
          else Some s0
      end
  | HandOne res =>
      match hand_one s with
      | Some (r, s') => if res_eqb r res then Some s' else None
      | None => None
      end
  | HandMany mx res =>
      match hand_many s mx with
      | Some (r, s') => if zlist_eqb r res then Some s' else None
      | None => None
      end
  | SetErr code =>
      match buf s, pos s with
      | NoBuf, None => Some (mkSt (pos s) (Err code) (paused s) (inflight s) (start s) (seg s) (hist s))
      | _, _ => None
      end
  | RaiseErr code =>
      match buf s with
      | Err c => if c =? code
                 then Some (mkSt (pos s) NoBuf (paused s) (inflight s) (start s) (seg s) (hist s))
                 else None
      | _ => None
      end
  | Seek o =>
      Some (mkSt (Some o) NoBuf (paused s) (inflight s) (Some o) [] (close s))
  | SeekReset =>
      Some (mkSt None NoBuf (paused s) (inflight s) None [] (close s))
  | ResetTo o =>
      match pos s with
      | None => Some (mkSt (Some o) (buf s) (paused s) (inflight s) (Some o) [] (hist s))
      | Some _ => None
      end
  | Pause => Some (mkSt (pos s) (buf s) true (inflight s) (start s) (seg s) (hist s))
  | Resume => Some (mkSt (pos s) (buf s) false (inflight s) (start s) (seg s) (hist s))
  | Position p =>
      if opt_eqb (pos s) p then Some s else None
  end.

Fixpoint run (none : bool) (L : list batch) (s : st) (tr : list ev) : option st :=
  match tr with
  | [] => Some s
  | e :: tr' => match step none L s e with Some s' => run none L s' tr' | None => None end
  end.

(* every run of deliveries, the current one last *)
Definition segments (s : st) : list (Z * Z * list Z) := close s.

Fixpoint first_reject (none : bool) (L : list batch) (s : st) (tr : list ev) (i : nat) : option nat :=
  match tr with
  | [] => None
  | e :: tr' => match step none L s e with
                | Some s' => first_reject none L s' tr' (S i)
                | None => Some i
                end
  end.

(* outcome of replaying a recorded trace: inl (final position, paused, runs of deliveries)
   or inr (index of the first event the model does not allow) *)
Definition replay (none : bool) (L : list batch) (tr : list ev)
  : (option Z * bool * list (Z * Z * list Z)) + nat :=
  match run none L init tr with
  | Some s => inl (pos s, paused s, segments s)
  | None => inr (match first_reject none L init tr O with Some i => i | None => O end)
  end.

(* a fault-free round of the fetch loop at position p, the leader answering with k batches,
   the application draining what arrives *)
Definition drain_result (s : st) : list Z :=
  match hand_many s None with Some (r, _) => r | None => [] end.
Definition round (none : bool) (L : list batch) (k : nat) (s : st) : option st :=
  match pos s with
  | Some p =>
      match step none L s (FetchSent p) with
      | Some s1 =>
          match step none L s1 (FetchResp p 0 (firstn k (from_off p L))) with
          | Some s2 => step none L s2 (HandMany None (drain_result s2))
          | None => None
          end
      | None => None
      end
  | None => None
  end.

Fixpoint rounds (none : bool) (L : list batch) (k : nat) (n : nat) (s : st) : option st :=
  match n with
  | O => Some s
  | S n' => match round none L k s with Some s' => rounds none L k n' s' | None => None end
  end.

(* ------------------------------------------------------------------------------------------ *)
(** * Part 3 — the API-level specification automaton *)

(* What the application can observe: records returned by getone/getmany, its own seek / pause /
   resume calls, position() results; plus the two environment-determined moments of a reset
   (position invalidated; position set to the offset found).  No buffers, no fetches. *)
Record sp := mkSp {
  s_pos : option Z;
  s_paused : bool;
  s_start : option Z;
  s_seg : list Z;
  s_hist : list (Z * Z * list Z) }.

Definition sinit : sp := mkSp None false None [] [].

Inductive sev :=
| SDeliver (r : Z)         (* a record is returned to the application *)
| SSkip (p : Z)            (* the position moves over offsets that hold no visible record *)
| SSeek (o : Z)
| SLose                    (* the position becomes invalid (reset requested / out of range) *)
| SReset (o : Z)           (* the reset completes at offset o *)
| SPause | SResume
| SPosition (p : Z).

Definition sclose (s : sp) : list (Z * Z * list Z) :=
  match s_start s, s_pos s with
  | Some a, Some p => s_hist s ++ [(a, p, s_seg s)]
  | _, _ => s_hist s
  end.

Definition sstep (L : list batch) (s : sp) (e : sev) : option sp :=
  match e with
  | SDeliver r =>
      match s_pos s with
      | Some p =>
          (* r is the first visible record at or after the position *)
          if negb (s_paused s) && zlist_eqb (vis_between L p (r + 1)) [r]
          then Some (mkSp (Some (r + 1)) (s_paused s) (s_start s) (s_seg s ++ [r]) (s_hist s))
          else None
      | None => None
      end
  | SSkip p' =>
      match s_pos s with
      | Some p =>
          if negb (s_paused s) && (p <=? p') && zlist_eqb (vis_between L p p') []
          then Some (mkSp (Some p') (s_paused s) (s_start s) (s_seg s) (s_hist s))
          else None
      | None => None
      end
  | SSeek o => Some (mkSp (Some o) (s_paused s) (Some o) [] (sclose s))
  | SLose => Some (mkSp None (s_paused s) None [] (sclose s))
  | SReset o =>
      match s_pos s with
      | None => Some (mkSp (Some o) (s_paused s) (Some o) [] (s_hist s))
      | Some _ => None
      end
  | SPause => Some (mkSp (s_pos s) true (s_start s) (s_seg s) (s_hist s))
  | SResume => Some (mkSp (s_pos s) false (s_start s) (s_seg s) (s_hist s))
  | SPosition p => if opt_eqb (s_pos s) p then Some s else None
  end.

Fixpoint srun (L : list batch) (s : sp) (tr : list sev) : option sp :=
  match tr with
  | [] => Some s
  | e :: tr' => match sstep L s e with Some s' => srun L s' tr' | None => None end
  end.

(* the abstraction of the fetcher model: state ... *)
Definition abs_st (s : st) : sp := mkSp (pos s) (paused s) (start s) (seg s) (hist s).

(* ... and what one event of the fetcher model is at the API level (depends on the state
   before the event) *)
Definition abs_ev (none : bool) (s : st) (e : ev) : list sev :=
  match e with
  | HandOne _ =>
      match buf s with
      | Recs rem cur fin =>
          if stale s cur then []
          else match rem with r :: _ => [SDeliver r] | [] => [SSkip fin] end
      | _ => []
      end
  | HandMany mx _ =>
      match buf s with
      | Recs rem cur fin =>
          if stale s cur then []
          else match mx with
               | Some m =>
                   if (1 <=? m) && (m <=? Z.of_nat (length rem))
                   then map SDeliver (firstn (Z.to_nat m) rem)
                   else map SDeliver rem ++ [SSkip fin]
               | None => map SDeliver rem ++ [SSkip fin]
               end
      | _ => []
      end
  | FetchResp o code _ =>
      if opt_eqb (pos s) o && negb (has_buf (buf s)) && negb (code =? 0) && (code =? OFFSET_OUT_OF_RANGE) && negb none
      then [SLose] else []
  | Seek o => [SSeek o]
  | SeekReset => [SLose]
  | ResetTo o => [SReset o]
  | Pause => [SPause]
  | Resume => [SResume]
  | Position p => [SPosition p]
  | _ => []
  end.

Fixpoint abs_trace (none : bool) (L : list batch) (s : st) (tr : list ev) : list sev :=
  match tr with
  | [] => []
  | e :: tr' =>
      abs_ev none s e ++
      match step none L s e with Some s' => abs_trace none L s' tr' | None => [] end
  end.

(* API-level acceptance of what the APPLICATION recorded (no internal events): a delivery or a
   position() result may silently include a skip over offsets without visible records *)
Inductive aev :=
| ADeliver (r : Z) | ASeek (o : Z) | ALose | AReset (o : Z) | APause | AResume | APosition (p : Z).

Definition astep (L : list batch) (s : sp) (e : aev) : option sp :=
  match e with
  | ADeliver r => sstep L s (SDeliver r)
  | APosition p =>
      (* the position may have moved (also while paused now) over offsets without visible records *)
      match s_pos s with
      | Some q => if (q <=? p) && zlist_eqb (vis_between L q p) []
                  then Some (mkSp (Some p) (s_paused s) (s_start s) (s_seg s) (s_hist s))
                  else None
      | None => None
      end
  | ASeek o => sstep L s (SSeek o)
  | ALose => sstep L s SLose
  | AReset o => sstep L s (SReset o)
  | APause => sstep L s SPause
  | AResume => sstep L s SResume
  end.

Fixpoint arun (L : list batch) (s : sp) (tr : list aev) : option sp :=
  match tr with
  | [] => Some s
  | e :: tr' => match astep L s e with Some s' => arun L s' tr' | None => None end
  end.

Fixpoint afirst_reject (L : list batch) (s : sp) (tr : list aev) (i : nat) : option nat :=
  match tr with
  | [] => None
  | e :: tr' => match astep L s e with
                | Some s' => afirst_reject L s' tr' (S i)
                | None => Some i
                end
  end.

Definition areplay (L : list batch) (tr : list aev)
  : (option Z * list (Z * Z * list Z)) + nat :=
  match arun L sinit tr with
  | Some s => inl (s_pos s, sclose s)
  | None => inr (match afirst_reject L sinit tr O with Some i => i | None => O end)
  end.

(* ------------------------------------------------------------------------------------------ *)
(** * Part 4 — the scans of next_record / fetched_records over Fetcher._records *)

(* [order]: the keys of Fetcher._records when the scan starts, with a flag "is a FetchError";
   [filt]: the `partitions` argument ([] = no filter).  A scan visits the buffered partitions
   in order, skipping those outside the filter. *)
Definition in_filter (filt : list nat) (p : nat) : bool :=
  match filt with [] => true | _ => existsb (Nat.eqb p) filt end.

(* next_record: one pass of the `for tp in list(self._records.keys())` loop.  [results]: what
   FetchResult.getone() returned for the partitions visited, in visiting order.  Returns the
   partitions whose getone() is called (with the result consumed), whether an error is raised
   (partition), and the record returned. *)
Fixpoint scan_one (filt : list nat) (order : list (nat * bool)) (results : list (option Z))
  : list (nat * option Z) * option nat * option (nat * Z) :=
  match order with
  | [] => ([], None, None)
  | (p, is_err) :: order' =>
      if negb (in_filter filt p) then scan_one filt order' results
      else if is_err then ([], Some p, None)
      else match results with
           | [] => ([], None, None)          (* observation ended *)
           | Some r :: _ => ([(p, Some r)], None, Some (p, r))
           | None :: results' =>
               let x := scan_one filt order' results' in
               ((p, None) :: fst (fst x), snd (fst x), snd x)
           end
  end.

(* fetched_records: one pass.  [results]: the lists returned by FetchResult.getall for the
   partitions visited.  Returns (partition, max_records passed, result) per visit and whether
   an error is raised. *)
Fixpoint scan_many (filt : list nat) (order : list (nat * bool)) (mx : option Z)
                   (results : list (list Z)) (drained : bool)
  : list (nat * option Z * list Z) * option nat :=
  match order with
  | [] => ([], None)
  | (p, is_err) :: order' =>
      if negb (in_filter filt p) then scan_many filt order' mx results drained
      else if is_err then
        (if drained then ([], None) else ([], Some p))
      else match results with
           | [] => ([], None)
           | rs :: results' =>
               let mx' := match mx with
                          | Some m => Some (m - Z.of_nat (length rs))
                          | None => None
                          end in
               let stop := match rs, mx' with
                           | _ :: _, Some m' => m' =? 0
                           | _, _ => false
                           end in
               if stop then ([(p, mx, rs)], None)
               else
                 let x := scan_many filt order' (match rs with [] => mx | _ => mx' end) results'
                                    (drained || negb (zlist_eqb rs [])) in
                 ((p, mx, rs) :: fst x, snd x)
           end
  end.
