(* C10_DecodeSafePy.v — model of the pure-Python record readers (AIOKAFKA_NO_EXTENSIONS=1).
   Mirrors:
     aiokafka/record/util.py             decode_varint_py
     aiokafka/record/default_records.py  _DefaultRecordBatchPy: __init__, validate_crc, _maybe_uncompress,
                                         _read_msg, __next__
     aiokafka/record/legacy_records.py   _LegacyRecordBatchPy: __init__, validate_crc, _decompress,
                                         _read_header, _read_all_headers, _read_key_value, __iter__
     aiokafka/record/memory_records.py   _MemoryRecordsPy: _cache_next, has_next, next_batch
   and the same driver as for the compiled readers.  Python semantics are written in: unbounded
   integers, IndexError and negative-index wrap of item access, slice clamping, struct.error of
   struct.unpack_from (including its treatment of negative offsets).  No instrumented read occurs:
   memory safety is the interpreter's; what can go wrong here is non-termination and the
   exception class. *)
From Coq Require Import ZArith List String Bool Lia.
From Verif Require Import C10_Base.
Import ListNotations.
Open Scope Z_scope.

Record pyhdr : Type := {
  ph_base_offset : Z; ph_crc : Z; ph_attrs : Z; ph_first_ts : Z; ph_max_ts : Z; ph_num_records : Z }.

(* legacy header tuple (offset, length, crc, magic, attrs, timestamp) *)
Record plh : Type := {
  l_offset : Z; l_length : Z; l_crc : Z; l_magic : Z; l_attrs : Z; l_ts : option Z }.

Section Py.
Variable crc32c crc32 : list Z -> Z.
Variable dec : Z -> list Z -> dres.
Variable fx : fixes.

Definition ValueError : string := "ValueError".
Definition pzigzag (v : Z) : Z := if Z.even v then v / 2 else - (v / 2) - 1.

(* ------------------------------------------------------------------ util.decode_varint_py *)
(* continuation loop: shift = 7, 14, .., 63 — at most nine more bytes *)
Fixpoint py_varint_loop (n : nat) (buf : list Z) (pos shift result : Z) : res (Z * Z) :=
  match n with
  | O => Fail (FFuel "util.decode_varint_py")
  | S n' =>
    do b <- py_getitem buf pos;
    let result := Z.lor result (Z.shiftl (b mod 128) shift) in
    let pos := pos + 1 in
    if b <? 128 then Ok (pzigzag result, pos)
    else
      let shift := shift + 7 in
      if 64 <=? shift then raise ValueError else py_varint_loop n' buf pos shift result
  end.
Definition py_varint (buf : list Z) (pos : Z) : res (Z * Z) :=
  do r <- py_getitem buf pos;
  if (r <? 128) && Z.even r then Ok (r / 2, pos + 1)
  else if r <? 128 then Ok (- (r / 2) - 1, pos + 1)
  else py_varint_loop 9 buf (pos + 1) 7 (r mod 128).

(* ------------------------------------------------------------------ _DefaultRecordBatchPy *)
Definition py_v2_new (buf : list Z) : res pyhdr :=
  do l <- py_unpack_from buf 0 61;
  let i p n := sgn (8 * n) (be_u (sub l p n)) in
  Ok (Build_pyhdr (i 0 8) (be_u (sub l 17 4)) (i 21 2) (i 27 8) (i 35 8) (i 57 4)).

Definition py_v2_validate (h : pyhdr) (buf : list Z) : bool :=
  ph_crc h =? crc32c (py_slice_from buf 21).

Definition py_v2_uncompress (h : pyhdr) (buf : list Z) : res (list Z * Z) :=
  let ct := ph_attrs h mod 8 in
  if ct =? 0 then Ok (buf, 61)
  else if 4 <? ct then raise Unsupported
  else match dec ct (py_slice_from buf 61) with
       | DOk out => Ok (out, 0)
       | DRaise e => raise e
       end.

Definition py_opt_bytes (buf : list Z) (p n : Z) : option (list Z) * Z :=
  if 0 <=? n then (Some (py_slice buf p (p + n)), p + n) else (None, p).

Definition hdr : Type := (list Z * option (list Z))%type.

(* while header_count: fuel = buffer length + 1 (every iteration needs a byte at pos) *)
Fixpoint py_headers (fuel : nat) (buf : list Z) (p hc : Z) (acc : list hdr) : res (list hdr * Z) :=
  match fuel with
  | O => Fail (FFuel "default_records.py._read_msg.headers")
  | S f =>
    if hc =? 0 then Ok (rev acc, p) else
    do kl <- py_varint buf p; let '(klen, p) := kl in
    if klen <? 0 then raise Corrupt else
    let hk := py_slice buf p (p + klen) in
    if negb (utf8_ok hk) then raise "UnicodeDecodeError" else
    let p := p + klen in
    do vl <- py_varint buf p; let '(vlen, p) := vl in
    let '(hval, p) := py_opt_bytes buf p vlen in
    py_headers f buf p (hc - 1) ((hk, hval) :: acc)
  end.

Definition py_read_msg (h : pyhdr) (buf : list Z) (pos : Z) : res (rec * Z) :=
  do a <- py_varint buf pos; let '(length, p) := a in
  let start := p in
  do a <- py_varint buf p; let '(_attrs, p) := a in
  do a <- py_varint buf p; let '(ts_delta, p) := a in
  let tstype := if ph_attrs h mod 16 <? 8 then 0 else 1 in
  let timestamp := if tstype =? 1 then ph_max_ts h else ph_first_ts h + ts_delta in
  do a <- py_varint buf p; let '(off_delta, p) := a in
  let offset := ph_base_offset h + off_delta in
  do a <- py_varint buf p; let '(key_len, p) := a in
  let '(key, p) := py_opt_bytes buf p key_len in
  do a <- py_varint buf p; let '(value_len, p) := a in
  let '(value, p) := py_opt_bytes buf p value_len in
  do a <- py_varint buf p; let '(hc, p) := a in
  if hc <? 0 then raise Corrupt else
  do a <- py_headers (S (List.length buf)) buf p hc []; let '(hs, p) := a in
  if negb (p - start =? length) then raise Corrupt else
  Ok ((offset, Some timestamp, Some tstype, bdig key, bdig value, hdig hs, None), p).

(* __next__: except (ValueError, IndexError) -> CorruptRecordException *)
Definition py_catch (f : failure) : failure :=
  match f with
  | FRaise e =>
    if (String.eqb e ValueError || String.eqb e IndexError || String.eqb e "UnicodeDecodeError")%bool
    then FRaise Corrupt else f
  | _ => f
  end.

Fixpoint py_v2_iter (fuel : nat) (h : pyhdr) (buf : list Z) (pos idx : Z) (acc : list rec)
  : list rec * status :=
  match fuel with
  | O => (rev acc, SFail (FFuel "default_records.py.__next__"))
  | S f =>
    if ph_num_records h <=? idx then
      if pos =? zlen buf then (rev acc, SDone) else (rev acc, SFail (FRaise Corrupt))
    else
      match py_read_msg h buf pos with
      | Ok (r, p) => py_v2_iter f h buf p (idx + 1) (r :: acc)
      | Fail e => (rev acc, SFail (py_catch e))
      end
  end.

Definition py_v2_run (validate : bool) (buf : list Z) : list rec * status :=
  match py_v2_new buf with
  | Fail e => ([], SFail e)
  | Ok h =>
    if validate && negb (py_v2_validate h buf) then ([], SFail (FRaise Corrupt)) else
    match py_v2_uncompress h buf with
    | Fail e => ([], SFail e)
    | Ok (b, pos) => py_v2_iter (S (List.length b)) h b pos 0 []
    end
  end.

(* ------------------------------------------------------------------ _LegacyRecordBatchPy *)
Definition py_i32 (buf : list Z) (pos : Z) : res Z :=
  do l <- py_unpack_from buf pos 4; Ok (sgn 32 (be_u l)).

(* _read_header(pos): HEADER_STRUCT_V0 (18 bytes) when self._magic == 0, else HEADER_STRUCT_V1 (26) *)
Definition py_l_read_header (magic : Z) (buf : list Z) (pos : Z) : res plh :=
  do l <- py_unpack_from buf pos (if magic =? 0 then 18 else 26);
  let i p n := sgn (8 * n) (be_u (sub l p n)) in
  Ok (Build_plh (i 0 8) (i 8 4) (be_u (sub l 12 4)) (i 16 1) (i 17 1)
                (if magic =? 0 then None else Some (i 18 8))).

Definition py_l_new (magic : Z) (buf : list Z) : res plh :=
  do h <- py_l_read_header magic buf 0;
  if negb (l_length h =? zlen buf - 12) then raise "AssertionError"
  else if negb (magic =? l_magic h) then raise "AssertionError"
  else Ok h.

Definition py_l_validate (h : plh) (buf : list Z) : bool :=
  l_crc h =? crc32 (py_slice_from buf 16).

Definition py_l_tstype (magic : Z) (h : plh) : option Z :=
  if magic =? 0 then None else Some (if l_attrs h mod 16 <? 8 then 0 else 1).

(* _decompress(key_offset): the compressed value *)
Definition py_l_payload (buf : list Z) (key_offset : Z) : res (list Z) :=
  let pos := key_offset in
  do ksz <- py_i32 buf pos;
  let pos := pos + 4 in
  let pos := if ksz =? -1 then pos else pos + ksz in
  do vsz <- py_i32 buf pos;
  let pos := pos + 4 in
  if vsz =? -1 then raise Corrupt else Ok (py_slice buf pos (pos + vsz)).

(* while pos < buffer_len: header = _read_header(pos); pos += 12 + length.
   fuel = 2 * length + 2: a position is in [-len, len) *)
Fixpoint py_all_headers (fuel : nat) (magic : Z) (buf : list Z) (pos : Z) (acc : list (plh * Z))
  : res (list (plh * Z)) :=
  match fuel with
  | O => Fail (FFuel "legacy_records.py._read_all_headers")
  | S f =>
    if pos <? zlen buf then
      do h <- py_l_read_header magic buf pos;
      if fx_pyhdrs fx && (l_length h <? 0) then raise Corrupt else
      py_all_headers f magic buf (pos + 12 + l_length h) ((h, pos) :: acc)
    else Ok (rev acc)
  end.

Definition py_l_key_value (buf : list Z) (pos : Z) : res (option (list Z) * option (list Z)) :=
  do ksz <- py_i32 buf pos;
  let pos := pos + 4 in
  let '(key, pos) := if ksz =? -1 then (None, pos) else (Some (py_slice buf pos (pos + ksz)), pos + ksz) in
  do vsz <- py_i32 buf pos;
  let pos := pos + 4 in
  let value := if vsz =? -1 then None else Some (py_slice buf pos (pos + vsz)) in
  Ok (key, value).

Fixpoint py_l_inner (main : plh) (tstype : option Z) (abs key_offset : Z) (buf : list Z)
                    (hs : list (plh * Z)) (acc : list rec) : list rec * status :=
  match hs with
  | [] => (rev acc, SDone)
  | (h, msg_pos) :: hs' =>
    if negb (l_attrs h mod 8 =? 0) then (rev acc, SFail (FRaise "AssertionError")) else
    let ts := match tstype with Some 1 => l_ts main | _ => l_ts h end in
    let offset := if 0 <=? abs then l_offset h + abs else l_offset h in
    match py_l_key_value buf (msg_pos + key_offset) with
    | Fail e => (rev acc, SFail e)
    | Ok (key, value) =>
      py_l_inner main tstype abs key_offset buf hs'
                 ((offset, ts, tstype, bdig key, bdig value, hdig [], Some (l_crc h)) :: acc)
    end
  end.

Definition py_l_iter (magic : Z) (main : plh) (buf : list Z) : list rec * status :=
  let key_offset := if magic =? 1 then 26 else 18 in
  let tstype := py_l_tstype magic main in
  let ct := l_attrs main mod 8 in
  if ct =? 0 then
    match py_l_key_value buf key_offset with
    | Fail e => ([], SFail e)
    | Ok (key, value) =>
      ([(l_offset main, l_ts main, tstype, bdig key, bdig value, hdig [], Some (l_crc main))], SDone)
    end
  else
    match py_l_payload buf key_offset with
    | Fail e => ([], SFail e)
    | Ok data =>
      if 3 <? ct then ([], SFail (FRaise Unsupported))
      else if (ct =? 3) && (magic =? 0) then ([], SFail (FRaise Unsupported))
      else
        match dec ct data with
        | DRaise e => ([], SFail (FRaise e))
        | DOk out =>
          match py_all_headers (S (S (2 * List.length out))) magic out 0 [] with
          | Fail e => ([], SFail e)
          | Ok hs =>
            if 0 <? magic then
              match rev hs with
              | [] => ([], SFail (FRaise IndexError))
              | (last, _) :: _ => py_l_inner main tstype (l_offset main - l_offset last) key_offset out hs []
              end
            else py_l_inner main tstype (-1) key_offset out hs []
          end
        end
    end.

Definition py_l_run (validate : bool) (magic : Z) (buf : list Z) : list rec * status :=
  match py_l_new magic buf with
  | Fail e => ([], SFail e)
  | Ok h =>
    if validate && negb (py_l_validate h buf) then ([], SFail (FRaise Corrupt))
    else py_l_iter magic h buf
  end.

(* ------------------------------------------------------------------ _MemoryRecordsPy + driver *)
(* _cache_next: new position and next slice *)
Definition py_cache_next (buf : list Z) (pos : Z) : res (Z * option (list Z)) :=
  let n := zlen buf in
  if n - pos <? 12 then Ok (pos, None) else
  do length <- py_i32 buf (pos + 8);
  let slice_end := pos + 12 + length in
  if n <? slice_end then Ok (pos, None)
  else Ok (slice_end, Some (py_slice buf pos slice_end)).

Fixpoint py_mr_loop (fuel : nat) (validate : bool) (buf : list Z) (pos : Z) (next : option (list Z))
                    (acc : list rec) : list rec * status :=
  match fuel with
  | O => (acc, SFail (FFuel "memory_records.py"))
  | S f =>
    match next with
    | None => (acc, SDone)                                  (* has_next() is False *)
    | Some slice =>
      if zlen slice <? 26 then (acc, SFail (FRaise Corrupt)) else
      match py_cache_next buf pos with
      | Fail e => (acc, SFail e)
      | Ok (pos', next') =>
        let magic := nth 16 slice 0 in
        let '(recs, st) := if 2 <=? magic then py_v2_run validate slice else py_l_run validate magic slice in
        match st with
        | SDone => py_mr_loop f validate buf pos' next' (acc ++ recs)
        | _ => (acc ++ recs, st)
        end
      end
    end
  end.

Definition py_decode (validate : bool) (buf : list Z) : list rec * status :=
  match py_cache_next buf 0 with
  | Fail e => ([], SFail e)
  | Ok (pos, next) => py_mr_loop (S (List.length buf)) validate buf pos next []
  end.

End Py.
