(* C16_TxnApi.v — the transactional API of AIOKafkaProducer as a function
     api : tstate -> call -> fault -> tstate * result * list req
   plus an independently written 7-state automaton of the documented protocol.

   Code modelled (read, not idealised):
     aiokafka/producer/transaction_manager.py  TransactionManager.begin_transaction /
       committing_transaction / aborting_transaction / complete_transaction / error_transaction /
       fatal_error / maybe_add_partition_to_txn / add_offsets_to_txn / is_empty_transaction;
       every [_transition_to] goes through the TRANSLATED TransactionState.is_transition_valid
       (gen/TxnTable.v) — [table] below;
     aiokafka/producer/producer.py  begin/commit/abort_transaction, send (IllegalOperation guard),
       send_offsets_to_transaction, TransactionContext.__aexit__;
     aiokafka/producer/sender.py  _maybe_do_transactional_request (order of requests), the error
       classification of AddPartitionsToTxnHandler / AddOffsetsToTxnHandler / TxnOffsetCommitHandler
       / EndTxnHandler / SendProduceReqHandler, _sender_routine's exception filter, _fail_all.

   A call is awaited to completion (send = send() + await the returned future) before the next call
   starts — exactly how harness/impl/c16_impl.py drives the real producer.  The exception is the
   nowait send (SendNW): its future is kept and the next call starts at once, so that the
   registration of its partition and its Produce happen while the manager is already COMMITTING /
   ABORTING; see [call] and [await_sends].  Both partitions have the same leader in programs with
   nowait sends.
   A fault hits the i-th faultable request (AddPartitionsToTxn, AddOffsetsToTxn, TxnOffsetCommit,
   EndTxn, Produce) that reaches the cluster during the call. *)
From Coq Require Import ZArith List Bool.
From Verif Require Import Imp TxnTable.
Import ListNotations.
Open Scope Z_scope.

(* ---------- TransactionState and the translated table ------------------------------------- *)
Inductive tst := UNINIT | READY | IN_TXN | COMMITTING | ABORTING | ABORTABLE | FATAL.

Definition tcode (s : tst) : Z :=
  match s with UNINIT => 1 | READY => 2 | IN_TXN => 3 | COMMITTING => 4 | ABORTING => 5
             | ABORTABLE => 6 | FATAL => 7 end.

(* TransactionState.is_transition_valid, as generated from the source text *)
Definition table_py (s t : tst) : bool :=
  match TxnTable.py (tcode s) (tcode t) with Ok b => b | Exn _ => false end.

(* the same function tabulated when this file is compiled (49 entries computed from the
   translated text by vm_compute; proof/C16_proof.v proves table = table_py) — the finite sweeps
   evaluate it ~10^6 times *)
Definition tst_all := [UNINIT; READY; IN_TXN; COMMITTING; ABORTING; ABORTABLE; FATAL].
Definition tindex (s : tst) : nat :=
  match s with UNINIT => 0 | READY => 1 | IN_TXN => 2 | COMMITTING => 3 | ABORTING => 4
             | ABORTABLE => 5 | FATAL => 6 end%nat.
Definition table_rows : list (list bool) :=
  Eval vm_compute in map (fun s => map (fun t => table_py s t) tst_all) tst_all.
Definition table (s t : tst) : bool := nth (tindex t) (nth (tindex s) table_rows []) false.

(* _transition_to: the assert *)
Definition trans (s t : tst) : option tst := if table s t then Some t else None.

(* ---------- vocabulary ---------------------------------------------------------------------- *)
(* broker error codes that can be injected; EOther stands for an unlisted non-retriable code
   (CORRUPT_MESSAGE = 2 in the harness) *)
Inductive code := E3 | E7 | E14 | E15 | E16 | E29 | E30 | E45 | E47 | E48 | E49 | E51 | E53 | EOther.

Inductive fkind := FErr (c : code) | FDropBefore | FDropAfter.
Inductive fidx := I0 | I1 | I2 | I3.
Definition idx_nat (i : fidx) : nat := match i with I0 => 0 | I1 => 1 | I2 => 2 | I3 => 3 end%nat.
Definition fault := option (fidx * fkind).

Inductive part := P0 | P1.       (* the two partitions of the topic *)
(* a set of partitions: (contains P0, contains P1) *)
Definition pset := (bool * bool)%type.
Definition one (p : part) : pset := match p with P0 => (true, false) | P1 => (false, true) end.
Definition is_none (B : pset) : bool := negb (fst B) && negb (snd B).

Inductive req :=
| RAddPartitions (B : pset) | RAddOffsets | RTxnOffsetCommit | REndTxn (commit : bool)
| RProduce (B : pset) | RFindCoord (group : bool).

(* exception classes seen by the application *)
Inductive exn :=
| XIllegalOperation | XAssertion | XProducerFenced
| XKafkaError                (* KafkaError("Unexpected error during batch delivery") wrapper *)
| XCode (c : code).          (* the error class of broker code c, e.g. XCode E29 = TopicAuthorizationFailedError *)

Inductive result := ROk | RRaise (e : exn) | RFutFail (e : exn).
(* RRaise: the awaited API call raised; RFutFail: send() returned a future that failed *)

(* outcome of the delivery futures of earlier nowait sends, per partition, when they are awaited *)
Definition futs := (option result * option result)%type.
Definition no_futs : futs := (None, None).

(* SendNW p: send() is awaited, the future it returns is NOT: the next call starts at once, with the
   batch still queued.  The application awaits the outstanding futures when the next commit / abort /
   context exit has returned (or raised), or right before any other call that is not a nowait send
   (harness/impl/c16_impl.py does exactly this). *)
Inductive call := Begin | Send (p : part) | SendOffsets | Commit | Abort | CtxOk | CtxExc | SendNW (p : part).

Record tstate := mkT {
  st : tst;
  p0 : bool; p1 : bool;      (* _txn_partitions (partitions 0 and 1 of the topic) *)
  grp : bool;                (* _txn_consumer_group is not None *)
  gck : bool;                (* Sender._coordinators has the GROUP coordinator cached *)
  werr : option exn;         (* exception stored in _transaction_waiter *)
  gap0 : bool; gap1 : bool;  (* environment: the partition leader is missing a sequence range —
                                a batch whose Produce failed non-retriably had already consumed its
                                sequence numbers (_pop_batch), so every later batch for the
                                partition is answered OUT_OF_ORDER_SEQUENCE_NUMBER *)
  nw0 : bool; nw1 : bool     (* a batch of nowait sends is queued for the partition and its
                                futures have not been awaited (only in IN_TRANSACTION) *)
}.

Definition init_state : tstate := mkT UNINIT false false false false None false false false false.
(* after start(): InitProducerId succeeded, set_pid_and_epoch -> _transition_to(READY) *)
Definition started : option tstate :=
  match trans UNINIT READY with
  | Some s => Some (mkT s false false false false None false false false false)
  | None => None end.

Definition set_st (s : tstate) (t : tst) := mkT t (p0 s) (p1 s) (grp s) (gck s) (werr s) (gap0 s) (gap1 s) (nw0 s) (nw1 s).
Definition set_parts (s : tstate) (a b : bool) := mkT (st s) a b (grp s) (gck s) (werr s) (gap0 s) (gap1 s) (nw0 s) (nw1 s).
Definition set_grpb (s : tstate) (g : bool) := mkT (st s) (p0 s) (p1 s) g (gck s) (werr s) (gap0 s) (gap1 s) (nw0 s) (nw1 s).
Definition set_gck (s : tstate) (g : bool) := mkT (st s) (p0 s) (p1 s) (grp s) g (werr s) (gap0 s) (gap1 s) (nw0 s) (nw1 s).
Definition set_werr (s : tstate) (w : option exn) := mkT (st s) (p0 s) (p1 s) (grp s) (gck s) w (gap0 s) (gap1 s) (nw0 s) (nw1 s).
Definition set_gaps (s : tstate) (B : pset) := mkT (st s) (p0 s) (p1 s) (grp s) (gck s) (werr s) (gap0 s || fst B) (gap1 s || snd B) (nw0 s) (nw1 s).
Definition set_nw (s : tstate) (a b : bool) := mkT (st s) (p0 s) (p1 s) (grp s) (gck s) (werr s) (gap0 s) (gap1 s) a b.

(* ---------- error classification of the handlers ------------------------------------------- *)
Inductive action :=
| ASuccess
| ARetry (dead : bool)       (* back off and re-send; dead: _coordinator_dead first -> FindCoordinator *)
| AAbortable (e : exn)       (* Sender._abortable_error(e) -> txn_manager.error_transaction(e) *)
| AFatal (e : exn)           (* exception escapes the sender task -> _fail_all -> fatal_error(e) *)
| AFailBatch (e : exn).      (* produce only: batch.failure(e), nothing else *)

(* `raise error_type()` inside a handler reaches _sender_routine: ProducerFenced,
   OutOfOrderSequenceNumber and TransactionalIdAuthorizationFailed pass, everything else is
   wrapped in KafkaError *)
Definition escapes (c : code) : exn :=
  match c with E45 => XCode E45 | E53 => XCode E53 | _ => XKafkaError end.

Definition cl_add_partitions (c : code) : action :=
  match c with
  | E15 | E16 => ARetry true
  | E51 | E14 | E3 => ARetry false
  | E47 => AFatal XProducerFenced
  | E49 | E48 => AFatal (escapes c)
  | E29 => AAbortable (XCode E29)
  | E53 => AFatal (XCode E53)
  | _ => AFatal (escapes c)
  end.

Definition cl_add_offsets (c : code) : action :=
  match c with
  | E15 | E16 => ARetry true
  | E14 | E51 => ARetry false
  | E47 => AFatal XProducerFenced
  | E48 => AFatal (escapes c)
  | E53 => AFatal (XCode E53)
  | E30 => AAbortable (XCode E30)
  | _ => AFatal (escapes c)
  end.

Definition cl_txn_offset_commit (c : code) : action :=
  match c with
  | E15 | E16 | E7 => ARetry true          (* GROUP coordinator dead *)
  | E14 | E3 => ARetry false
  | E47 => AFatal XProducerFenced
  | E53 => AFatal (XCode E53)
  | E30 => AAbortable (XCode E30)
  | _ => AFatal (escapes c)
  end.

Definition cl_end_txn (c : code) : action :=
  match c with
  | E15 | E16 => ARetry true
  | E14 | E51 => ARetry false
  | E47 => AFatal XProducerFenced
  | _ => AFatal (escapes c)
  end.

(* Errors.for_code(c).retriable; InvalidProducerEpoch is reported as ProducerFenced *)
Definition cl_produce (c : code) : action :=
  match c with
  | E3 | E7 | E14 | E15 | E16 => ARetry false
  | E47 => AFailBatch XProducerFenced
  | _ => AFailBatch (XCode c)
  end.

Inductive rkind := KAddPartitions | KAddOffsets | KTxnOffsetCommit | KEndTxn | KProduce.

Definition classify (k : rkind) (f : fkind) : action :=
  match f with
  | FDropBefore | FDropAfter => ARetry false     (* KafkaConnectionError: back off, same coordinator *)
  | FErr c => match k with
              | KAddPartitions => cl_add_partitions c
              | KAddOffsets => cl_add_offsets c
              | KTxnOffsetCommit => cl_txn_offset_commit c
              | KEndTxn => cl_end_txn c
              | KProduce => cl_produce c
              end
  end.

(* what happens to the [n]-th faultable request of the call (counted from 0 in the order the requests
   reach the cluster when nothing fails; a call carries at most one fault, so the positions after a
   re-sent request do not matter) *)
Definition act_at (k : rkind) (f : fault) (n : nat) : action :=
  match f with
  | Some (j, fk) => if Nat.eqb (idx_nat j) n then classify k fk else ASuccess
  | None => ASuccess
  end.

(* ---------- TransactionManager pieces ------------------------------------------------------- *)
Definition has_part (s : tstate) (p : part) : bool :=
  match p with P0 => p0 s | P1 => p1 s end.
Definition add_parts (s : tstate) (B : pset) : tstate := set_parts s (p0 s || fst B) (p1 s || snd B).
Definition add_part (s : tstate) (p : part) : tstate := add_parts s (one p).
Definition has_gap (s : tstate) (p : part) : bool :=
  match p with P0 => gap0 s | P1 => gap1 s end.
Definition set_gap (s : tstate) (p : part) : tstate := set_gaps s (one p).
Definition is_empty_txn (s : tstate) : bool := negb (p0 s) && negb (p1 s) && negb (grp s).
(* outstanding nowait sends (they exist only inside a transaction) *)
Definition pending (s : tstate) : bool :=
  match st s with IN_TXN => nw0 s || nw1 s | _ => false end.

(* error_transaction(e) / fatal_error(e): transition, store e; every outstanding batch has been
   failed or has completed by then *)
Definition to_error (s : tstate) (target : tst) (e : exn) : option tstate :=
  match trans (st s) target with
  | Some t =>
      match target with
      | ABORTABLE =>
          (* error_transaction keeps what the coordinator has registered (_txn_partitions,
             _txn_consumer_group): the abort has to end it there with EndTxn(ABORT) *)
          Some (set_nw (set_werr (set_st s t) (Some e)) false false)
      | _ => Some (set_nw (set_werr (set_grpb (set_parts (set_st s t) false false) false) (Some e)) false false)
      end
  | None => None
  end.

(* the model is stuck when an internal _transition_to assertion fails (unreachable with the table
   as it is; with a changed table the proofs and the correspondence report it) *)
Definition XStuck : result := RRaise XAssertion.

Definition fail_with (s : tstate) (target : tst) (e : exn) (mk : exn -> result) (rq : list req)
  : tstate * result * list req :=
  match to_error s target e with
  | Some s' => (s', mk e, rq)
  | None => (s, XStuck, rq)
  end.

Definition resend (r : req) (dead : bool) (group : bool) : list req :=
  [r] ++ (if dead then [RFindCoord group] else []) ++ [r].

(* ---------- the API ------------------------------------------------------------------------- *)
(* what the leader answers to a batch for p that reaches it *)
Definition at_leader (s : tstate) (p : part) : result :=
  if has_gap s p then RFutFail (XCode E45) else ROk.

(* Produce for partition p at fault position n; [s] already reflects the AddPartitionsToTxn outcome *)
Definition do_produce (s : tstate) (p : part) (f : fault) (n : nat) (pre : list req)
  : tstate * result * list req :=
  match act_at KProduce f n with
  | ASuccess => (s, at_leader s p, pre ++ [RProduce (one p)])
  | ARetry _ => (s, at_leader s p, pre ++ [RProduce (one p); RProduce (one p)])
  | AFailBatch e | AAbortable e | AFatal e => (set_gap s p, RFutFail e, pre ++ [RProduce (one p)])
  end.

(* [b]: fault position of the first request of the call *)
Definition api_send (s : tstate) (p : part) (f : fault) (b : nat) : tstate * result * list req :=
  match st s with
  | IN_TXN =>
      if has_part s p then do_produce s p f b []
      else
        let r := RAddPartitions (one p) in
        match act_at KAddPartitions f b with
        | ASuccess => do_produce (add_part s p) p f (S b) [r]
        | ARetry d => do_produce (add_part s p) p f (S b) (resend r d false)
        | AAbortable e =>
            (* Sender._abortable_error: the batch that was waiting for the partition is failed
               (MessageAccumulator.fail_partitions), never produced *)
            fail_with s ABORTABLE e RFutFail [r]
        | AFatal e | AFailBatch e => fail_with s FATAL e RFutFail [r]
        end
  | _ => (s, RRaise XIllegalOperation, [])
  end.

Definition do_txn_offset_commit (s : tstate) (f : fault) (n : nat) (pre : list req)
  : tstate * result * list req :=
  let pre := pre ++ (if gck s then [] else [RFindCoord true]) in
  let s := set_gck s true in
  match act_at KTxnOffsetCommit f n with
  | ASuccess => (s, ROk, pre ++ [RTxnOffsetCommit])
  | ARetry d => (s, ROk, pre ++ resend RTxnOffsetCommit d true)
  | AAbortable e => fail_with s ABORTABLE e RRaise (pre ++ [RTxnOffsetCommit])
  | AFatal e | AFailBatch e => fail_with s FATAL e RRaise (pre ++ [RTxnOffsetCommit])
  end.

Definition set_grp (s : tstate) : tstate := set_grpb s true.

Definition api_send_offsets (s : tstate) (f : fault) (b : nat) : tstate * result * list req :=
  match st s with
  | IN_TXN =>
      if grp s then do_txn_offset_commit s f b []
      else
        match act_at KAddOffsets f b with
        | ASuccess => do_txn_offset_commit (set_grp s) f (S b) [RAddOffsets]
        | ARetry d => do_txn_offset_commit (set_grp s) f (S b) (resend RAddOffsets d false)
        | AAbortable e => fail_with s ABORTABLE e RRaise [RAddOffsets]
        | AFatal e | AFailBatch e => fail_with s FATAL e RRaise [RAddOffsets]
        end
  | _ => (s, RRaise XIllegalOperation, [])
  end.

(* _do_txn_commit once the state is COMMITTING / ABORTING ([st s1]) and every batch has been
   flushed; EndTxn is the request at fault position n *)
Definition end_flushed (s1 : tstate) (commit : bool) (f : fault) (n : nat) : tstate * result * list req :=
  let complete (rq : list req) :=
    match trans (st s1) READY with
    | Some t => (set_grpb (set_parts (set_st s1 t) false false) false, ROk, rq)
    | None => (s1, XStuck, rq)
    end in
  if is_empty_txn s1 then complete []
  else
    let r := REndTxn commit in
    match act_at KEndTxn f n with
    | ASuccess => complete [r]
    | ARetry d => complete (resend r d false)
    | AAbortable e | AFatal e | AFailBatch e => fail_with s1 FATAL e RRaise [r]
    end.

(* ---------- awaiting the futures of nowait sends --------------------------------------------- *)
Definition fut_for (B : pset) (mk : part -> result) : futs :=
  (if fst B then Some (mk P0) else None, if snd B then Some (mk P1) else None).
Definition futs_or (a b : futs) : futs :=
  (match fst a with Some x => Some x | None => fst b end,
   match snd a with Some x => Some x | None => snd b end).

(* one Produce request carrying the batches of the partitions B (both partitions have the same
   leader), fault position n *)
Definition produce_set (s : tstate) (B : pset) (f : fault) (n : nat) : tstate * futs * list req :=
  match act_at KProduce f n with
  | ASuccess => (s, fut_for B (at_leader s), [RProduce B])
  | ARetry _ => (s, fut_for B (at_leader s), [RProduce B; RProduce B])
  | AFailBatch e | AAbortable e | AFatal e =>
      (set_gaps s B, fut_for B (fun _ => RFutFail e), [RProduce B])
  end.

Record flushed := mkF {
  fl_s : tstate;
  fl_futs : futs;
  fl_rq : list req;
  fl_stop : option result;   (* Some r: an abortable / fatal error ended it; r is what a call that
                                waits for the transaction (commit / abort) raises *)
  fl_n : nat                 (* number of faultable requests when nothing fails *)
}.

(* The sender with the batches of the nowait sends N queued, in state IN_TRANSACTION / COMMITTING /
   ABORTING (Sender._sender_routine + _maybe_do_transactional_request):
     - the partitions A of N not yet in the transaction are registered by ONE AddPartitionsToTxn; they
       are muted until it succeeds;
     - the batches of the partitions R of N already in the transaction are drained in the same
       iteration: their Produce reaches the cluster right after the AddPartitionsToTxn;
     - then the batches of A are produced; a batch of R that has to be re-sent travels with them. *)
Definition await_sends (s : tstate) (f : fault) (b : nat) : flushed :=
  let N := (nw0 s, nw1 s) in
  let A := (nw0 s && negb (p0 s), nw1 s && negb (p1 s)) in
  let R := (nw0 s && p0 s, nw1 s && p1 s) in
  let s := set_nw s false false in
  if is_none A then
    let '(s', fu, rq) := produce_set s N f b in mkF s' fu rq None 1
  else
    let ap := RAddPartitions A in
    let sa := add_parts s A in
    let pr := if is_none R then [] else [RProduce R] in
    let cnt := if is_none R then 2%nat else 3%nat in
    let stop (target : tst) (e : exn) :=
      (* the batches waiting for A are failed with e (fail_partitions / fail_all); the batches of R
         are already on the wire and complete *)
      let fu := futs_or (fut_for R (at_leader s)) (fut_for A (fun _ => RFutFail e)) in
      match to_error s target e with
      | Some s' => mkF s' fu (ap :: pr) (Some (RRaise e)) cnt
      | None => mkF s fu (ap :: pr) (Some XStuck) cnt
      end in
    match act_at KAddPartitions f b with
    | AAbortable e => stop ABORTABLE e
    | AFatal e | AFailBatch e => stop FATAL e
    | ARetry d =>
        mkF sa (fut_for N (at_leader sa))
            (ap :: pr ++ (if d then [RFindCoord false] else []) ++ [ap; RProduce (if is_none R then N else A)])
            None cnt
    | ASuccess =>
        if is_none R then
          let '(s', fu, rq) := produce_set sa N f (S b) in mkF s' fu (ap :: rq) None cnt
        else
          match act_at KProduce f (S b) with
          | ASuccess =>
              let '(s', fu, rq) := produce_set sa A f (S (S b)) in
              mkF s' (futs_or (fut_for R (at_leader sa)) fu) (ap :: RProduce R :: rq) None cnt
          | ARetry _ => mkF sa (fut_for N (at_leader sa)) [ap; RProduce R; RProduce N] None cnt
          | AFailBatch e | AAbortable e | AFatal e =>
              let s' := set_gaps sa R in
              mkF s' (futs_or (fut_for R (fun _ => RFutFail e)) (fut_for A (at_leader s')))
                  [ap; RProduce R; RProduce A] None cnt
          end
    end.

(* commit / abort: committing_transaction / aborting_transaction, then the sender registers and
   produces what is still queued, flush_for_commit, EndTxn *)
Definition end_txn (s : tstate) (cur : tst) (commit : bool) (f : fault)
  : tstate * result * list req * futs :=
  let s1 := set_werr (set_st s cur) None in
  if nw0 s || nw1 s then
    let fl := await_sends s1 f 0 in
    match fl_stop fl with
    | Some r => (fl_s fl, r, fl_rq fl, fl_futs fl)
    | None => let '(s2, r, rq) := end_flushed (fl_s fl) commit f (fl_n fl) in
              (s2, r, fl_rq fl ++ rq, fl_futs fl)
    end
  else (end_flushed s1 commit f 0, no_futs).

Definition api_commit (s : tstate) (f : fault) : tstate * result * list req * futs :=
  match st s with
  | ABORTABLE => (s, RRaise (match werr s with Some e => e | None => XAssertion end), [], no_futs)
  | _ => match trans (st s) COMMITTING with
         | Some cur => end_txn s cur true f
         | None => (s, RRaise XAssertion, [], no_futs)
         end
  end.

Definition api_abort (s : tstate) (f : fault) : tstate * result * list req * futs :=
  match trans (st s) ABORTING with
  | Some cur => end_txn s cur false f
  | None => (s, RRaise XAssertion, [], no_futs)
  end.

Definition api_begin (s : tstate) : tstate * result * list req :=
  match trans (st s) IN_TXN with
  | Some t => (set_werr (set_st s t) None, ROk, [])
  | None => (s, RRaise XAssertion, [])
  end.

Definition api_send_nw (s : tstate) (p : part) : tstate * result * list req :=
  match st s with
  | IN_TXN => (match p with P0 => set_nw s true (nw1 s) | P1 => set_nw s (nw0 s) true end, ROk, [])
  | _ => (s, RRaise XIllegalOperation, [])
  end.

(* the calls that do not end the transaction, with nothing outstanding; b: first fault position *)
Definition api_plain (s : tstate) (c : call) (f : fault) (b : nat) : tstate * result * list req :=
  match c with
  | Begin => api_begin s
  | Send p => api_send s p f b
  | SendOffsets => api_send_offsets s f b
  | SendNW p => api_send_nw s p
  | _ => (s, RRaise XAssertion, [])
  end.

Definition is_end (c : call) : bool :=
  match c with Commit | Abort | CtxOk | CtxExc => true | _ => false end.
Definition is_nw (c : call) : bool := match c with SendNW _ => true | _ => false end.

Definition api_full (s : tstate) (c : call) (f : fault) : tstate * result * list req * futs :=
  match c with
  | Commit | CtxOk => api_commit s f
  | Abort => api_abort s f
  | CtxExc => match st s with
              | FATAL => (s, ROk, [], no_futs)        (* __aexit__ lets the application's exception out *)
              | _ => api_abort s f
              end
  | _ =>
      if pending s && negb (is_nw c) then
        (* the application first awaits the outstanding futures, then makes the call *)
        let fl := await_sends s f 0 in
        let '(s2, r, rq) := api_plain (fl_s fl) c f (fl_n fl) in
        (s2, r, fl_rq fl ++ rq, fl_futs fl)
      else (api_plain s c f 0, no_futs)
  end.

Definition api (s : tstate) (c : call) (f : fault) : tstate * result * list req := fst (api_full s c f).
Definition api_futs (s : tstate) (c : call) (f : fault) : futs := snd (api_full s c f).

(* a program: calls with their faults *)
Fixpoint run (s : tstate) (cs : list (call * fault)) : list (result * list req) * tstate :=
  match cs with
  | [] => ([], s)
  | (c, f) :: rest =>
      let '(s', r, rq) := api s c f in
      let '(out, sf) := run s' rest in
      ((r, rq) :: out, sf)
  end.

Definition is_error (r : result) : bool := match r with ROk => false | _ => true end.

(* ---------- the transition relation the protocol needs: a hand-written table ---------------- *)
(* KIP-98 / the Java client's TransactionManager.State.isTransitionValid, plus what aiokafka's sender
   does: it sends the pending AddPartitionsToTxn / AddOffsetsToTxn / TxnOffsetCommit BEFORE the EndTxn,
   also when the manager is already COMMITTING / ABORTING, so a topic / group authorization failure can
   arrive in these two states as well.
   [spec_must]: transitions the producer cannot work without.  [spec_may]: these, and into the two
   error states from anywhere (the code's catch-all); everything else must be refused. *)
Definition spec_must (s t : tst) : bool :=
  match s, t with
  | UNINIT, READY | COMMITTING, READY | ABORTING, READY => true
  | READY, IN_TXN => true
  | IN_TXN, COMMITTING => true
  | IN_TXN, ABORTING | ABORTABLE, ABORTING => true
  | IN_TXN, ABORTABLE | COMMITTING, ABORTABLE | ABORTING, ABORTABLE => true
  | FATAL, FATAL => false
  | _, FATAL => true
  | _, _ => false
  end.
Definition spec_may (s t : tst) : bool :=
  spec_must s t || match t with ABORTABLE | FATAL => true | _ => false end.

(* ---------- the documented protocol: an independent 7-state automaton ----------------------- *)
(* KIP-98 / KafkaProducer javadoc: initTransactions, beginTransaction, send / sendOffsetsToTransaction,
   commitTransaction / abortTransaction; abortable errors leave only abort; fatal errors leave nothing *)
Inductive pstate := PUninit | PReady | PInTxn | PCommitting | PAborting | PAbortableError | PFatalError.
Inductive pev := PInit | PBegin | PSend | PSendOffsets | PBeginCommit | PBeginAbort | PComplete
               | PAbortableErr | PFatalErr.

Definition pstep (q : pstate) (e : pev) : option pstate :=
  match q, e with
  | PFatalError, _ => None
  | _, PFatalErr => Some PFatalError
  | PUninit, PInit => Some PReady
  | PReady, PBegin => Some PInTxn
  | PInTxn, PSend => Some PInTxn
  | PInTxn, PSendOffsets => Some PInTxn
  | PInTxn, PAbortableErr => Some PAbortableError
  | PCommitting, PAbortableErr => Some PAbortableError    (* a pending AddPartitions / AddOffsets / *)
  | PAborting, PAbortableErr => Some PAbortableError      (* TxnOffsetCommit is refused while ending *)
  | PInTxn, PBeginCommit => Some PCommitting
  | PInTxn, PBeginAbort => Some PAborting
  | PAbortableError, PBeginAbort => Some PAborting
  | PCommitting, PComplete => Some PReady
  | PAborting, PComplete => Some PReady
  | _, _ => None
  end.

Fixpoint prun (q : pstate) (es : list pev) : option pstate :=
  match es with
  | [] => Some q
  | e :: es' => match pstep q e with Some q' => prun q' es' | None => None end
  end.

(* which API call the documentation allows in which state *)
Definition pallowed (q : pstate) (c : call) : bool :=
  match c, q with
  | Begin, PReady => true
  | Send _, PInTxn | SendOffsets, PInTxn | SendNW _, PInTxn => true
  | Commit, PInTxn | CtxOk, PInTxn => true
  | Abort, PInTxn | Abort, PAbortableError => true
  | CtxExc, PInTxn | CtxExc, PAbortableError | CtxExc, PFatalError => true
  | _, _ => false
  end.

Inductive okind := KClean | KAbortable | KFatal.

(* the documented event paths of an allowed call *)
Definition call_paths (q : pstate) (c : call) : list (list pev * okind) :=
  match c with
  | Begin => [([PBegin], KClean)]
  | Send _ => [([PSend], KClean); ([PSend; PAbortableErr], KAbortable); ([PSend; PFatalErr], KFatal)]
  | SendOffsets => [([PSendOffsets], KClean); ([PSendOffsets; PAbortableErr], KAbortable);
                    ([PSendOffsets; PFatalErr], KFatal)]
  | SendNW _ => [([PSend], KClean)]
  | Commit | CtxOk => [([PBeginCommit; PComplete], KClean); ([PBeginCommit; PAbortableErr], KAbortable);
                       ([PBeginCommit; PFatalErr], KFatal)]
  | Abort => [([PBeginAbort; PComplete], KClean); ([PBeginAbort; PAbortableErr], KAbortable);
              ([PBeginAbort; PFatalErr], KFatal)]
  | CtxExc => match q with
              | PFatalError => [([], KClean)]
              | _ => [([PBeginAbort; PComplete], KClean); ([PBeginAbort; PAbortableErr], KAbortable);
                      ([PBeginAbort; PFatalErr], KFatal)]
              end
  end.

(* how the call's result may relate to the path kind.  KClean + a failed send future is the
   batch-level failure of SendProduceReqHandler (the transaction state is not touched). *)
Definition result_fits (c : call) (k : okind) (r : result) : bool :=
  match k with
  | KFatal => is_error r
  | KAbortable => is_error r
  | KClean => match r with
              | ROk => true
              | RFutFail _ => match c with Send _ => true | _ => false end
              | RRaise _ => false
              end
  end.

Definition abs (t : tst) : pstate :=
  match t with
  | UNINIT => PUninit | READY => PReady | IN_TXN => PInTxn | COMMITTING => PCommitting
  | ABORTING => PAborting | ABORTABLE => PAbortableError | FATAL => PFatalError
  end.

(* the language of complete protocol runs, as a 2-state recogniser over calls:
   ( begin (send | send_offsets)* (commit | abort) )*   — prefixes included *)
Fixpoint in_protocol_order (inside : bool) (cs : list call) : bool :=
  match cs with
  | [] => true
  | c :: rest =>
      match c, inside with
      | Begin, false => in_protocol_order true rest
      | Send _, true | SendOffsets, true | SendNW _, true => in_protocol_order true rest
      | Commit, true | Abort, true | CtxOk, true | CtxExc, true => in_protocol_order false rest
      | _, _ => false
      end
  end.

(* ---------- helpers for the correspondence (vm_compute) ------------------------------------- *)
Definition st_code (s : tstate) : Z := tcode (st s).
Definition code_num (c : code) : Z :=
  match c with E3 => 3 | E7 => 7 | E14 => 14 | E15 => 15 | E16 => 16 | E29 => 29 | E30 => 30
             | E45 => 45 | E47 => 47 | E48 => 48 | E49 => 49 | E51 => 51 | E53 => 53 | EOther => 2 end.
(* exception -> number: 1000 IllegalOperation, 1001 AssertionError, 1002 ProducerFenced,
   1003 KafkaError wrapper, otherwise the broker code of the class *)
Definition exn_num (e : exn) : Z :=
  match e with XIllegalOperation => 1000 | XAssertion => 1001 | XProducerFenced => 1002
             | XKafkaError => 1003 | XCode c => code_num c end.
(* result -> (kind, exn) : kind 0 ok, 1 raised by the call, 2 send future failed *)
Definition result_num (r : result) : Z * Z :=
  match r with ROk => (0, 0) | RRaise e => (1, exn_num e) | RFutFail e => (2, exn_num e) end.
(* an awaited nowait future: (0,0) none, (3,0) succeeded, (2,e) failed *)
Definition fut_num (o : option result) : list Z :=
  match o with None => [0; 0] | Some ROk => [3; 0] | Some (RRaise e) | Some (RFutFail e) => [2; exn_num e] end.
Definition b2z (b : bool) : Z := if b then 1 else 0.
Definition pset_num (B : pset) : Z := b2z (fst B) + 2 * b2z (snd B).
Definition req_num (r : req) : Z * Z :=
  match r with
  | RAddPartitions B => (24, pset_num B) | RAddOffsets => (25, 0) | RTxnOffsetCommit => (28, 0)
  | REndTxn c => (26, if c then 1 else 0) | RProduce B => (0, pset_num B)
  | RFindCoord g => (10, if g then 0 else 1)
  end.

(* the exception held by _transaction_waiter (what commit re-raises after an abortable error) *)
Definition werr_num (w : option exn) : Z := match w with Some e => exn_num e | None => 0 end.
(* per call: (result, requests, state code after, [p0; p1; grp; stored error] ++ awaited futures) *)
Fixpoint run_obs (s : tstate) (cs : list (call * fault))
  : list ((Z * Z) * list (Z * Z) * Z * list Z) :=
  match cs with
  | [] => []
  | (c, f) :: rest =>
      let '(s', r, rq, fu) := api_full s c f in
      (result_num r, map req_num rq, st_code s',
       [b2z (p0 s'); b2z (p1 s'); b2z (grp s'); werr_num (werr s')] ++ fut_num (fst fu) ++ fut_num (snd fu))
        :: run_obs s' rest
  end.

Definition replay (cs : list (call * fault)) :=
  match started with
  | Some s => Some (run_obs s cs)
  | None => None
  end.

(* ---------- compact program encoding for bulk evaluation (harness/c16.py) -------------------- *)
Definition call_of (n : Z) : call :=
  match n with 0 => Begin | 1 => Send P0 | 2 => Send P1 | 3 => SendOffsets | 4 => Commit | 5 => Abort
             | 6 => CtxOk | 7 => CtxExc | 8 => SendNW P0 | _ => SendNW P1 end.
Definition kind_of (n : Z) : fkind :=
  match n with
  | 0 => FErr E3 | 1 => FErr E7 | 2 => FErr E14 | 3 => FErr E15 | 4 => FErr E16 | 5 => FErr E29
  | 6 => FErr E30 | 7 => FErr E45 | 8 => FErr E47 | 9 => FErr E48 | 10 => FErr E49 | 11 => FErr E51
  | 12 => FErr E53 | 13 => FErr EOther | 14 => FDropBefore | _ => FDropAfter
  end.
Definition fault_of (n : Z) : fault :=
  if n =? 0 then None
  else if n <=? 16 then Some (I0, kind_of (n - 1))
  else if n <=? 32 then Some (I1, kind_of (n - 17))
  else if n <=? 48 then Some (I2, kind_of (n - 33))
  else Some (I3, kind_of (n - 49)).
Definition decode_prog (p : list (Z * Z)) : list (call * fault) :=
  map (fun cf => (call_of (fst cf), fault_of (snd cf))) p.

Definition flat_call (o : (Z * Z) * list (Z * Z) * Z * list Z) : list Z :=
  let '(r, rq, stc, flags) := o in
  [fst r; snd r; Z.of_nat (length rq)] ++ flat_map (fun x => [fst x; snd x]) rq ++ [stc] ++ flags.
Definition hash_list (l : list Z) : Z :=
  fold_left (fun h x => (h * 1000003 + x + 7) mod 2305843009213693951) l 17.
Definition replay_flat (p : list (Z * Z)) : option (list Z) :=
  match replay (decode_prog p) with
  | Some obs => Some (flat_map flat_call obs)
  | None => None
  end.
Definition replay_hash (p : list (Z * Z)) : Z :=
  match replay_flat p with Some l => hash_list l | None => -1 end.
