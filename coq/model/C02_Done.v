(* C02_Done.v — MessageBatch.done / done_noack / failure as functions over the batch's
   per-record futures (hand model; tied to the real methods by differential testing on every
   run), and the per-version decoding of a produce response (SendProduceReqHandler.handle_response). *)
From Coq Require Import ZArith List Bool.
Import ListNotations.
Open Scope Z_scope.

(* one per-record future of a batch *)
Record mfut := mkF { f_done : bool; f_rel : Z; f_ts : Z }.   (* already resolved?, relative offset, record timestamp *)

(* what a future is resolved with *)
Inductive res :=
| RMeta (offset ts ts_type log_start : Z)
| RNone                                   (* acks = 0 *)
| RErr.

(* effects: (index of the future in the batch, result) — only futures not yet done are touched *)
Fixpoint done_aux (i : nat) (base broker_ts log_start : Z) (fs : list mfut) : list (nat * res) :=
  match fs with
  | [] => []
  | f :: fs' =>
      let rest := done_aux (S i) base broker_ts log_start fs' in
      if f_done f then rest
      else (i, RMeta (if base <? 0 then -1 else base + f_rel f)
                     (if broker_ts =? -1 then f_ts f else broker_ts)
                     (if broker_ts =? -1 then 0 else 1)
                     log_start) :: rest
  end.
Definition done (base broker_ts log_start : Z) (fs : list mfut) := done_aux O base broker_ts log_start fs.

Fixpoint all_aux (i : nat) (r : res) (fs : list mfut) : list (nat * res) :=
  match fs with
  | [] => []
  | f :: fs' => if f_done f then all_aux (S i) r fs' else (i, r) :: all_aux (S i) r fs'
  end.
Definition done_noack (fs : list mfut) := all_aux O RNone fs.
Definition failure (fs : list mfut) := all_aux O RErr fs.

(* produce response partition entry -> (offset, timestamp, log_start_offset) per API version;
   log_start = -2 encodes "None" (field absent) *)
Definition decode_partition_info (version offset ts log_start : Z) : Z * Z * Z :=
  if version <? 2 then (offset, -1, -2)
  else if version <=? 4 then (offset, ts, -2)
  else (offset, ts, log_start).

(* the loop shape shared by done / done_noack / failure:
     for future, metadata in self._msg_futures:
         if future.done(): continue
         <pure bindings>
         future.set_result(X) | future.set_exception(E)
   [body f] is what the i-th pending future is resolved with.  The generated module gen/DoneGen.v
   (translator/units_c02.py, from the current source) instantiates it. *)
Fixpoint for_pending_aux (i : nat) (body : mfut -> res) (fs : list mfut) : list (nat * res) :=
  match fs with
  | [] => []
  | f :: fs' => if f_done f then for_pending_aux (S i) body fs'
                else (i, body f) :: for_pending_aux (S i) body fs'
  end.
Definition for_pending (body : mfut -> res) (fs : list mfut) := for_pending_aux O body fs.
