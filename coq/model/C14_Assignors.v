(* C14 — executable models of the range and round-robin assignors
   (aiokafka/coordinator/assignors/range.py, roundrobin.py) and the vocabulary of the
   property (ownership triples, validity, balance).  Definitions only; proofs are in
   proof/C14_*.v.

   Conventions.  Topics and members are [nat] identifiers whose numeric order is the order
   the code obtains by sorting the string ids (the harness names them so that the string
   order and the numeric order coincide, and checks it).  A layout [ppt] is the
   cluster stub: [lookup_parts ppt t = Some n] means cluster.partitions_for_topic(t) =
   {0..n-1}; [None] (or an absent topic) means "no metadata" (partitions_for_topic
   returns None).  [ms] is the [members] mapping in dict iteration order: member id and
   its subscription *list* (order and duplicates as given). *)
From Coq Require Import Arith List Bool PeanoNat.
Import ListNotations.

(* type names are parsing-only notations (so that no proof step ever sees two spellings of nat) *)
Notation topic := nat (only parsing).
Notation member := nat (only parsing).
Notation tp := (nat * nat)%type (only parsing).                      (* TopicPartition *)
Notation layout := (list (nat * option nat)) (only parsing).
Notation members_t := (list (nat * list nat)) (only parsing).
Notation massign := (list (nat * list nat)) (only parsing).         (* ConsumerProtocolMemberAssignment.assignment *)
Notation assignment := (list (nat * list (nat * list nat))) (only parsing). (* the dict returned by assign(), in [members] order *)
Notation triples := (list (nat * (nat * nat))) (only parsing).      (* ownership facts: (owner, (topic, partition)) *)

Fixpoint lookup_parts (ppt : layout) (t : topic) : option nat :=
  match ppt with
  | [] => None
  | (t', n) :: r => if Nat.eqb t t' then n else lookup_parts r t
  end.

Definition mem_nat (x : nat) (l : list nat) : bool := existsb (Nat.eqb x) l.

(* sorted(...) on ids *)
Fixpoint insert (x : nat) (l : list nat) : list nat :=
  match l with
  | [] => [x]
  | y :: r => if x <=? y then x :: l else y :: insert x r
  end.
Definition sort (l : list nat) : list nat := fold_right insert [] l.

(* members[m].subscription *)
Fixpoint subs_of (ms : members_t) (m : member) : list topic :=
  match ms with
  | [] => []
  | (m', s) :: r => if Nat.eqb m m' then s else subs_of r m
  end.

(* the set of all subscribed topics, in sorted order *)
Definition all_topics (ms : members_t) : list topic :=
  sort (nodup Nat.eq_dec (flat_map snd ms)).

(* every (owner, (topic, partition)) fact contained in an assignment *)
Definition triples_of_massign (m : member) (a : massign) : triples :=
  flat_map (fun '(t, ps) => map (fun p => (m, (t, p))) ps) a.
Definition triples_of (out : assignment) : triples :=
  flat_map (fun '(m, a) => triples_of_massign m a) out.

(* ------------------------------------------------------------------ range.py:assign *)

(* consumers_per_topic[t] after .sort(): one entry per occurrence of t in a subscription *)
Definition consumers_for_topic (ms : members_t) (t : topic) : list member :=
  sort (flat_map (fun '(m, s) => map (fun _ => m) (filter (Nat.eqb t) s)) ms).

(* partitions_list[start : start + length] for the i-th of k consumers, n partitions *)
Definition range_start (n k i : nat) : nat := (n / k) * i + Nat.min i (n mod k).
Definition range_len (n k i : nat) : nat := n / k + (if i + 1 <=? n mod k then 1 else 0).
Definition range_slice (n k i : nat) : list nat :=
  firstn (range_len n k i) (skipn (range_start n k i) (seq 0 n)).

(* `for i, member in enumerate(consumers_for_topic): assignment[member][topic] = ...`
   a later index overwrites an earlier one: the member keeps the slice of its last index *)
Fixpoint last_index_from (m : member) (l : list member) (i : nat) (acc : option nat) : option nat :=
  match l with
  | [] => acc
  | x :: r => last_index_from m r (S i) (if Nat.eqb x m then Some i else acc)
  end.
Definition last_index (m : member) (l : list member) : option nat := last_index_from m l 0 None.

Definition range_member (ppt : layout) (ms : members_t) (m : member) : massign :=
  flat_map (fun t =>
    match lookup_parts ppt t with
    | None => []
    | Some n =>
      let cs := consumers_for_topic ms t in
      match last_index m cs with
      | None => []
      | Some i => [(t, range_slice n (length cs) i)]
      end
    end) (all_topics ms).

Definition range_assign (ppt : layout) (ms : members_t) : assignment :=
  map (fun e => (fst e, range_member ppt ms (fst e))) ms.

(* ------------------------------------------------------------- roundrobin.py:assign *)

(* all_topic_partitions after .sort() *)
Definition rr_partitions (ppt : layout) (ms : members_t) : list tp :=
  flat_map (fun t =>
    match lookup_parts ppt t with
    | None => []
    | Some n => map (pair t) (seq 0 n)
    end) (all_topics ms).

(* `member_id = next(member_iter); while topic not in subscription: member_id = next(...)`
   [pos] is the index the cycle iterator yields next; fuel bounds the number of next()
   calls by one full turn. *)
Fixpoint rr_next (ms : members_t) (sorted : list member) (fuel pos : nat) (t : topic)
  : option (member * nat) :=
  match fuel with
  | 0 => None
  | S f =>
    let m := nth pos sorted 0 in
    let pos' := (S pos) mod (length sorted) in
    if mem_nat t (subs_of ms m) then Some (m, pos') else rr_next ms sorted f pos' t
  end.

Fixpoint rr_loop (ms : members_t) (sorted : list member) (parts : list tp) (pos : nat)
  : option triples :=
  match parts with
  | [] => Some []
  | (t, p) :: r =>
    match rr_next ms sorted (length sorted) pos t with
    | None => None
    | Some (m, pos') =>
      match rr_loop ms sorted r pos' with
      | None => None
      | Some tr => Some ((m, (t, p)) :: tr)
      end
    end
  end.

(* assignment[m][t].append(p) in processing order, then sorted(assignment[m].items());
   a topic key exists only if something was appended *)
Definition group_member (topics : list topic) (tr : triples) (m : member) : massign :=
  flat_map (fun t =>
    match map (fun x => snd (snd x))
              (filter (fun x => Nat.eqb (fst x) m && Nat.eqb (fst (snd x)) t) tr) with
    | [] => []
    | ps => [(t, ps)]
    end) topics.

Definition rr_triples (ppt : layout) (ms : members_t) : option triples :=
  rr_loop ms (sort (map fst ms)) (rr_partitions ppt ms) 0.

(* None = the skip loop ran out of fuel (c14_rr_terminates: never) *)
Definition roundrobin_assign (ppt : layout) (ms : members_t) : option assignment :=
  match rr_triples ppt ms with
  | None => None
  | Some tr => Some (map (fun e => (fst e, group_member (all_topics ms) tr (fst e))) ms)
  end.

(* ------------------------------------------------------------- vocabulary of C14 *)

Definition subscribed (ms : members_t) (m : member) (t : topic) : Prop :=
  exists s, In (m, s) ms /\ In t s.
Definition has_partition (ppt : layout) (x : tp) : Prop :=
  exists n, lookup_parts ppt (fst x) = Some n /\ snd x < n.
(* a partition that must be owned: it exists and somebody subscribes to its topic *)
Definition assignable (ppt : layout) (ms : members_t) (x : tp) : Prop :=
  has_partition ppt x /\ exists m, subscribed ms m (fst x).

(* Each subscribed partition with metadata has exactly one owner, subscribed to its
   topic; nothing else is assigned.  "Exactly one" counts multiplicity: the list of owned
   partitions has no repetition at all. *)
Definition valid (ppt : layout) (ms : members_t) (tr : triples) : Prop :=
  NoDup (map snd tr)
  /\ (forall m x, In (m, x) tr -> subscribed ms m (fst x) /\ has_partition ppt x)
  /\ (forall x, assignable ppt ms x -> exists m, In (m, x) tr).

Definition load (tr : triples) (m : member) : nat :=
  length (filter (fun x => Nat.eqb (fst x) m) tr).
Definition load_topic (tr : triples) (m : member) (t : topic) : list nat :=
  map (fun x => snd (snd x)) (filter (fun x => Nat.eqb (fst x) m && Nat.eqb (fst (snd x)) t) tr).

(* loads of all members within one of each other *)
Definition within_one (ms : members_t) (tr : triples) : Prop :=
  forall m1 m2, In m1 (map fst ms) -> In m2 (map fst ms) -> load tr m1 <= load tr m2 + 1.

(* KIP-54: no member could take a partition it is subscribed to from a member holding at
   least two more than it *)
Definition kip54_balanced (ms : members_t) (tr : triples) : Prop :=
  forall m x o, In (m, x) tr -> In o (map fst ms) -> subscribed ms o (fst x) ->
                load tr m < load tr o + 2.
