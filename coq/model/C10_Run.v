(* C10_Run.v — entry point used by the correspondence of harness/c10.py: one function that runs
   the compiled and the Python model on a case and encodes the two outcomes as lists of integers.
   The same Gallina function is evaluated by vm_compute inside Coq (sample, every run) and by its
   OCaml extraction (volume); the harness checks that the two evaluations agree. *)
From Coq Require Import ZArith List String Ascii Bool.
From Verif Require Import C10_Base C10_DecodeSafeCy C10_DecodeSafePy.
Import ListNotations.
Open Scope Z_scope.

Definition HM : Z := 72057594037927936.   (* 2^56 *)

Definition str_hash (s : string) : Z :=
  (fix go (s : string) (a : Z) : Z :=
     match s with
     | EmptyString => a
     | String c t => go t ((a * 131 + Z.of_nat (nat_of_ascii c) + 1) mod HM)
     end) s 7.

Fixpoint string_of_codes (l : list Z) : string :=
  match l with
  | [] => EmptyString
  | c :: t => String (ascii_of_nat (Z.to_nat c)) (string_of_codes t)
  end.

Definition mix (a x : Z) : Z := (a * 1000003 + (x mod HM) + 1) mod HM.
Definition oz (o : option Z) : Z := match o with None => -1 | Some v => v end.

Definition rec_hash (r : rec) : Z :=
  let '(off, ts, ty, k, v, h, crc) := r in
  fold_left mix [off; oz ts; oz ty; k; v; h; oz crc] 11.
Definition recs_hash (rs : list rec) : Z := fold_left (fun a r => mix a (rec_hash r)) rs 13.

Definition clamp (v : Z) : Z := Z.max (- 4611686018427387904) (Z.min v 4611686018427387904).

(* [class; site hash; space; pos; n; len; exception hash; number of records; hash of the records]
   class: 0 done, 1 raise, 2 out-of-bounds read, 3 out of fuel, 4 internal error *)
Definition enc_outcome (o : list rec * status) : list Z :=
  let '(rs, st) := o in
  let tail := [zlen rs; recs_hash rs] in
  match st with
  | SDone => [0; 0; 0; 0; 0; 0; 0] ++ tail
  | SFail (FRaise e) => [1; 0; 0; 0; 0; 0; str_hash e] ++ tail
  | SFail (FOOB site sp pos n len) => [2; str_hash site; sp; clamp pos; clamp n; clamp len; 0] ++ tail
  | SFail (FFuel site) => [3; str_hash site; 0; 0; 0; 0; 0] ++ tail
  | SFail (FInternal site e) => [4; str_hash site; 0; 0; 0; 0; str_hash e] ++ tail
  end.

(* oracle table with exception names given as character codes *)
Definition table_entry : Type := (Z * list Z * bool * list Z)%type.   (* codec, payload, ok?, result *)
Definition dec_of_entries (t : list table_entry) : Z -> list Z -> dres :=
  dec_of_table (map (fun e : table_entry => let '(c, p, ok, r) := e in
                              (c, p, if ok then DOk r else DRaise (string_of_codes r))) t).

(* mode: 0 bytes through MemoryRecords, 1 DefaultRecordBatch(buffer), 2 LegacyRecordBatch(buffer, magic) *)
Definition run_case (fx : fixes) (t : list table_entry) (mode magic : Z) (validate : bool) (data : list Z)
  : list Z * list Z :=
  let D := dec_of_entries t in
  let cy := match mode with
            | 0 => cy_decode crc32c_cast crc32_ieee D fx validate data
            | 1 => cy_v2_run crc32c_cast D fx validate data
            | _ => cy_l_run crc32_ieee D fx validate magic data
            end in
  let py := match mode with
            | 0 => py_decode crc32c_cast crc32_ieee D fx validate data
            | 1 => py_v2_run crc32c_cast D validate data
            | _ => py_l_run crc32_ieee D fx validate magic data
            end in
  (enc_outcome cy, enc_outcome py).

(* both variants of the code: (pinned cy, pinned py, repaired cy, repaired py) *)
Definition run_both (t : list table_entry) (mode magic : Z) (validate : bool) (data : list Z)
  : list (list Z) :=
  let a := run_case fx_current t mode magic validate data in
  let b := run_case fx_repaired t mode magic validate data in
  [fst a; snd a; fst b; snd b].
