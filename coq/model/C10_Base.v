(* C10_Base.v — common definitions of the C10 models (decoding untrusted bytes).
   Abstract memory = list Z (bytes 0..255), instrumented read [rd], failure classes,
   C integer conversions, Python slice / struct.unpack_from semantics, CRC-32 / CRC-32C,
   strict UTF-8 validation, hex literals.  Executable definitions only. *)
From Coq Require Import ZArith List String Ascii Bool Lia.
Import ListNotations.
Open Scope Z_scope.

Definition zlen {A} (l : list A) : Z := Z.of_nat (List.length l).

(* ------------------------------------------------------------------ failures, results *)
Inductive failure : Type :=
| FRaise (e : string)                          (* a Python exception of class e *)
| FOOB (site : string) (space pos n len : Z)   (* instrumented read of n bytes at pos outside [0,len);
                                                  space 0 = the supplied buffer, 1 = a decompressed payload *)
| FFuel (site : string)                        (* a loop used up its fuel: the real loop does not terminate *)
| FInternal (site : string) (e : string).      (* SystemError / MemoryError / OverflowError raised by C-API internals *)

Inductive res (A : Type) : Type := Ok (a : A) | Fail (f : failure).
Arguments Ok {A} a. Arguments Fail {A} f.

Definition bind {A B} (m : res A) (k : A -> res B) : res B :=
  match m with Ok a => k a | Fail f => Fail f end.
Notation "'do' x <- m ; k" := (bind m (fun x => k)) (at level 200, x pattern, m at level 100, k at level 200).

(* final status of a decoding run; records yielded before the end are reported next to it *)
Inductive status : Type := SDone | SFail (f : failure).

Definition Corrupt : string := "CorruptRecordException".
Definition Unsupported : string := "UnsupportedCodecError".
Definition raise {A} (e : string) : res A := Fail (FRaise e).

(* result of a decompression call (abstract codec) *)
Inductive dres : Type := DOk (out : list Z) | DRaise (e : string).

(* the repaired sites; all false = the tree as pinned, all true = every proposed patch applied *)
Record fixes : Type := {
  fx_hdr : bool;      (* default_records.pyx: buffer shorter than the 61-byte header -> CorruptRecordException *)
  fx_varint : bool;   (* cutil.decode_varint64: bounds test on every byte read *)
  fx_bounds : bool;   (* _check_bounds (both .pyx): negative sizes rejected, no pos+size overflow *)
  fx_vlen : bool;     (* legacy_records.pyx _read_record: bounds test before the value-length read *)
  fx_lastoff : bool;  (* legacy_records.pyx _read_last_offset: bounds test, negative lengths, empty payload *)
  fx_pyhdrs : bool    (* legacy_records.py _read_all_headers: negative lengths rejected *)
}.
Definition fx_current : fixes := Build_fixes false false false false false false.
Definition fx_repaired : fixes := Build_fixes true true true true true true.

(* ------------------------------------------------------------------ memory *)
Definition sub (l : list Z) (pos n : Z) : list Z := firstn (Z.to_nat n) (skipn (Z.to_nat pos) l).

(* instrumented read: n >= 0 bytes at pos *)
Definition rd (site : string) (space : Z) (buf : list Z) (pos n : Z) : res (list Z) :=
  if (0 <=? pos) && (pos + n <=? zlen buf) then Ok (sub buf pos n)
  else Fail (FOOB site space pos n (zlen buf)).

Definition be_u (l : list Z) : Z :=      (* big-endian unsigned *)
  fold_left (fun a b => a * 256 + b) l 0.

Definition sgn (bits : Z) (v : Z) : Z :=   (* two's complement reinterpretation of 0 <= v < 2^bits *)
  if v <? 2 ^ (bits - 1) then v else v - 2 ^ bits.

Definition wrap64 (v : Z) : Z := sgn 64 (v mod 2 ^ 64).   (* int64_t / Py_ssize_t wrap-around *)

Definition rd_u (site : string) (space : Z) (buf : list Z) (pos n : Z) : res Z :=
  do l <- rd site space buf pos n; Ok (be_u l).
Definition rd_i (site : string) (space : Z) (buf : list Z) (pos n : Z) : res Z :=
  do l <- rd site space buf pos n; Ok (sgn (8 * n) (be_u l)).

Definition PY_SSIZE_T_MAX : Z := 2 ^ 63 - 1.
Definition ALLOC_MAX : Z := 2 ^ 47.   (* no allocation of this size can succeed (x86-64 user address space) *)

(* PyBytes_FromStringAndSize(&buf[pos], size) *)
Definition bytes_from (site : string) (space : Z) (buf : list Z) (pos size : Z) : res (list Z) :=
  if size <? 0 then Fail (FInternal site "SystemError")
  else if PY_SSIZE_T_MAX - 33 <? size then Fail (FInternal site "OverflowError")
  else if ALLOC_MAX <=? size then Fail (FInternal site "MemoryError")
  else rd site space buf pos size.

(* ------------------------------------------------------------------ Python sequence semantics *)
Definition py_norm (n i : Z) : Z := if i <? 0 then Z.max 0 (i + n) else Z.min i n.
Definition py_slice (l : list Z) (a b : Z) : list Z :=
  let n := zlen l in
  let s := py_norm n a in
  let e := py_norm n b in
  if s <? e then sub l s (e - s) else [].
Definition py_slice_from (l : list Z) (a : Z) : list Z := py_slice l a (zlen l).

Definition StructError : string := "struct.error".
Definition IndexError : string := "IndexError".

(* struct.Struct.unpack_from(buffer, offset) for a struct of [size] bytes: the bytes read *)
Definition py_unpack_from (l : list Z) (off size : Z) : res (list Z) :=
  let n := zlen l in
  if off <? 0 then
    if 0 <? off + size then raise StructError
    else if off + n <? 0 then raise StructError
    else Ok (sub l (off + n) size)
  else if n - off <? size then raise StructError
  else Ok (sub l off size).

Definition py_getitem (l : list Z) (i : Z) : res Z :=
  let n := zlen l in
  if (- n <=? i) && (i <? n) then Ok (nth (Z.to_nat (if i <? 0 then i + n else i)) l 0)
  else raise IndexError.

(* ------------------------------------------------------------------ CRC (reflected, bitwise) *)
Definition crc_step (poly c : Z) : Z :=
  if Z.odd c then Z.lxor (Z.shiftr c 1) poly else Z.shiftr c 1.
Definition crc_byte (poly c b : Z) : Z :=
  let c := Z.lxor c b in
  crc_step poly (crc_step poly (crc_step poly (crc_step poly
    (crc_step poly (crc_step poly (crc_step poly (crc_step poly c))))))).
Definition crc_gen (poly : Z) (data : list Z) : Z :=
  Z.lxor (fold_left (crc_byte poly) data 4294967295) 4294967295.
Definition crc32_ieee : list Z -> Z := crc_gen 3988292384.     (* 0xEDB88320, zlib.crc32 *)
Definition crc32c_cast : list Z -> Z := crc_gen 2197175160.    (* 0x82F63B78, Castagnoli *)

(* ------------------------------------------------------------------ strict UTF-8 (bytes.decode("utf-8")) *)
Definition cont (b : Z) : bool := (128 <=? b) && (b <? 192).
Fixpoint utf8_ok_fuel (fuel : nat) (l : list Z) : bool :=
  match fuel with
  | O => true
  | S f =>
    match l with
    | [] => true
    | b0 :: t =>
      if b0 <? 128 then utf8_ok_fuel f t
      else if (194 <=? b0) && (b0 <? 224) then
        match t with b1 :: t' => cont b1 && utf8_ok_fuel f t' | _ => false end
      else if (224 <=? b0) && (b0 <? 240) then
        match t with
        | b1 :: b2 :: t' =>
          cont b1 && cont b2
          && (if b0 =? 224 then 160 <=? b1 else true)
          && (if b0 =? 237 then b1 <? 160 else true)
          && utf8_ok_fuel f t'
        | _ => false
        end
      else if (240 <=? b0) && (b0 <? 245) then
        match t with
        | b1 :: b2 :: b3 :: t' =>
          cont b1 && cont b2 && cont b3
          && (if b0 =? 240 then 144 <=? b1 else true)
          && (if b0 =? 244 then b1 <? 144 else true)
          && utf8_ok_fuel f t'
        | _ => false
        end
      else false
    end
  end.
Definition utf8_ok (l : list Z) : bool := utf8_ok_fuel (S (List.length l)) l.

(* ------------------------------------------------------------------ hex literals (case inputs) *)
Definition hexval (c : ascii) : Z :=
  let n := Z.of_nat (nat_of_ascii c) in
  if (48 <=? n) && (n <=? 57) then n - 48
  else if (97 <=? n) && (n <=? 102) then n - 87
  else if (65 <=? n) && (n <=? 70) then n - 55
  else 0.
Fixpoint of_hex (s : string) : list Z :=
  match s with
  | String a (String b t) => (hexval a * 16 + hexval b) :: of_hex t
  | _ => []
  end.

(* ------------------------------------------------------------------ compact observable form *)
(* digest of an optional byte string: -1 for None, else length * 2^32 + polynomial hash *)
Definition bhash (l : list Z) : Z := fold_left (fun a b => (a * 31 + b + 1) mod 4294967296) l 7.
Definition bdig (o : option (list Z)) : Z :=
  match o with None => -1 | Some l => zlen l * 4294967296 + bhash l end.

(* a record as observed by the driver:
   (offset, timestamp, timestamp_type, key digest, value digest, headers digest, checksum) *)
Definition rec : Type := (Z * option Z * option Z * Z * Z * Z * option Z)%type.
Definition hdig (hs : list (list Z * option (list Z))) : Z :=
  fold_left (fun a h => (a * 1000003 + bdig (Some (fst h)) * 7 + bdig (snd h) + 1) mod 18446744073709551616)
            hs (zlen hs).

(* oracle for the abstract codec given as a finite table (codec id, payload, result) *)
Fixpoint list_eqb (a b : list Z) : bool :=
  match a, b with
  | [], [] => true
  | x :: a', y :: b' => (x =? y) && list_eqb a' b'
  | _, _ => false
  end.
Fixpoint dec_of_table (t : list (Z * list Z * dres)) (codec : Z) (payload : list Z) : dres :=
  match t with
  | [] => DRaise "NEED-ORACLE"
  | (c, p, r) :: t' => if (c =? codec) && list_eqb p payload then r else dec_of_table t' codec payload
  end.
