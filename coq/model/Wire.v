(* Wire.v — C11: the universe of Kafka wire types used by aiokafka/protocol/types.py,
   with executable encoder / decoder mirroring that file primitive by primitive, and the
   predicate [wt] "value is inside the domain of its wire type".

   Bytes are [list Z] (each 0..255).  Conventions of the value universe [val]:
     - every integer type carries [VInt z]; Float64 carries [VInt bits] where [bits] is the
       IEEE-754 bit pattern read as an unsigned 64-bit number (struct.pack(">d") copies the
       8 bytes; floating point itself is not modelled);
     - String / CompactString carry [VStr (Some utf8_bytes)] or [VStr None]: the model starts
       after Python's str.encode("utf-8") and stops before bytes.decode("utf-8");
     - TaggedFields carries the dict as its item list in iteration order.
   Definitions only; proofs are in proof/C11_roundtrip.v. *)
From Coq Require Import ZArith List Bool.
Import ListNotations.
Open Scope Z_scope.

Inductive ty : Type :=
| TInt8 | TInt16 | TInt32 | TInt64 | TUInt32
| TBool
| TFloat64
| TString | TBytes
| TUVarInt | TVarInt32 | TVarInt64
| TCompactString | TCompactBytes
| TTagged
| TArray (t : ty)
| TCompactArray (t : ty)
| TSchema (fs : list ty).

Inductive val : Type :=
| VInt (z : Z)
| VBool (b : bool)
| VStr (o : option (list Z))
| VBytes (o : option (list Z))
| VTagged (l : list (Z * list Z))
| VArr (o : option (list val))
| VTup (l : list val).

Definition blen {A} (l : list A) : Z := Z.of_nat (length l).

(* ---------------------------------------------------------------- fixed-width integers *)
(* struct.pack(">b/h/i/q/I"): [n] bytes, most significant first *)
Fixpoint be (n : nat) (z : Z) : list Z :=
  match n with
  | O => []
  | S n' => (z / 256 ^ Z.of_nat n') mod 256 :: be n' z
  end.

Fixpoint ube_acc (acc : Z) (bs : list Z) : Z :=
  match bs with
  | [] => acc
  | b :: r => ube_acc (acc * 256 + b) r
  end.

(* data.read(n) followed by a length check (struct.unpack fails on a short read) *)
Fixpoint take (n : nat) (bs : list Z) : option (list Z * list Z) :=
  match n with
  | O => Some ([], bs)
  | S n' => match bs with
            | [] => None
            | b :: r => match take n' r with
                        | Some (h, t) => Some (b :: h, t)
                        | None => None
                        end
            end
  end.

Definition dec_uint (n : nat) (bs : list Z) : option (Z * list Z) :=
  match take n bs with
  | Some (h, r) => Some (ube_acc 0 h, r)
  | None => None
  end.

Definition dec_sint (n : nat) (bs : list Z) : option (Z * list Z) :=
  match dec_uint n bs with
  | Some (u, r) =>
      let half := 2 ^ (8 * Z.of_nat n - 1) in
      Some (if u <? half then u else u - 2 * half, r)
  | None => None
  end.

(* ---------------------------------------------------------------- UnsignedVarInt32 *)
(* encode: value &= 0xFFFFFFFF; while (value & 0xFFFFFF80) != 0: emit (value & 0x7F) | 0x80;
   value >>= 7; emit value.  After the mask the loop body runs at most 4 times, so fuel 4
   is exact (at fuel 0 the loop condition is necessarily false). *)
Fixpoint uv_enc (fuel : nat) (v : Z) : list Z :=
  match fuel with
  | O => [v]
  | S f => if Z.land v 4294967168 =? 0 then [v]
           else Z.lor (Z.land v 127) 128 :: uv_enc f (Z.shiftr v 7)
  end.

Definition enc_uvarint (v : Z) : list Z := uv_enc 4 (Z.land v 4294967295).

(* decode: value, i = 0, 0; loop: b = read(1); if not b & 0x80: break;
   value |= (b & 0x7f) << i; i += 7; if i > 28: raise;  finally value |= b << i *)
Fixpoint uv_dec (value i : Z) (bs : list Z) : option (Z * list Z) :=
  match bs with
  | [] => None
  | b :: r =>
      if Z.land b 128 =? 0 then Some (Z.lor value (Z.shiftl b i), r)
      else
        let value' := Z.lor value (Z.shiftl (Z.land b 127) i) in
        let i' := i + 7 in
        if i' >? 28 then None else uv_dec value' i' r
  end.

Definition dec_uvarint (bs : list Z) : option (Z * list Z) := uv_dec 0 0 bs.

(* ---------------------------------------------------------------- VarInt32 / VarInt64 *)
(* VarInt32.encode: value &= 0xFFFFFFFF; UnsignedVarInt32.encode((value << 1) ^ (value >> 31)) *)
Definition enc_varint32 (v : Z) : list Z :=
  let value := Z.land v 4294967295 in
  enc_uvarint (Z.lxor (Z.shiftl value 1) (Z.shiftr value 31)).

Definition unzigzag (u : Z) : Z := Z.lxor (Z.shiftr u 1) (- (Z.land u 1)).

Definition dec_varint32 (bs : list Z) : option (Z * list Z) :=
  match dec_uvarint bs with
  | Some (u, r) => Some (unzigzag u, r)
  | None => None
  end.

(* VarInt64.encode, as written (note: the loop emits bits of [value], not of [v]):
     value &= 0xFFFFFFFFFFFFFFFF; v = (value << 1) ^ (value >> 63)
     while (v & 0xFFFFFFFFFFFFFF80) != 0: emit (value & 0x7F) | 0x80; v >>= 7
     emit v
   v < 2^65, so at most 10 iterations; fuel 10 is exact. *)
Fixpoint v64_enc (fuel : nat) (value v : Z) : list Z :=
  match fuel with
  | O => [v]
  | S f => if Z.land v 18446744073709551488 =? 0 then [v]
           else Z.lor (Z.land value 127) 128 :: v64_enc f value (Z.shiftr v 7)
  end.

Definition enc_varint64 (x : Z) : list Z :=
  let value := Z.land x 18446744073709551615 in
  v64_enc 10 value (Z.lxor (Z.shiftl value 1) (Z.shiftr value 63)).

Fixpoint v64_dec (value i : Z) (bs : list Z) : option (Z * list Z) :=
  match bs with
  | [] => None
  | b :: r =>
      if Z.land b 128 =? 0 then Some (unzigzag (Z.lor value (Z.shiftl b i)), r)
      else
        let value' := Z.lor value (Z.shiftl (Z.land b 127) i) in
        let i' := i + 7 in
        if i' >? 63 then None else v64_dec value' i' r
  end.

Definition dec_varint64 (bs : list Z) : option (Z * list Z) := v64_dec 0 0 bs.

(* ---------------------------------------------------------------- length-prefixed blobs *)
(* value = data.read(n); if len(value) != n: raise.  (The test on the length first keeps a
   huge length read from foreign bytes from being expanded to a unary number.) *)
Definition split_at (n : Z) (bs : list Z) : option (list Z * list Z) :=
  if blen bs <? n then None else take (Z.to_nat n) bs.

(* String / Bytes: signed length, negative = null *)
Definition enc_blob (w : nat) (o : option (list Z)) : list Z :=
  match o with
  | None => be w (-1)
  | Some l => be w (blen l) ++ l
  end.

Definition dec_blob (w : nat) (bs : list Z) : option (option (list Z) * list Z) :=
  match dec_sint w bs with
  | Some (n, r) =>
      if n <? 0 then Some (None, r)
      else match split_at n r with
           | Some (h, t) => Some (Some h, t)
           | None => None
           end
  | None => None
  end.

(* CompactString / CompactBytes: unsigned varint length + 1, 0 = null *)
Definition enc_cblob (o : option (list Z)) : list Z :=
  match o with
  | None => enc_uvarint 0
  | Some l => enc_uvarint (blen l + 1) ++ l
  end.

Definition dec_cblob (bs : list Z) : option (option (list Z) * list Z) :=
  match dec_uvarint bs with
  | Some (u, r) =>
      let n := u - 1 in
      if n <? 0 then Some (None, r)
      else match split_at n r with
           | Some (h, t) => Some (Some h, t)
           | None => None
           end
  | None => None
  end.

(* ---------------------------------------------------------------- TaggedFields *)
(* encode: ret = uvarint(len(value)); for k, v in sorted(value.items()): uvarint(k) uvarint(len(v)) v.
   The dict is its item list in iteration order (distinct keys); sorted() orders by tag. *)
Fixpoint ins_tag (kv : Z * list Z) (l : list (Z * list Z)) : list (Z * list Z) :=
  match l with
  | [] => [kv]
  | x :: r => if fst kv <=? fst x then kv :: l else x :: ins_tag kv r
  end.

Fixpoint sort_tags (l : list (Z * list Z)) : list (Z * list Z) :=
  match l with
  | [] => []
  | x :: r => ins_tag x (sort_tags r)
  end.

Definition enc_tagged (l : list (Z * list Z)) : list Z :=
  enc_uvarint (blen l) ++
  flat_map (fun kv => enc_uvarint (fst kv) ++ enc_uvarint (blen (snd kv)) ++ snd kv) (sort_tags l).

(* the decoder does not check for a short read of the field body: data.read(size) *)
Fixpoint dec_tagged_loop (n : nat) (prev : Z) (bs : list Z) : option (list (Z * list Z) * list Z) :=
  match n with
  | O => Some ([], bs)
  | S n' =>
      match dec_uvarint bs with
      | Some (tag, r1) =>
          if tag <=? prev then None
          else match dec_uvarint r1 with
               | Some (size, r2) =>
                   let k := Z.to_nat (Z.min size (blen r2)) in   (* read(size) returns at most what is left *)
                   let body := firstn k r2 in
                   let r3 := skipn k r2 in
                   match dec_tagged_loop n' tag r3 with
                   | Some (l, r4) => Some ((tag, body) :: l, r4)
                   | None => None
                   end
               | None => None
               end
      | None => None
      end
  end.

(* every iteration starts by reading a varint (at least one byte, an exception on exhausted
   data), so more fields than remaining bytes always ends in an exception *)
Definition dec_tagged (bs : list Z) : option (list (Z * list Z) * list Z) :=
  match dec_uvarint bs with
  | Some (n, r) => if blen r <? n then None else dec_tagged_loop (Z.to_nat n) (-1) r
  | None => None
  end.

(* ---------------------------------------------------------------- arrays *)
(* [d] decodes one element; `[array_of.decode(data) for _ in range(length)]` *)
Fixpoint rep (d : list Z -> option (val * list Z)) (n : nat) (bs : list Z)
  : option (list val * list Z) :=
  match n with
  | O => Some ([], bs)
  | S n' => match d bs with
            | Some (v, r) => match rep d n' r with
                             | Some (l, r') => Some (v :: l, r')
                             | None => None
                             end
            | None => None
            end
  end.

(* The same loop by recursion on the binary representation of the count: it stops at the
   first element that fails, so a huge count read from foreign bytes costs nothing
   (rep_z d n = rep d (Z.to_nat n), proof/C11_roundtrip.v: rep_z_eq). *)
Fixpoint rep_pos (d : list Z -> option (val * list Z)) (p : positive) (bs : list Z)
  : option (list val * list Z) :=
  match p with
  | xH => match d bs with
          | Some (v, r) => Some ([v], r)
          | None => None
          end
  | xO p' => match rep_pos d p' bs with
             | Some (l1, r1) => match rep_pos d p' r1 with
                                | Some (l2, r2) => Some (l1 ++ l2, r2)
                                | None => None
                                end
             | None => None
             end
  | xI p' => match d bs with
             | Some (v, r0) =>
                 match rep_pos d p' r0 with
                 | Some (l1, r1) => match rep_pos d p' r1 with
                                    | Some (l2, r2) => Some (v :: l1 ++ l2, r2)
                                    | None => None
                                    end
                 | None => None
                 end
             | None => None
             end
  end.

(* `for _ in range(n)`: nothing for n <= 0 *)
Definition rep_z (d : list Z -> option (val * list Z)) (n : Z) (bs : list Z)
  : option (list val * list Z) :=
  match n with
  | Zpos p => rep_pos d p bs
  | _ => Some ([], bs)
  end.

(* ---------------------------------------------------------------- the codec *)
Fixpoint enc (t : ty) (v : val) : list Z :=
  match t, v with
  | TInt8, VInt z => be 1 z
  | TInt16, VInt z => be 2 z
  | TInt32, VInt z => be 4 z
  | TInt64, VInt z => be 8 z
  | TUInt32, VInt z => be 4 z
  | TFloat64, VInt z => be 8 z
  | TBool, VBool b => [if b then 1 else 0]
  | TString, VStr o => enc_blob 2 o
  | TBytes, VBytes o => enc_blob 4 o
  | TUVarInt, VInt z => enc_uvarint z
  | TVarInt32, VInt z => enc_varint32 z
  | TVarInt64, VInt z => enc_varint64 z
  | TCompactString, VStr o => enc_cblob o
  | TCompactBytes, VBytes o => enc_cblob o
  | TTagged, VTagged l => enc_tagged l
  | TArray t', VArr None => be 4 (-1)
  | TArray t', VArr (Some l) => be 4 (blen l) ++ flat_map (enc t') l
  | TCompactArray t', VArr None => enc_uvarint 0
  | TCompactArray t', VArr (Some l) => enc_uvarint (blen l + 1) ++ flat_map (enc t') l
  | TSchema fs, VTup l =>
      (fix go (fs : list ty) (l : list val) {struct fs} : list Z :=
         match fs, l with
         | f :: fs', x :: l' => enc f x ++ go fs' l'
         | _, _ => []
         end) fs l
  | _, _ => []
  end.

Definition omap {A B} (f : A -> B) (o : option (A * list Z)) : option (B * list Z) :=
  match o with
  | Some (a, r) => Some (f a, r)
  | None => None
  end.

Fixpoint dec (t : ty) (bs : list Z) : option (val * list Z) :=
  match t with
  | TInt8 => omap VInt (dec_sint 1 bs)
  | TInt16 => omap VInt (dec_sint 2 bs)
  | TInt32 => omap VInt (dec_sint 4 bs)
  | TInt64 => omap VInt (dec_sint 8 bs)
  | TUInt32 => omap VInt (dec_uint 4 bs)
  | TFloat64 => omap VInt (dec_uint 8 bs)
  | TBool => omap (fun u => VBool (negb (u =? 0))) (dec_uint 1 bs)
  | TString => omap VStr (dec_blob 2 bs)
  | TBytes => omap VBytes (dec_blob 4 bs)
  | TUVarInt => omap VInt (dec_uvarint bs)
  | TVarInt32 => omap VInt (dec_varint32 bs)
  | TVarInt64 => omap VInt (dec_varint64 bs)
  | TCompactString => omap VStr (dec_cblob bs)
  | TCompactBytes => omap VBytes (dec_cblob bs)
  | TTagged => omap VTagged (dec_tagged bs)
  | TArray t' =>
      match dec_sint 4 bs with
      | Some (n, r) =>
          if n =? -1 then Some (VArr None, r)
          else omap (fun l => VArr (Some l)) (rep_z (dec t') n r)
      | None => None
      end
  | TCompactArray t' =>
      match dec_uvarint bs with
      | Some (u, r) =>
          if u - 1 =? -1 then Some (VArr None, r)
          else omap (fun l => VArr (Some l)) (rep_z (dec t') (u - 1) r)
      | None => None
      end
  | TSchema fs =>
      omap VTup
        ((fix go (fs : list ty) (bs : list Z) {struct fs} : option (list val * list Z) :=
            match fs with
            | [] => Some ([], bs)
            | f :: fs' => match dec f bs with
                          | Some (v, r) => match go fs' r with
                                           | Some (l, r') => Some (v :: l, r')
                                           | None => None
                                           end
                          | None => None
                          end
            end) fs bs)
  end.

(* ---------------------------------------------------------------- in-range values *)
Definition in_range (lo hi z : Z) : bool := (lo <=? z) && (z <? hi).
Definition is_byte (b : Z) : bool := in_range 0 256 b.
Definition wf_bytes (l : list Z) : bool := forallb is_byte l.

(* blob of at most [maxlen] bytes *)
Definition wt_blob (maxlen : Z) (o : option (list Z)) : bool :=
  match o with
  | None => true
  | Some l => wf_bytes l && (blen l <=? maxlen)
  end.

(* tags strictly increasing and > [prev]; sizes fit an unsigned varint *)
Fixpoint wt_tagged (prev : Z) (l : list (Z * list Z)) : bool :=
  match l with
  | [] => true
  | (k, b) :: l' => (prev <? k) && (k <? 4294967296) && wf_bytes b && (blen b <? 4294967296)
                    && wt_tagged k l'
  end.

(* Domain of each wire type: the canonical values.  Stated restrictions: VarInt32 is
   restricted to 0 <= z < 2^31 and VarInt64 to 0 <= z < 64, because the real encoders are
   wrong beyond (no struct uses either type; props/C11.v c11_varint32_refuted /
   c11_varint64_refuted); a TaggedFields value lists its tags (>= 0) in strictly increasing
   order — the form decode returns.  Dicts in any other iteration order are covered by
   [wtu] / [vnorm] below: they encode like, and decode to, their sorted form. *)
Fixpoint wt (t : ty) (v : val) : bool :=
  match t, v with
  | TInt8, VInt z => in_range (-128) 128 z
  | TInt16, VInt z => in_range (-32768) 32768 z
  | TInt32, VInt z => in_range (-2147483648) 2147483648 z
  | TInt64, VInt z => in_range (-9223372036854775808) 9223372036854775808 z
  | TUInt32, VInt z => in_range 0 4294967296 z
  | TFloat64, VInt z => in_range 0 18446744073709551616 z
  | TBool, VBool _ => true
  | TString, VStr o => wt_blob 32767 o
  | TBytes, VBytes o => wt_blob 2147483647 o
  | TUVarInt, VInt z => in_range 0 4294967296 z
  | TVarInt32, VInt z => in_range 0 2147483648 z
  | TVarInt64, VInt z => in_range 0 64 z
  | TCompactString, VStr o => wt_blob 4294967294 o
  | TCompactBytes, VBytes o => wt_blob 4294967294 o
  | TTagged, VTagged l => (blen l <? 4294967296) && wt_tagged (-1) l
  | TArray t', VArr None => true
  | TArray t', VArr (Some l) => (blen l <=? 2147483647) && forallb (wt t') l
  | TCompactArray t', VArr None => true
  | TCompactArray t', VArr (Some l) => (blen l <=? 4294967294) && forallb (wt t') l
  | TSchema fs, VTup l =>
      (fix go (fs : list ty) (l : list val) {struct fs} : bool :=
         match fs, l with
         | [], [] => true
         | f :: fs', x :: l' => wt f x && go fs' l'
         | _, _ => false
         end) fs l
  | _, _ => false
  end.

(* ---------------------------------------------------------------- dicts in any order *)
(* tags distinct, each inside 0 .. 2^32-1, bodies well formed *)
Fixpoint wtu_tagged (l : list (Z * list Z)) : bool :=
  match l with
  | [] => true
  | (k, b) :: l' => in_range 0 4294967296 k && wf_bytes b && (blen b <? 4294967296)
                    && negb (existsb (fun kv => fst kv =? k) l') && wtu_tagged l'
  end.

(* [wt] with TaggedFields values in arbitrary iteration order *)
Fixpoint wtu (t : ty) (v : val) : bool :=
  match t, v with
  | TTagged, VTagged l => (blen l <? 4294967296) && wtu_tagged l
  | TArray t', VArr None => true
  | TArray t', VArr (Some l) => (blen l <=? 2147483647) && forallb (wtu t') l
  | TCompactArray t', VArr None => true
  | TCompactArray t', VArr (Some l) => (blen l <=? 4294967294) && forallb (wtu t') l
  | TSchema fs, VTup l =>
      (fix go (fs : list ty) (l : list val) {struct fs} : bool :=
         match fs, l with
         | [], [] => true
         | f :: fs', x :: l' => wtu f x && go fs' l'
         | _, _ => false
         end) fs l
  | TArray _, _ | TCompactArray _, _ | TSchema _, _ | TTagged, _ => false
  | _, _ => wt t v
  end.

(* the value with every dict put in ascending tag order: the same finite maps *)
Fixpoint vnorm (v : val) : val :=
  match v with
  | VTagged l => VTagged (sort_tags l)
  | VArr (Some l) => VArr (Some (map vnorm l))
  | VTup l => VTup (map vnorm l)
  | other => other
  end.

(* ---------------------------------------------------------------- boolean equality on types *)
Fixpoint ty_eqb (a b : ty) : bool :=
  match a, b with
  | TInt8, TInt8 | TInt16, TInt16 | TInt32, TInt32 | TInt64, TInt64 | TUInt32, TUInt32
  | TBool, TBool | TFloat64, TFloat64 | TString, TString | TBytes, TBytes
  | TUVarInt, TUVarInt | TVarInt32, TVarInt32 | TVarInt64, TVarInt64
  | TCompactString, TCompactString | TCompactBytes, TCompactBytes | TTagged, TTagged => true
  | TArray x, TArray y => ty_eqb x y
  | TCompactArray x, TCompactArray y => ty_eqb x y
  | TSchema xs, TSchema ys =>
      (fix go (xs ys : list ty) {struct xs} : bool :=
         match xs, ys with
         | [], [] => true
         | x :: xs', y :: ys' => ty_eqb x y && go xs' ys'
         | _, _ => false
         end) xs ys
  | _, _ => false
  end.

(* types covered by the round-trip theorem at their full Kafka range: everything except
   VarInt32 / VarInt64 (whose real encoder is wrong outside a small range) *)
Fixpoint covered (t : ty) : bool :=
  match t with
  | TVarInt32 | TVarInt64 => false
  | TArray t' | TCompactArray t' => covered t'
  | TSchema fs => forallb covered fs
  | _ => true
  end.

(* does the type use the flexible-version ("compact"/tagged) encodings anywhere? *)
Fixpoint uses_flexible (t : ty) : bool :=
  match t with
  | TCompactString | TCompactBytes | TTagged | TUVarInt | TVarInt32 | TVarInt64 => true
  | TCompactArray _ => true
  | TArray t' => uses_flexible t'
  | TSchema fs => existsb uses_flexible fs
  | _ => false
  end.

(* does the type use any non-flexible variable-length encoding? *)
Fixpoint uses_classic (t : ty) : bool :=
  match t with
  | TString | TBytes | TArray _ => true
  | TCompactArray t' => uses_classic t'
  | TSchema fs => existsb uses_classic fs
  | _ => false
  end.
