(* C06_Converge.v — the classic consumer-group protocol in the quiet period (no faults, no joins,
   leaves, crashes, subscription changes, coordinator moves) as an executable labelled transition
   system: one group coordinator (written after harness/simkit/groupcoord.py, i.e. Kafka's
   GroupCoordinator for the classic protocol) composed with any number of members (written after
   aiokafka/consumer/group_coordinator.py: coordination routine, heartbeat routine,
   perform_group_join, _send_sync_group_request, _do_commit_offsets).

   Tie T: what a member does on a reply code is NOT written here; it is the interpretation [react]
   of the act lists that translator/dispatch2gallina.py extracts from the handlers on every run
   (gen/HeartbeatDispatch.v, JoinRetryDispatch.v, JoinDispatch.v, SyncDispatch.v,
   CommitDispatch.v), applied to the code the modelled coordinator answers.

   Definitions only.  Timing assumptions of the quiet period (what the labels do NOT contain):
   (A1) the session of a member id held by a live member does not expire and a live member is not
        dropped at the rebalance timeout (a live member answers within both timeouts);
   (A2) [LExpire] removes only ORPHAN ids (ids in the coordinator's table that no live member holds,
        left behind by kills, lost replies, generation resets) - session expiry or the drop at the
        rebalance timeout; nothing creates an id except a JoinGroup with an empty member id;
   (A3) FindCoordinator answers the current coordinator ([LFind] makes the coordinator known);
   (A4) subscriptions, assignor lists and partition counts do not change (no "changed protocols",
        no metadata-triggered rejoin);
   (A5) no request fails at the client (a parked JoinGroup / SyncGroup is answered before the
        client's request timeout). *)
From Coq Require Import ZArith List Bool Arith.
From Verif Require Import DispatchActs HeartbeatDispatch JoinRetryDispatch JoinDispatch
  SyncDispatch CommitDispatch.
Import ListNotations.
Local Open Scope nat_scope.

(* ------------------------------------------------------------------------------------------ *)
(* members                                                                                     *)

Inductive ckst := CkNone | CkStale | CkOk.      (* coordinator_id: None / a node that is no longer the coordinator / right *)
Inductive phase := PIdle | PJoinSent | PJoined | PSyncSent.
(* PIdle     : the coordination routine is between rejoin attempts (top of its loop / waiting)
   PJoinSent : JoinGroup sent: parked at the coordinator ([m_inbox] = None) or its reply is on the wire
   PJoined   : successful JoinGroup reply processed, SyncGroup not yet sent (leader: assigning)
   PSyncSent : SyncGroup sent: parked ([m_inbox] = None) or reply on the wire *)

Inductive reply :=
| RpJoin (code : Z) (gen : nat)     (* the member id in the reply is [m_focus] *)
| RpSync (code : Z).

Record member := mkM {
  m_name : nat;             (* client (never changes) *)
  m_live : bool;            (* false: killed / stopped / ended by a raised error *)
  m_id : nat;               (* member id; 0 = "" (unknown) *)
  m_gen : nat;              (* generation believed; 0 = none (-1 in the code) *)
  m_ph : phase;
  m_rejoin : bool;          (* need_rejoin(): _rejoin_needed_fut done, or no assignment yet *)
  m_ck : ckst;
  m_hb : bool;              (* heartbeat task running *)
  m_focus : nat;            (* the id the JoinGroup exchange in progress is about: the id sent, or the one
                               the coordinator generated for ""; the member id in the reply *)
  m_inbox : option reply;   (* JoinGroup / SyncGroup reply on the wire *)
  m_hbin : option Z;        (* Heartbeat reply on the wire *)
  m_cmin : option Z         (* OffsetCommit reply on the wire *)
}.

Definition set_live b m := mkM (m_name m) b (m_id m) (m_gen m) (m_ph m) (m_rejoin m) (m_ck m) (m_hb m) (m_focus m) (m_inbox m) (m_hbin m) (m_cmin m).
Definition set_id x m := mkM (m_name m) (m_live m) x (m_gen m) (m_ph m) (m_rejoin m) (m_ck m) (m_hb m) (m_focus m) (m_inbox m) (m_hbin m) (m_cmin m).
Definition set_gen g m := mkM (m_name m) (m_live m) (m_id m) g (m_ph m) (m_rejoin m) (m_ck m) (m_hb m) (m_focus m) (m_inbox m) (m_hbin m) (m_cmin m).
Definition set_ph p m := mkM (m_name m) (m_live m) (m_id m) (m_gen m) p (m_rejoin m) (m_ck m) (m_hb m) (m_focus m) (m_inbox m) (m_hbin m) (m_cmin m).
Definition set_rejoin b m := mkM (m_name m) (m_live m) (m_id m) (m_gen m) (m_ph m) b (m_ck m) (m_hb m) (m_focus m) (m_inbox m) (m_hbin m) (m_cmin m).
Definition set_ck k m := mkM (m_name m) (m_live m) (m_id m) (m_gen m) (m_ph m) (m_rejoin m) k (m_hb m) (m_focus m) (m_inbox m) (m_hbin m) (m_cmin m).
Definition set_hb b m := mkM (m_name m) (m_live m) (m_id m) (m_gen m) (m_ph m) (m_rejoin m) (m_ck m) b (m_focus m) (m_inbox m) (m_hbin m) (m_cmin m).
Definition set_focus x m := mkM (m_name m) (m_live m) (m_id m) (m_gen m) (m_ph m) (m_rejoin m) (m_ck m) (m_hb m) x (m_inbox m) (m_hbin m) (m_cmin m).
Definition set_inbox r m := mkM (m_name m) (m_live m) (m_id m) (m_gen m) (m_ph m) (m_rejoin m) (m_ck m) (m_hb m) (m_focus m) r (m_hbin m) (m_cmin m).
Definition set_hbin r m := mkM (m_name m) (m_live m) (m_id m) (m_gen m) (m_ph m) (m_rejoin m) (m_ck m) (m_hb m) (m_focus m) (m_inbox m) r (m_cmin m).
Definition set_cmin r m := mkM (m_name m) (m_live m) (m_id m) (m_gen m) (m_ph m) (m_rejoin m) (m_ck m) (m_hb m) (m_focus m) (m_inbox m) (m_hbin m) r.

(* interpretation of one action of a translated dispatch chain; [rid] = member id carried by the reply *)
Definition react1 (rid : nat) (m : member) (a : act) : member :=
  match a with
  | ACoordinatorDead => set_ck CkNone m                                 (* coordinator_dead() *)
  | ARequestRejoin => set_rejoin true m                                 (* request_rejoin() *)
  | AResetGeneration => set_rejoin true (set_gen 0 (set_id 0 m))        (* reset_generation() *)
  | ASetMemberId => set_id rid m
  | ARaiseSame | ARaiseCode _ | ARaiseUnexpected | ARaiseOther => set_live false m
  | _ => m
  end.
Definition react (rid : nat) (acts : list act) (m : member) : member := fold_left (react1 rid) acts m.

(* ------------------------------------------------------------------------------------------ *)
(* coordinator                                                                                 *)

Inductive cstate := CEmpty | CPreparing | CCompleting | CStable.
Record entry := mkE {
  e_id : nat;
  e_jp : bool;              (* a JoinGroup for this id is parked (join_cb) *)
  e_sp : bool               (* a SyncGroup for this id is parked (sync_cb) *)
}.
Record coord := mkC {
  c_gen : nat;
  c_st : cstate;
  c_ents : list entry;      (* g.members *)
  c_pend : list nat;        (* g.pending_ids (KIP-394) *)
  c_leader : nat            (* 0 = none *)
}.
Record state := mkS { s_c : coord; s_ms : list member }.

Definition ids (es : list entry) : list nat := map e_id es.
Definition memb (x : nat) (l : list nat) : bool := existsb (Nat.eqb x) l.
Definition cstate_eqb (a b : cstate) : bool :=
  match a, b with CEmpty, CEmpty | CPreparing, CPreparing | CCompleting, CCompleting | CStable, CStable => true | _, _ => false end.

Definition set_jp (x : nat) (v : bool) (es : list entry) : list entry :=
  map (fun e => if e_id e =? x then mkE (e_id e) v (e_sp e) else e) es.
Definition set_sp (x : nat) (v : bool) (es : list entry) : list entry :=
  map (fun e => if e_id e =? x then mkE (e_id e) (e_jp e) v else e) es.
Definition clear_jp (es : list entry) : list entry := map (fun e => mkE (e_id e) false (e_sp e)) es.
Definition clear_sp (es : list entry) : list entry := map (fun e => mkE (e_id e) (e_jp e) false) es.
Definition remove_id (x : nat) (l : list nat) : list nat := filter (fun y => negb (y =? x)) l.
Definition find_ent (x : nat) (es : list entry) : option entry := find (fun e => e_id e =? x) es.

(* what the coordinator releases while processing one request / expiry: every parked SyncGroup is answered
   REBALANCE_IN_PROGRESS (_prepare_rebalance), every parked JoinGroup is answered with the new generation
   (_complete_join), every parked SyncGroup is answered with the assignment (leader's SyncGroup) *)
Inductive cev := EvPrepare | EvJoinDone (g : nat) | EvSyncDone.

Definition is_none {A} (o : option A) : bool := match o with None => true | Some _ => false end.
Definition ph_eqb (a b : phase) : bool :=
  match a, b with PIdle, PIdle | PJoinSent, PJoinSent | PJoined, PJoined | PSyncSent, PSyncSent => true | _, _ => false end.
Definition waiting_join (m : member) : bool := ph_eqb (m_ph m) PJoinSent && is_none (m_inbox m).
Definition waiting_sync (m : member) : bool := ph_eqb (m_ph m) PSyncSent && is_none (m_inbox m).

Definition bcast1 (m : member) (e : cev) : member :=
  match e with
  | EvPrepare => if waiting_sync m then set_inbox (Some (RpSync 27)) m else m
  | EvJoinDone g => if waiting_join m then set_inbox (Some (RpJoin 0 g)) m else m
  | EvSyncDone => if waiting_sync m then set_inbox (Some (RpSync 0)) m else m
  end.
Definition bcast (evs : list cev) (m : member) : member := fold_left bcast1 evs m.

Definition all_joined (es : list entry) : bool := forallb e_jp es.
Definition min_id (es : list entry) : nat :=
  match ids es with [] => 0 | x :: r => fold_left Nat.min r x end.

Definition prepare (c : coord) : coord * list cev :=
  (mkC (c_gen c) CPreparing (clear_sp (c_ents c)) (c_pend c) (c_leader c), [EvPrepare]).

(* _maybe_complete_join / _complete_join *)
Definition maybe_complete (c : coord) : coord * list cev :=
  match c_st c, c_ents c with
  | CPreparing, _ :: _ =>
      if all_joined (c_ents c) then
        let g := S (c_gen c) in
        let ldr := if memb (c_leader c) (ids (c_ents c)) then c_leader c else min_id (c_ents c) in
        (mkC g CCompleting (clear_jp (c_ents c)) (c_pend c) ldr, [EvJoinDone g])
      else (c, [])
  | _, _ => (c, [])
  end.

Definition prepare_complete (c : coord) : coord * list cev :=
  let (c1, o1) := prepare c in let (c2, o2) := maybe_complete c1 in (c2, o1 ++ o2).

(* _validate *)
Definition validate (c : coord) (id gen : nat) : Z :=
  if negb (memb id (ids (c_ents c))) || (id =? 0) then 25%Z
  else if negb (gen =? c_gen c) then 22%Z else 0%Z.

Definition hb_code (c : coord) (m : member) : Z :=
  match m_ck m with
  | CkStale => 16%Z
  | _ => let v := validate c (m_id m) (m_gen m) in
         if negb (v =? 0)%Z then v
         else match c_st c with CPreparing | CCompleting => 27%Z | _ => 0%Z end
  end.

Definition cm_code (c : coord) (m : member) : Z :=
  match m_ck m with
  | CkStale => 16%Z
  | _ => if (m_id m =? 0) && (m_gen m =? 0) then
           (if cstate_eqb (c_st c) CEmpty then 0%Z else 25%Z)
         else let v := validate c (m_id m) (m_gen m) in
              if negb (v =? 0)%Z then v
              else match c_st c with CCompleting => 27%Z | _ => 0%Z end
  end.

(* the three ways a JoinGroup / SyncGroup ends at the coordinator for the requester *)
Inductive outcome := Immediate (x : nat) (r : reply) | Parked (x : nat).   (* x: the id the exchange is about *)

(* JoinGroup for the (existing or new) id [x], after the id checks *)
Definition join_known (c : coord) (x : nat) : coord * outcome * list cev :=
  let isnew := negb (memb x (ids (c_ents c))) in
  let es1 := if isnew then c_ents c ++ [mkE x true false] else set_jp x true (c_ents c) in
  let c1 := mkC (c_gen c) (c_st c) es1 (remove_id x (c_pend c)) (c_leader c) in
  let immediate := (mkC (c_gen c) (c_st c) (set_jp x false es1) (c_pend c1) (c_leader c),
                    Immediate x (RpJoin 0 (c_gen c)), []) in
  match c_st c with
  | CEmpty => let (c2, o) := prepare_complete c1 in (c2, Parked x, o)
  | CStable => if isnew || (x =? c_leader c) then let (c2, o) := prepare_complete c1 in (c2, Parked x, o)
               else immediate
  | CCompleting => if isnew then let (c2, o) := prepare_complete c1 in (c2, Parked x, o) else immediate
  | CPreparing => let (c2, o) := maybe_complete c1 in (c2, Parked x, o)
  end.

(* join(): [id] the member id in the request, [v4] JoinGroup v4+ (KIP-394), [y] the id the coordinator
   generates for an empty member id *)
Definition cjoin (c : coord) (id : nat) (v4 : bool) (y : nat) : coord * outcome * list cev :=
  if id =? 0 then
    if v4 then (mkC (c_gen c) (c_st c) (c_ents c) (y :: c_pend c) (c_leader c), Immediate y (RpJoin 79 0), [])
    else join_known c y
  else if negb (memb id (ids (c_ents c))) && negb (memb id (c_pend c)) then (c, Immediate id (RpJoin 25 0), [])
  else join_known c id.

(* sync() *)
Definition csync (c : coord) (id gen : nat) : coord * outcome * list cev :=
  let v := validate c id gen in
  if negb (v =? 0)%Z then (c, Immediate id (RpSync v), [])
  else match c_st c with
       | CPreparing => (c, Immediate id (RpSync 27), [])
       | CStable => (c, Immediate id (RpSync 0), [])
       | CEmpty => (c, Immediate id (RpSync 25), [])
       | CCompleting =>
           if id =? c_leader c then
             (mkC (c_gen c) CStable (clear_sp (c_ents c)) (c_pend c) (c_leader c), Parked id, [EvSyncDone])
           else (mkC (c_gen c) (c_st c) (set_sp id true (c_ents c)) (c_pend c) (c_leader c), Parked id, [])
       end.

(* _expire / _rebalance_timeout for one id ([rt] = dropped at the rebalance timeout) + _remove_member *)
Definition cexpire (c : coord) (x : nat) (rt : bool) : coord * list cev :=
  let es := filter (fun e => negb (e_id e =? x)) (c_ents c) in
  let ldr := if c_leader c =? x then 0 else c_leader c in
  match es with
  | [] => (mkC (if rt || cstate_eqb (c_st c) CEmpty then c_gen c else S (c_gen c)) CEmpty [] (c_pend c) ldr, [])
  | _ :: _ =>
      let c1 := mkC (c_gen c) (c_st c) es (c_pend c) ldr in
      match c_st c with
      | CStable | CCompleting => prepare c1
      | CPreparing => maybe_complete c1
      | CEmpty => (c1, [])
      end
  end.

(* ------------------------------------------------------------------------------------------ *)
(* quiet steps                                                                                 *)

Inductive label :=
| LFind (i : nat)                           (* ensure_coordinator_known succeeds *)
| LSendJoin (i : nat) (v4 : bool) (y : nat) (* ensure_active_group: stop heartbeat task, JoinGroup *)
| LRecv (i : nat)                           (* JoinGroup / SyncGroup reply processed *)
| LSendSync (i : nat)
| LHbSend (i : nat) | LHbRecv (i : nat)
| LCmSend (i : nat) | LCmRecv (i : nat)     (* OffsetCommit (auto-commit, commit before rejoin) *)
| LExpire (x : nat) (rt : bool).            (* an orphan id leaves the coordinator's table *)

Definition getm (i : nat) (ms : list member) : option member := find (fun m => m_name m =? i) ms.
Definition updm (i : nat) (f : member -> member) (ms : list member) : list member :=
  map (fun m => if m_name m =? i then f m else m) ms.

(* [m] is bound to the id [x]: holds it, or its JoinGroup exchange in progress is about it *)
Definition bound (m : member) (x : nat) : bool :=
  m_live m && ((m_id m =? x) || (ph_eqb (m_ph m) PJoinSent && (m_focus m =? x))).
Definition orphan (ms : list member) (e : entry) : bool := negb (existsb (fun m => bound m (e_id e)) ms).

(* an id the coordinator may generate now: unused anywhere *)
Definition fresh (s : state) (y : nat) : bool :=
  negb (y =? 0) && negb (memb y (ids (c_ents (s_c s)))) && negb (memb y (c_pend (s_c s)))
  && forallb (fun m => negb (m_id m =? y) && negb (m_focus m =? y)) (s_ms s).

Definition recv_join (code : Z) (g : nat) (m : member) : member :=
  let x := m_focus m in
  if has ARetryJoin (joinRetryDispatch code) then
    set_ph PIdle (react x (joinRetryDispatch code) (set_inbox None m))     (* the loop sends the next JoinGroup *)
  else if has ASuccess (joinDispatch code) then
    set_ph PJoined (set_gen g (set_id x (set_inbox None m)))
  else set_ph PIdle (react x (joinDispatch code) (set_inbox None m)).

Definition recv_sync (code : Z) (m : member) : member :=
  if has ASuccess (syncDispatch code) then
    set_hb true (set_ph PIdle (set_inbox None m))                         (* _start_heartbeat_task *)
  else set_ph PIdle (react 0 (syncDispatch code) (set_inbox None m)).

Definition recv_hb (code : Z) (m : member) : member :=
  let m1 := react 0 (heartbeatDispatch code) (set_hbin None m) in
  if m_id m1 =? 0 then set_hb false m1 else m1.                           (* while member_id != UNKNOWN *)

Definition recv_cm (code : Z) (m : member) : member := react 0 (commitDispatch code) (set_cmin None m).

Definition ck_known (k : ckst) : bool := match k with CkNone => false | _ => true end.
Definition ck_stale (k : ckst) : bool := match k with CkStale => true | _ => false end.
(* between a MEMBER_ID_REQUIRED reply and the next JoinGroup (member id known, no generation yet) the join loop
   does not yield: no commit is sent there *)
Definition can_commit (m : member) : bool := (m_id m =? 0) || negb (m_gen m =? 0).

Definition apply_outcome (o : outcome) (m : member) : member :=
  match o with Immediate x r => set_focus x (set_inbox (Some r) m) | Parked x => set_focus x (set_inbox None m) end.

Definition step (s : state) (l : label) : option state :=
  let c := s_c s in let ms := s_ms s in
  match l with
  | LFind i =>
      match getm i ms with
      | Some m => if m_live m && negb (ck_known (m_ck m)) then Some (mkS c (updm i (set_ck CkOk) ms)) else None
      | None => None
      end
  | LSendJoin i v4 y =>
      match getm i ms with
      | Some m =>
          if m_live m && ph_eqb (m_ph m) PIdle && is_none (m_inbox m) && is_none (m_cmin m)
             && ck_known (m_ck m) && m_rejoin m && (negb (m_id m =? 0) || fresh s y) then
            let sent := fun m => set_ph PJoinSent (set_hbin None (set_hb false m)) in
            if ck_stale (m_ck m) then
              Some (mkS c (updm i (fun m => set_focus (m_id m) (set_inbox (Some (RpJoin 16 0)) (sent m))) ms))
            else match cjoin c (m_id m) v4 y with
                 | (c', o, evs) => Some (mkS c' (map (bcast evs) (updm i (fun m => apply_outcome o (sent m)) ms)))
                 end
          else None
      | None => None
      end
  | LRecv i =>
      match getm i ms with
      | Some m =>
          if m_live m then
            match m_ph m, m_inbox m with
            | PJoinSent, Some (RpJoin code g) => Some (mkS c (updm i (recv_join code g) ms))
            | PSyncSent, Some (RpSync code) => Some (mkS c (updm i (recv_sync code) ms))
            | _, _ => None
            end
          else None
      | None => None
      end
  | LSendSync i =>
      match getm i ms with
      | Some m =>
          if m_live m && ph_eqb (m_ph m) PJoined && is_none (m_inbox m) && ck_known (m_ck m) then
            let sent := fun m => set_ph PSyncSent (set_rejoin false m) in
            if ck_stale (m_ck m) then
              Some (mkS c (updm i (fun m => set_inbox (Some (RpSync 16)) (sent m)) ms))
            else match csync c (m_id m) (m_gen m) with
                 | (c', o, evs) =>
                     Some (mkS c' (map (bcast evs)
                                     (updm i (fun m => match o with
                                                       | Immediate _ r => set_inbox (Some r) (sent m)
                                                       | Parked _ => set_inbox None (sent m)
                                                       end) ms)))
                 end
          else None
      | None => None
      end
  | LHbSend i =>
      match getm i ms with
      | Some m => if m_live m && m_hb m && is_none (m_hbin m) && ck_known (m_ck m)
                  then Some (mkS c (updm i (set_hbin (Some (hb_code c m))) ms)) else None
      | None => None
      end
  | LHbRecv i =>
      match getm i ms with
      | Some m => if m_live m then match m_hbin m with
                                   | Some code => Some (mkS c (updm i (recv_hb code) ms))
                                   | None => None
                                   end else None
      | None => None
      end
  | LCmSend i =>
      match getm i ms with
      | Some m => if m_live m && ph_eqb (m_ph m) PIdle && is_none (m_inbox m) && is_none (m_cmin m) && ck_known (m_ck m)
                     && can_commit m
                  then Some (mkS c (updm i (set_cmin (Some (cm_code c m))) ms)) else None
      | None => None
      end
  | LCmRecv i =>
      match getm i ms with
      | Some m => if m_live m then match m_cmin m with
                                   | Some code => Some (mkS c (updm i (recv_cm code) ms))
                                   | None => None
                                   end else None
      | None => None
      end
  | LExpire x rt =>
      match find_ent x (c_ents c) with
      | Some e =>
          if orphan ms e && negb (e_jp e) && negb (e_sp e)
             && (negb rt || cstate_eqb (c_st c) CPreparing) then
            let (c', evs) := cexpire c x rt in Some (mkS c' (map (bcast evs) ms))
          else None
      | None => None
      end
  end.

Fixpoint run (s : state) (ls : list label) : option state :=
  match ls with
  | [] => Some s
  | l :: r => match step s l with Some s' => run s' r | None => None end
  end.

(* ------------------------------------------------------------------------------------------ *)
(* replay of an observed run (harness/c06_converge.py): every observation is one quiet step plus what
   the real system showed at that point; the model must produce the same request contents and the
   same reply codes.  Generations: the real -1 is 0 here.                                          *)

Inductive obs :=
| OFind (i : nat)
| OJoinReq (i : nat) (v4 : bool) (y : nat) (mid : nat)
| OJoinRep (i : nat) (code : Z) (gen id : nat)
| OSyncReq (i : nat) (mid gen : nat)
| OSyncRep (i : nat) (code : Z)
| OHbReq (i : nat) (mid gen : nat) (code : Z)
| OHbRep (i : nat) (code : Z)
| OCmReq (i : nat) (mid gen : nat) (code : Z)
| OCmRep (i : nat) (code : Z)
| OExpire (x : nat) (rt : bool).

Definition opt_Z_eqb (a : option Z) (b : Z) : bool := match a with Some x => (x =? b)%Z | None => false end.
Definition with_m (s : state) (i : nat) (p : member -> bool) : bool :=
  match getm i (s_ms s) with Some m => p m | None => false end.
Definition guard (b : bool) (k : option state) : option state := if b then k else None.
Definition post (k : option state) (p : state -> bool) : option state :=
  match k with Some s => if p s then Some s else None | None => None end.

Definition ostep (s : state) (o : obs) : option state :=
  match o with
  | OFind i => step s (LFind i)
  | OJoinReq i v4 y mid => guard (with_m s i (fun m => m_id m =? mid)) (step s (LSendJoin i v4 y))
  | OJoinRep i code gen id =>
      guard (with_m s i (fun m => match m_inbox m with
                                  | Some (RpJoin c g) =>
                                      (c =? code)%Z && (negb (code =? 0)%Z || (g =? gen))
                                      && (negb ((code =? 0)%Z || (code =? 79)%Z) || (m_focus m =? id))
                                  | _ => false end))
            (step s (LRecv i))
  | OSyncReq i mid gen =>
      guard (with_m s i (fun m => (m_id m =? mid) && (m_gen m =? gen))) (step s (LSendSync i))
  | OSyncRep i code =>
      guard (with_m s i (fun m => match m_inbox m with Some (RpSync c) => (c =? code)%Z | _ => false end))
            (step s (LRecv i))
  | OHbReq i mid gen code =>
      post (guard (with_m s i (fun m => (m_id m =? mid) && (m_gen m =? gen))) (step s (LHbSend i)))
           (fun s' => with_m s' i (fun m => opt_Z_eqb (m_hbin m) code))
  | OHbRep i code => guard (with_m s i (fun m => opt_Z_eqb (m_hbin m) code)) (step s (LHbRecv i))
  | OCmReq i mid gen code =>
      post (guard (with_m s i (fun m => (m_id m =? mid) && (m_gen m =? gen))) (step s (LCmSend i)))
           (fun s' => with_m s' i (fun m => opt_Z_eqb (m_cmin m) code))
  | OCmRep i code => guard (with_m s i (fun m => opt_Z_eqb (m_cmin m) code)) (step s (LCmRecv i))
  | OExpire x rt => step s (LExpire x rt)
  end.

Definition lab (o : obs) : label :=
  match o with
  | OFind i => LFind i | OJoinReq i v y _ => LSendJoin i v y | OJoinRep i _ _ _ => LRecv i
  | OSyncReq i _ _ => LSendSync i | OSyncRep i _ => LRecv i | OHbReq i _ _ _ => LHbSend i | OHbRep i _ => LHbRecv i
  | OCmReq i _ _ _ => LCmSend i | OCmRep i _ => LCmRecv i | OExpire x rt => LExpire x rt
  end.

(* number of accepted observations and the state reached (the state before the first rejected one) *)
Fixpoint replay (n : nat) (s : state) (os : list obs) : nat * bool * state :=
  match os with
  | [] => (n, true, s)
  | o :: r => match ostep s o with
              | Some s' => replay (S n) s' r
              | None => (n, false, s)
              end
  end.

(* ------------------------------------------------------------------------------------------ *)
(* what one member and the coordinator's relation to it look like: a record of finitely-valued fields.
   The invariant and the variant read a member and the coordinator only through [absm]; the proofs check
   the per-member facts for every value of this record by evaluation.                              *)

Inductive ibk := INone | IJ (code : Z) | IS (code : Z).
Record av := mkA {
  a_live : bool; a_ph : phase; a_rejoin : bool; a_ck : ckst; a_hb : bool;
  a_ib : ibk; a_hbin : option Z; a_cmin : option Z;
  a_st : cstate; a_G0 : bool;                                   (* coordinator state; its generation is 0 *)
  a_idz : bool; a_id_e : bool; a_id_p : bool; a_id_jp : bool; a_id_sp : bool;
      (* m_id: = 0, in the table, pending, its parked-JoinGroup flag, its parked-SyncGroup flag *)
  a_genz : bool; a_gen_eq : bool; a_gen_le : bool;              (* m_gen: = 0, = c_gen, <= c_gen *)
  a_fz : bool; a_f_e : bool; a_f_p : bool; a_f_jp : bool; a_f_sp : bool; a_f_id : bool;
      (* the id of the JoinGroup exchange in progress (0 outside PJoinSent): the same, and: = m_id *)
  a_gz : bool; a_g_eq : bool; a_g_le : bool                     (* generation in the JoinGroup reply (0 if none) *)
}.

Definition ent_jp (c : coord) (x : nat) : bool := match find_ent x (c_ents c) with Some e => e_jp e | None => false end.
Definition ent_sp (c : coord) (x : nat) : bool := match find_ent x (c_ents c) with Some e => e_sp e | None => false end.
Definition focus_of (m : member) : nat := if ph_eqb (m_ph m) PJoinSent then m_focus m else 0.
Definition rgen_of (m : member) : nat := match m_inbox m with Some (RpJoin _ g) => g | _ => 0 end.
Definition ib_of (m : member) : ibk :=
  match m_inbox m with None => INone | Some (RpJoin c _) => IJ c | Some (RpSync c) => IS c end.

Definition absm (c : coord) (m : member) : av :=
  let f := focus_of m in let g := rgen_of m in
  mkA (m_live m) (m_ph m) (m_rejoin m) (m_ck m) (m_hb m) (ib_of m) (m_hbin m) (m_cmin m)
      (c_st c) (c_gen c =? 0)
      (m_id m =? 0) (memb (m_id m) (ids (c_ents c))) (memb (m_id m) (c_pend c)) (ent_jp c (m_id m)) (ent_sp c (m_id m))
      (m_gen m =? 0) (m_gen m =? c_gen c) (m_gen m <=? c_gen c)
      (f =? 0) (memb f (ids (c_ents c))) (memb f (c_pend c)) (ent_jp c f) (ent_sp c f) (f =? m_id m)
      (g =? 0) (g =? c_gen c) (g <=? c_gen c).

Definition ck_ok (k : ckst) : bool := match k with CkOk => true | _ => false end.
Definition zmem (x : Z) (l : list Z) : bool := existsb (Z.eqb x) l.
Definition opt_in (o : option Z) (l : list Z) : bool := match o with None => true | Some c => zmem c l end.
Definition ok_or_none (o : option Z) : bool := match o with None => true | Some c => (c =? 0)%Z end.
Definition join_codes : list Z := [0; 16; 25; 79]%Z.
Definition probe_codes : list Z := [0; 16; 22; 25; 27]%Z.

Definition a_waiting_join (a : av) : bool := ph_eqb (a_ph a) PJoinSent && match a_ib a with INone => true | _ => false end.
Definition a_waiting_sync (a : av) : bool := ph_eqb (a_ph a) PSyncSent && match a_ib a with INone => true | _ => false end.
Definition a_can_commit (a : av) : bool := a_idz a || negb (a_genz a).

(* ---- converged ---- *)
Definition settled_a (a : av) : bool :=
  negb (a_live a) ||
  (ph_eqb (a_ph a) PIdle && negb (a_rejoin a) && a_hb a && ck_ok (a_ck a) && match a_ib a with INone => true | _ => false end
   && negb (a_idz a) && a_id_e a && a_gen_eq a && ok_or_none (a_hbin a) && ok_or_none (a_cmin a)).
Definition settled (c : coord) (m : member) : bool := settled_a (absm c m).
(* converged: the coordinator is Stable (or Empty with nobody alive), every live member is settled in its
   generation with the heartbeat task running and nothing but successful heartbeat / commit replies on the
   wire, and every id in the table is held by a live member *)
Definition converged_b (s : state) : bool :=
  (cstate_eqb (c_st (s_c s)) CStable || cstate_eqb (c_st (s_c s)) CEmpty)
  && forallb (settled (s_c s)) (s_ms s)
  && forallb (fun e => negb (orphan (s_ms s) e) && negb (e_jp e) && negb (e_sp e)) (c_ents (s_c s)).

(* ---- invariant ---- *)
Fixpoint nodupb (l : list nat) : bool :=
  match l with [] => true | x :: r => negb (memb x r) && nodupb r end.

Definition wf_c (c : coord) : bool :=
  nodupb (ids (c_ents c)) && negb (memb 0 (ids (c_ents c))) && negb (memb 0 (c_pend c))
  && forallb (fun x => negb (memb x (ids (c_ents c)))) (c_pend c)
  && (cstate_eqb (c_st c) CEmpty || negb (is_none (hd_error (c_ents c))))
  && (negb (cstate_eqb (c_st c) CEmpty) || is_none (hd_error (c_ents c)))
  && (cstate_eqb (c_st c) CPreparing || forallb (fun e => negb (e_jp e)) (c_ents c))
  && (cstate_eqb (c_st c) CCompleting || forallb (fun e => negb (e_sp e)) (c_ents c))
  && (negb (cstate_eqb (c_st c) CPreparing) || negb (all_joined (c_ents c)))
  && (match c_st c with CCompleting | CStable => memb (c_leader c) (ids (c_ents c)) && negb (c_gen c =? 0) | _ => true end)
  && negb (ent_sp c (c_leader c)).

(* a live member alone and against the coordinator *)
Definition wf_a (a : av) : bool :=
  negb (a_live a) ||
  ((match a_ph a, a_ib a with
    | PIdle, INone => true
    | PJoined, INone => negb (a_idz a) && negb (a_genz a) && ck_known (a_ck a)
    | PJoinSent, INone => ck_ok (a_ck a) && negb (a_fz a) && (a_f_id a || a_idz a)
    | PJoinSent, IJ c =>
        zmem c join_codes && ck_known (a_ck a)
        && (negb (c =? 16)%Z || (a_f_id a && negb (ck_ok (a_ck a))))
        && (negb (c =? 25)%Z || (a_f_id a && negb (a_fz a)))
        && (negb (c =? 79)%Z || (a_idz a && negb (a_fz a)))
        && (negb (c =? 0)%Z || (negb (a_fz a) && negb (a_gz a) && (a_f_id a || a_idz a)))
        && ((c =? 0)%Z || a_gz a)
    | PSyncSent, INone => negb (a_idz a) && negb (a_genz a) && ck_ok (a_ck a)
    | PSyncSent, IS c => zmem c probe_codes && negb (a_idz a) && negb (a_genz a)
    | _, _ => false
    end)
   && (ph_eqb (a_ph a) PIdle || (is_none (a_cmin a) && negb (a_hb a) && is_none (a_hbin a)))
   && (ph_eqb (a_ph a) PIdle || ph_eqb (a_ph a) PSyncSent || a_rejoin a)
   && (a_hb a || is_none (a_hbin a))
   && (a_rejoin a || negb (ph_eqb (a_ph a) PIdle) || (a_hb a && negb (a_idz a) && negb (a_genz a)))
   && (a_genz a || negb (a_idz a))
   && (a_can_commit a || (negb (a_hb a) && is_none (a_cmin a)))
   && (negb (ck_stale (a_ck a))
       || (opt_in (a_hbin a) [16%Z] && opt_in (a_cmin a) [16%Z]
           && match a_ib a with INone => true | IJ c => (c =? 16)%Z | IS c => (c =? 16)%Z end))
   && opt_in (a_hbin a) probe_codes && opt_in (a_cmin a) probe_codes).
Definition coh_a (a : av) : bool :=
  negb (a_live a) ||
  ((negb (a_waiting_join a) || a_f_jp a)
   && (negb (a_waiting_sync a) || (a_id_sp a && a_gen_eq a))
   && (match a_ib a with
       | IJ 79%Z => a_f_p a
       | IJ 0%Z => a_g_le a && negb (a_f_p a)
       | _ => true end)
   && (negb (a_id_p a) || a_genz a)
   && a_gen_le a).
Definition wf_m (c : coord) (m : member) : bool := wf_a (absm c m).
Definition coh (c : coord) (m : member) : bool := coh_a (absm c m).

(* two live members are never bound to the same id *)
Fixpoint pairwise {A} (p : A -> A -> bool) (l : list A) : bool :=
  match l with [] => true | x :: r => forallb (p x) r && pairwise p r end.
Definition disjoint_m (a b : member) : bool :=
  negb (bound b (m_id a) && negb (m_id a =? 0)) && negb (bound b (focus_of a) && m_live a && negb (focus_of a =? 0))
  || negb (m_live a).
Definition inv_b (s : state) : bool :=
  wf_c (s_c s) && forallb (wf_m (s_c s)) (s_ms s) && forallb (coh (s_c s)) (s_ms s)
  && nodupb (map m_name (s_ms s)) && pairwise disjoint_m (s_ms s).

(* ------------------------------------------------------------------------------------------ *)
(* the variant                                                                                 *)

(* a reply that tells the member nothing: every action of its chain leaves the member as it is *)
Definition effectless1 (a : av) (x : act) : bool :=
  match x with
  | ACoordinatorDead => negb (ck_known (a_ck a))
  | ARequestRejoin => a_rejoin a
  | AResetGeneration => a_idz a && a_genz a && a_rejoin a
  | ASetMemberId => false
  | ARaiseSame | ARaiseCode _ | ARaiseUnexpected | ARaiseOther => negb (a_live a)
  | _ => true
  end.
Definition hb_silent_a (a : av) (code : Z) : bool :=
  forallb (effectless1 a) (heartbeatDispatch code) && negb (a_idz a && a_hb a).
Definition cm_silent_a (a : av) (code : Z) : bool := forallb (effectless1 a) (commitDispatch code).

Definition validate_a (idz id_e gen_eq : bool) : Z :=
  if negb id_e || idz then 25%Z else if negb gen_eq then 22%Z else 0%Z.
Definition hb_code_a (a : av) : Z :=
  if ck_stale (a_ck a) then 16%Z
  else let v := validate_a (a_idz a) (a_id_e a) (a_gen_eq a) in
       if negb (v =? 0)%Z then v else match a_st a with CPreparing | CCompleting => 27%Z | _ => 0%Z end.
Definition cm_code_a (a : av) : Z :=
  if ck_stale (a_ck a) then 16%Z
  else if a_idz a && a_genz a then (if cstate_eqb (a_st a) CEmpty then 0%Z else 25%Z)
  else let v := validate_a (a_idz a) (a_id_e a) (a_gen_eq a) in
       if negb (v =? 0)%Z then v else match a_st a with CCompleting => 27%Z | _ => 0%Z end.

(* no-op steps: a heartbeat or commit exchange whose reply changes nothing in the member *)
Definition noop_b (s : state) (l : label) : bool :=
  match l with
  | LHbSend i => with_m s i (fun m => hb_silent_a (absm (s_c s) m) (hb_code (s_c s) m))
  | LHbRecv i => with_m s i (fun m => match m_hbin m with Some c => hb_silent_a (absm (s_c s) m) c | None => false end)
  | LCmSend i => with_m s i (fun m => cm_silent_a (absm (s_c s) m) (cm_code (s_c s) m))
  | LCmRecv i => with_m s i (fun m => match m_cmin m with Some c => cm_silent_a (absm (s_c s) m) c | None => false end)
  | _ => false
  end.

Definition resets (l : list act) : bool := has AResetGeneration l.
Definition doomed_a (a : av) : bool :=
  (match a_hbin a with Some c => resets (heartbeatDispatch c) | None => false end)
  || (match a_cmin a with Some c => resets (commitDispatch c) | None => false end)
  || (match a_ib a with
      | IS c => resets (syncDispatch c)
      | IJ c => negb (has ARetryJoin (joinRetryDispatch c)) && resets (joinDispatch c)
      | INone => false end).

Inductive mclass := KDead | KUnattached | KInconsistent | KConsistent.
Definition cls_a (a : av) : mclass :=
  if negb (a_live a) then KDead
  else if a_waiting_join a then (if a_f_e a then KConsistent else KUnattached)
  else match a_ib a with
       | IJ 0%Z => if a_f_e a then (if a_g_eq a && negb (a_f_jp a) then KConsistent else KInconsistent) else KUnattached
       | _ => if negb (a_idz a) && a_id_e a then
                (if a_gen_eq a && negb (a_id_jp a) && negb (doomed_a a) then KConsistent else KInconsistent)
              else KUnattached
       end.

Definition dead_code_hb (o : option Z) : bool := match o with Some c => has ACoordinatorDead (heartbeatDispatch c) | None => false end.
Definition dead_code_cm (o : option Z) : bool := match o with Some c => has ACoordinatorDead (commitDispatch c) | None => false end.
Definition dead_code_main (o : ibk) : bool :=
  match o with
  | IJ c => negb (has ARetryJoin (joinRetryDispatch c)) && has ACoordinatorDead (joinDispatch c)
  | IS c => has ACoordinatorDead (syncDispatch c)
  | INone => false end.
Definition ck_clean_a (a : av) : bool :=
  ck_ok (a_ck a) && negb (dead_code_main (a_ib a)) && negb (dead_code_hb (a_hbin a)) && negb (dead_code_cm (a_cmin a)).
Definition rejoin_code (l : list act) : bool := has ARequestRejoin l || has AResetGeneration l.
Definition will_join_a (a : av) : bool :=
  ((ph_eqb (a_ph a) PIdle || ph_eqb (a_ph a) PSyncSent) && a_rejoin a)
  || (match a_ib a with
      | IJ c => negb (has ASuccess (joinDispatch c)) || has ARetryJoin (joinRetryDispatch c)
      | IS c => negb (has ASuccess (syncDispatch c))
      | INone => false end)
  || (match a_hbin a with Some c => rejoin_code (heartbeatDispatch c) | None => false end)
  || (match a_cmin a with Some c => rejoin_code (commitDispatch c) | None => false end).
Definition on_track_a (a : av) : bool :=
  ck_clean_a a
  && (match a_ph a, a_ib a with
      | PJoinSent, IJ 0%Z => true
      | PJoined, _ => true
      | PSyncSent, INone => negb (a_rejoin a)
      | _, _ => false end).

(* potential rebalance triggers of one member: 1 = may cause one more rebalance, 2 = may also leave an id behind *)
Definition tw_a (a : av) : nat :=
  match cls_a a with
  | KDead => 0
  | KUnattached => 1
  | KInconsistent => 2
  | KConsistent =>
      match a_st a with
      | CStable => if will_join_a a || negb (ck_clean_a a) then 1 else 0
      | CCompleting => if on_track_a a then 0 else 1
      | _ => 0
      end
  end.
Definition tw (c : coord) (m : member) : nat := tw_a (absm c m).

Definition sum (l : list nat) : nat := fold_right Nat.add 0 l.
Definition count_orphans (s : state) : nat := length (filter (orphan (s_ms s)) (c_ents (s_c s))).
Definition trig (s : state) : nat := sum (map (tw (s_c s)) (s_ms s)) + count_orphans s.
Definition erank (c : coord) : nat :=
  match c_st c with CPreparing => 2 | CCompleting => 1 | _ => 0 end.

(* coordinator-knowledge potential *)
Definition ckp_a (a : av) : nat :=
  let stale := ck_stale (a_ck a) in
  let nib := match a_ib a with INone => true | _ => false end in
  (match a_ck a with CkNone => 1 | _ => 0 end)
  + (if dead_code_main (a_ib a) then 2
     else if stale && nib && (ph_eqb (a_ph a) PIdle || ph_eqb (a_ph a) PJoined) then 3 else 0)
  + (if dead_code_hb (a_hbin a) then 2 else if stale && a_hb a && is_none (a_hbin a) then 3 else 0)
  + (if dead_code_cm (a_cmin a) then 2 else if stale && ph_eqb (a_ph a) PIdle && is_none (a_cmin a) then 3 else 0).

(* rank of the main (join/sync) activity inside the current coordinator epoch *)
Definition sync_will_fail_a (st : cstate) (idz id_e gen_eq : bool) : bool :=
  negb (validate_a idz id_e gen_eq =? 0)%Z || match st with CStable | CCompleting => false | _ => true end.
Definition idle_rank_a (a : av) : nat :=      (* a in PIdle *)
  if a_rejoin a then
    if a_idz a then 20
    else if a_id_e a then (match cls_a a with KConsistent => 14 | _ => 24 end)
    else if a_id_p a then 18 else 22
  else if (hb_code_a a =? 0)%Z
          && (match a_hbin a with Some code => hb_silent_a a code | None => true end)
          && (match a_cmin a with Some code => cm_silent_a a code | None => true end) then 0 else 40.
Definition joined_rank_a (st : cstate) (idz id_e gen_eq : bool) : nat := if sync_will_fail_a st idz id_e gen_eq then 30 else 8.
(* the member as it will be right after a successful SyncGroup reply *)
Definition after_sync_ok (a : av) : av :=
  mkA (a_live a) PIdle (a_rejoin a) (a_ck a) true INone (a_hbin a) (a_cmin a) (a_st a) (a_G0 a)
      (a_idz a) (a_id_e a) (a_id_p a) (a_id_jp a) (a_id_sp a) (a_genz a) (a_gen_eq a) (a_gen_le a)
      (a_fz a) (a_f_e a) (a_f_p a) (a_f_jp a) (a_f_sp a) (a_f_id a) (a_gz a) (a_g_eq a) (a_g_le a).
Definition main_rank_a (a : av) : nat :=
  match a_ph a, a_ib a with
  | PIdle, _ => idle_rank_a a
  | PJoinSent, INone => 10
  | PJoinSent, IJ code =>
      if has ARetryJoin (joinRetryDispatch code) then 19
      else if has ASuccess (joinDispatch code) then S (joined_rank_a (a_st a) (a_fz a) (a_f_e a) (a_g_eq a))
      else if resets (joinDispatch code) then 21 else 17
  | PJoined, _ => joined_rank_a (a_st a) (a_idz a) (a_id_e a) (a_gen_eq a)
  | PSyncSent, INone => 6
  | PSyncSent, IS code => if has ASuccess (syncDispatch code) then 5 + idle_rank_a (after_sync_ok a) else 29
  | _, _ => 0
  end.
Definition hbp_a (a : av) : nat :=
  let next := if a_hb a && negb (hb_silent_a a (hb_code_a a)) then 2 else 0 in
  match a_hbin a with
  | Some code => if hb_silent_a a code then next else 1
  | None => next
  end.
Definition cmp_a (a : av) : nat :=
  let next := if ph_eqb (a_ph a) PIdle && a_can_commit a && negb (cm_silent_a a (cm_code_a a)) then 2 else 0 in
  match a_cmin a with
  | Some code => if cm_silent_a a code then next else 1
  | None => next
  end.
Definition mp_a (a : av) : nat :=
  if a_live a then ckp_a a * 64 + main_rank_a a + hbp_a a + cmp_a a else 0.
Definition mp (c : coord) (m : member) : nat := mp_a (absm c m).

Definition mu (s : state) : nat :=
  (trig s * 4 + erank (s_c s)) * (1024 * S (length (s_ms s))) + sum (map (mp (s_c s)) (s_ms s)).

(* number of steps of an execution that are not no-ops *)
Fixpoint count_real (s : state) (ls : list label) : nat :=
  match ls with
  | [] => 0
  | l :: r => match step s l with
              | Some s' => (if noop_b s l then 0 else 1) + count_real s' r
              | None => 0
              end
  end.

(* replay with the per-step facts checked on the way: result (accepted observations, all accepted, first index at
   which a successor violated inv_b / the variant did not behave (0 = none, kind), final state) *)
Fixpoint replay_check (n : nat) (s : state) (os : list obs) : nat * bool * (nat * nat) * state :=
  match os with
  | [] => (n, true, (0, 0), s)
  | o :: r =>
      match ostep s o with
      | None => (n, false, (0, 0), s)
      | Some s' =>
          if negb (inv_b s') then (n, true, (S n, 1), s)
          else if noop_b s (lab o) then (if mu s' <=? mu s then replay_check (S n) s' r else (n, true, (S n, 3), s))
          else (if mu s' <? mu s then replay_check (S n) s' r else (n, true, (S n, 2), s))
      end
  end.

(* ------------------------------------------------------------------------------------------ *)
(* an unused id always exists (progress: a member with an empty id can always send its JoinGroup) *)
Definition all_ids (s : state) : list nat :=
  ids (c_ents (s_c s)) ++ c_pend (s_c s) ++ flat_map (fun m => [m_id m; m_focus m]) (s_ms s).
Definition max_id (s : state) : nat := fold_right Nat.max 0 (all_ids s).
