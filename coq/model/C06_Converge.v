(* C06_Converge.v — the classic consumer-group protocol in the quiet period (no faults, no joins,
   leaves, crashes, subscription changes, coordinator moves) as an executable labelled transition
   system: one group coordinator (written after harness/simkit/groupcoord.py, i.e. Kafka's
   GroupCoordinator for the classic protocol) composed with any number of members (written after
   aiokafka/consumer/group_coordinator.py: coordination routine, heartbeat routine,
   perform_group_join, _send_sync_group_request, _do_commit_offsets).

   Tie T: what a member does on a reply code is NOT written here; it is the interpretation [react]
   of the act lists that translator/dispatch2gallina.py extracts from the handlers on every run
   (gen/HeartbeatDispatch.v, JoinRetryDispatch.v, JoinDispatch.v, SyncDispatch.v,
   CommitDispatch.v), applied to the code the modelled coordinator answers.

   Definitions only.  Timing assumptions of the quiet period (what the labels do NOT contain):
   (A1) the session of a member id held by a live member does not expire and a live member is not
        dropped at the rebalance timeout (a live member answers within both timeouts);
   (A2) [LExpire] removes only ORPHAN ids (ids in the coordinator's table that no live member holds,
        left behind by kills, lost replies, generation resets) - session expiry or the drop at the
        rebalance timeout; nothing creates an id except a JoinGroup with an empty member id;
   (A3) FindCoordinator answers the current coordinator ([LFind] makes the coordinator known);
   (A4) subscriptions, assignor lists and partition counts do not change (no "changed protocols",
        no metadata-triggered rejoin);
   (A5) no request fails at the client (a parked JoinGroup / SyncGroup is answered before the
        client's request timeout). *)
From Coq Require Import ZArith List Bool Arith.
From Verif Require Import DispatchActs HeartbeatDispatch JoinRetryDispatch JoinDispatch
  SyncDispatch CommitDispatch.
Import ListNotations.
Local Open Scope nat_scope.

(* ------------------------------------------------------------------------------------------ *)
(* members                                                                                     *)

Inductive ckst := CkNone | CkStale | CkOk.      (* coordinator_id: None / a node that is no longer the coordinator / right *)
Inductive phase := PIdle | PJoinSent | PJoined | PSyncSent.
(* PIdle     : the coordination routine is between rejoin attempts (top of its loop / waiting)
   PJoinSent : JoinGroup sent: parked at the coordinator ([m_inbox] = None) or its reply is on the wire
   PJoined   : successful JoinGroup reply processed, SyncGroup not yet sent (leader: assigning)
   PSyncSent : SyncGroup sent: parked ([m_inbox] = None) or reply on the wire *)

Inductive reply :=
| RpJoin (code : Z) (gen id : nat)
| RpSync (code : Z).

Record member := mkM {
  m_name : nat;             (* client (never changes) *)
  m_live : bool;            (* false: killed / stopped / ended by a raised error *)
  m_id : nat;               (* member id; 0 = "" (unknown) *)
  m_gen : nat;              (* generation believed; 0 = none (-1 in the code) *)
  m_ph : phase;
  m_rejoin : bool;          (* need_rejoin(): _rejoin_needed_fut done, or no assignment yet *)
  m_ck : ckst;
  m_hb : bool;              (* heartbeat task running *)
  m_wait : nat;             (* the id the parked JoinGroup sits on (= m_id, or the id generated for "") *)
  m_inbox : option reply;   (* JoinGroup / SyncGroup reply on the wire *)
  m_hbin : option Z;        (* Heartbeat reply on the wire *)
  m_cmin : option Z         (* OffsetCommit reply on the wire *)
}.

Definition set_live b m := mkM (m_name m) b (m_id m) (m_gen m) (m_ph m) (m_rejoin m) (m_ck m) (m_hb m) (m_wait m) (m_inbox m) (m_hbin m) (m_cmin m).
Definition set_id x m := mkM (m_name m) (m_live m) x (m_gen m) (m_ph m) (m_rejoin m) (m_ck m) (m_hb m) (m_wait m) (m_inbox m) (m_hbin m) (m_cmin m).
Definition set_gen g m := mkM (m_name m) (m_live m) (m_id m) g (m_ph m) (m_rejoin m) (m_ck m) (m_hb m) (m_wait m) (m_inbox m) (m_hbin m) (m_cmin m).
Definition set_ph p m := mkM (m_name m) (m_live m) (m_id m) (m_gen m) p (m_rejoin m) (m_ck m) (m_hb m) (m_wait m) (m_inbox m) (m_hbin m) (m_cmin m).
Definition set_rejoin b m := mkM (m_name m) (m_live m) (m_id m) (m_gen m) (m_ph m) b (m_ck m) (m_hb m) (m_wait m) (m_inbox m) (m_hbin m) (m_cmin m).
Definition set_ck k m := mkM (m_name m) (m_live m) (m_id m) (m_gen m) (m_ph m) (m_rejoin m) k (m_hb m) (m_wait m) (m_inbox m) (m_hbin m) (m_cmin m).
Definition set_hb b m := mkM (m_name m) (m_live m) (m_id m) (m_gen m) (m_ph m) (m_rejoin m) (m_ck m) b (m_wait m) (m_inbox m) (m_hbin m) (m_cmin m).
Definition set_wait x m := mkM (m_name m) (m_live m) (m_id m) (m_gen m) (m_ph m) (m_rejoin m) (m_ck m) (m_hb m) x (m_inbox m) (m_hbin m) (m_cmin m).
Definition set_inbox r m := mkM (m_name m) (m_live m) (m_id m) (m_gen m) (m_ph m) (m_rejoin m) (m_ck m) (m_hb m) (m_wait m) r (m_hbin m) (m_cmin m).
Definition set_hbin r m := mkM (m_name m) (m_live m) (m_id m) (m_gen m) (m_ph m) (m_rejoin m) (m_ck m) (m_hb m) (m_wait m) (m_inbox m) r (m_cmin m).
Definition set_cmin r m := mkM (m_name m) (m_live m) (m_id m) (m_gen m) (m_ph m) (m_rejoin m) (m_ck m) (m_hb m) (m_wait m) (m_inbox m) (m_hbin m) r.

(* interpretation of one action of a translated dispatch chain; [rid] = member id carried by the reply *)
Definition react1 (rid : nat) (m : member) (a : act) : member :=
  match a with
  | ACoordinatorDead => set_ck CkNone m                                 (* coordinator_dead() *)
  | ARequestRejoin => set_rejoin true m                                 (* request_rejoin() *)
  | AResetGeneration => set_rejoin true (set_gen 0 (set_id 0 m))        (* reset_generation() *)
  | ASetMemberId => set_id rid m
  | ARaiseSame | ARaiseCode _ | ARaiseUnexpected | ARaiseOther => set_live false m
  | _ => m
  end.
Definition react (rid : nat) (acts : list act) (m : member) : member := fold_left (react1 rid) acts m.

(* ------------------------------------------------------------------------------------------ *)
(* coordinator                                                                                 *)

Inductive cstate := CEmpty | CPreparing | CCompleting | CStable.
Record entry := mkE {
  e_id : nat;
  e_jp : bool;              (* a JoinGroup for this id is parked (join_cb) *)
  e_sp : bool               (* a SyncGroup for this id is parked (sync_cb) *)
}.
Record coord := mkC {
  c_gen : nat;
  c_st : cstate;
  c_ents : list entry;      (* g.members *)
  c_pend : list nat;        (* g.pending_ids (KIP-394) *)
  c_leader : nat            (* 0 = none *)
}.
Record state := mkS { s_c : coord; s_ms : list member }.

Definition ids (es : list entry) : list nat := map e_id es.
Definition memb (x : nat) (l : list nat) : bool := existsb (Nat.eqb x) l.
Definition cstate_eqb (a b : cstate) : bool :=
  match a, b with CEmpty, CEmpty | CPreparing, CPreparing | CCompleting, CCompleting | CStable, CStable => true | _, _ => false end.

Definition set_jp (x : nat) (v : bool) (es : list entry) : list entry :=
  map (fun e => if e_id e =? x then mkE (e_id e) v (e_sp e) else e) es.
Definition set_sp (x : nat) (v : bool) (es : list entry) : list entry :=
  map (fun e => if e_id e =? x then mkE (e_id e) (e_jp e) v else e) es.
Definition clear_jp (es : list entry) : list entry := map (fun e => mkE (e_id e) false (e_sp e)) es.
Definition clear_sp (es : list entry) : list entry := map (fun e => mkE (e_id e) (e_jp e) false) es.
Definition remove_id (x : nat) (l : list nat) : list nat := filter (fun y => negb (y =? x)) l.
Definition find_ent (x : nat) (es : list entry) : option entry := find (fun e => e_id e =? x) es.

(* what the coordinator releases while processing one request / expiry: every parked SyncGroup is answered
   REBALANCE_IN_PROGRESS (_prepare_rebalance), every parked JoinGroup is answered with the new generation
   (_complete_join), every parked SyncGroup is answered with the assignment (leader's SyncGroup) *)
Inductive cev := EvPrepare | EvJoinDone (g : nat) | EvSyncDone.

Definition is_none {A} (o : option A) : bool := match o with None => true | Some _ => false end.
Definition ph_eqb (a b : phase) : bool :=
  match a, b with PIdle, PIdle | PJoinSent, PJoinSent | PJoined, PJoined | PSyncSent, PSyncSent => true | _, _ => false end.
Definition waiting_join (m : member) : bool := ph_eqb (m_ph m) PJoinSent && is_none (m_inbox m).
Definition waiting_sync (m : member) : bool := ph_eqb (m_ph m) PSyncSent && is_none (m_inbox m).

Definition bcast1 (m : member) (e : cev) : member :=
  match e with
  | EvPrepare => if waiting_sync m then set_inbox (Some (RpSync 27)) m else m
  | EvJoinDone g => if waiting_join m then set_inbox (Some (RpJoin 0 g (m_wait m))) m else m
  | EvSyncDone => if waiting_sync m then set_inbox (Some (RpSync 0)) m else m
  end.
Definition bcast (evs : list cev) (m : member) : member := fold_left bcast1 evs m.

Definition all_joined (es : list entry) : bool := forallb e_jp es.
Definition min_id (es : list entry) : nat :=
  match ids es with [] => 0 | x :: r => fold_left Nat.min r x end.

Definition prepare (c : coord) : coord * list cev :=
  (mkC (c_gen c) CPreparing (clear_sp (c_ents c)) (c_pend c) (c_leader c), [EvPrepare]).

(* _maybe_complete_join / _complete_join *)
Definition maybe_complete (c : coord) : coord * list cev :=
  match c_st c, c_ents c with
  | CPreparing, _ :: _ =>
      if all_joined (c_ents c) then
        let g := S (c_gen c) in
        let ldr := if memb (c_leader c) (ids (c_ents c)) then c_leader c else min_id (c_ents c) in
        (mkC g CCompleting (clear_jp (c_ents c)) (c_pend c) ldr, [EvJoinDone g])
      else (c, [])
  | _, _ => (c, [])
  end.

Definition prepare_complete (c : coord) : coord * list cev :=
  let (c1, o1) := prepare c in let (c2, o2) := maybe_complete c1 in (c2, o1 ++ o2).

(* _validate *)
Definition validate (c : coord) (id gen : nat) : Z :=
  if negb (memb id (ids (c_ents c))) || (id =? 0) then 25%Z
  else if negb (gen =? c_gen c) then 22%Z else 0%Z.

Definition hb_code (c : coord) (m : member) : Z :=
  match m_ck m with
  | CkStale => 16%Z
  | _ => let v := validate c (m_id m) (m_gen m) in
         if negb (v =? 0)%Z then v
         else match c_st c with CPreparing | CCompleting => 27%Z | _ => 0%Z end
  end.

Definition cm_code (c : coord) (m : member) : Z :=
  match m_ck m with
  | CkStale => 16%Z
  | _ => if (m_id m =? 0) && (m_gen m =? 0) then
           (if cstate_eqb (c_st c) CEmpty then 0%Z else 25%Z)
         else let v := validate c (m_id m) (m_gen m) in
              if negb (v =? 0)%Z then v
              else match c_st c with CCompleting => 27%Z | _ => 0%Z end
  end.

(* the three ways a JoinGroup / SyncGroup ends at the coordinator for the requester *)
Inductive outcome := Immediate (r : reply) | Parked (x : nat).

(* JoinGroup for the (existing or new) id [x], after the id checks *)
Definition join_known (c : coord) (x : nat) : coord * outcome * list cev :=
  let isnew := negb (memb x (ids (c_ents c))) in
  let es1 := if isnew then c_ents c ++ [mkE x true false] else set_jp x true (c_ents c) in
  let c1 := mkC (c_gen c) (c_st c) es1 (remove_id x (c_pend c)) (c_leader c) in
  let immediate := (mkC (c_gen c) (c_st c) (set_jp x false es1) (c_pend c1) (c_leader c),
                    Immediate (RpJoin 0 (c_gen c) x), []) in
  match c_st c with
  | CEmpty => let (c2, o) := prepare_complete c1 in (c2, Parked x, o)
  | CStable => if isnew || (x =? c_leader c) then let (c2, o) := prepare_complete c1 in (c2, Parked x, o)
               else immediate
  | CCompleting => if isnew then let (c2, o) := prepare_complete c1 in (c2, Parked x, o) else immediate
  | CPreparing => let (c2, o) := maybe_complete c1 in (c2, Parked x, o)
  end.

(* join(): [id] the member id in the request, [v4] JoinGroup v4+ (KIP-394), [y] the id the coordinator
   generates for an empty member id *)
Definition cjoin (c : coord) (id : nat) (v4 : bool) (y : nat) : coord * outcome * list cev :=
  if id =? 0 then
    if v4 then (mkC (c_gen c) (c_st c) (c_ents c) (y :: c_pend c) (c_leader c), Immediate (RpJoin 79 0 y), [])
    else join_known c y
  else if negb (memb id (ids (c_ents c))) && negb (memb id (c_pend c)) then (c, Immediate (RpJoin 25 0 id), [])
  else join_known c id.

(* sync() *)
Definition csync (c : coord) (id gen : nat) : coord * outcome * list cev :=
  let v := validate c id gen in
  if negb (v =? 0)%Z then (c, Immediate (RpSync v), [])
  else match c_st c with
       | CPreparing => (c, Immediate (RpSync 27), [])
       | CStable => (c, Immediate (RpSync 0), [])
       | CEmpty => (c, Immediate (RpSync 25), [])
       | CCompleting =>
           if id =? c_leader c then
             (mkC (c_gen c) CStable (clear_sp (c_ents c)) (c_pend c) (c_leader c), Parked id, [EvSyncDone])
           else (mkC (c_gen c) (c_st c) (set_sp id true (c_ents c)) (c_pend c) (c_leader c), Parked id, [])
       end.

(* _expire / _rebalance_timeout for one id ([rt] = dropped at the rebalance timeout) + _remove_member *)
Definition cexpire (c : coord) (x : nat) (rt : bool) : coord * list cev :=
  let es := filter (fun e => negb (e_id e =? x)) (c_ents c) in
  let ldr := if c_leader c =? x then 0 else c_leader c in
  match es with
  | [] => (mkC (if rt || cstate_eqb (c_st c) CEmpty then c_gen c else S (c_gen c)) CEmpty [] (c_pend c) ldr, [])
  | _ :: _ =>
      let c1 := mkC (c_gen c) (c_st c) es (c_pend c) ldr in
      match c_st c with
      | CStable | CCompleting => prepare c1
      | CPreparing => maybe_complete c1
      | CEmpty => (c1, [])
      end
  end.

(* ------------------------------------------------------------------------------------------ *)
(* quiet steps                                                                                 *)

Inductive label :=
| LFind (i : nat)                           (* ensure_coordinator_known succeeds *)
| LSendJoin (i : nat) (v4 : bool) (y : nat) (* ensure_active_group: stop heartbeat task, JoinGroup *)
| LRecv (i : nat)                           (* JoinGroup / SyncGroup reply processed *)
| LSendSync (i : nat)
| LHbSend (i : nat) | LHbRecv (i : nat)
| LCmSend (i : nat) | LCmRecv (i : nat)     (* OffsetCommit (auto-commit, commit before rejoin) *)
| LExpire (x : nat) (rt : bool).            (* an orphan id leaves the coordinator's table *)

Definition getm (i : nat) (ms : list member) : option member := find (fun m => m_name m =? i) ms.
Definition updm (i : nat) (f : member -> member) (ms : list member) : list member :=
  map (fun m => if m_name m =? i then f m else m) ms.

(* [m] is bound to the id [x]: holds it, waits on it with a parked JoinGroup, or a JoinGroup reply naming it
   is on its way *)
Definition names_id (r : option reply) (x : nat) : bool :=
  match r with Some (RpJoin _ _ y) => y =? x | _ => false end.
Definition bound (m : member) (x : nat) : bool :=
  m_live m && ((m_id m =? x) || names_id (m_inbox m) x || (waiting_join m && (m_wait m =? x))).
Definition orphan (ms : list member) (e : entry) : bool := negb (existsb (fun m => bound m (e_id e)) ms).

(* an id the coordinator may generate now: unused anywhere *)
Definition fresh (s : state) (y : nat) : bool :=
  negb (y =? 0) && negb (memb y (ids (c_ents (s_c s)))) && negb (memb y (c_pend (s_c s)))
  && forallb (fun m => negb (m_id m =? y) && negb (names_id (m_inbox m) y) && negb (m_wait m =? y)) (s_ms s).

Definition recv_join (code : Z) (g x : nat) (m : member) : member :=
  if has ARetryJoin (joinRetryDispatch code) then
    set_ph PIdle (react x (joinRetryDispatch code) (set_inbox None m))     (* the loop sends the next JoinGroup *)
  else if has ASuccess (joinDispatch code) then
    set_ph PJoined (set_gen g (set_id x (set_inbox None m)))
  else set_ph PIdle (react x (joinDispatch code) (set_inbox None m)).

Definition recv_sync (code : Z) (m : member) : member :=
  if has ASuccess (syncDispatch code) then
    set_hb true (set_ph PIdle (set_inbox None m))                         (* _start_heartbeat_task *)
  else set_ph PIdle (react 0 (syncDispatch code) (set_inbox None m)).

Definition recv_hb (code : Z) (m : member) : member :=
  let m1 := react 0 (heartbeatDispatch code) (set_hbin None m) in
  if m_id m1 =? 0 then set_hb false m1 else m1.                           (* while member_id != UNKNOWN *)

Definition recv_cm (code : Z) (m : member) : member := react 0 (commitDispatch code) (set_cmin None m).

Definition ck_known (k : ckst) : bool := match k with CkNone => false | _ => true end.
Definition ck_stale (k : ckst) : bool := match k with CkStale => true | _ => false end.
(* between a MEMBER_ID_REQUIRED reply and the next JoinGroup (member id known, no generation yet) the join loop
   does not yield: no commit is sent there *)
Definition can_commit (m : member) : bool := (m_id m =? 0) || negb (m_gen m =? 0).

Definition apply_outcome (o : outcome) (m : member) : member :=
  match o with Immediate r => set_inbox (Some r) m | Parked x => set_wait x (set_inbox None m) end.

Definition step (s : state) (l : label) : option state :=
  let c := s_c s in let ms := s_ms s in
  match l with
  | LFind i =>
      match getm i ms with
      | Some m => if m_live m && negb (ck_known (m_ck m)) then Some (mkS c (updm i (set_ck CkOk) ms)) else None
      | None => None
      end
  | LSendJoin i v4 y =>
      match getm i ms with
      | Some m =>
          if m_live m && ph_eqb (m_ph m) PIdle && is_none (m_inbox m) && is_none (m_cmin m)
             && ck_known (m_ck m) && m_rejoin m && (negb (m_id m =? 0) || fresh s y) then
            let sent := fun m => set_ph PJoinSent (set_hbin None (set_hb false m)) in
            if ck_stale (m_ck m) then
              Some (mkS c (updm i (fun m => set_inbox (Some (RpJoin 16 0 (m_id m))) (sent m)) ms))
            else match cjoin c (m_id m) v4 y with
                 | (c', o, evs) => Some (mkS c' (map (bcast evs) (updm i (fun m => apply_outcome o (sent m)) ms)))
                 end
          else None
      | None => None
      end
  | LRecv i =>
      match getm i ms with
      | Some m =>
          if m_live m then
            match m_ph m, m_inbox m with
            | PJoinSent, Some (RpJoin code g x) => Some (mkS c (updm i (recv_join code g x) ms))
            | PSyncSent, Some (RpSync code) => Some (mkS c (updm i (recv_sync code) ms))
            | _, _ => None
            end
          else None
      | None => None
      end
  | LSendSync i =>
      match getm i ms with
      | Some m =>
          if m_live m && ph_eqb (m_ph m) PJoined && is_none (m_inbox m) && ck_known (m_ck m) then
            let sent := fun m => set_ph PSyncSent (set_rejoin false m) in
            if ck_stale (m_ck m) then
              Some (mkS c (updm i (fun m => set_inbox (Some (RpSync 16)) (sent m)) ms))
            else match csync c (m_id m) (m_gen m) with
                 | (c', o, evs) =>
                     Some (mkS c' (map (bcast evs)
                                     (updm i (fun m => match o with
                                                       | Immediate r => set_inbox (Some r) (sent m)
                                                       | Parked _ => set_inbox None (sent m)
                                                       end) ms)))
                 end
          else None
      | None => None
      end
  | LHbSend i =>
      match getm i ms with
      | Some m => if m_live m && m_hb m && is_none (m_hbin m) && ck_known (m_ck m)
                  then Some (mkS c (updm i (set_hbin (Some (hb_code c m))) ms)) else None
      | None => None
      end
  | LHbRecv i =>
      match getm i ms with
      | Some m => if m_live m then match m_hbin m with
                                   | Some code => Some (mkS c (updm i (recv_hb code) ms))
                                   | None => None
                                   end else None
      | None => None
      end
  | LCmSend i =>
      match getm i ms with
      | Some m => if m_live m && ph_eqb (m_ph m) PIdle && is_none (m_inbox m) && is_none (m_cmin m) && ck_known (m_ck m)
                     && can_commit m
                  then Some (mkS c (updm i (set_cmin (Some (cm_code c m))) ms)) else None
      | None => None
      end
  | LCmRecv i =>
      match getm i ms with
      | Some m => if m_live m then match m_cmin m with
                                   | Some code => Some (mkS c (updm i (recv_cm code) ms))
                                   | None => None
                                   end else None
      | None => None
      end
  | LExpire x rt =>
      match find_ent x (c_ents c) with
      | Some e =>
          if orphan ms e && negb (e_jp e) && negb (e_sp e)
             && (negb rt || cstate_eqb (c_st c) CPreparing) then
            let (c', evs) := cexpire c x rt in Some (mkS c' (map (bcast evs) ms))
          else None
      | None => None
      end
  end.

Fixpoint run (s : state) (ls : list label) : option state :=
  match ls with
  | [] => Some s
  | l :: r => match step s l with Some s' => run s' r | None => None end
  end.

(* ------------------------------------------------------------------------------------------ *)
(* replay of an observed run (harness/c06_converge.py): every observation is one quiet step plus what
   the real system showed at that point; the model must produce the same request contents and the
   same reply codes.  Generations: the real -1 is 0 here.                                          *)

Inductive obs :=
| OFind (i : nat)
| OJoinReq (i : nat) (v4 : bool) (y : nat) (mid : nat)
| OJoinRep (i : nat) (code : Z) (gen id : nat)
| OSyncReq (i : nat) (mid gen : nat)
| OSyncRep (i : nat) (code : Z)
| OHbReq (i : nat) (mid gen : nat) (code : Z)
| OHbRep (i : nat) (code : Z)
| OCmReq (i : nat) (mid gen : nat) (code : Z)
| OCmRep (i : nat) (code : Z)
| OExpire (x : nat) (rt : bool).

Definition opt_Z_eqb (a : option Z) (b : Z) : bool := match a with Some x => (x =? b)%Z | None => false end.
Definition with_m (s : state) (i : nat) (p : member -> bool) : bool :=
  match getm i (s_ms s) with Some m => p m | None => false end.
Definition guard (b : bool) (k : option state) : option state := if b then k else None.
Definition post (k : option state) (p : state -> bool) : option state :=
  match k with Some s => if p s then Some s else None | None => None end.

Definition ostep (s : state) (o : obs) : option state :=
  match o with
  | OFind i => step s (LFind i)
  | OJoinReq i v4 y mid => guard (with_m s i (fun m => m_id m =? mid)) (step s (LSendJoin i v4 y))
  | OJoinRep i code gen id =>
      guard (with_m s i (fun m => match m_inbox m with
                                  | Some (RpJoin c g x) =>
                                      (c =? code)%Z && (negb (code =? 0)%Z || (g =? gen))
                                      && (negb ((code =? 0)%Z || (code =? 79)%Z) || (x =? id))
                                  | _ => false end))
            (step s (LRecv i))
  | OSyncReq i mid gen =>
      guard (with_m s i (fun m => (m_id m =? mid) && (m_gen m =? gen))) (step s (LSendSync i))
  | OSyncRep i code =>
      guard (with_m s i (fun m => match m_inbox m with Some (RpSync c) => (c =? code)%Z | _ => false end))
            (step s (LRecv i))
  | OHbReq i mid gen code =>
      post (guard (with_m s i (fun m => (m_id m =? mid) && (m_gen m =? gen))) (step s (LHbSend i)))
           (fun s' => with_m s' i (fun m => opt_Z_eqb (m_hbin m) code))
  | OHbRep i code => guard (with_m s i (fun m => opt_Z_eqb (m_hbin m) code)) (step s (LHbRecv i))
  | OCmReq i mid gen code =>
      post (guard (with_m s i (fun m => (m_id m =? mid) && (m_gen m =? gen))) (step s (LCmSend i)))
           (fun s' => with_m s' i (fun m => opt_Z_eqb (m_cmin m) code))
  | OCmRep i code => guard (with_m s i (fun m => opt_Z_eqb (m_cmin m) code)) (step s (LCmRecv i))
  | OExpire x rt => step s (LExpire x rt)
  end.

Definition lab (o : obs) : label :=
  match o with
  | OFind i => LFind i | OJoinReq i v y _ => LSendJoin i v y | OJoinRep i _ _ _ => LRecv i
  | OSyncReq i _ _ => LSendSync i | OSyncRep i _ => LRecv i | OHbReq i _ _ _ => LHbSend i | OHbRep i _ => LHbRecv i
  | OCmReq i _ _ _ => LCmSend i | OCmRep i _ => LCmRecv i | OExpire x rt => LExpire x rt
  end.

(* number of accepted observations and the state reached (the state before the first rejected one) *)
Fixpoint replay (n : nat) (s : state) (os : list obs) : nat * bool * state :=
  match os with
  | [] => (n, true, s)
  | o :: r => match ostep s o with
              | Some s' => replay (S n) s' r
              | None => (n, false, s)
              end
  end.

(* ------------------------------------------------------------------------------------------ *)
(* converged: the coordinator is Stable (or Empty with nobody alive), every live member is settled in its
   generation with the heartbeat task running and nothing but successful heartbeat / commit replies on the
   wire, and every id in the table is held by a live member *)
Definition ok_or_none (o : option Z) : bool := match o with None => true | Some c => (c =? 0)%Z end.
Definition ck_ok (k : ckst) : bool := match k with CkOk => true | _ => false end.
Definition settled (c : coord) (m : member) : bool :=
  negb (m_live m) ||
  (ph_eqb (m_ph m) PIdle && negb (m_rejoin m) && m_hb m && ck_ok (m_ck m) && is_none (m_inbox m)
   && negb (m_id m =? 0) && memb (m_id m) (ids (c_ents c)) && (m_gen m =? c_gen c)
   && ok_or_none (m_hbin m) && ok_or_none (m_cmin m)).
Definition converged_b (s : state) : bool :=
  (cstate_eqb (c_st (s_c s)) CStable || cstate_eqb (c_st (s_c s)) CEmpty)
  && forallb (settled (s_c s)) (s_ms s)
  && forallb (fun e => negb (orphan (s_ms s) e) && negb (e_jp e) && negb (e_sp e)) (c_ents (s_c s)).

(* ------------------------------------------------------------------------------------------ *)
(* invariant of the quiet period (boolean; evaluated on the state every replay starts from)     *)

Definition zmem (x : Z) (l : list Z) : bool := existsb (Z.eqb x) l.
Definition opt_in (o : option Z) (l : list Z) : bool := match o with None => true | Some c => zmem c l end.
Fixpoint nodupb (l : list nat) : bool :=
  match l with [] => true | x :: r => negb (memb x r) && nodupb r end.
Definition ent_jp (c : coord) (x : nat) : bool := match find_ent x (c_ents c) with Some e => e_jp e | None => false end.
Definition ent_sp (c : coord) (x : nat) : bool := match find_ent x (c_ents c) with Some e => e_sp e | None => false end.

Definition wf_c (c : coord) : bool :=
  nodupb (ids (c_ents c)) && negb (memb 0 (ids (c_ents c))) && negb (memb 0 (c_pend c))
  && forallb (fun x => negb (memb x (ids (c_ents c)))) (c_pend c)
  && (cstate_eqb (c_st c) CEmpty || negb (is_none (hd_error (c_ents c))))
  && (negb (cstate_eqb (c_st c) CEmpty) || is_none (hd_error (c_ents c)))
  && (cstate_eqb (c_st c) CPreparing || forallb (fun e => negb (e_jp e)) (c_ents c))
  && (cstate_eqb (c_st c) CCompleting || forallb (fun e => negb (e_sp e)) (c_ents c))
  && (negb (cstate_eqb (c_st c) CPreparing) || negb (all_joined (c_ents c)))
  && (match c_st c with CCompleting | CStable => memb (c_leader c) (ids (c_ents c)) && negb (c_gen c =? 0) | _ => true end)
  && negb (ent_sp c (c_leader c)).

Definition join_codes : list Z := [0; 16; 25; 79]%Z.
Definition probe_codes : list Z := [0; 16; 22; 25; 27]%Z.

(* a live member alone *)
Definition wf_m (m : member) : bool :=
  negb (m_live m) ||
  ((match m_ph m, m_inbox m with
    | PIdle, None => true
    | PJoined, None => negb (m_id m =? 0) && negb (m_gen m =? 0) && ck_known (m_ck m)
    | PJoinSent, None => ck_ok (m_ck m) && negb (m_wait m =? 0) && ((m_id m =? m_wait m) || (m_id m =? 0))
    | PJoinSent, Some (RpJoin c g x) =>
        zmem c join_codes && ck_known (m_ck m)
        && (negb (c =? 16)%Z || ((x =? m_id m) && negb (ck_ok (m_ck m))))
        && (negb (c =? 25)%Z || ((x =? m_id m) && negb (x =? 0)))
        && (negb (c =? 79)%Z || ((m_id m =? 0) && negb (x =? 0)))
        && (negb (c =? 0)%Z || (negb (x =? 0) && negb (g =? 0) && ((m_id m =? x) || (m_id m =? 0))))
    | PSyncSent, None => negb (m_id m =? 0) && negb (m_gen m =? 0) && ck_ok (m_ck m)
    | PSyncSent, Some (RpSync c) => zmem c probe_codes && negb (m_id m =? 0) && negb (m_gen m =? 0)
    | _, _ => false
    end)
   && (ph_eqb (m_ph m) PIdle || (is_none (m_cmin m) && negb (m_hb m) && is_none (m_hbin m)))
   && (ph_eqb (m_ph m) PIdle || ph_eqb (m_ph m) PSyncSent || m_rejoin m)
   && (m_hb m || is_none (m_hbin m))
   && (m_rejoin m || negb (ph_eqb (m_ph m) PIdle) || (m_hb m && negb (m_id m =? 0) && negb (m_gen m =? 0)))
   && ((m_gen m =? 0) || negb (m_id m =? 0))
   && (can_commit m || (negb (m_hb m) && is_none (m_cmin m)))
   && (negb (ck_stale (m_ck m))
       || (opt_in (m_hbin m) [16%Z] && opt_in (m_cmin m) [16%Z]
           && match m_inbox m with None => true | Some (RpJoin c _ _) => (c =? 16)%Z | Some (RpSync c) => (c =? 16)%Z end))
   && opt_in (m_hbin m) probe_codes && opt_in (m_cmin m) probe_codes).

(* a live member against the coordinator *)
Definition coh (c : coord) (m : member) : bool :=
  negb (m_live m) ||
  ((negb (waiting_join m) || ent_jp c (m_wait m))
   && (negb (waiting_sync m) || (ent_sp c (m_id m) && (m_gen m =? c_gen c)))
   && (match m_inbox m with
       | Some (RpJoin 79%Z _ x) => memb x (c_pend c)
       | Some (RpJoin 0%Z g x) => (g <=? c_gen c) && negb (memb x (c_pend c))
       | _ => true end)
   && (negb (memb (m_id m) (c_pend c)) || (m_gen m =? 0))
   && (m_gen m <=? c_gen c)).

Definition inv_b (s : state) : bool :=
  wf_c (s_c s) && forallb wf_m (s_ms s) && forallb (coh (s_c s)) (s_ms s) && nodupb (map m_name (s_ms s)).

(* ------------------------------------------------------------------------------------------ *)
(* the variant                                                                                 *)

Definition member_eqb (a b : member) : bool :=
  (m_name a =? m_name b) && Bool.eqb (m_live a) (m_live b) && (m_id a =? m_id b) && (m_gen a =? m_gen b)
  && ph_eqb (m_ph a) (m_ph b) && Bool.eqb (m_rejoin a) (m_rejoin b)
  && (match m_ck a, m_ck b with CkNone, CkNone | CkStale, CkStale | CkOk, CkOk => true | _, _ => false end)
  && Bool.eqb (m_hb a) (m_hb b) && (m_wait a =? m_wait b)
  && (match m_inbox a, m_inbox b with
      | None, None => true
      | Some (RpJoin c g x), Some (RpJoin c' g' x') => (c =? c')%Z && (g =? g') && (x =? x')
      | Some (RpSync c), Some (RpSync c') => (c =? c')%Z
      | _, _ => false end)
  && (match m_hbin a, m_hbin b with None, None => true | Some x, Some y => (x =? y)%Z | _, _ => false end)
  && (match m_cmin a, m_cmin b with None, None => true | Some x, Some y => (x =? y)%Z | _, _ => false end).

(* a heartbeat / commit reply that tells the member nothing: processing it only empties the slot *)
Definition hb_silent (m : member) (code : Z) : bool := member_eqb (recv_hb code m) (set_hbin None m).
Definition cm_silent (m : member) (code : Z) : bool := member_eqb (recv_cm code m) (set_cmin None m).

(* no-op steps: a heartbeat or commit exchange whose reply changes nothing in the member *)
Definition noop_b (s : state) (l : label) : bool :=
  match l with
  | LHbSend i => with_m s i (fun m => hb_silent m (hb_code (s_c s) m))
  | LHbRecv i => with_m s i (fun m => match m_hbin m with Some c => hb_silent m c | None => false end)
  | LCmSend i => with_m s i (fun m => cm_silent m (cm_code (s_c s) m))
  | LCmRecv i => with_m s i (fun m => match m_cmin m with Some c => cm_silent m c | None => false end)
  | _ => false
  end.

Definition resets (l : list act) : bool := has AResetGeneration l.
Definition doomed (m : member) : bool :=
  (match m_hbin m with Some c => resets (heartbeatDispatch c) | None => false end)
  || (match m_cmin m with Some c => resets (commitDispatch c) | None => false end)
  || (match m_inbox m with
      | Some (RpSync c) => resets (syncDispatch c)
      | Some (RpJoin c _ _) => negb (has ARetryJoin (joinRetryDispatch c)) && resets (joinDispatch c)
      | None => false end).

Inductive mclass := KDead | KUnattached | KInconsistent | KConsistent.
Definition cls (c : coord) (m : member) : mclass :=
  if negb (m_live m) then KDead
  else if waiting_join m then (if memb (m_wait m) (ids (c_ents c)) then KConsistent else KUnattached)
  else match m_inbox m with
       | Some (RpJoin 0%Z g x) =>
           if memb x (ids (c_ents c)) then (if (g =? c_gen c) && negb (ent_jp c x) then KConsistent else KInconsistent)
           else KUnattached
       | _ => if negb (m_id m =? 0) && memb (m_id m) (ids (c_ents c)) then
                (if (m_gen m =? c_gen c) && negb (ent_jp c (m_id m)) && negb (doomed m) then KConsistent else KInconsistent)
              else KUnattached
       end.

Definition dead_code_hb (o : option Z) : bool := match o with Some c => has ACoordinatorDead (heartbeatDispatch c) | None => false end.
Definition dead_code_cm (o : option Z) : bool := match o with Some c => has ACoordinatorDead (commitDispatch c) | None => false end.
Definition dead_code_main (o : option reply) : bool :=
  match o with
  | Some (RpJoin c _ _) => negb (has ARetryJoin (joinRetryDispatch c)) && has ACoordinatorDead (joinDispatch c)
  | Some (RpSync c) => has ACoordinatorDead (syncDispatch c)
  | None => false end.
Definition ck_clean (m : member) : bool :=
  ck_ok (m_ck m) && negb (dead_code_main (m_inbox m)) && negb (dead_code_hb (m_hbin m)) && negb (dead_code_cm (m_cmin m)).
Definition rejoin_code (l : list act) : bool := has ARequestRejoin l || has AResetGeneration l.
Definition will_join (m : member) : bool :=
  ((ph_eqb (m_ph m) PIdle || ph_eqb (m_ph m) PSyncSent) && m_rejoin m)
  || (match m_inbox m with
      | Some (RpJoin c _ _) => negb (has ASuccess (joinDispatch c)) || has ARetryJoin (joinRetryDispatch c)
      | Some (RpSync c) => negb (has ASuccess (syncDispatch c))
      | None => false end)
  || (match m_hbin m with Some c => rejoin_code (heartbeatDispatch c) | None => false end)
  || (match m_cmin m with Some c => rejoin_code (commitDispatch c) | None => false end).
Definition on_track (m : member) : bool :=
  ck_clean m
  && (match m_ph m, m_inbox m with
      | PJoinSent, Some (RpJoin 0%Z _ _) => true
      | PJoined, _ => true
      | PSyncSent, None => negb (m_rejoin m)
      | _, _ => false end).

(* potential rebalance triggers of one member: 1 = may cause one more rebalance, 2 = may also leave an id behind *)
Definition tw (c : coord) (m : member) : nat :=
  match cls c m with
  | KDead => 0
  | KUnattached => 1
  | KInconsistent => 2
  | KConsistent =>
      match c_st c with
      | CStable => if will_join m || negb (ck_clean m) then 1 else 0
      | CCompleting => if on_track m then 0 else 1
      | _ => 0
      end
  end.

Definition sum (l : list nat) : nat := fold_right Nat.add 0 l.
Definition count_orphans (s : state) : nat := length (filter (orphan (s_ms s)) (c_ents (s_c s))).
Definition trig (s : state) : nat := sum (map (tw (s_c s)) (s_ms s)) + count_orphans s.
Definition erank (c : coord) : nat :=
  match c_st c with CPreparing => 2 | CCompleting => 1 | _ => 0 end.

(* coordinator-knowledge potential *)
Definition ckp (m : member) : nat :=
  let stale := ck_stale (m_ck m) in
  (match m_ck m with CkNone => 1 | _ => 0 end)
  + (if dead_code_main (m_inbox m) then 2
     else if stale && is_none (m_inbox m) && (ph_eqb (m_ph m) PIdle || ph_eqb (m_ph m) PJoined) then 3 else 0)
  + (if dead_code_hb (m_hbin m) then 2 else if stale && m_hb m && is_none (m_hbin m) then 3 else 0)
  + (if dead_code_cm (m_cmin m) then 2 else if stale && ph_eqb (m_ph m) PIdle && is_none (m_cmin m) then 3 else 0).

(* rank of the main (join/sync) activity inside the current coordinator epoch *)
Definition sync_will_fail (c : coord) (id gen : nat) : bool :=
  negb (validate c id gen =? 0)%Z || match c_st c with CStable | CCompleting => false | _ => true end.
Definition idle_rank (c : coord) (m : member) : nat :=      (* m in PIdle *)
  if m_rejoin m then
    if m_id m =? 0 then 20
    else if memb (m_id m) (ids (c_ents c)) then
      (match cls c m with KConsistent => 14 | _ => 24 end)
    else if memb (m_id m) (c_pend c) then 18 else 22
  else if (hb_code c m =? 0)%Z
          && (match m_hbin m with Some code => hb_silent m code | None => true end)
          && (match m_cmin m with Some code => cm_silent m code | None => true end) then 0 else 40.
Definition joined_rank (c : coord) (id gen : nat) : nat := if sync_will_fail c id gen then 30 else 8.
Definition main_rank (c : coord) (m : member) : nat :=
  match m_ph m, m_inbox m with
  | PIdle, _ => idle_rank c m
  | PJoinSent, None => 10
  | PJoinSent, Some (RpJoin code g x) =>
      if has ARetryJoin (joinRetryDispatch code) then 19
      else if has ASuccess (joinDispatch code) then S (joined_rank c x g)
      else if resets (joinDispatch code) then 21 else 17
  | PJoined, _ => joined_rank c (m_id m) (m_gen m)
  | PSyncSent, None => 6
  | PSyncSent, Some (RpSync code) =>
      if has ASuccess (syncDispatch code) then
        5 + idle_rank c (set_hb true (set_ph PIdle (set_inbox None m)))
      else 29
  | _, _ => 0
  end.
Definition hbp (c : coord) (m : member) : nat :=
  let next := if m_hb m && negb (hb_silent (set_hbin (Some 0%Z) m) (hb_code c m)) then 2 else 0 in
  match m_hbin m with
  | Some code => if hb_silent m code then next else 1
  | None => next
  end.
Definition cmp (c : coord) (m : member) : nat :=
  let next := if ph_eqb (m_ph m) PIdle && can_commit m && negb (cm_silent (set_cmin (Some 0%Z) m) (cm_code c m)) then 2 else 0 in
  match m_cmin m with
  | Some code => if cm_silent m code then next else 1
  | None => next
  end.
Definition mp (c : coord) (m : member) : nat :=
  if m_live m then ckp m * 64 + main_rank c m + hbp c m + cmp c m else 0.

Definition mu (s : state) : nat :=
  (trig s * 4 + erank (s_c s)) * (1024 * S (length (s_ms s))) + sum (map (mp (s_c s)) (s_ms s)).

(* ------------------------------------------------------------------------------------------ *)
(* exploration helpers (used by the harness to test the variant on concrete states; not in proofs) *)
Definition all_ids (s : state) : list nat :=
  ids (c_ents (s_c s)) ++ c_pend (s_c s)
  ++ flat_map (fun m => m_id m :: m_wait m :: match m_inbox m with Some (RpJoin _ _ x) => [x] | _ => [] end) (s_ms s).
Definition max_id (s : state) : nat := fold_right Nat.max 0 (all_ids s).
Definition all_labels (s : state) : list label :=
  flat_map (fun m => let i := m_name m in
              [LFind i; LSendJoin i true (S (max_id s)); LSendJoin i false (S (max_id s)); LRecv i; LSendSync i;
               LHbSend i; LHbRecv i; LCmSend i; LCmRecv i]) (s_ms s)
  ++ flat_map (fun e => [LExpire (e_id e) false; LExpire (e_id e) true]) (c_ents (s_c s)).
Definition enabled (s : state) : list label := filter (fun l => negb (is_none (step s l))) (all_labels s).
(* what goes wrong at [s] (empty = nothing): 1 successor violates inv_b, 2 variant not decreased by a real step,
   3 variant increased by a no-op, 4 not converged but no real step is enabled, not even after one no-op *)
Definition check_here (s : state) : list (nat * label) :=
  flat_map (fun l => match step s l with
                     | None => []
                     | Some s' =>
                         (if inv_b s' then [] else [(1, l)])
                         ++ (if noop_b s l then (if mu s' <=? mu s then [] else [(3, l)])
                             else (if mu s' <? mu s then [] else [(2, l)]))
                     end) (all_labels s)
  ++ (if converged_b s || existsb (fun l => negb (noop_b s l)) (enabled s)
         || existsb (fun l0 => match step s l0 with
                               | Some s0 => existsb (fun l => negb (noop_b s0 l)) (enabled s0)
                               | None => false end) (enabled s)
      then [] else [(4, LFind 0)]).
Fixpoint explore (depth : nat) (s : state) : list (state * nat * label) :=
  match check_here s with
  | (k, l) :: _ => [(s, k, l)]
  | [] => match depth with
          | 0 => []
          | S d => (fix go (ls : list label) : list (state * nat * label) :=
                      match ls with
                      | [] => []
                      | l :: r => match step s l with
                                  | Some s' => if noop_b s l then go r
                                               else match explore d s' with [] => go r | bad => bad end
                                  | None => go r
                                  end
                      end) (all_labels s)
          end
  end.

(* number of steps of an execution that are not no-ops *)
Fixpoint count_real (s : state) (ls : list label) : nat :=
  match ls with
  | [] => 0
  | l :: r => match step s l with
              | Some s' => (if noop_b s l then 0 else 1) + count_real s' r
              | None => 0
              end
  end.
