(* C09_Eval.v — wrappers used by harness/c09.py to run the models on concrete cases.
   The [x_*] functions work on byte lists and are what ocaml/c09_extract.v extracts (volume
   evaluation by the OCaml runner); the [ev_*] functions wrap them with hex strings for
   evaluation inside Coq by vm_compute (small cases; also used to check that the extracted
   runner and the Coq evaluation agree).  No theorem depends on this file. *)
From Coq Require Import ZArith List Bool String.
From Verif Require Import Imp C09Bytes C09_Crc C09_Varint C09_RecordV2 C09_Legacy C09_MemRecords
  VarintEnc VarintSize VarintDec.
Import ListNotations.
Open Scope Z_scope.

Definition meta_out (m : option meta) : Z * Z * Z :=
  match m with None => (-1, -1, -1) | Some m => (m_offset m, m_size m, m_ts m) end.

(* v2 builder: [payload] is what the codec returned for the record region (opaque).
   Per append: size_in_bytes() just before, the metadata returned, size() just after. *)
Fixpoint x_v2_steps (i : impl) (c : cfg) (st : bstate) (rs : list record)
  : list (Z * (Z * Z * Z) * Z) * bstate :=
  match rs with
  | [] => ([], st)
  | r :: rs' =>
      let sib := size_in_bytes i st r in
      let (st1, m) := append i c st r in
      let (l, stf) := x_v2_steps i c st1 rs' in
      ((sib, meta_out m, size i st1) :: l, stf)
  end.

Definition x_v2_build (i : impl) (c : cfg) (payload : bytes) (rs : list record)
  : bytes * list (Z * (Z * Z * Z) * Z) :=
  let comp := fun (_ : Z) (_ : bytes) => payload in
  let (steps, st) := x_v2_steps i c b_init rs in
  (build comp i c st, steps).

Definition hdr_out (h : bheader) : list Z :=
  [h_base h; h_length h; h_epoch h; h_magic h; h_crc h; h_attrs h; h_last h; h_first h; h_max h;
   h_pid h; h_pepoch h; h_bseq h; h_num h].

(* stamp a produced batch and read it back; [data] = the decompressed record region *)
Definition x_v2_read (s : stampcfg) (batch data : bytes)
  : bytes * option (list Z * list orecord) * bool :=
  let sb := stamp s batch in
  (sb,
   match read_batch (fun _ _ => Some data) sb with
   | Some (h, rs) => Some (hdr_out h, rs)
   | None => None
   end,
   validate_crc sb).

(* legacy *)
Definition lmeta_out (m : option lmeta) : Z * Z * Z * Z :=
  match m with None => (-1, -1, -1, -1) | Some m => (lm_offset m, lm_crc m, lm_size m, lm_ts m) end.

Fixpoint x_legacy_steps (c : lcfg) (buf : bytes) (rs : list record)
  : list (Z * (Z * Z * Z * Z) * Z) * bytes :=
  match rs with
  | [] => ([], buf)
  | r :: rs' =>
      let sib := msg_size (lc_magic c) (r_key r) (r_value r) in
      let (b1, m) := lappend c buf r in
      let (l, bf) := x_legacy_steps c b1 rs' in
      ((sib, lmeta_out m, blen b1) :: l, bf)
  end.

Definition x_legacy_build (c : lcfg) (payload : bytes) (rs : list record)
  : option bytes * list (Z * (Z * Z * Z * Z) * Z) :=
  let comp := fun (_ : Z) (_ : bytes) => payload in
  let (steps, buf) := x_legacy_steps c [] rs in
  (lbuild comp c buf, steps).

(* read ONE legacy message (a slice); [data] = decompressed value of a wrapper *)
Definition x_legacy_read (i : impl) (magic : Z) (msg data : bytes) : option (list lorecord) * bool :=
  (lread (fun _ _ => Some data) i magic msg, lvalidate_crc msg).

Definition x_lstamp (offset : Z) (lat : option Z) (msg : bytes) : bytes := lstamp offset lat msg.

(* splitter: magic seen and length of each slice, and the trailing length (None = exception) *)
Definition x_split (i : impl) (buf : bytes) : list (Z * Z) * option Z :=
  let '(bs, t) := split i buf in
  (map (fun b => (fst b, blen (snd b))) bs, option_map blen t).

(* varints: translated Python functions and the models of the compiled ones *)
Definition res_out {A} (r : result A) (d : A) : A := match r with Ok v => v | Exn _ => d end.
Definition x_varint (v : Z) : bytes * Z * Z * bytes * Z * bytes :=
  (VarintEnc.post v, res_out (VarintEnc.py v) (-1), res_out (VarintSize.py v) (-1),
   cy_encode_varint64 v, cy_size_of_varint64 v, varint_enc v).
Definition x_varint_dec (buf : bytes) (pos : Z) : option (Z * Z) * option (Z * Z) :=
  (match VarintDec.py buf pos with Ok (v, p) => Some (v, p) | Exn _ => None end,
   match cy_decode_varint64 (skipn (Z.to_nat pos) buf) with
   | Some (v, r) => Some (v, blen buf - blen r) | None => None end).

Definition x_crc (data : bytes) : Z * Z := (crc32c data, crc32 data).

(* ---- hex-string wrappers for evaluation inside Coq --------------------------------------- *)
Definition oh (o : option string) : obytes := option_map of_hex o.
Definition ho (o : obytes) : option string := option_map to_hex o.

(* a record: offset, timestamp, key, value, headers — byte strings as hex *)
Definition R (off ts : Z) (k v : option string) (hs : list (string * option string)) : record :=
  mkRec off ts (oh k) (oh v) (map (fun h => (of_hex (fst h), oh (snd h))) hs).

Definition ev_v2_build (i : impl) (c : cfg) (payload : string) (rs : list record) :=
  let r := x_v2_build i c (of_hex payload) rs in (to_hex (fst r), snd r).

Definition orec_out (r : orecord) :=
  (o_offset r, o_ts r, o_tstype r, ho (o_key r), ho (o_value r),
   map (fun h => (to_hex (fst h), ho (snd h))) (o_headers r)).

Definition ev_v2_read (s : stampcfg) (batch data : string) :=
  let '(sb, r, ok) := x_v2_read s (of_hex batch) (of_hex data) in
  (to_hex sb, option_map (fun p => (fst p, map orec_out (snd p))) r, ok).

Definition ev_legacy_build (c : lcfg) (payload : string) (rs : list record) :=
  let r := x_legacy_build c (of_hex payload) rs in (option_map to_hex (fst r), snd r).

Definition lorec_out (r : lorecord) :=
  (lo_offset r, lo_ts r, lo_tstype r, ho (lo_key r), ho (lo_value r), lo_crc r).

Definition ev_legacy_read (i : impl) (magic : Z) (msg data : string) :=
  let r := x_legacy_read i magic (of_hex msg) (of_hex data) in
  (option_map (map lorec_out) (fst r), snd r).

Definition ev_lstamp (offset : Z) (lat : option Z) (msg : string) : string :=
  to_hex (x_lstamp offset lat (of_hex msg)).

Definition ev_split (i : impl) (buf : string) := x_split i (of_hex buf).

Definition ev_varint (v : Z) :=
  let '(a, b, c, d, e, f) := x_varint v in (to_hex a, b, c, to_hex d, e, to_hex f).
Definition ev_varint_dec (buf : string) (pos : Z) := x_varint_dec (of_hex buf) pos.
Definition ev_crc (data : string) : Z * Z := x_crc (of_hex data).
