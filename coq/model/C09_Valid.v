(* C09_Valid.v — the hypotheses of the C09 theorems: which records / configurations are
   "valid inputs", and what a reader is expected to return for a produced batch. *)
From Coq Require Import ZArith List Bool Lia.
From Verif Require Import C09Bytes C09_Varint C09_RecordV2.
Import ListNotations.
Open Scope Z_scope.

Definition TWO31 : Z := 2147483648.
Definition int16 (v : Z) : Prop := -32768 <= v <= 32767.
Definition int32 (v : Z) : Prop := - TWO31 <= v < TWO31.

(* payload bytes of a record: key + value + header keys and values, plus one per header *)
Definition hdr_bytes (h : hdr) : Z := blen (fst h) + olen (snd h) + 1.
Definition rec_bytes (r : record) : Z :=
  olen (r_key r) + olen (r_value r) + fold_right (fun h a => hdr_bytes h + a) 0 (r_headers r).

(* any non-negative int64 timestamp, a non-negative int32 offset, less than 2 GiB of payload;
   keys, values and headers may be null / empty, timestamps need not be monotone *)
Definition valid_rec (r : record) : Prop :=
  0 <= r_ts r <= INT64_MAX /\ 0 <= r_offset r < TWO31 /\ rec_bytes r < TWO31.

Definition valid_cfg (c : cfg) : Prop :=
  c_magic c = 2 /\ 0 <= c_codec c <= 4 /\ int64 (c_pid c) /\ int16 (c_pepoch c) /\ int32 (c_bseq c).

Definition valid_stamp (s : stampcfg) : Prop :=
  0 <= s_base s <= INT64_MAX - TWO31 /\ int32 (s_epoch s)
  /\ match s_lat s with Some t => 0 <= t <= INT64_MAX | None => True end.

(* what a consumer must see for record r of a batch stamped with s *)
Definition expect (s : stampcfg) (r : record) : orecord :=
  mkORec (s_base s + r_offset r)
         (match s_lat s with Some t => t | None => r_ts r end)
         (match s_lat s with Some _ => 1 | None => 0 end)
         (r_key r) (r_value r) (r_headers r).

(* summary of the accepted records that the header must carry *)
Definition first_ts (acc : list record) : option Z :=
  match acc with [] => None | r :: _ => Some (r_ts r) end.
Definition max_ts (acc : list record) : option Z :=
  match acc with
  | [] => None
  | r :: rs => Some (fold_left (fun m x => Z.max m (r_ts x)) rs (r_ts r))
  end.
Definition last_off (acc : list record) : Z :=
  match rev acc with [] => 0 | r :: _ => r_offset r end.

(* the record region of a batch holding acc: each record framed by its length, timestamp
   deltas relative to the FIRST record *)
Definition frame (first : Z) (r : record) : bytes :=
  let body := enc_body (r_ts r - first) (r_offset r) r in
  varint_enc (blen body) ++ body.
Definition region_of (acc : list record) : bytes :=
  match acc with
  | [] => []
  | r0 :: _ => concat (map (frame (r_ts r0)) acc)
  end.

(* ---- the specification of a sequence of append() calls, in terms of produced bytes ------------- *)
Definition first_of (acc : list record) (r : record) : Z :=
  match acc with [] => r_ts r | r0 :: _ => r_ts r0 end.
Definition nonempty {A} (l : list A) : bool := match l with [] => false | _ => true end.

(* the limit predicate of each implementation: [acc] are the records accepted so far,
   [after] the size the uncompressed batch would have with r added *)
Definition refuses (i : impl) (c : cfg) (acc : list record) (r : record) : bool :=
  let after := HEADER_SIZE + blen (region_of acc) + blen (frame (first_of acc r) r) in
  match i with
  | Py => nonempty acc && (c_batch_size c <? after)
  | Cy => negb (r_offset r =? 0) && (c_batch_size c <=? after)
  end.

(* results of the append() calls (None = refused; metadata size = bytes the record occupies)
   and the records accepted in the end *)
Fixpoint run_spec (i : impl) (c : cfg) (acc : list record) (rs : list record)
  : list (option meta) * list record :=
  match rs with
  | [] => ([], acc)
  | r :: rs' =>
      if refuses i c acc r then
        let (ms, a) := run_spec i c acc rs' in (None :: ms, a)
      else
        let (ms, a) := run_spec i c (acc ++ [r]) rs' in
        (Some (mkMeta (r_offset r) (blen (frame (first_of acc r) r)) (r_ts r)) :: ms, a)
  end.

(* first / max timestamp fields of the header: of the records, or the implementation's
   "unset" value for a batch without records *)
Definition hdr_first (i : impl) (acc : list record) : Z :=
  match first_ts acc with Some t => t | None => unset_ts i end.
Definition hdr_max (i : impl) (acc : list record) : Z :=
  match max_ts acc with Some t => t | None => unset_ts i end.

(* whether build() ends up sending the compressed payload *)
Definition uses_codec (compress : Z -> bytes -> bytes) (i : impl) (c : cfg) (data : bytes) : bool :=
  if c_codec c =? 0 then false
  else match i with
       | Py => negb (blen data <=? blen (compress (c_codec c) data))
       | Cy => true
       end.

(* ---- legacy (v0 / v1) ------------------------------------------------------------------------------ *)
From Verif Require Import C09_Crc C09_Legacy.

Definition valid_lcfg (c : lcfg) : Prop := (lc_magic c = 0 \/ lc_magic c = 1) /\ 0 <= lc_codec c <= 3.
Definition valid_lrec (r : record) : Prop :=
  0 <= r_ts r <= INT64_MAX /\ 0 <= r_offset r <= INT64_MAX /\ olen (r_key r) + olen (r_value r) < TWO31 - 64.

(* the message the builders write for record r, and what a reader must return for it *)
Definition lmsg_ts (c : lcfg) (r : record) : Z := if lc_magic c =? 0 then -1 else r_ts r.
Definition lmsg_of (c : lcfg) (r : record) : bytes :=
  encode_msg (lc_magic c) (r_offset r) (lmsg_ts c r) (r_key r) (r_value r) 0.
Definition lmsg_crc (c : lcfg) (r : record) : Z :=
  crc32 (msg_tail (lc_magic c) 0 (lmsg_ts c r) (r_key r) (r_value r)).
Definition lexpect (c : lcfg) (r : record) : lorecord :=
  mkLO (r_offset r) (if lc_magic c =? 0 then None else Some (r_ts r))
       (if lc_magic c =? 0 then None else Some 0) (r_key r) (r_value r) (lmsg_crc c r).

(* a compressed wrapper after the broker's part: wrapper offset woff (for magic 1: at least the
   last inner offset), optional LogAppendTime *)
Definition llast_off (acc : list record) : Z := match rev acc with [] => 0 | r :: _ => r_offset r end.
Definition valid_wstamp (acc : list record) (woff : Z) (lat : option Z) : Prop :=
  llast_off acc <= woff <= INT64_MAX /\ match lat with Some t => 0 <= t <= INT64_MAX | None => True end.
Definition lexpect_wrapped (c : lcfg) (acc : list record) (woff : Z) (lat : option Z) (r : record) : lorecord :=
  if lc_magic c =? 0 then mkLO (r_offset r) None None (r_key r) (r_value r) (lmsg_crc c r)
  else mkLO (r_offset r + (woff - llast_off acc))
            (Some (match lat with Some t => t | None => r_ts r end))
            (Some (match lat with Some _ => 1 | None => 0 end))
            (r_key r) (r_value r) (lmsg_crc c r).
