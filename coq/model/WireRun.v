(* WireRun.v — C11: helpers for evaluating model/Wire.v on concrete cases inside Coq
   (hex literals, boolean equality on values, the value-side of schema flattening).
   Definitions only. *)
From Coq Require Import ZArith List Bool Ascii.
From Coq Require String.
Import String (string, String, EmptyString).
From Verif Require Import Wire C11Tables.
Import ListNotations.
Open Scope Z_scope.

(* "00ff7f" -> [0; 255; 127] (lower-case hex; any other character counts as 0) *)
Definition hexval (c : ascii) : Z :=
  let n := Z.of_N (N_of_ascii c) in
  if (48 <=? n) && (n <=? 57) then n - 48
  else if (97 <=? n) && (n <=? 102) then n - 87
  else 0.

Fixpoint hx (s : string) : list Z :=
  match s with
  | String a (String b r) => (hexval a * 16 + hexval b) :: hx r
  | _ => []
  end.

Fixpoint zs_eqb (a b : list Z) : bool :=
  match a, b with
  | [], [] => true
  | x :: a', y :: b' => (x =? y) && zs_eqb a' b'
  | _, _ => false
  end.

Definition ozs_eqb (a b : option (list Z)) : bool :=
  match a, b with
  | None, None => true
  | Some x, Some y => zs_eqb x y
  | _, _ => false
  end.

Fixpoint val_eqb (a b : val) : bool :=
  match a, b with
  | VInt x, VInt y => x =? y
  | VBool x, VBool y => Bool.eqb x y
  | VStr x, VStr y => ozs_eqb x y
  | VBytes x, VBytes y => ozs_eqb x y
  | VTagged x, VTagged y =>
      (fix go (x y : list (Z * list Z)) {struct x} : bool :=
         match x, y with
         | [], [] => true
         | (k, b) :: x', (k', b') :: y' => (k =? k') && zs_eqb b b' && go x' y'
         | _, _ => false
         end) x y
  | VArr None, VArr None => true
  | VArr (Some x), VArr (Some y) =>
      (fix go (x y : list val) {struct x} : bool :=
         match x, y with
         | [], [] => true
         | u :: x', w :: y' => val_eqb u w && go x' y'
         | _, _ => false
         end) x y
  | VTup x, VTup y =>
      (fix go (x y : list val) {struct x} : bool :=
         match x, y with
         | [], [] => true
         | u :: x', w :: y' => val_eqb u w && go x' y'
         | _, _ => false
         end) x y
  | _, _ => false
  end.

(* the value seen through [flat]: nested structures inlined, array elements as tuples *)
Fixpoint vflat (t : ty) (v : val) : list val :=
  match t, v with
  | TSchema fs, VTup l =>
      (fix go (fs : list ty) (l : list val) {struct fs} : list val :=
         match fs, l with
         | f :: fs', x :: l' => vflat f x ++ go fs' l'
         | _, _ => []
         end) fs l
  | TArray t', VArr (Some l) => [VArr (Some (map (fun x => VTup (vflat t' x)) l))]
  | TCompactArray t', VArr (Some l) => [VArr (Some (map (fun x => VTup (vflat t' x)) l))]
  | _, _ => [v]
  end.

Definition trailer : list Z := [165; 90].

(* one correspondence case: type, value, bytes produced by the real class, Kafka-table
   layout of the struct (if stated).  Result: value canonical ([wt])?  value in the wider
   domain ([wtu], dicts in any order)?  model bytes = real bytes?  model decode of
   (real bytes ++ trailer) = (value with its dicts sorted, trailer)?  bytes of the Kafka
   table layout = real bytes? *)
Definition run_case (c : ty * val * list Z * option ty) : bool * bool * bool * bool * option bool :=
  let '(t, v, real, spec) := c in
  (wt t v, wtu t v,
   zs_eqb (enc t v) real,
   match dec t (real ++ trailer) with
   | Some (v', r) => val_eqb v' (vnorm v) && zs_eqb r trailer
   | None => false
   end,
   match spec with
   | Some s => Some (zs_eqb (enc (TSchema (flat s)) (VTup (vflat t v))) real)
   | None => None
   end).

(* details of one case, printed only for cases that disagree *)
Definition run_case_details (c : ty * val * list Z * option ty)
  : list Z * option (val * list Z) * option (list Z) :=
  let '(t, v, real, spec) := c in
  (enc t v, dec t (real ++ trailer),
   match spec with
   | Some s => Some (enc (TSchema (flat s)) (VTup (vflat t v)))
   | None => None
   end).
