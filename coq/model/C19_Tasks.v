(* C19_Tasks.v — a small calculus of "cancel a background task and await it", the shape of every
   close()/stop() procedure of the client (AIOKafkaConsumer.stop, GroupCoordinator.close,
   NoGroupCoordinator.close, Fetcher.close, AIOKafkaClient.close, AIOKafkaProducer.stop, Sender.close).

   The data (which routine has which await points, what a cancellation delivered at each point leads
   to, which steps a close procedure performs and in what style it awaits) is GENERATED from /repo's
   source on every run (translator/close2gallina.py -> gen/CloseShapes.v); this file holds the
   semantics, executable so that the correspondence can run it on the task states observed in the
   simulator at every stop() call.

   asyncio semantics modelled (Python 3.8+; CancelledError is a BaseException):
     * task.cancel() on a finished task does nothing; on a task that has not run a step it makes the
       task end cancelled whatever its body says; on a task suspended at an await point it raises
       CancelledError there: the routine's own handlers decide (ends normally / ends cancelled /
       swallows the cancellation and goes on running);
     * `await t` re-raises t's exception (CancelledError included) in the awaiting procedure;
       try/except CancelledError and contextlib.suppress(CancelledError) absorb only the cancellation;
       gather(..., return_exceptions=True) absorbs both. *)
From Coq Require Import List Bool Arith.
Import ListNotations.

(* what a cancellation delivered at an await point of a routine leads to *)
Inductive pclass := PNormal | PCancelled | PSwallow.

Record routine := mkRoutine {
  r_points : list pclass;       (* the await points of the routine's own body, in source order *)
  r_catch_all : bool            (* syntactically: every await sits under a non-raising handler for Exception (informative) *)
}.

(* state of one background task when the close procedure reaches it *)
Inductive tstate :=
| TUnstarted                        (* created, has not run a step *)
| TParked (i : nat) (fails : bool)  (* suspended at await point i; left alone it would end with an exception iff fails *)
| TDoneOk | TDoneExc | TDoneCancelled.

Definition is_done (s : tstate) : bool :=
  match s with TDoneOk | TDoneExc | TDoneCancelled => true | _ => false end.

(* a slot of the client object holding background tasks: an attribute that is None or a task
   (a list of length <= 1) or a collection of tasks *)
Record slot := mkSlot {
  s_routine : routine;
  s_may_unstarted : bool;     (* the close procedure can run before the task's first step *)
  s_may_cancelled : bool;     (* the slot can hold a task that already ended cancelled *)
  s_may_fail : bool           (* the task can end with an exception other than cancellation *)
}.

Inductive fin := FOk | FCancelled | FExc | FNever.

Definition after_cancel (r : routine) (s : tstate) : fin :=
  match s with
  | TUnstarted => FCancelled
  | TParked i _ => match nth_error (r_points r) i with
                   | Some PNormal => FOk
                   | Some PCancelled => FCancelled
                   | Some PSwallow => FNever
                   | None => FNever
                   end
  | TDoneOk => FOk
  | TDoneExc => FExc
  | TDoneCancelled => FCancelled
  end.

(* the task is awaited without being cancelled: it ends by itself (closing flag) *)
Definition left_alone (s : tstate) : fin :=
  match s with
  | TUnstarted => FOk
  | TParked _ fails => if fails then FExc else FOk
  | TDoneOk => FOk
  | TDoneExc => FExc
  | TDoneCancelled => FCancelled
  end.

Inductive style := SBare | SCatch | SGather.
Inductive res := Continue | Escape | Hang.

Definition await_fin (st : style) (f : fin) : res :=
  match f, st with
  | FOk, _ => Continue
  | FCancelled, SBare => Escape
  | FCancelled, _ => Continue
  | FExc, SGather => Continue
  | FExc, _ => Escape
  | FNever, _ => Hang
  end.

Inductive step :=
| CancelAwait (t : nat) (guard_notdone : bool) (st : style)   (* [if not t.done():] t.cancel(); await t *)
| WaitFor (t : nat) (guard_notdone : bool) (st : style)       (* [if not t.done():] await t *)
| Opaque (tag : nat)                                          (* an await assumed not to raise (listed in the trusted base) *)
| Mark (tag : nat).                                           (* a statement without await: progress marker *)

Definition exec_member (r : routine) (stp : step) (s : tstate) : res :=
  match stp with
  | CancelAwait _ g st => if g && is_done s then Continue else await_fin st (after_cancel r s)
  | WaitFor _ g st => if g && is_done s then Continue else await_fin st (left_alone s)
  | Opaque _ | Mark _ => Continue
  end.

Fixpoint exec_members (r : routine) (stp : step) (ms : list tstate) : res :=
  match ms with
  | [] => Continue
  | s :: ms' => match exec_member r stp s with
                | Continue => exec_members r stp ms'
                | x => x
                end
  end.

Definition step_slot (stp : step) : option nat :=
  match stp with CancelAwait t _ _ | WaitFor t _ _ => Some t | _ => None end.

Definition default_routine := mkRoutine [] true.
Definition default_slot := mkSlot default_routine false false false.

Definition exec_step (slots : list slot) (env : list (list tstate)) (stp : step) : res :=
  match step_slot stp with
  | None => Continue
  | Some t => exec_members (s_routine (nth t slots default_slot)) stp (nth t env [])
  end.

Inductive outcome := Completed | Escaped (k : nat) | Hung (k : nat).

Fixpoint run_from (k : nat) (slots : list slot) (env : list (list tstate)) (prog : list step) : outcome :=
  match prog with
  | [] => Completed
  | stp :: prog' => match exec_step slots env stp with
                    | Continue => run_from (S k) slots env prog'
                    | Escape => Escaped k
                    | Hang => Hung k
                    end
  end.
Definition run := run_from 0.

(* ---- the state space: which task states the model considers possible in a slot ------------- *)
Definition state_ok (sl : slot) (s : tstate) : bool :=
  match s with
  | TUnstarted => s_may_unstarted sl
  | TParked i fails => (i <? length (r_points (s_routine sl))) && (negb fails || s_may_fail sl)
  | TDoneOk => true
  | TDoneExc => s_may_fail sl
  | TDoneCancelled => s_may_cancelled sl
  end.

Fixpoint env_ok (slots : list slot) (env : list (list tstate)) : bool :=
  match slots, env with
  | [], [] => true
  | sl :: slots', ms :: env' => forallb (state_ok sl) ms && env_ok slots' env'
  | _, _ => false
  end.

(* ---- the static safety condition of one step (decidable; evaluated on the generated data) ---- *)
Definition all_points (p : pclass -> bool) (r : routine) : bool := forallb p (r_points r).
Definition is_normal (c : pclass) := match c with PNormal => true | _ => false end.
Definition not_swallow (c : pclass) := match c with PSwallow => false | _ => true end.

Definition step_safe (slots : list slot) (stp : step) : bool :=
  match stp with
  | CancelAwait t g st =>
      let sl := nth t slots default_slot in
      let r := s_routine sl in
      (t <? length slots) &&
      all_points not_swallow r &&
      match st with
      | SBare => all_points is_normal r && negb (s_may_unstarted sl) && (g || negb (s_may_cancelled sl))
                 && (g || negb (s_may_fail sl))
      | SCatch => g || negb (s_may_fail sl)
      | SGather => true
      end
  | WaitFor t g st =>
      let sl := nth t slots default_slot in
      let r := s_routine sl in
      (t <? length slots) &&
      match st with
      | SBare => negb (s_may_fail sl) && (g || negb (s_may_cancelled sl))
      | SCatch => negb (s_may_fail sl)
      | SGather => true
      end
  | Opaque _ | Mark _ => true
  end.

Definition prog_safe (slots : list slot) (prog : list step) : bool := forallb (step_safe slots) prog.

(* ---- the ledger: what has become of a task once a step over its slot has let the procedure continue ----- *)
Definition fin_of_done (s : tstate) : fin :=
  match s with TDoneOk => FOk | TDoneExc => FExc | TDoneCancelled => FCancelled | _ => FNever end.

(* None = the task is still running *)
Definition task_after (r : routine) (stp : step) (s : tstate) : option fin :=
  match stp with
  | CancelAwait _ g _ =>
      if is_done s then Some (fin_of_done s)
      else match after_cancel r s with FNever => None | f => Some f end
  | WaitFor _ g _ => if is_done s then Some (fin_of_done s) else Some (left_alone s)
  | Opaque _ | Mark _ => if is_done s then Some (fin_of_done s) else None
  end.

Definition ended (o : option fin) : bool := match o with Some _ => true | None => false end.
