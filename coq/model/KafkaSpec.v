(* KafkaSpec.v — C11: hand-written table of the Kafka protocol layout per (api key, version).

   INDEPENDENT of the repository: written from the Kafka protocol definition (the
   `clients/src/main/resources/common/message/*.json` files of Apache Kafka) as remembered
   by the author, in the style of those files: each field carries the version range in
   which it is present, and a message becomes "flexible" (compact strings / arrays / bytes,
   a tagged-field buffer at the end of every structure) from its first flexible version on.
   Nullability is not part of the wire type universe (the same encoding carries null as
   length -1 / 0) and is therefore not recorded here.

   Only versions the author can state with confidence are listed; [spec_request] /
   [spec_response] return [None] elsewhere and the check reports those structs as
   "not covered".  Definitions only. *)
From Coq Require Import ZArith List Bool.
From Verif Require Import Wire.
Import ListNotations.
Open Scope Z_scope.

Notation i8 := TInt8.
Notation i16 := TInt16.
Notation i32 := TInt32.
Notation i64 := TInt64.
Notation u32 := TUInt32.
Notation f64 := TFloat64.
Notation str := TString.
Notation byt := TBytes.
Notation boo := TBool.
Definition arr (fs : list ty) : ty := TArray (TSchema fs).
Definition arr1 (t : ty) : ty := TArray t.

(* a field present from version [lo] on / in versions [lo..hi] / up to version [hi] *)
Definition from (lo v : Z) (t : ty) : list ty := if lo <=? v then [t] else [].
Definition within (lo hi v : Z) (t : ty) : list ty := if (lo <=? v) && (v <=? hi) then [t] else [].
Definition upto (hi v : Z) (t : ty) : list ty := if v <=? hi then [t] else [].

(* the flexible-version transformation of a message definition *)
Fixpoint flexify (t : ty) : ty :=
  match t with
  | TString => TCompactString
  | TBytes => TCompactBytes
  | TArray t' => TCompactArray (flexify t')
  | TSchema fs => TSchema (map flexify fs ++ [TTagged])
  | other => other
  end.

(* ------------------------------------------------------------------------------ headers *)
(* request header v1: api key, api version, correlation id, client id; v2 adds tagged fields.
   response header v0: correlation id; v1 adds tagged fields. *)
Definition spec_request_header (flexible : bool) : ty :=
  TSchema ([i16; i16; i32; str] ++ if flexible then [TTagged] else []).
Definition spec_response_header (flexible : bool) : ty :=
  TSchema ([i32] ++ if flexible then [TTagged] else []).

(* ------------------------------------------------------------------------------ 0 Produce *)
Definition produce_req (v : Z) : ty :=
  TSchema (from 3 v str (* transactional_id *) ++
           [i16 (* acks *); i32 (* timeout_ms *);
            arr [str; arr [i32 (* index *); byt (* records *)]]]).
Definition produce_resp (v : Z) : ty :=
  TSchema ([arr [str; arr ([i32 (* index *); i16 (* error_code *); i64 (* base_offset *)] ++
                           from 2 v i64 (* log_append_time_ms *) ++
                           from 5 v i64 (* log_start_offset *) ++
                           from 8 v (arr [i32 (* batch_index *); str (* batch_index_error_message *)]) ++
                           from 8 v str (* error_message *))]] ++
           from 1 v i32 (* throttle_time_ms *)).

(* ------------------------------------------------------------------------------ 1 Fetch *)
Definition fetch_req (v : Z) : ty :=
  TSchema ([i32 (* replica_id *); i32 (* max_wait_ms *); i32 (* min_bytes *)] ++
           from 3 v i32 (* max_bytes *) ++
           from 4 v i8 (* isolation_level *) ++
           from 7 v i32 (* session_id *) ++
           from 7 v i32 (* session_epoch *) ++
           [arr [str; arr ([i32 (* partition *)] ++
                           from 9 v i32 (* current_leader_epoch *) ++
                           [i64 (* fetch_offset *)] ++
                           from 5 v i64 (* log_start_offset *) ++
                           [i32 (* partition_max_bytes *)])]] ++
           from 7 v (arr [str; arr1 i32]) (* forgotten_topics_data *) ++
           from 11 v str (* rack_id *)).
Definition fetch_resp (v : Z) : ty :=
  TSchema (from 1 v i32 (* throttle_time_ms *) ++
           from 7 v i16 (* error_code *) ++
           from 7 v i32 (* session_id *) ++
           [arr [str; arr ([i32 (* partition_index *); i16 (* error_code *); i64 (* high_watermark *)] ++
                           from 4 v i64 (* last_stable_offset *) ++
                           from 5 v i64 (* log_start_offset *) ++
                           from 4 v (arr [i64 (* producer_id *); i64 (* first_offset *)]) ++
                           from 11 v i32 (* preferred_read_replica *) ++
                           [byt (* records *)])]]).

(* ------------------------------------------------------------------------------ 2 ListOffsets *)
Definition list_offsets_req (v : Z) : ty :=
  TSchema ([i32 (* replica_id *)] ++
           from 2 v i8 (* isolation_level *) ++
           [arr [str; arr ([i32 (* partition_index *)] ++
                           from 4 v i32 (* current_leader_epoch *) ++
                           [i64 (* timestamp *)] ++
                           upto 0 v i32 (* max_num_offsets *))]]).
Definition list_offsets_resp (v : Z) : ty :=
  TSchema (from 2 v i32 (* throttle_time_ms *) ++
           [arr [str; arr ([i32 (* partition_index *); i16 (* error_code *)] ++
                           upto 0 v (arr1 i64) (* old_style_offsets *) ++
                           from 1 v i64 (* timestamp *) ++
                           from 1 v i64 (* offset *) ++
                           from 4 v i32 (* leader_epoch *))]]).

(* ------------------------------------------------------------------------------ 3 Metadata *)
Definition metadata_req (v : Z) : ty :=
  TSchema ([arr1 str (* topics *)] ++ from 4 v boo (* allow_auto_topic_creation *)).
Definition metadata_resp (v : Z) : ty :=
  TSchema (from 3 v i32 (* throttle_time_ms *) ++
           [arr ([i32 (* node_id *); str (* host *); i32 (* port *)] ++ from 1 v str (* rack *))] ++
           from 2 v str (* cluster_id *) ++
           from 1 v i32 (* controller_id *) ++
           [arr ([i16 (* error_code *); str (* name *)] ++
                 from 1 v boo (* is_internal *) ++
                 [arr ([i16 (* error_code *); i32 (* partition_index *); i32 (* leader_id *)] ++
                       from 7 v i32 (* leader_epoch *) ++
                       [arr1 i32 (* replica_nodes *); arr1 i32 (* isr_nodes *)] ++
                       from 5 v (arr1 i32) (* offline_replicas *))])]).

(* ------------------------------------------------------------------------------ 8 OffsetCommit *)
Definition offset_commit_req (v : Z) : ty :=
  TSchema ([str (* group_id *)] ++
           from 1 v i32 (* generation_id *) ++
           from 1 v str (* member_id *) ++
           within 2 4 v i64 (* retention_time_ms *) ++
           [arr [str; arr ([i32 (* partition_index *); i64 (* committed_offset *)] ++
                           within 1 1 v i64 (* commit_timestamp *) ++
                           [str (* committed_metadata *)])]]).
Definition offset_commit_resp (v : Z) : ty :=
  TSchema (from 3 v i32 (* throttle_time_ms *) ++
           [arr [str; arr [i32 (* partition_index *); i16 (* error_code *)]]]).

(* ------------------------------------------------------------------------------ 9 OffsetFetch *)
Definition offset_fetch_req (v : Z) : ty :=
  TSchema [str (* group_id *); arr [str; arr1 i32 (* partition_indexes *)]].
Definition offset_fetch_resp (v : Z) : ty :=
  TSchema (from 3 v i32 (* throttle_time_ms *) ++
           [arr [str; arr [i32 (* partition_index *); i64 (* committed_offset *);
                           str (* metadata *); i16 (* error_code *)]]] ++
           from 2 v i16 (* error_code *)).

(* ------------------------------------------------------------------------------ 10 FindCoordinator *)
Definition find_coordinator_req (v : Z) : ty :=
  TSchema ([str (* key *)] ++ from 1 v i8 (* key_type *)).
Definition find_coordinator_resp (v : Z) : ty :=
  TSchema (from 1 v i32 (* throttle_time_ms *) ++ [i16 (* error_code *)] ++
           from 1 v str (* error_message *) ++
           [i32 (* node_id *); str (* host *); i32 (* port *)]).

(* ------------------------------------------------------------------------------ 11 JoinGroup *)
Definition join_group_req (v : Z) : ty :=
  TSchema ([str (* group_id *); i32 (* session_timeout_ms *)] ++
           from 1 v i32 (* rebalance_timeout_ms *) ++
           [str (* member_id *)] ++
           from 5 v str (* group_instance_id *) ++
           [str (* protocol_type *); arr [str (* name *); byt (* metadata *)]]).
Definition join_group_resp (v : Z) : ty :=
  TSchema (from 2 v i32 (* throttle_time_ms *) ++
           [i16 (* error_code *); i32 (* generation_id *); str (* protocol_name *);
            str (* leader *); str (* member_id *);
            arr ([str (* member_id *)] ++ from 5 v str (* group_instance_id *) ++ [byt (* metadata *)])]).

(* ------------------------------------------------------------------------------ 12 Heartbeat *)
Definition heartbeat_req (v : Z) : ty :=
  TSchema ([str (* group_id *); i32 (* generation_id *); str (* member_id *)] ++
           from 3 v str (* group_instance_id *)).
Definition heartbeat_resp (v : Z) : ty :=
  TSchema (from 1 v i32 (* throttle_time_ms *) ++ [i16 (* error_code *)]).

(* ------------------------------------------------------------------------------ 13 LeaveGroup (v0-2) *)
Definition leave_group_req (v : Z) : ty := TSchema [str (* group_id *); str (* member_id *)].
Definition leave_group_resp (v : Z) : ty :=
  TSchema (from 1 v i32 (* throttle_time_ms *) ++ [i16 (* error_code *)]).

(* ------------------------------------------------------------------------------ 14 SyncGroup *)
Definition sync_group_req (v : Z) : ty :=
  TSchema ([str (* group_id *); i32 (* generation_id *); str (* member_id *)] ++
           from 3 v str (* group_instance_id *) ++
           [arr [str (* member_id *); byt (* assignment *)]]).
Definition sync_group_resp (v : Z) : ty :=
  TSchema (from 1 v i32 (* throttle_time_ms *) ++ [i16 (* error_code *); byt (* assignment *)]).

(* ------------------------------------------------------------------------------ 15 DescribeGroups *)
Definition describe_groups_req (v : Z) : ty :=
  TSchema ([arr1 str (* groups *)] ++ from 3 v boo (* include_authorized_operations *)).
Definition describe_groups_resp (v : Z) : ty :=
  TSchema (from 1 v i32 (* throttle_time_ms *) ++
           [arr ([i16 (* error_code *); str (* group_id *); str (* group_state *);
                  str (* protocol_type *); str (* protocol_data *);
                  arr ([str (* member_id *)] ++ from 4 v str (* group_instance_id *) ++
                       [str (* client_id *); str (* client_host *);
                        byt (* member_metadata *); byt (* member_assignment *)])] ++
                 from 3 v i32 (* authorized_operations *))]).

(* ------------------------------------------------------------------------------ 16 ListGroups (v0-2) *)
Definition list_groups_req (v : Z) : ty := TSchema [].
Definition list_groups_resp (v : Z) : ty :=
  TSchema (from 1 v i32 (* throttle_time_ms *) ++
           [i16 (* error_code *); arr [str (* group_id *); str (* protocol_type *)]]).

(* ------------------------------------------------------------------------------ 17 SaslHandshake *)
Definition sasl_handshake_req (v : Z) : ty := TSchema [str (* mechanism *)].
Definition sasl_handshake_resp (v : Z) : ty := TSchema [i16 (* error_code *); arr1 str (* mechanisms *)].

(* ------------------------------------------------------------------------------ 18 ApiVersions (v0-2) *)
Definition api_versions_req (v : Z) : ty := TSchema [].
Definition api_versions_resp (v : Z) : ty :=
  TSchema ([i16 (* error_code *); arr [i16 (* api_key *); i16 (* min_version *); i16 (* max_version *)]] ++
           from 1 v i32 (* throttle_time_ms *)).

(* ------------------------------------------------------------------------------ 19 CreateTopics (v0-4) *)
Definition create_topics_req (v : Z) : ty :=
  TSchema ([arr [str (* name *); i32 (* num_partitions *); i16 (* replication_factor *);
                 arr [i32 (* partition_index *); arr1 i32 (* broker_ids *)];
                 arr [str (* name *); str (* value *)]];
            i32 (* timeout_ms *)] ++
           from 1 v boo (* validate_only *)).
Definition create_topics_resp (v : Z) : ty :=
  TSchema (from 2 v i32 (* throttle_time_ms *) ++
           [arr ([str (* name *); i16 (* error_code *)] ++ from 1 v str (* error_message *))]).

(* ------------------------------------------------------------------------------ 20 DeleteTopics (v0-3) *)
Definition delete_topics_req (v : Z) : ty := TSchema [arr1 str (* topic_names *); i32 (* timeout_ms *)].
Definition delete_topics_resp (v : Z) : ty :=
  TSchema (from 1 v i32 (* throttle_time_ms *) ++ [arr [str (* name *); i16 (* error_code *)]]).

(* ------------------------------------------------------------------------------ 21 DeleteRecords (flexible from v2) *)
Definition delete_records_req (v : Z) : ty :=
  TSchema [arr [str (* name *); arr [i32 (* partition_index *); i64 (* offset *)]]; i32 (* timeout_ms *)].
Definition delete_records_resp (v : Z) : ty :=
  TSchema [i32 (* throttle_time_ms *);
           arr [str (* name *); arr [i32 (* partition_index *); i64 (* low_watermark *); i16 (* error_code *)]]].

(* ------------------------------------------------------------------------------ 22 InitProducerId (v0-1) *)
Definition init_producer_id_req (v : Z) : ty := TSchema [str (* transactional_id *); i32 (* transaction_timeout_ms *)].
Definition init_producer_id_resp (v : Z) : ty :=
  TSchema [i32 (* throttle_time_ms *); i16 (* error_code *); i64 (* producer_id *); i16 (* producer_epoch *)].

(* ------------------------------------------------------------------------------ 24 AddPartitionsToTxn (v0-2) *)
Definition add_partitions_req (v : Z) : ty :=
  TSchema [str (* transactional_id *); i64 (* producer_id *); i16 (* producer_epoch *);
           arr [str (* name *); arr1 i32 (* partitions *)]].
Definition add_partitions_resp (v : Z) : ty :=
  TSchema [i32 (* throttle_time_ms *);
           arr [str (* name *); arr [i32 (* partition_index *); i16 (* error_code *)]]].

(* ------------------------------------------------------------------------------ 25 AddOffsetsToTxn (v0-2) *)
Definition add_offsets_req (v : Z) : ty :=
  TSchema [str (* transactional_id *); i64 (* producer_id *); i16 (* producer_epoch *); str (* group_id *)].
Definition add_offsets_resp (v : Z) : ty := TSchema [i32 (* throttle_time_ms *); i16 (* error_code *)].

(* ------------------------------------------------------------------------------ 26 EndTxn (v0-2) *)
Definition end_txn_req (v : Z) : ty :=
  TSchema [str (* transactional_id *); i64 (* producer_id *); i16 (* producer_epoch *); boo (* committed *)].
Definition end_txn_resp (v : Z) : ty := TSchema [i32 (* throttle_time_ms *); i16 (* error_code *)].

(* ------------------------------------------------------------------------------ 28 TxnOffsetCommit (v0-1) *)
Definition txn_offset_commit_req (v : Z) : ty :=
  TSchema [str (* transactional_id *); str (* group_id *); i64 (* producer_id *); i16 (* producer_epoch *);
           arr [str (* name *); arr [i32 (* partition_index *); i64 (* committed_offset *);
                                     str (* committed_metadata *)]]].
Definition txn_offset_commit_resp (v : Z) : ty :=
  TSchema [i32 (* throttle_time_ms *); arr [str (* name *); arr [i32 (* partition_index *); i16 (* error_code *)]]].

(* ------------------------------------------------------------------------------ 29 DescribeAcls (flexible from v2) *)
Definition describe_acls_req (v : Z) : ty :=
  TSchema ([i8 (* resource_type_filter *); str (* resource_name_filter *)] ++
           from 1 v i8 (* pattern_type_filter *) ++
           [str (* principal_filter *); str (* host_filter *); i8 (* operation *); i8 (* permission_type *)]).
Definition describe_acls_resp (v : Z) : ty :=
  TSchema [i32 (* throttle_time_ms *); i16 (* error_code *); str (* error_message *);
           arr ([i8 (* resource_type *); str (* resource_name *)] ++
                from 1 v i8 (* pattern_type *) ++
                [arr [str (* principal *); str (* host *); i8 (* operation *); i8 (* permission_type *)]])].

(* ------------------------------------------------------------------------------ 30 CreateAcls (v0-1) *)
Definition create_acls_req (v : Z) : ty :=
  TSchema [arr ([i8 (* resource_type *); str (* resource_name *)] ++
                from 1 v i8 (* resource_pattern_type *) ++
                [str (* principal *); str (* host *); i8 (* operation *); i8 (* permission_type *)])].
Definition create_acls_resp (v : Z) : ty :=
  TSchema [i32 (* throttle_time_ms *); arr [i16 (* error_code *); str (* error_message *)]].

(* ------------------------------------------------------------------------------ 31 DeleteAcls (v0-1) *)
Definition delete_acls_req (v : Z) : ty :=
  TSchema [arr ([i8 (* resource_type_filter *); str (* resource_name_filter *)] ++
                from 1 v i8 (* pattern_type_filter *) ++
                [str (* principal_filter *); str (* host_filter *); i8 (* operation *); i8 (* permission_type *)])].
Definition delete_acls_resp (v : Z) : ty :=
  TSchema [i32 (* throttle_time_ms *);
           arr [i16 (* error_code *); str (* error_message *);
                arr ([i16 (* error_code *); str (* error_message *); i8 (* resource_type *);
                      str (* resource_name *)] ++
                     from 1 v i8 (* pattern_type *) ++
                     [str (* principal *); str (* host *); i8 (* operation *); i8 (* permission_type *)])]].

(* ------------------------------------------------------------------------------ 32 DescribeConfigs (v0-2) *)
Definition describe_configs_req (v : Z) : ty :=
  TSchema ([arr [i8 (* resource_type *); str (* resource_name *); arr1 str (* configuration_keys *)]] ++
           from 1 v boo (* include_synonyms *)).
Definition describe_configs_resp (v : Z) : ty :=
  TSchema [i32 (* throttle_time_ms *);
           arr [i16 (* error_code *); str (* error_message *); i8 (* resource_type *); str (* resource_name *);
                arr ([str (* name *); str (* value *); boo (* read_only *)] ++
                     upto 0 v boo (* is_default *) ++
                     from 1 v i8 (* config_source *) ++
                     [boo (* is_sensitive *)] ++
                     from 1 v (arr [str (* name *); str (* value *); i8 (* source *)]) (* synonyms *))]].

(* ------------------------------------------------------------------------------ 33 AlterConfigs (v0-1) *)
Definition alter_configs_req (v : Z) : ty :=
  TSchema [arr [i8 (* resource_type *); str (* resource_name *); arr [str (* name *); str (* value *)]];
           boo (* validate_only *)].
Definition alter_configs_resp (v : Z) : ty :=
  TSchema [i32 (* throttle_time_ms *);
           arr [i16 (* error_code *); str (* error_message *); i8 (* resource_type *); str (* resource_name *)]].

(* ------------------------------------------------------------------------------ 36 SaslAuthenticate (v0-1) *)
Definition sasl_authenticate_req (v : Z) : ty := TSchema [byt (* auth_bytes *)].
Definition sasl_authenticate_resp (v : Z) : ty :=
  TSchema ([i16 (* error_code *); str (* error_message *); byt (* auth_bytes *)] ++
           from 1 v i64 (* session_lifetime_ms *)).

(* ------------------------------------------------------------------------------ 37 CreatePartitions (v0-1) *)
Definition create_partitions_req (v : Z) : ty :=
  TSchema [arr [str (* name *); i32 (* count *); arr [arr1 i32 (* broker_ids *)] (* assignments *)];
           i32 (* timeout_ms *); boo (* validate_only *)].
Definition create_partitions_resp (v : Z) : ty :=
  TSchema [i32 (* throttle_time_ms *); arr [str (* name *); i16 (* error_code *); str (* error_message *)]].

(* ------------------------------------------------------------------------------ 42 DeleteGroups (v0-1) *)
Definition delete_groups_req (v : Z) : ty := TSchema [arr1 str (* groups_names *)].
Definition delete_groups_resp (v : Z) : ty :=
  TSchema [i32 (* throttle_time_ms *); arr [str (* group_id *); i16 (* error_code *)]].

(* ------------------------------------------------------------------------------ 45 AlterPartitionReassignments (v0, flexible) *)
Definition alter_reassign_req (v : Z) : ty :=
  TSchema [i32 (* timeout_ms *);
           arr [str (* name *); arr [i32 (* partition_index *); arr1 i32 (* replicas *)]]].
Definition alter_reassign_resp (v : Z) : ty :=
  TSchema [i32 (* throttle_time_ms *); i16 (* error_code *); str (* error_message *);
           arr [str (* name *); arr [i32 (* partition_index *); i16 (* error_code *); str (* error_message *)]]].

(* ------------------------------------------------------------------------------ 46 ListPartitionReassignments (v0, flexible) *)
Definition list_reassign_req (v : Z) : ty :=
  TSchema [i32 (* timeout_ms *); arr [str (* name *); arr1 i32 (* partition_indexes *)]].
Definition list_reassign_resp (v : Z) : ty :=
  TSchema [i32 (* throttle_time_ms *); i16 (* error_code *); str (* error_message *);
           arr [str (* name *);
                arr [i32 (* partition_index *); arr1 i32 (* replicas *); arr1 i32 (* adding_replicas *);
                     arr1 i32 (* removing_replicas *)]]].

(* ------------------------------------------------------------------------------ 48 DescribeClientQuotas (v0) *)
Definition describe_client_quotas_req (v : Z) : ty :=
  TSchema [arr [str (* entity_type *); i8 (* match_type *); str (* match *)]; boo (* strict *)].
Definition describe_client_quotas_resp (v : Z) : ty :=
  TSchema [i32 (* throttle_time_ms *); i16 (* error_code *); str (* error_message *);
           arr [arr [str (* entity_type *); str (* entity_name *)];
                arr [str (* key *); f64 (* value *)]]].

(* ------------------------------------------------------------------------------ the table *)
(* api key, lowest and highest version stated here, first flexible version (or -1 when none
   of the stated versions is flexible), request layout, response layout *)
Record api_spec := mkApi {
  ap_key : Z; ap_lo : Z; ap_hi : Z; ap_flex_from : Z;
  ap_req : Z -> ty; ap_resp : Z -> ty
}.

Definition apis : list api_spec := [
  mkApi 0 0 8 (-1) produce_req produce_resp;
  mkApi 1 0 11 (-1) fetch_req fetch_resp;
  mkApi 2 0 5 (-1) list_offsets_req list_offsets_resp;
  mkApi 3 0 7 (-1) metadata_req metadata_resp;
  mkApi 8 0 4 (-1) offset_commit_req offset_commit_resp;
  mkApi 9 0 4 (-1) offset_fetch_req offset_fetch_resp;
  mkApi 10 0 2 (-1) find_coordinator_req find_coordinator_resp;
  mkApi 11 0 5 (-1) join_group_req join_group_resp;
  mkApi 12 0 3 (-1) heartbeat_req heartbeat_resp;
  mkApi 13 0 2 (-1) leave_group_req leave_group_resp;
  mkApi 14 0 3 (-1) sync_group_req sync_group_resp;
  mkApi 15 0 4 (-1) describe_groups_req describe_groups_resp;
  mkApi 16 0 2 (-1) list_groups_req list_groups_resp;
  mkApi 17 0 1 (-1) sasl_handshake_req sasl_handshake_resp;
  mkApi 18 0 2 (-1) api_versions_req api_versions_resp;
  mkApi 19 0 4 (-1) create_topics_req create_topics_resp;
  mkApi 20 0 3 (-1) delete_topics_req delete_topics_resp;
  mkApi 21 0 2 2 delete_records_req delete_records_resp;
  mkApi 22 0 1 (-1) init_producer_id_req init_producer_id_resp;
  mkApi 24 0 2 (-1) add_partitions_req add_partitions_resp;
  mkApi 25 0 2 (-1) add_offsets_req add_offsets_resp;
  mkApi 26 0 2 (-1) end_txn_req end_txn_resp;
  mkApi 28 0 1 (-1) txn_offset_commit_req txn_offset_commit_resp;
  mkApi 29 0 2 2 describe_acls_req describe_acls_resp;
  mkApi 30 0 1 (-1) create_acls_req create_acls_resp;
  mkApi 31 0 1 (-1) delete_acls_req delete_acls_resp;
  mkApi 32 0 2 (-1) describe_configs_req describe_configs_resp;
  mkApi 33 0 1 (-1) alter_configs_req alter_configs_resp;
  mkApi 36 0 1 (-1) sasl_authenticate_req sasl_authenticate_resp;
  mkApi 37 0 1 (-1) create_partitions_req create_partitions_resp;
  mkApi 42 0 1 (-1) delete_groups_req delete_groups_resp;
  mkApi 45 0 0 0 alter_reassign_req alter_reassign_resp;
  mkApi 46 0 0 0 list_reassign_req list_reassign_resp;
  mkApi 48 0 0 (-1) describe_client_quotas_req describe_client_quotas_resp
].

Definition find_api (key : Z) : option api_spec := find (fun a => ap_key a =? key) apis.

Definition covers (a : api_spec) (v : Z) : bool := (ap_lo a <=? v) && (v <=? ap_hi a).

Definition spec_flexible (key ver : Z) : option bool :=
  match find_api key with
  | Some a => if covers a ver then Some ((0 <=? ap_flex_from a) && (ap_flex_from a <=? ver)) else None
  | None => None
  end.

Definition finish (flex : bool) (t : ty) : ty := if flex then flexify t else t.

Definition spec_request (key ver : Z) : option ty :=
  match find_api key, spec_flexible key ver with
  | Some a, Some fl => Some (finish fl (ap_req a ver))
  | _, _ => None
  end.

Definition spec_response (key ver : Z) : option ty :=
  match find_api key, spec_flexible key ver with
  | Some a, Some fl => Some (finish fl (ap_resp a ver))
  | _, _ => None
  end.

(* ------------------------------------------------------------------------------ embedded formats *)
(* consumer group protocol ("consumer" embedded protocol) *)
Definition spec_consumer_subscription : ty :=
  TSchema [i16 (* version *); arr1 str (* topics *); byt (* user_data *)].
Definition spec_consumer_assignment : ty :=
  TSchema [i16 (* version *); arr [str (* topic *); arr1 i32 (* partitions *)]; byt (* user_data *)].
(* legacy message format: magic 0 and magic 1, and a message-set entry *)
Definition spec_message (magic : Z) : ty :=
  TSchema ([u32 (* crc *); i8 (* magic *); i8 (* attributes *)] ++ from 1 magic i64 (* timestamp *) ++
           [byt (* key *); byt (* value *)]).
Definition spec_message_set_item : ty := TSchema [i64 (* offset *); byt (* message (size-prefixed) *)].
