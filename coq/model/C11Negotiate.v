(* C11Negotiate.v — C11: model of Request.prepare (protocol/api.py) and of the version
   guards in the builders' build() methods, plus the independent table saying from which
   version on the Kafka protocol can express each parameter.  Definitions only. *)
From Coq Require Import ZArith List Bool.
From Verif Require Import Wire KafkaSpec.
Import ListNotations.
Open Scope Z_scope.

(* ------------------------------------------------------------------ Request.prepare *)
Definition in_rng (lo hi v : Z) : bool := (lo <=? v) && (v <=? hi).

Fixpoint index_from (n : nat) (l : list Z) : list (nat * Z) :=
  match l with
  | [] => []
  | v :: r => (n, v) :: index_from (S n) r
  end.

(* for req_class in reversed(self._CLASSES):
       if min_version <= req_class.API_VERSION <= max_version: return self.build(req_class) *)
Definition prepare_pick (vers : list Z) (lo hi : Z) : option (nat * Z) :=
  find (fun p => in_rng lo hi (snd p)) (rev (index_from 0 vers)).

Inductive outcome :=
| Chosen (idx : nat) (ver : Z)     (* build(_CLASSES[idx]) is called; ver = its API_VERSION *)
| ErrIncompatible                  (* IncompatibleBrokerVersion *)
| ErrNotImplemented                (* NotImplementedError *)
| ErrIndex.                        (* _CLASSES[0] on an empty tuple (never generated) *)

(* [vers]: API_VERSION of each member of _CLASSES, in order; [adv]: versions.get(API_KEY) *)
Definition prepare (vers : list Z) (allow_unknown : bool) (adv : option (Z * Z)) : outcome :=
  match adv with
  | None =>
      if allow_unknown then match vers with
                            | v :: _ => Chosen 0 v
                            | [] => ErrIndex
                            end
      else ErrIncompatible
  | Some (lo, hi) =>
      match prepare_pick vers lo hi with
      | Some (i, v) => Chosen i v
      | None => ErrNotImplemented
      end
  end.

Fixpoint sorted_lt (l : list Z) : bool :=
  match l with
  | a :: (b :: _) as r => (a <? b) && sorted_lt r
  | _ => true
  end.

(* ------------------------------------------------------------------ builder parameters *)
(* "present" means: the caller passed a value that differs from the protocol default *)
Inductive param :=
| PTransactionalId     (* ProduceRequest: transactional_id truthy *)
| PIsolationLevel      (* FetchRequest / OffsetRequest: isolation_level != 0 *)
| PCoordinatorType     (* FindCoordinatorRequest: coordinator_type != 0 *)
| PTimestampSearch     (* OffsetRequest: some partition asks for a timestamp >= 0 *)
| PAuthorizedOps       (* DescribeGroupsRequest: include_authorized_operations *)
| PPartitionsOmitted   (* OffsetFetchRequest: partitions is None ("all partitions") *)
| PValidateOnly        (* CreateTopicsRequest: validate_only *)
| PIncludeSynonyms     (* DescribeConfigsRequest: include_synonyms *)
| PTags                (* DeleteRecordsRequest: tags is not None *)
(* parameters the builders accept without any version guard *)
| PNoAutoTopicCreation (* MetadataRequest: allow_auto_topic_creation is False *)
| PGroupInstanceId     (* JoinGroupRequest / SyncGroupRequest: group_instance_id not None *)
| PRackId              (* FetchRequest: rack_id non-empty *)
| PPatternType.        (* Describe/Create/DeleteAclsRequest: resource_pattern_type_filter *)

Definition all_params : list param :=
  [PTransactionalId; PIsolationLevel; PCoordinatorType; PTimestampSearch; PAuthorizedOps;
   PPartitionsOmitted; PValidateOnly; PIncludeSynonyms; PTags;
   PNoAutoTopicCreation; PGroupInstanceId; PRackId; PPatternType].

Definition param_eqb (a b : param) : bool :=
  match a, b with
  | PTransactionalId, PTransactionalId | PIsolationLevel, PIsolationLevel
  | PCoordinatorType, PCoordinatorType | PTimestampSearch, PTimestampSearch
  | PAuthorizedOps, PAuthorizedOps | PPartitionsOmitted, PPartitionsOmitted
  | PValidateOnly, PValidateOnly | PIncludeSynonyms, PIncludeSynonyms | PTags, PTags
  | PNoAutoTopicCreation, PNoAutoTopicCreation | PGroupInstanceId, PGroupInstanceId
  | PRackId, PRackId | PPatternType, PPatternType => true
  | _, _ => false
  end.

(* which builder (by API key) takes which parameter *)
Definition applies (key : Z) (p : param) : bool :=
  match p with
  | PTransactionalId => key =? 0
  | PIsolationLevel => (key =? 1) || (key =? 2)
  | PCoordinatorType => key =? 10
  | PTimestampSearch => key =? 2
  | PAuthorizedOps => key =? 15
  | PPartitionsOmitted => key =? 9
  | PValidateOnly => key =? 19
  | PIncludeSynonyms => key =? 32
  | PTags => key =? 21
  | PNoAutoTopicCreation => key =? 3
  | PGroupInstanceId => (key =? 11) || (key =? 14)
  | PRackId => key =? 1
  | PPatternType => (key =? 29) || (key =? 30) || (key =? 31)
  end.

(* The version guards as written in the build() methods (hand-modelled from produce.py,
   fetch.py, offset.py, coordination.py, commit.py, admin.py; tied by the exhaustive
   correspondence of harness/c11.py).  true = a struct is built, false =
   IncompatibleBrokerVersion is raised. *)
Definition guard (key ver : Z) (present : param -> bool) : bool :=
  if key =? 0 then negb ((ver <? 3) && present PTransactionalId)
  else if key =? 1 then
    if ver =? 4 then true else if 5 <=? ver then true else negb (present PIsolationLevel)
  else if key =? 2 then
    if ver <? 2 then
      if present PIsolationLevel then false
      else if ver =? 0 then negb (present PTimestampSearch) else true
    else true
  else if key =? 10 then negb ((ver <? 1) && present PCoordinatorType)
  else if key =? 15 then negb ((ver <? 3) && present PAuthorizedOps)
  else if key =? 9 then negb ((ver <? 2) && present PPartitionsOmitted)
  else if key =? 19 then negb ((ver =? 0) && present PValidateOnly)
  else if key =? 32 then negb ((ver <? 1) && present PIncludeSynonyms)
  else if key =? 21 then negb ((ver <? 2) && present PTags)
  else true.

(* Independent of the code: from which version on the Kafka protocol can carry the
   parameter (for the API keys the parameter applies to; true elsewhere). *)
Definition expressible (key ver : Z) (p : param) : bool :=
  match p with
  | PTransactionalId => 3 <=? ver                       (* Produce v3: transactional_id *)
  | PIsolationLevel => if key =? 1 then 4 <=? ver        (* Fetch v4: isolation_level *)
                       else 2 <=? ver                    (* ListOffsets v2: isolation_level *)
  | PCoordinatorType => 1 <=? ver                       (* FindCoordinator v1: key_type *)
  | PTimestampSearch => 1 <=? ver                       (* ListOffsets v1: (timestamp, offset) reply *)
  | PAuthorizedOps => 3 <=? ver                         (* DescribeGroups v3 *)
  | PPartitionsOmitted => 2 <=? ver                     (* OffsetFetch v2: null topics = all *)
  | PValidateOnly => 1 <=? ver                          (* CreateTopics v1 *)
  | PIncludeSynonyms => 1 <=? ver                       (* DescribeConfigs v1 *)
  | PTags => 2 <=? ver                                  (* DeleteRecords v2 is flexible *)
  | PNoAutoTopicCreation => 4 <=? ver                   (* Metadata v4 *)
  | PGroupInstanceId => if key =? 11 then 5 <=? ver     (* JoinGroup v5 *)
                        else 3 <=? ver                  (* SyncGroup v3 *)
  | PRackId => 11 <=? ver                               (* Fetch v11 *)
  | PPatternType => 1 <=? ver                           (* *Acls v1 *)
  end.

(* the parameters named by the property (and by the builders' own guards): dropping one
   of them changes what the request means *)
Definition listed (p : param) : bool :=
  match p with
  | PTransactionalId | PIsolationLevel | PCoordinatorType | PTimestampSearch | PAuthorizedOps
  | PPartitionsOmitted | PValidateOnly | PIncludeSynonyms | PTags => true
  | _ => false
  end.

(* prepare followed by build: what the caller of Request.prepare observes *)
Definition negotiate (key : Z) (vers : list Z) (allow_unknown : bool) (adv : option (Z * Z))
                     (present : param -> bool) : outcome :=
  match prepare vers allow_unknown adv with
  | Chosen i v => if guard key v present then Chosen i v else ErrIncompatible
  | e => e
  end.

(* ------------------------------------------------------------------ link to KafkaSpec *)
(* number of top-level fields of primitive type [prim] in the specified request layout *)
Definition count_top (prim : ty) (o : option ty) : Z :=
  match o with
  | Some (TSchema fs) => blen (filter (ty_eqb prim) fs)
  | _ => -1
  end.

(* (api key, parameter, primitive type of the field that carries it, number of such
   top-level fields once the parameter is expressible).  PTimestampSearch and
   PPartitionsOmitted are not a matter of a top-level field and are not listed. *)
Definition param_fields : list (Z * param * ty * Z) :=
  [ (0, PTransactionalId, TString, 1);
    (1, PIsolationLevel, TInt8, 1); (2, PIsolationLevel, TInt8, 1);
    (10, PCoordinatorType, TInt8, 1);
    (15, PAuthorizedOps, TBool, 1);
    (19, PValidateOnly, TBool, 1);
    (32, PIncludeSynonyms, TBool, 1);
    (21, PTags, TTagged, 1);
    (3, PNoAutoTopicCreation, TBool, 1);
    (11, PGroupInstanceId, TString, 4); (14, PGroupInstanceId, TString, 3);
    (1, PRackId, TString, 1);
    (29, PPatternType, TInt8, 4) ].

Definition versions_of (key : Z) : list Z :=
  match find_api key with
  | Some a => map (fun n => ap_lo a + Z.of_nat n) (seq 0 (Z.to_nat (ap_hi a - ap_lo a + 1)))
  | None => []
  end.

Definition expressible_agrees_with_spec : bool :=
  forallb (fun '(key, p, prim, n) =>
             forallb (fun ver => Bool.eqb (expressible key ver p)
                                          (n <=? count_top prim (spec_request key ver)))
                     (versions_of key))
          param_fields.
