(* C03_TpState.v — the fields of aiokafka.consumer.subscription_state.TopicPartitionState that decide where
   consumption continues; the methods over them are GENERATED from source (gen/TpStateGen.v,
   translator/units_tps.py).  Futures kept beside these fields (_position_fut, _resume_fut, _committed_futs)
   are outside this record. *)
From Coq Require Import ZArith Bool.
Open Scope Z_scope.

Record tps := mkT {
  t_position : option Z;      (* _position *)
  t_reset : option Z;         (* _reset_strategy *)
  t_status : Z;               (* _status: PartitionStatus value *)
  t_paused : bool             (* _paused *)
}.

Definition AWAITING_RESET : Z := 0.
Definition CONSUMING : Z := 1.
Definition UNASSIGNED : Z := 2.

(* TopicPartitionState.__init__ *)
Definition tps_init : tps := mkT None None AWAITING_RESET false.
