(* Murmur2Java.v — org.apache.kafka.common.utils.Utils.murmur2 transcribed over Java's
   signed 32-bit `int` and signed `byte`.  Independent specification for C17.
   Every Java int operation wraps with [s32]; `>>>` is the logical shift of the unsigned
   representative. *)
From Coq Require Import ZArith List Bool.
Import ListNotations.
Open Scope Z_scope.

Definition s32 (x : Z) : Z := (x + 2147483648) mod 4294967296 - 2147483648.
Definition u32 (x : Z) : Z := x mod 4294967296.
Definition to_signed_byte (b : Z) : Z := if b <? 128 then b else b - 256.   (* Java byte of an octet *)

Definition jadd (a b : Z) := s32 (a + b).
Definition jmul (a b : Z) := s32 (a * b).
Definition jxor (a b : Z) := s32 (Z.lxor a b).
Definition jshl (a n : Z) := s32 (Z.shiftl a n).
Definition jushr (a n : Z) := s32 (Z.shiftr (u32 a) n).
Definition jand (a b : Z) := s32 (Z.land a b).

Definition J_SEED : Z := s32 2538058380.   (* 0x9747b28c as a Java int literal *)
Definition J_M : Z := 1540483477.          (* 0x5bd1e995 *)

Definition jmix (h b0 b1 b2 b3 : Z) : Z :=
  let k := jadd (jadd (jadd (jand b0 255) (jshl (jand b1 255) 8)) (jshl (jand b2 255) 16))
                (jshl (jand b3 255) 24) in
  let k := jmul k J_M in
  let k := jxor k (jushr k 24) in
  let k := jmul k J_M in
  let h := jmul h J_M in
  jxor h k.

(* the switch on length % 4, with Java's fall-through *)
Definition jtail (h : Z) (tl : list Z) : Z :=
  match tl with
  | [b0; b1; b2] =>
      let h := jxor h (jshl (jand b2 255) 16) in
      let h := jxor h (jshl (jand b1 255) 8) in
      let h := jxor h (jand b0 255) in jmul h J_M
  | [b0; b1] =>
      let h := jxor h (jshl (jand b1 255) 8) in
      let h := jxor h (jand b0 255) in jmul h J_M
  | [b0] => let h := jxor h (jand b0 255) in jmul h J_M
  | _ => h
  end.

Definition jfinal (h : Z) : Z :=
  let h := jxor h (jushr h 13) in
  let h := jmul h J_M in
  jxor h (jushr h 15).

Fixpoint jloop (l : list Z) (h : Z) : Z :=
  match l with
  | b0 :: b1 :: b2 :: b3 :: rest => jloop rest (jmix h b0 b1 b2 b3)
  | tl => jfinal (jtail h tl)
  end.

(* data: Java bytes (signed) *)
Definition murmur2_java (data : list Z) : Z :=
  jloop data (jxor J_SEED (s32 (Z.of_nat (length data)))).

(* Utils.toPositive(n) = n & 0x7fffffff ; partition = toPositive(murmur2(key)) % numPartitions *)
Definition java_partition (key : list Z) (num_partitions : Z) : Z :=
  (Z.land (murmur2_java key) 2147483647) mod num_partitions.
