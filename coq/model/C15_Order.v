(* C15 — the order in which the sticky assignor lists reassignment candidates when all members subscribe alike
   (sticky_assignor.py:_populate_sorted_partitions, the "round robin" branch): one partition per turn, always taken
   from a member that currently holds the most listed-so-far-remaining partitions.

   The model abstracts WHICH partition of the member is taken (the code takes one that had another owner in an
   older generation when there is one, otherwise the last of its list; the former by set.pop(), i.e. unspecified):
   a candidate order is represented by the list of the owners of the candidates, members are indices into the list
   of counts.  [order_ok] is the executable checker the correspondence runs on the real executor's
   sorted_partitions; [run] gives the remaining counts. *)
From Coq Require Import Arith List Bool.
Import ListNotations.

Definition maxl (l : list nat) : nat := fold_right Nat.max 0 l.

Fixpoint dec (l : list nat) (c : nat) : list nat :=
  match l, c with
  | [], _ => []
  | x :: r, 0 => pred x :: r
  | x :: r, S c' => x :: dec r c'
  end.

(* taking from member c is allowed: it has something left and nobody has more *)
Definition step_ok (l : list nat) (c : nat) : bool :=
  match nth_error l c with
  | Some x => (0 <? x) && (x =? maxl l)
  | None => false
  end.

Fixpoint order_ok (l : list nat) (o : list nat) : bool :=
  match o with
  | [] => true
  | c :: o' => step_ok l c && order_ok (dec l c) o'
  end.

Fixpoint run (l : list nat) (o : list nat) : list nat :=
  match o with
  | [] => l
  | c :: o' => run (dec l c) o'
  end.

(* complete: nothing is left to list *)
Definition exhausted (l : list nat) : bool := forallb (fun x => x =? 0) l.
