(* C09_MemRecords.v — the batch splitter: aiokafka/record/memory_records.py
   (_MemoryRecordsPy._cache_next / next_batch) and _crecords/memory_records.pyx
   (MemoryRecords._get_next).  All formats share Length at byte 8 and Magic at byte 16 of
   each batch; the splitter cuts [pos, pos + 12 + Length) and dispatches on the magic byte
   OF THAT SLICE.  A trailing part shorter than 12 bytes, or shorter than its declared
   length, is left alone (a partial batch at the end of a fetch response). *)
From Coq Require Import ZArith List Bool Lia.
From Verif Require Import C09Bytes C09_RecordV2.
Import ListNotations.
Open Scope Z_scope.

Definition MIN_SLICE : Z := 26.           (* LOG_OVERHEAD + RECORD_OVERHEAD_V0 *)

(* the magic byte as the implementation sees it: unsigned in Python (memoryview item),
   a signed C char in the compiled splitter *)
Definition magic_seen (i : impl) (b : Z) : Z :=
  match i with Py => b | Cy => if b <? 128 then b else b - 256 end.

(* the class chosen for a slice: both implementations test the magic they see against 2 *)
Definition is_legacy (m : Z) : bool := m <? 2.

(* result: the (magic, slice) pairs handed out, then Some trailing = the iteration ended
   normally leaving those bytes, None = CorruptRecordException was raised *)
Fixpoint split_fuel (fuel : nat) (i : impl) (l : bytes) : list (Z * bytes) * option bytes :=
  match fuel with
  | O => ([], None)
  | S f =>
      if blen l <? 12 then ([], Some l) else
      let length := signed_be (slice 8 12 l) in
      let too_short := match i with
                       | Py => false                      (* checked later, on the slice *)
                       | Cy => length <? 14
                       end in
      if too_short then ([], None) else
      if blen l <? 12 + length then ([], Some l) else
      if 12 + length <? MIN_SLICE then ([], None) else     (* Python: len(slice) < 26 *)
      let sl := firstn (Z.to_nat (12 + length)) l in
      let rest := skipn (Z.to_nat (12 + length)) l in
      let magic := magic_seen i (nth 16 sl 0) in
      let (bs, t) := split_fuel f i rest in
      ((magic, sl) :: bs, t)
  end.

Definition split (i : impl) (l : bytes) : list (Z * bytes) * option bytes :=
  split_fuel (S (List.length l)) i l.

(* the seeded defect of the original tree: magic read at a fixed buffer offset (16) of the
   WHOLE buffer instead of the slice — kept as a definition to show the theorem separates
   the two (props/C09.v: c09_split_fixed_offset_refuted) *)
Fixpoint split_fixed_fuel (fuel : nat) (whole l : bytes) : list (Z * bytes) * option bytes :=
  match fuel with
  | O => ([], None)
  | S f =>
      if blen l <? 12 then ([], Some l) else
      let length := signed_be (slice 8 12 l) in
      if length <? 14 then ([], None) else
      if blen l <? 12 + length then ([], Some l) else
      let sl := firstn (Z.to_nat (12 + length)) l in
      let rest := skipn (Z.to_nat (12 + length)) l in
      let magic := magic_seen Cy (nth 16 whole 0) in
      let (bs, t) := split_fixed_fuel f whole rest in
      ((magic, sl) :: bs, t)
  end.
Definition split_fixed (l : bytes) := split_fixed_fuel (S (List.length l)) l l.
