(* C09_RecordV2.v — Kafka message format v2 (DefaultRecordBatch): builder and reader of
   aiokafka/record/default_records.py (pure Python) and _crecords/default_records.pyx
   (compiled), as executable functions over byte lists.

   The two implementations differ in a few decisions; those are fields of [impl]:
     - the batch-size limit predicate of append();
     - how "no record appended yet" is detected (None vs the sentinel -1);
     - "send uncompressed if compression did not shrink the data" (Python only);
     - first/max timestamp written for a batch without records (0 vs -1);
     - how the appended record's size is obtained (measured vs precomputed).
   Compression codecs are parameters (compress, decompress).
   What the broker does to a produced batch before a consumer sees it (assign the base
   offset, optionally switch to LogAppendTime, set the control bit) is [stamp]. *)
From Coq Require Import ZArith List Bool Lia.
From Verif Require Import C09Bytes C09_Crc C09_Varint.
Import ListNotations.
Open Scope Z_scope.

(* ---- data ---------------------------------------------------------------------------- *)
Definition obytes := option bytes.
Definition olen (o : obytes) : Z := match o with None => 0 | Some b => blen b end.
Definition hdr := (bytes * obytes)%type.          (* header key as its UTF-8 bytes *)
Record record := mkRec {
  r_offset : Z; r_ts : Z; r_key : obytes; r_value : obytes; r_headers : list hdr }.

(* what a reader hands out per record *)
Record orecord := mkORec {
  o_offset : Z; o_ts : Z; o_tstype : Z; o_key : obytes; o_value : obytes; o_headers : list hdr }.

Record cfg := mkCfg {
  c_magic : Z; c_codec : Z; c_txn : bool; c_pid : Z; c_pepoch : Z; c_bseq : Z; c_batch_size : Z }.

Inductive impl := Py | Cy.

Definition HEADER_SIZE : Z := 61.
Definition ATTR_OFFSET : Z := 21.
Definition CODEC_MASK : Z := 7.
Definition TS_TYPE_MASK : Z := 8.
Definition TXN_MASK : Z := 16.
Definition CONTROL_MASK : Z := 32.

(* ---- one record ---------------------------------------------------------------------- *)
Definition enc_obytes (o : obytes) : bytes :=
  match o with
  | None => varint_enc (-1)
  | Some b => varint_enc (blen b) ++ b
  end.
Definition enc_hdr (h : hdr) : bytes :=
  varint_enc (blen (fst h)) ++ fst h ++ enc_obytes (snd h).
Definition enc_headers (hs : list hdr) : bytes :=
  varint_enc (Z.of_nat (List.length hs)) ++ concat (map enc_hdr hs).

(* attributes byte, timestamp delta, offset delta, key, value, headers *)
Definition enc_body (ts_delta offset : Z) (r : record) : bytes :=
  [0] ++ varint_enc ts_delta ++ varint_enc offset
      ++ enc_obytes (r_key r) ++ enc_obytes (r_value r) ++ enc_headers (r_headers r).

(* the size the builders precompute with size_of_varint (size_of / _size_of) *)
Definition size_obytes (o : obytes) : Z :=
  match o with
  | None => 1
  | Some b => varint_size (blen b) + blen b
  end.
Definition size_hdr (h : hdr) : Z :=
  varint_size (blen (fst h)) + blen (fst h) + size_obytes (snd h).
Definition size_of_kvh (r : record) : Z :=
  size_obytes (r_key r) + size_obytes (r_value r)
  + varint_size (Z.of_nat (List.length (r_headers r))) + fold_right (fun h a => size_hdr h + a) 0 (r_headers r).
Definition size_of_body (ts_delta offset : Z) (r : record) : Z :=
  1 + varint_size offset + varint_size ts_delta + size_of_kvh r.

(* ---- builder state ------------------------------------------------------------------- *)
(* b_buf: the record region (after the 61 header bytes); b_pos: the compiled builder's own
   position counter (its size()); first/max timestamp: None = not set *)
Record bstate := mkB {
  b_buf : bytes; b_pos : Z; b_first : option Z; b_max : option Z; b_last : Z; b_num : Z }.
Definition b_init : bstate := mkB [] HEADER_SIZE None None 0 0.

Definition is_unset (i : impl) (o : option Z) : bool :=
  match i, o with
  | _, None => true
  | Py, Some _ => false
  | Cy, Some t => t =? -1          (* _first_timestamp == -1 *)
  end.

Definition s32 (x : Z) : Z := (x + 2147483648) mod 4294967296 - 2147483648.

(* resize a buffer to n bytes (PyByteArray_Resize): truncate or zero-fill *)
Definition resize (n : Z) (l : bytes) : bytes :=
  firstn (Z.to_nat n) l ++ zeros (Z.to_nat n - List.length l).

Record meta := mkMeta { m_offset : Z; m_size : Z; m_ts : Z }.

(* size_in_bytes(offset, timestamp, key, value, headers) of both builders *)
Definition size_in_bytes (i : impl) (st : bstate) (r : record) : Z :=
  let delta := if is_unset i (b_first st) then 0
               else r_ts r - match b_first st with Some t => t | None => 0 end in
  let body := size_of_body delta (r_offset r) r in
  body + varint_size body.

Definition append (i : impl) (c : cfg) (st : bstate) (r : record) : bstate * option meta :=
  let first := is_unset i (b_first st) in
  let first_ts := match b_first st with Some t => t | None => 0 end in
  let delta := if first then 0 else r_ts r - first_ts in
  let body := enc_body delta (r_offset r) r in
  match i with
  | Py =>
      (* the record is encoded first, its length measured *)
      let message_len := blen body in
      let required := message_len + varint_size message_len in
      let cur := HEADER_SIZE + blen (b_buf st) in
      (* _first_timestamp is assigned before the size check *)
      let st1 := if first then mkB (b_buf st) (b_pos st) (Some (r_ts r)) (Some (r_ts r)) (b_last st) (b_num st)
                 else st in
      if (c_batch_size c <? required + cur) && negb first then (st1, None)
      else
        let mx := match b_max st1 with Some m => Z.max m (r_ts r) | None => r_ts r end in
        let buf := b_buf st1 ++ varint_enc message_len ++ body in
        (mkB buf (HEADER_SIZE + blen buf) (b_first st1) (Some mx) (r_offset r) (b_num st1 + 1),
         Some (mkMeta (r_offset r) required (r_ts r)))
  | Cy =>
      (* the size is precomputed, the buffer resized, the record encoded in place *)
      let msg_size := size_of_body delta (r_offset r) r in
      let size := msg_size + varint_size msg_size in
      let pos := b_pos st in
      if negb (r_offset r =? 0) && (c_batch_size c <=? pos + size) then (st, None)
      else
        let written := b_buf st ++ varint_enc msg_size ++ body in
        let buf := resize (pos + size - HEADER_SIZE) written in
        let fst' := if first then Some (r_ts r) else b_first st in
        let mx0 := if first then r_ts r else match b_max st with Some m => m | None => -1 end in
        let mx := if mx0 <? r_ts r then r_ts r else mx0 in
        (mkB buf (pos + size) fst' (Some mx) (s32 (r_offset r)) (b_num st + 1),
         Some (mkMeta (r_offset r) size (r_ts r)))
  end.

Fixpoint appends (i : impl) (c : cfg) (st : bstate) (rs : list record)
  : bstate * list (option meta) :=
  match rs with
  | [] => (st, [])
  | r :: rs' =>
      let (st1, m) := append i c st r in
      let (st2, ms) := appends i c st1 rs' in
      (st2, m :: ms)
  end.

Definition size (i : impl) (st : bstate) : Z :=
  match i with Py => HEADER_SIZE + blen (b_buf st) | Cy => b_pos st end.

(* the records of [rs] whose append was accepted *)
Fixpoint accepted (rs : list record) (ms : list (option meta)) : list record :=
  match rs, ms with
  | r :: rs', Some _ :: ms' => r :: accepted rs' ms'
  | _ :: rs', None :: ms' => accepted rs' ms'
  | _, _ => []
  end.

(* ---- header and build ------------------------------------------------------------------ *)
Definition attributes (c : cfg) (use_codec : bool) : Z :=
  Z.lor (if use_codec then Z.land (c_codec c) CODEC_MASK else 0) (if c_txn c then TXN_MASK else 0).

(* everything from the attributes field to the end: what the CRC covers *)
Definition crc_region (attrs last_off first_ts max_ts pid pepoch bseq num : Z) (payload : bytes) : bytes :=
  be 2 attrs ++ be 4 last_off ++ be 8 first_ts ++ be 8 max_ts ++ be 8 pid ++ be 2 pepoch
  ++ be 4 bseq ++ be 4 num ++ payload.

Definition assemble (base_offset leader_epoch magic : Z) (region : bytes) : bytes :=
  be 8 base_offset ++ be 4 (blen region + 9) ++ be 4 leader_epoch ++ be 1 magic
  ++ be 4 (crc32c region) ++ region.

Section Codec.
  Variable compress : Z -> bytes -> bytes.
  Variable decompress : Z -> bytes -> option bytes.

  Definition unset_ts (i : impl) : Z := match i with Py => 0 | Cy => -1 end.

  (* _maybe_compress + _write_header *)
  Definition build (i : impl) (c : cfg) (st : bstate) : bytes :=
    let codec := Z.land (c_codec c) CODEC_MASK in
    let data := b_buf st in
    let compressed := compress codec data in
    let use := if codec =? 0 then false
               else match i with
                    | Py => negb (blen data <=? blen compressed)
                    | Cy => true
                    end in
    let payload := if use then compressed else data in
    let first_ts := match i, b_first st with
                    | Py, Some t => t      (* `self._first_timestamp or 0` *)
                    | Cy, Some t => t
                    | _, None => unset_ts i
                    end in
    let max_ts := match b_max st with Some t => t | None => unset_ts i end in
    assemble 0 (-1) (c_magic c)
      (crc_region (attributes c use) (b_last st) first_ts max_ts (c_pid c) (c_pepoch c) (c_bseq c)
                  (b_num st) payload).

  Definition build_records (i : impl) (c : cfg) (rs : list record) : bytes :=
    build i c (fst (appends i c b_init rs)).

  (* ---- reader ------------------------------------------------------------------------ *)
  Record bheader := mkH {
    h_base : Z; h_length : Z; h_epoch : Z; h_magic : Z; h_crc : Z; h_attrs : Z; h_last : Z;
    h_first : Z; h_max : Z; h_pid : Z; h_pepoch : Z; h_bseq : Z; h_num : Z }.

  Definition bind {A B} (o : option A) (f : A -> option B) : option B :=
    match o with Some a => f a | None => None end.

  Definition take_s (n : Z) (l : bytes) : option (Z * bytes) :=
    bind (take n l) (fun p => Some (signed_be (fst p), snd p)).
  Definition take_u (n : Z) (l : bytes) : option (Z * bytes) :=
    bind (take n l) (fun p => Some (unsigned_be (fst p), snd p)).

  Definition read_header (l : bytes) : option (bheader * bytes) :=
    bind (take_s 8 l) (fun '(base, l) =>
    bind (take_s 4 l) (fun '(len, l) =>
    bind (take_s 4 l) (fun '(epoch, l) =>
    bind (take_s 1 l) (fun '(magic, l) =>
    bind (take_u 4 l) (fun '(crc, l) =>
    bind (take_s 2 l) (fun '(attrs, l) =>
    bind (take_s 4 l) (fun '(last, l) =>
    bind (take_s 8 l) (fun '(first, l) =>
    bind (take_s 8 l) (fun '(mx, l) =>
    bind (take_s 8 l) (fun '(pid, l) =>
    bind (take_s 2 l) (fun '(pepoch, l) =>
    bind (take_s 4 l) (fun '(bseq, l) =>
    bind (take_s 4 l) (fun '(num, l) =>
    Some (mkH base len epoch magic crc attrs last first mx pid pepoch bseq num, l)))))))))))))).

  Definition dec_obytes (l : bytes) : option (obytes * bytes) :=
    bind (varint_dec l) (fun '(n, l) =>
      if 0 <=? n then bind (take n l) (fun '(b, l) => Some (Some b, l))
      else Some (None, l)).

  (* header loop: `while header_count` on fuel (each header consumes at least 2 bytes) *)
  Fixpoint dec_headers (fuel : nat) (count : Z) (l : bytes) : option (list hdr * bytes) :=
    if count =? 0 then Some ([], l) else
    match fuel with
    | O => None
    | S f =>
        bind (varint_dec l) (fun '(klen, l) =>
          if klen <? 0 then None else
          bind (take klen l) (fun '(k, l) =>
          bind (dec_obytes l) (fun '(v, l) =>
          bind (dec_headers f (count - 1) l) (fun '(hs, l) => Some ((k, v) :: hs, l)))))
    end.

  (* _read_msg: one record; the declared length must equal the bytes consumed *)
  Definition read_msg (h : bheader) (l : bytes) : option (orecord * bytes) :=
    bind (varint_dec l) (fun '(length, l0) =>
    bind (varint_dec l0) (fun '(_, l) =>           (* record attributes, read as a varint *)
    bind (varint_dec l) (fun '(ts_delta, l) =>
    bind (varint_dec l) (fun '(off_delta, l) =>
    bind (dec_obytes l) (fun '(key, l) =>
    bind (dec_obytes l) (fun '(value, l) =>
    bind (varint_dec l) (fun '(hcount, l) =>
      if hcount <? 0 then None else
      bind (dec_headers (List.length l) hcount l) (fun '(hs, l) =>
        if blen l0 - blen l =? length then
          let lat := negb (Z.land (h_attrs h) TS_TYPE_MASK =? 0) in
          let ts := if lat then h_max h else h_first h + ts_delta in
          Some (mkORec (h_base h + off_delta) ts (if lat then 1 else 0) key value hs, l)
        else None)))))))).

  Fixpoint read_msgs (fuel : nat) (h : bheader) (n : Z) (l : bytes) : option (list orecord) :=
    if n <=? 0 then (match l with [] => Some [] | _ => None end)   (* unconsumed bytes *)
    else match fuel with
         | O => None
         | S f => bind (read_msg h l) (fun '(r, l) =>
                  bind (read_msgs f h (n - 1) l) (fun rs => Some (r :: rs)))
         end.

  (* a whole batch: header, optional decompression, records, trailing-bytes check *)
  Definition read_batch (l : bytes) : option (bheader * list orecord) :=
    bind (read_header l) (fun '(h, payload) =>
      let codec := Z.land (h_attrs h) CODEC_MASK in
      bind (if codec =? 0 then Some payload else decompress codec payload) (fun data =>
      bind (read_msgs (S (List.length data)) h (h_num h) data) (fun rs => Some (h, rs)))).

  Definition validate_crc (l : bytes) : bool :=
    match read_header l with
    | Some (h, _) => h_crc h =? crc32c (skipn 21 l)
    | None => false
    end.
End Codec.

(* ---- the broker's part ------------------------------------------------------------------ *)
(* base offset, partition leader epoch, optional LogAppendTime (sets the timestamp-type bit
   and MaxTimestamp), control bit; the CRC is recomputed over the changed region. *)
Record stampcfg := mkStamp { s_base : Z; s_epoch : Z; s_lat : option Z; s_control : bool }.

Definition stamp (s : stampcfg) (l : bytes) : bytes :=
  match read_header l with
  | None => l
  | Some (h, payload) =>
      let attrs := Z.lor (h_attrs h) (match s_lat s with Some _ => TS_TYPE_MASK | None => 0 end) in
      let attrs := Z.lor attrs (if s_control s then CONTROL_MASK else 0) in
      let mx := match s_lat s with Some t => t | None => h_max h end in
      assemble (s_base s) (s_epoch s) (h_magic h)
        (crc_region attrs (h_last h) (h_first h) mx (h_pid h) (h_pepoch h) (h_bseq h) (h_num h) payload)
  end.

(* identity "codec" used when no compression is involved *)
Definition no_compress (c : Z) (b : bytes) : bytes := b.
Definition no_decompress (c : Z) (b : bytes) : option bytes := Some b.
