(* C06_JoinScript.v — CoordinatorGroupRebalance.perform_group_join as a function from the
   coordinator's replies to the requests the member emits (hand model; tied to the real method by
   exhaustive differential testing over reply scripts on every run). *)
From Coq Require Import List Bool Arith.
Import ListNotations.

Inductive jerr :=
| MemberIdRequired (m : nat)    (* KIP-394: retry at once with the returned member id *)
| LoadInProgress                (* back off, then the caller retries *)
| UnknownMember                 (* reset generation, caller retries *)
| CoordinatorGone               (* coordinator dead, caller retries *)
| FatalJoin                     (* InconsistentGroupProtocol / InvalidSessionTimeout / InvalidGroupId / GroupAuthorization *)
| UnexpectedJoin.

Inductive reply :=
| JoinOk (gen member : nat) (leader : bool)
| JoinErr (e : jerr)
| ConnErr                       (* KafkaError from _send_req *)
| SubChanged                    (* subscription became inactive while waiting *)
| SyncOk
| SyncErr.                      (* any SyncGroup error code *)

Inductive request :=
| RJoin (protocols : list nat) (member : nat)
| RSync (gen member : nat) (leader : bool).

Inductive outcome := Joined | RetryLater | Raised | ScriptEnded.

(* member id 0 = "" (unknown) *)
Fixpoint join_script (asg : list nat) (mid : nat) (rs : list reply) : list request * outcome :=
  match rs with
  | [] => ([RJoin asg mid], ScriptEnded)
  | r :: rs' =>
      match r with
      | JoinErr (MemberIdRequired m) =>
          let (q, o) := join_script asg m rs' in (RJoin asg mid :: q, o)
      | JoinOk g m l =>
          ([RJoin asg mid; RSync g m l],
           match rs' with
           | SyncOk :: _ => Joined
           | [] => ScriptEnded
           | _ => RetryLater
           end)
      | JoinErr FatalJoin | JoinErr UnexpectedJoin => ([RJoin asg mid], Raised)
      | _ => ([RJoin asg mid], RetryLater)
      end
  end.
