(* Group.v — C05: group membership protocol as seen at the client boundary: coordinator
   barrier (JoinGroup / SyncGroup) composed with the members' rebalance life cycle
   (on_partitions_revoked -> JoinGroup -> SyncGroup -> adopt assignment -> on_partitions_assigned)
   and the delivery gate (reassignment_in_progress / assignment liveness).
   Code modelled: GroupCoordinator._on_join_prepare / ensure_active_group / _do_rejoin_group /
   _on_join_complete, CoordinatorGroupRebalance.perform_group_join, SubscriptionState.begin_/
   end_reassignment + assign_from_subscribed, Fetcher's check_assignment.  A ghost clock orders
   events so that ordering properties become state invariants. *)
From Coq Require Import List Bool Arith.
Import ListNotations.

Definition mid := nat.      (* member (consumer instance) *)
Definition tp := nat.       (* topic-partition id *)

Inductive phase :=
| PStable                   (* owns its assignment, no rebalance in progress *)
| PRevoking                 (* inside on_partitions_revoked *)
| PRevoked                  (* callback finished, JoinGroup not yet sent *)
| PJoining                  (* JoinGroup sent, waiting for the barrier *)
| PJoined (g : nat)         (* JoinGroup reply for generation g received *)
| PAssigning (g : nat).     (* adopted generation g's assignment (gate already open: assign_from_subscribed
                               precedes the callback), inside on_partitions_assigned *)

Record member := mkM {
  ph : phase;
  gate : bool;              (* reassignment in progress: nothing may be delivered *)
  owned : list tp;          (* partitions of the adopted assignment *)
  rev_end : nat             (* ghost: clock of the last completed on_partitions_revoked *)
}.

Record genrec := mkG {
  g_id : nat;
  g_members : list mid;
  g_dist : option (list (mid * list tp));   (* what SyncGroup distributed (decoded) *)
  g_jc : nat;                               (* ghost: clock of the JoinGroup barrier completion *)
  g_rev : list (mid * nat)                  (* ghost: each member's rev_end at that moment *)
}.

Record st := mkS {
  mem : list (mid * member);
  hist : list genrec;        (* newest first *)
  clock : nat;
  assign_log : list (nat * mid * nat)   (* ghost: (generation, member, clock) of every AssignBegin *)
}.

Inductive ev :=
| RevokeBegin (m : mid)
| RevokeEnd (m : mid)
| JoinSent (m : mid)
| JoinComplete (g : nat) (ms : list mid)
| SyncComplete (g : nat) (d : list (mid * list tp))
| AssignBegin (m : mid) (g : nat) (a : list tp)
| AssignEnd (m : mid)
| Deliver (m : mid) (p : tp)
| Gone (m : mid).            (* stopped / killed: never heard of again *)

Fixpoint lookup {A} (k : nat) (l : list (nat * A)) : option A :=
  match l with
  | [] => None
  | (k', v) :: tl => if Nat.eqb k k' then Some v else lookup k tl
  end.

Fixpoint update {A} (k : nat) (v : A) (l : list (nat * A)) : list (nat * A) :=
  match l with
  | [] => [(k, v)]
  | (k', v') :: tl => if Nat.eqb k k' then (k, v) :: tl else (k', v') :: update k v tl
  end.

Fixpoint find_gen (g : nat) (h : list genrec) : option genrec :=
  match h with
  | [] => None
  | r :: tl => if Nat.eqb (g_id r) g then Some r else find_gen g tl
  end.

Fixpoint set_dist (g : nat) (d : list (mid * list tp)) (h : list genrec) : list genrec :=
  match h with
  | [] => []
  | r :: tl => if Nat.eqb (g_id r) g
               then mkG (g_id r) (g_members r) (Some d) (g_jc r) (g_rev r) :: tl
               else r :: set_dist g d tl
  end.

Definition list_eqb (a b : list nat) : bool :=
  (Nat.eqb (length a) (length b)) && forallb (fun xy => Nat.eqb (fst xy) (snd xy)) (combine a b).

Definition fresh : member := mkM PStable false [] 0.
Definition get (s : st) (m : mid) : member := match lookup m (mem s) with Some x => x | None => fresh end.
Definition put (s : st) (m : mid) (x : member) : st :=
  mkS (update m x (mem s)) (hist s) (S (clock s)) (assign_log s).

Definition all_joining (s : st) (ms : list mid) : bool :=
  forallb (fun m => match ph (get s m) with PJoining | PJoined _ => true | _ => false end) ms.

Definition latest_gen (s : st) : nat := match hist s with r :: _ => g_id r | [] => 0 end.

(* may member m adopt generation g now?  Either its JoinGroup was answered with g (PJoined g), or it
   re-sent a JoinGroup while it is a member of the still current generation g and the coordinator
   answered with that same generation (a re-join that changes nothing does not start a rebalance) *)
Definition assign_ok (s : st) (m : mid) (g : nat) : bool :=
  match ph (get s m) with
  | PJoined g' => Nat.eqb g g'
  | PJoining => Nat.eqb g (latest_gen s) &&
                match find_gen g (hist s) with
                | Some r => existsb (Nat.eqb m) (g_members r)
                | None => false
                end
  | _ => false
  end.

Definition step (s : st) (e : ev) : option st :=
  match e with
  | RevokeBegin m =>
      let x := get s m in
      match ph x with
      | PStable => Some (put s m (mkM PRevoking true (owned x) (rev_end x)))
      | _ => None
      end
  | RevokeEnd m =>
      let x := get s m in
      match ph x with
      | PRevoking => Some (put s m (mkM PRevoked true (owned x) (S (clock s))))
      | _ => None
      end
  | JoinSent m =>
      let x := get s m in
      match ph x with
      | PRevoked | PJoining =>
          (* a failed join is retried without a second revoke callback *)
          Some (put s m (mkM PJoining true (owned x) (rev_end x)))
      | PJoined g =>
          (* the coordinator already counted this member into generation g but the member
             asks again (lost reply / failed sync): it either gets g's reply again or takes
             part in the next barrier *)
          Some (put s m (mkM (PJoined g) true (owned x) (rev_end x)))
      | _ => None
      end
  | JoinComplete g ms =>
      if (latest_gen s <? g) && all_joining s ms && negb (match ms with [] => true | _ => false end) then
        let mem' := fold_left (fun acc m =>
                       let x := get s m in update m (mkM (PJoined g) true (owned x) (rev_end x)) acc)
                     ms (mem s) in
        Some (mkS mem' (mkG g ms None (S (clock s)) (map (fun m => (m, rev_end (get s m))) ms) :: hist s)
                  (S (clock s)) (assign_log s))
      else None
  | SyncComplete g d =>
      match find_gen g (hist s) with
      | Some r => match g_dist r with
                  | None => Some (mkS (mem s) (set_dist g d (hist s)) (S (clock s)) (assign_log s))
                  | Some _ => None
                  end
      | None => None
      end
  | AssignBegin m g a =>
      let x := get s m in
      match find_gen g (hist s) with
      | Some r =>
          if assign_ok s m g then
            match g_dist r with
            | Some d =>
                let mine := match lookup m d with Some l => l | None => [] end in
                if list_eqb a mine then
                  Some (mkS (update m (mkM (PAssigning g) false a (rev_end x)) (mem s)) (hist s)
                            (S (clock s)) ((g, m, S (clock s)) :: assign_log s))
                else None
            | None => None
            end
          else None
      | None => None
      end
  | AssignEnd m =>
      let x := get s m in
      match ph x with
      | PAssigning g => Some (put s m (mkM PStable false (owned x) (rev_end x)))
      | _ => None
      end
  | Deliver m p =>
      let x := get s m in
      if negb (gate x) && existsb (Nat.eqb p) (owned x) then Some (mkS (mem s) (hist s) (S (clock s)) (assign_log s))
      else None
  | Gone m =>
      (* the process is gone; the coordinator may still count a JoinGroup it sent before *)
      Some (put s m (mkM (ph (get s m)) true [] (rev_end (get s m))))
  end.

Fixpoint run (s : st) (tr : list ev) : option st :=
  match tr with
  | [] => Some s
  | e :: tr' => match step s e with Some s' => run s' tr' | None => None end
  end.

Fixpoint first_reject (s : st) (tr : list ev) (i : nat) : option nat :=
  match tr with
  | [] => None
  | e :: tr' => match step s e with Some s' => first_reject s' tr' (S i) | None => Some i end
  end.

Definition init : st := mkS [] [] 0 [].

Definition replay (tr : list ev) : nat :=      (* 0 = accepted, S i = event i rejected *)
  match first_reject init tr 0 with None => 0 | Some i => S i end.

(* pairwise disjointness of a distributed assignment (what C14 proves of the assignors) *)
Fixpoint disjoint_b (d : list (mid * list tp)) : bool :=
  match d with
  | [] => true
  | (m, l) :: tl =>
      forallb (fun p => forallb (fun ml => negb (existsb (Nat.eqb p) (snd ml))) tl) l && disjoint_b tl
  end.
