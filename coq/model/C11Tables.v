(* C11Tables.v — C11: boolean checkers over the tables generated into gen/Schemas.v.
   The checkers take the tables as arguments, so this file does not depend on gen/.
   Definitions only; they are instantiated and proved (by computation) in
   proof/C11_tables.v. *)
From Coq Require Import ZArith List Bool String.
From Verif Require Import Wire WireTables KafkaSpec C11Negotiate.
Import ListNotations.
Open Scope string_scope.
Open Scope Z_scope.

(* ------------------------------------------------------------------ wire layout of a type *)
(* Two schemas put the same bytes on the wire when they agree after inlining nested
   structures (a Schema used directly as a field adds no framing; an array of a
   one-field structure is an array of that field). *)
Fixpoint flat (t : ty) : list ty :=
  match t with
  | TSchema fs => flat_map flat fs
  | TArray t' => [TArray (TSchema (flat t'))]
  | TCompactArray t' => [TCompactArray (TSchema (flat t'))]
  | p => [p]
  end.

Definition layout_eqb (a b : ty) : bool := ty_eqb (TSchema (flat a)) (TSchema (flat b)).

(* ------------------------------------------------------------------ known deviations *)
(* Structs of the current tree whose layout differs from the Kafka definition (see
   known_findings.d/C11.json; none is reachable through a Request builder).  The layout
   theorem is stated modulo this list; it is not consulted by any other checker. *)
Definition known_layout_deviations : list string :=
  [ "DescribeAclsRequest_v2"; "DescribeAclsResponse_v2" (* v2 is a flexible version in Kafka *) ].

Definition is_known (n : string) : bool := existsb (String.eqb n) known_layout_deviations.

(* the layouts found in the tree when the deviations were recorded (literal copies, for the
   witness examples in props/C11.v) *)
(* OffsetRequest_v4 as it was before the fix "ListOffsets v4/v5 request encodes
   current_leader_epoch as int32" (kept as a regression witness of the layout comparison) *)
Definition witness_OffsetRequest_v4_before_fix : ty :=
  TSchema [TInt32; TInt8; TArray (TSchema [TString; TArray (TSchema [TInt32; TInt64; TInt64])])].
Definition witness_DescribeAclsRequest_v2 : ty :=
  TSchema [TInt8; TString; TInt8; TString; TString; TInt8; TInt8].

(* ------------------------------------------------------------------ layout against the spec *)
Definition req_layout_ok (r : req_entry) : bool :=
  match spec_request (rq_key r) (rq_ver r), spec_flexible (rq_key r) (rq_ver r) with
  | Some s, Some fl => layout_eqb s (rq_schema r) && Bool.eqb fl (rq_flex r)
  | _, _ => true        (* version not stated in KafkaSpec: not covered *)
  end.

Definition resp_layout_ok (r : resp_entry) : bool :=
  match spec_response (rs_key r) (rs_ver r) with
  | Some s => layout_eqb s (rs_schema r)
  | None => true
  end.

Definition req_covered (r : req_entry) : bool :=
  match spec_request (rq_key r) (rq_ver r) with Some _ => true | None => false end.
Definition resp_covered (r : resp_entry) : bool :=
  match spec_response (rs_key r) (rs_ver r) with Some _ => true | None => false end.

(* Kafka StickyAssignor user data, version 1 *)
Definition spec_sticky_user_data_v1 : ty :=
  TSchema [TArray (TSchema [TString; TArray TInt32]); TInt32 (* generation *)].

Definition aux_spec : list (string * ty) :=
  [ ("RequestHeader_v1", spec_request_header false);
    ("RequestHeader_v2", spec_request_header true);
    ("ResponseHeader_v0", spec_response_header false);
    ("ResponseHeader_v1", spec_response_header true);
    ("ConsumerProtocolMemberMetadata", spec_consumer_subscription);
    ("ConsumerProtocolMemberAssignment", spec_consumer_assignment);
    ("ProtocolMetadata", spec_consumer_subscription);
    ("MemberAssignment", spec_consumer_assignment);
    ("StickyAssignorUserDataV1", spec_sticky_user_data_v1);
    ("Message", spec_message 1);
    ("Message_SCHEMAS_0", spec_message 0);
    ("Message_SCHEMAS_1", spec_message 1);
    ("MessageSet_ITEM", spec_message_set_item) ].

Definition lookup {A} (n : string) (l : list (string * A)) : option A :=
  match find (fun p => String.eqb (fst p) n) l with
  | Some p => Some (snd p)
  | None => None
  end.

Definition aux_layout_ok (e : string * ty) : bool :=
  match lookup (fst e) aux_spec with
  | Some s => layout_eqb s (snd e)
  | None => true
  end.

Definition aux_covered (e : string * ty) : bool :=
  match lookup (fst e) aux_spec with Some _ => true | None => false end.

(* the four header structs must exist (the pairing checker names them) *)
Definition headers_present (aux : list (string * ty)) : bool :=
  forallb (fun n => match lookup n aux with Some _ => true | None => false end)
          ["RequestHeader_v1"; "RequestHeader_v2"; "ResponseHeader_v0"; "ResponseHeader_v1"].

(* ------------------------------------------------------------------ pairing *)
Definition find_resp (resps : list resp_entry) (key ver : Z) : option resp_entry :=
  find (fun e => (rs_key e =? key) && (rs_ver e =? ver)) resps.

(* a flexible struct ends in a tagged-field buffer and uses only compact encodings;
   a non-flexible one uses none *)
Definition flex_consistent (fl : bool) (t : ty) : bool :=
  if fl then
    match t with
    | TSchema fs => match rev fs with TTagged :: _ => true | _ => false end
    | _ => false
    end && negb (uses_classic t)
  else negb (uses_flexible t).

(* the reply to request struct [r] is parsed with a schema equal to the schema of the
   response struct that carries r's own (api key, version), and both headers take the
   flexible form exactly when the struct says FLEXIBLE_VERSION *)
Definition pairing_ok (resps : list resp_entry) (r : req_entry) : bool :=
  (rq_resp_key r =? rq_key r) &&
  match find_resp resps (rq_key r) (rq_ver r) with
  | Some e => ty_eqb (rq_resp_schema r) (rs_schema e)
  | None => false
  end &&
  String.eqb (rq_req_header r) (if rq_flex r then "RequestHeader_v2" else "RequestHeader_v1") &&
  String.eqb (rq_resp_header r) (if rq_flex r then "ResponseHeader_v1" else "ResponseHeader_v0") &&
  flex_consistent (rq_flex r) (rq_schema r) &&
  flex_consistent (rq_flex r) (rq_resp_schema r).

(* ------------------------------------------------------------------ identity of the structs *)
Fixpoint nodup_zz (l : list (Z * Z)) : bool :=
  match l with
  | [] => true
  | (a, b) :: r => negb (existsb (fun p => (fst p =? a) && (snd p =? b)) r) && nodup_zz r
  end.

Definition req_name_ok (r : req_entry) : bool := (rq_name_ver r =? rq_ver r) && (0 <=? rq_ver r).
Definition resp_name_ok (r : resp_entry) : bool := (rs_name_ver r =? rs_ver r) && (0 <=? rs_ver r).

(* ------------------------------------------------------------------ builders *)
Definition builder_ok (reqs : list req_entry) (b : builder_entry) : bool :=
  sorted_lt (map snd (bd_classes b)) &&
  match bd_classes b with [] => false | _ => true end &&
  forallb (fun c => existsb (fun r => String.eqb (rq_name r) (fst c) && (rq_ver r =? snd c)
                                      && (rq_key r =? bd_key b)) reqs)
          (bd_classes b).

(* ------------------------------------------------------------------ all schemas of a run *)
Definition all_schemas (reqs : list req_entry) (resps : list resp_entry) (aux : list (string * ty))
  : list (string * ty) :=
  map (fun r => (rq_name r, rq_schema r)) reqs ++
  map (fun r => (rs_name r, rs_schema r)) resps ++ aux.
