(* C01_proof.v — invariants of the producer/leader model (model/Producer.v) *)
From Coq Require Import ZArith List Bool Lia ZifyBool.
From Verif Require Import Imp IncrSeq Producer.
Import ListNotations.
Open Scope Z_scope.
Ltac Zify.zify_post_hook ::= Z.to_euclidean_division_equations.

(* ---- the translated increment_sequence_number --------------------------------------- *)
Lemma incr_eq s n : incr s n = if 2147483647 <? s + n then s + n - 4294967296 else s + n.
Proof.
  unfold incr, IncrSeq.post, IncrSeq.run, IncrSeq.body, IncrSeq.init.
  cbv beta zeta delta [IncrSeq.set_seq IncrSeq.set_seqtp IncrSeq.v_seq IncrSeq.v_seqtp] iota.
  change (2147483648 - 1) with 2147483647.
  destruct (2147483647 <? s + n); reflexivity.
Qed.

Lemma incr_nowrap s n : s + n <= 2147483647 -> incr s n = s + n.
Proof. intros H. rewrite incr_eq. destruct (2147483647 <? s + n) eqn:E; lia. Qed.

Lemma incr_matches_kafka_nowrap s n :
  0 <= s -> 0 <= n -> s + n <= 2147483647 -> incr s n = incr_kafka s n.
Proof. intros. rewrite incr_nowrap by lia. unfold incr_kafka. lia. Qed.

(* the wrap-around clause of C01 is FALSE for the pinned code: *)
Lemma incr_wrap_negative : incr 2147483647 1 = -2147483648 /\ incr_kafka 2147483647 1 = 0.
Proof. split; vm_compute; reflexivity. Qed.

Lemma incr_in_range_iff_nowrap s n :
  0 <= s <= 2147483647 -> 0 < n <= 2147483647 ->
  (0 <= incr s n <= 2147483647 <-> s + n <= 2147483647).
Proof. intros Hs Hn. rewrite incr_eq. destruct (2147483647 <? s + n) eqn:E; lia. Qed.

(* ---- invariant ------------------------------------------------------------------------ *)
Definition pnl (s : st) : list nat :=
  match pend s with Some p => if inlog p then [] else precs p | None => [] end.

Record Inv (s : st) : Prop := {
  i_base : 0 <= base s;
  i_nseq : nseq s = base s + zlen' (log_records s) + zlen' (pnl s);
  i_exp : bexpected (bstate s) = base s + zlen' (log_records s);
  i_pend : forall p, pend s = Some p ->
      precs p <> [] /\ ploc p <> Applied OutOfOrder /\
      (inlog p = false -> pseq p = base s + zlen' (log_records s) /\
                          (ploc p = InQueue \/ ploc p = Sent)) /\
      (inlog p = true -> bstate s = Some (pseq p, zlen' (precs p)) /\
                         exists pre, blog s = pre ++ [(precs p, pseq p)]);
  i_recs : log_records s ++ pnl s ++ concat (uq s) = accepted s;
  i_ack : incl (acked s) (log_records s);
  i_ne : Forall (fun b => b <> []) (uq s)
}.

Ltac nm := unfold pnl, log_records in *;
  cbn [pend blog uq nseq bstate acked failed accepted base precs pseq ploc inlog] in *.

Definition Bound (s : st) : Prop := base s + zlen' (accepted s) < 2147483648.

Lemma zlen'_app a b : zlen' (a ++ b) = zlen' a + zlen' b.
Proof. unfold zlen'. rewrite app_length. lia. Qed.
Lemma zlen'_nonneg a : 0 <= zlen' a. Proof. unfold zlen'. lia. Qed.
Lemma zlen'_pos a : a <> [] -> 0 < zlen' a.
Proof. destruct a; [congruence|]. unfold zlen'. cbn [length]. lia. Qed.

Lemma snoc_last_spec q r q' : snoc_last q r = Some q' ->
  concat q' = concat q ++ [r] /\ (Forall (fun b => b <> []) q -> Forall (fun b => b <> []) q') /\ q <> [].
Proof.
  revert q'. induction q as [|b tl IH]; intros q' H; [discriminate|].
  destruct tl as [|b2 tl2].
  - cbn in H. inversion H; subst. cbn. rewrite !app_nil_r. repeat split; [|congruence].
    intros _. constructor; [|constructor]. destruct b; cbn; congruence.
  - change (snoc_last (b :: b2 :: tl2) r) with
      (match snoc_last (b2 :: tl2) r with Some tl' => Some (b :: tl') | None => None end) in H.
    destruct (snoc_last (b2 :: tl2) r) as [tl'|] eqn:E; [|discriminate].
    inversion H; subst. destruct (IH tl' eq_refl) as (Hc & Hf & _).
    cbn [concat]. rewrite Hc, app_assoc. repeat split; [|congruence].
    intros HF. inversion HF; subst. constructor; [assumption|]. apply Hf. assumption.
Qed.

Lemma log_records_app (l : list (list nat * Z)) x (sq : Z) : concat (map fst (l ++ [(x, sq)])) = concat (map fst l) ++ x.
Proof. rewrite map_app, concat_app. cbn. rewrite app_nil_r. reflexivity. Qed.

Lemma inv_init0 : Inv init0.
Proof.
  constructor; cbn; try lia; try reflexivity.
  - intros p H; discriminate.
  - intros x H; exact H.
  - constructor.
Qed.

Lemma inv_init_at ls lc : Inv (init_at ls lc).
Proof.
  constructor; cbn; try lia; try reflexivity.
  - intros p H; discriminate.
  - intros x H; exact H.
  - constructor.
Qed.

Lemma accepted_mono s e s' ov : step s e = Some (s', ov) ->
  base s' = base s /\ exists ext, accepted s' = accepted s ++ ext /\
  zlen' ext = count_accepts [e].
Proof.
  destruct e; cbn [step]; intros H.
  - destruct newb.
    + inversion H; subst; cbn. split; [reflexivity|]. exists [r]. split; reflexivity.
    + destruct (snoc_last (uq s) r); [|discriminate]. inversion H; subst; cbn.
      split; [reflexivity|]. exists [r]. split; reflexivity.
  - destruct (pend s) as [p|].
    + destruct (ploc p); inversion H; subst; cbn. split; [reflexivity|]. exists []. rewrite app_nil_r. split; reflexivity.
    + destruct (uq s); inversion H; subst; cbn. split; [reflexivity|]. exists []. rewrite app_nil_r. split; reflexivity.
  - destruct (pend s) as [p|]; [|discriminate]. destruct (ploc p); try discriminate.
    destruct (broker_verdict _ _ _); inversion H; subst; cbn; (split; [reflexivity|]; exists []; rewrite app_nil_r; split; reflexivity).
  - destruct (pend s) as [p|]; [|discriminate]. destruct (ploc p) as [| |v]; try discriminate.
    destruct v; inversion H; subst; cbn; (split; [reflexivity|]; exists []; rewrite app_nil_r; split; reflexivity).
  - destruct (pend s) as [p|]; [|discriminate]. destruct (ploc p); inversion H; subst; cbn;
      (split; [reflexivity|]; exists []; rewrite app_nil_r; split; reflexivity).
  - destruct (pend s) as [p|]; [|discriminate]. destruct (ploc p) as [| |v]; try discriminate.
    destruct v; inversion H; subst; cbn; (split; [reflexivity|]; exists []; rewrite app_nil_r; split; reflexivity).
  - destruct (pend s); [discriminate|]. destruct (uq s); [|discriminate]. inversion H; subst.
    split; [reflexivity|]. exists []. rewrite app_nil_r. split; reflexivity.
Qed.

(* ---- one step preserves the invariant and never yields OutOfOrder ----------------------- *)
Lemma step_inv s e s' ov :
  Inv s -> Bound s' -> step s e = Some (s', ov) -> Inv s' /\ ov <> Some OutOfOrder.
Proof.
  intros I B H. destruct I as [Ib In Ie Ip Ir Ia Ine].
  destruct s as [q pd ns bl bs ak fl ac ba]. nm. unfold Bound in B.
  destruct e; cbn [step] in H; nm.
  - (* Accept *)
    assert (G : forall q', concat q' = concat q ++ [r] -> Forall (fun b => b <> []) q' ->
              Inv (mkSt q' pd ns bl bs ak fl (ac ++ [r]) ba)).
    { intros q' Hc Hf. constructor; nm.
      - exact Ib.
      - exact In.
      - exact Ie.
      - exact Ip.
      - rewrite Hc. rewrite <- Ir. rewrite !app_assoc. reflexivity.
      - exact Ia.
      - exact Hf. }
    destruct newb.
    + injection H as Hs' Hov; subst s' ov. split; [|congruence]. apply G.
      * rewrite concat_app. cbn. reflexivity.
      * apply Forall_app. split; [assumption|]. constructor; [congruence|constructor].
    + destruct (snoc_last q r) as [q'|] eqn:E; [|discriminate].
      injection H as Hs' Hov; subst s' ov. destruct (snoc_last_spec _ _ _ E) as (Hc & Hf & _).
      split; [|congruence]. apply G; [exact Hc|exact (Hf Ine)].
  - (* Drain *)
    destruct pd as [p|].
    + destruct p as [pr ps pl pi]. nm.
      destruct pl; try discriminate. injection H as Hs' Hov; subst s' ov. split; [|congruence].
      destruct (Ip _ eq_refl) as (Hne & Hoo & Hf & Ht). nm.
      constructor; nm.
      * exact Ib.
      * exact In.
      * exact Ie.
      * intros p' Hp'. inversion Hp'; subst; nm. split; [assumption|]. split; [congruence|]. split.
        -- intros Hi. destruct (Hf Hi) as (Hs & _). split; [assumption|tauto].
        -- exact Ht.
      * exact Ir.
      * exact Ia.
      * exact Ine.
    + destruct q as [|b rest]; [discriminate|]. injection H as Hs' Hov; subst s' ov. split; [|congruence].
      pose proof (Forall_inv Ine) as Hbne. pose proof (Forall_inv_tail Ine) as Hrest.
      cbn [app concat] in *.
      change (zlen' []) with 0 in In.
      assert (Hb : 0 < zlen' b) by (apply zlen'_pos; assumption).
      assert (Hnw : ns + zlen' b <= 2147483647).
      { nm. rewrite <- Ir in B. rewrite !zlen'_app in B. pose proof (zlen'_nonneg (concat rest)). lia. }
      constructor; nm.
      * exact Ib.
      * rewrite incr_nowrap by exact Hnw. lia.
      * exact Ie.
      * intros p' Hp'. inversion Hp'; subst; nm. split; [assumption|]. split; [congruence|]. split.
        -- intros _. split; [lia|tauto].
        -- discriminate.
      * exact Ir.
      * exact Ia.
      * assumption.
  - (* Arrive *)
    destruct pd as [p|]; [|discriminate]. destruct p as [pr ps pl pi]. nm.
    destruct pl; try discriminate.
    destruct (Ip _ eq_refl) as (Hne & Hoo & Hf & Ht). nm.
    assert (Hcnt : 0 < zlen' pr) by (apply zlen'_pos; assumption).
    unfold broker_verdict in H.
    destruct pi.
    + (* already in the log: the leader answers Duplicate *)
      destruct (Ht eq_refl) as (Hbs & pre & Hpre). subst bs bl.
      cbn [bexpected] in H, Ie.
      rewrite log_records_app in *. rewrite app_nil_l in *.
      assert (Hneq : (ps =? (ps + zlen' pr) mod 2147483648) = false).
      { assert (Ha' : accepted s' = ac /\ base s' = ba).
        { destruct (ps =? _); [injection H as Hs' Hov; subst s' ov; split; reflexivity|].
          rewrite !Z.eqb_refl in H. cbn in H. injection H as Hs' Hov; subst s' ov; split; reflexivity. }
        destruct Ha' as (Ha' & Hb'). rewrite Ha', Hb' in B. rewrite <- Ir in B.
        rewrite !zlen'_app in B, Ie.
        pose proof (zlen'_nonneg (concat q)). pose proof (zlen'_nonneg (concat (map fst pre))).
        lia. }
      rewrite Hneq in H. rewrite !Z.eqb_refl in H. cbn [andb] in H.
      injection H as Hs' Hov; subst s' ov. split; [|congruence].
      constructor; nm; rewrite ?log_records_app.
      * exact Ib.
      * exact In.
      * cbn [bexpected]. exact Ie.
      * intros p' Hp'. injection Hp' as <-; nm. split; [assumption|]. split; [congruence|]. split.
        -- discriminate.
        -- intros _. split; [reflexivity|]. exists pre. reflexivity.
      * exact Ir.
      * exact Ia.
      * exact Ine.
    + (* first arrival: in sequence, appended *)
      destruct (Hf eq_refl) as (Hs & _).
      assert (Heq : (ps =? bexpected bs) = true) by (rewrite Ie, Hs; apply Z.eqb_refl).
      rewrite Heq in H. injection H as Hs' Hov; subst s' ov. split; [|congruence].
      constructor; nm.
      * exact Ib.
      * rewrite log_records_app, zlen'_app. change (zlen' []) with 0. lia.
      * rewrite log_records_app, zlen'_app. cbn [bexpected].
        nm. rewrite <- Ir in B. rewrite !zlen'_app in B.
        pose proof (zlen'_nonneg (concat q)). pose proof (zlen'_nonneg (concat (map fst bl))).
        lia.
      * intros p' Hp'. inversion Hp'; subst; nm. split; [assumption|]. split; [congruence|].
        split; [discriminate|].
        intros _. split; [reflexivity|]. exists bl. reflexivity.
      * rewrite log_records_app. rewrite <- app_assoc. exact Ir.
      * rewrite log_records_app. intros x Hx. apply in_or_app. left. apply Ia. exact Hx.
      * exact Ine.
  - (* ReplyOk *)
    destruct pd as [p|]; [|discriminate]. destruct p as [pr ps pl pi]. nm.
    destruct (Ip _ eq_refl) as (Hne & Hoo & Hf & Ht). nm.
    assert (Hin : pi = true /\ (pl = Applied Appended \/ pl = Applied Duplicate)).
    { destruct pl as [| |v]; try discriminate. destruct v; try discriminate;
      (destruct pi; [split; [reflexivity|tauto]|];
       destruct (Hf eq_refl) as (_ & [Hx|Hx]); discriminate). }
    destruct Hin as (-> & Hl).
    assert (Hs' : s' = mkSt q None ns bl bs (ak ++ pr) fl ac ba /\ ov = None).
    { destruct Hl as [Hl|Hl]; rewrite Hl in H; injection H as Hs' Hov; subst s' ov; split; reflexivity. }
    destruct Hs' as (-> & ->). split; [|congruence].
    destruct (Ht eq_refl) as (Hbs & pre & Hpre).
    constructor; nm.
    + exact Ib.
    + exact In.
    + exact Ie.
    + intros p' Hp'. discriminate.
    + exact Ir.
    + intros x Hx. apply in_app_or in Hx. destruct Hx as [Hx|Hx]; [apply Ia; exact Hx|].
      rewrite Hpre, log_records_app. apply in_or_app. right. exact Hx.
    + exact Ine.
  - (* ReplyRetry *)
    destruct pd as [p|]; [|discriminate]. destruct p as [pr ps pl pi]. nm.
    destruct (Ip _ eq_refl) as (Hne & Hoo & Hf & Ht). nm.
    assert (Hs' : s' = mkSt q (Some (mkPB pr ps InQueue pi)) ns bl bs ak fl ac ba /\ ov = None).
    { destruct pl; try discriminate; injection H as Hs' Hov; subst s' ov; split; reflexivity. }
    destruct Hs' as (-> & ->). split; [|congruence].
    constructor; nm.
    + exact Ib.
    + exact In.
    + exact Ie.
    + intros p' Hp'. inversion Hp'; subst; nm. split; [assumption|]. split; [congruence|]. split.
      * intros Hi. destruct (Hf Hi) as (Hs & _). split; [assumption|tauto].
      * exact Ht.
    + exact Ir.
    + exact Ia.
    + exact Ine.
  - (* ReplyFatal: only after an OutOfOrder verdict, which the invariant excludes *)
    destruct pd as [p|]; [|discriminate]. destruct p as [pr ps pl pi]. nm.
    destruct pl as [| |v]; try discriminate. destruct v; try discriminate.
    destruct (Ip _ eq_refl) as (_ & Hoo & _). nm. congruence.
  - (* FlushRet *)
    destruct pd; [discriminate|]. destruct q; [|discriminate].
    injection H as Hs' Hov; subst s' ov. split; [|congruence].
    constructor; nm; assumption.
Qed.

(* ---- whole runs --------------------------------------------------------------------------- *)
Lemma count_accepts_cons e tr : count_accepts (e :: tr) = count_accepts [e] + count_accepts tr.
Proof. unfold count_accepts. cbn [filter]. destruct e; cbn [length]; lia. Qed.

Lemma count_accepts_nonneg tr : 0 <= count_accepts tr.
Proof. unfold count_accepts. lia. Qed.

Lemma run_inv : forall tr s s' vs,
  Inv s -> base s + zlen' (accepted s) + count_accepts tr < 2147483648 ->
  run s tr = Some (s', vs) ->
  Inv s' /\ Forall (fun v => v <> OutOfOrder) vs /\ base s' = base s /\
  exists ext, accepted s' = accepted s ++ ext.
Proof.
  induction tr as [|e tr IH]; intros s s' vs I B H.
  - cbn [run] in H. injection H as <- <-. split; [assumption|]. split; [constructor|].
    split; [reflexivity|]. exists []. rewrite app_nil_r. reflexivity.
  - cbn [run] in H. destruct (step s e) as [[s1 ov]|] eqn:E; [|discriminate].
    destruct (run s1 tr) as [[s2 vs2]|] eqn:E2; [|discriminate].
    inversion H; subst s2 vs. clear H.
    destruct (accepted_mono _ _ _ _ E) as (Hb1 & ext1 & Ha1 & Hl1).
    rewrite count_accepts_cons in B.
    assert (B1 : Bound s1).
    { unfold Bound. rewrite Hb1, Ha1, zlen'_app, Hl1. pose proof (count_accepts_nonneg tr). lia. }
    destruct (step_inv _ _ _ _ I B1 E) as (I1 & Hov).
    assert (B1' : base s1 + zlen' (accepted s1) + count_accepts tr < 2147483648).
    { rewrite Hb1, Ha1, zlen'_app, Hl1. lia. }
    destruct (IH _ _ _ I1 B1' E2) as (I2 & Hvs & Hb2 & ext2 & Ha2).
    split; [|split; [|split]].
    + assumption.
    + destruct ov as [v|]; [constructor; [congruence|assumption]|assumption].
    + congruence.
    + exists (ext1 ++ ext2). rewrite Ha2, Ha1, app_assoc. reflexivity.
Qed.

Lemma NoDup_app_l {A} (l1 l2 : list A) : NoDup (l1 ++ l2) -> NoDup l1.
Proof.
  induction l1 as [|x l1 IH]; intros H; [constructor|].
  cbn in H. inversion H; subst. constructor.
  - intros Hin. apply H2. apply in_or_app. left. exact Hin.
  - apply IH. assumption.
Qed.

(* Main theorem for the idempotent producer, from a fresh sequence state. *)
Theorem idem_run_correct tr s' vs :
  count_accepts tr < 2147483648 ->
  run init0 tr = Some (s', vs) ->
  (* never a gap, never a reused sequence: every arrival is in sequence or a whole duplicate *)
  Forall (fun v => v = Appended \/ v = Duplicate) vs /\
  (* the leader's log is a prefix of the accepted records, in acceptance order *)
  (exists rest, accepted s' = log_records s' ++ rest) /\
  (* at most once *)
  (NoDup (accepted s') -> NoDup (log_records s')) /\
  (* every acknowledged record is in the log *)
  incl (acked s') (log_records s').
Proof.
  intros B H.
  destruct (run_inv tr init0 s' vs inv_init0) as (I & Hvs & _ & _); [cbn; lia|exact H|].
  destruct I as [Ib In Ie Ip Ir Ia Ine].
  split; [|split; [|split]].
  - eapply Forall_impl; [|exact Hvs]. intros v Hv. destruct v; tauto.
  - exists (pnl s' ++ concat (uq s')). symmetry. exact Ir.
  - intros Hnd. rewrite <- Ir in Hnd. eapply NoDup_app_l. exact Hnd.
  - exact Ia.
Qed.

Theorem idem_run_correct_at ls lc tr s' vs :
  0 <= ls -> 0 <= lc ->
  (ls + lc) mod 2147483648 + count_accepts tr < 2147483648 ->
  run (init_at ls lc) tr = Some (s', vs) ->
  Forall (fun v => v = Appended \/ v = Duplicate) vs /\
  (exists rest, accepted s' = log_records s' ++ rest) /\
  incl (acked s') (log_records s').
Proof.
  intros Hls Hlc B H.
  destruct (run_inv tr (init_at ls lc) s' vs (inv_init_at ls lc)) as (I & Hvs & _ & _);
    [cbn; lia|exact H|].
  destruct I as [Ib In Ie Ip Ir Ia Ine].
  split; [|split].
  - eapply Forall_impl; [|exact Hvs]. intros v Hv. destruct v; tauto.
  - exists (pnl s' ++ concat (uq s')). symmetry. exact Ir.
  - exact Ia.
Qed.

(* one batch of a partition in flight at a time: the model refuses a drain while the drained
   batch is neither acknowledged nor re-enqueued *)
Theorem one_in_flight s s' ov : step s Drain = Some (s', ov) ->
  pend s = None \/ exists p, pend s = Some p /\ ploc p = InQueue.
Proof.
  cbn [step]. destruct (pend s) as [p|]; [|tauto].
  destruct (ploc p) eqn:E; try discriminate. intros _. right. exists p. split; [reflexivity|assumption].
Qed.

(* a retried batch keeps its sequence number and its records *)
Theorem retry_keeps_sequence s p s1 s2 o1 o2 :
  pend s = Some p -> step s ReplyRetry = Some (s1, o1) -> step s1 Drain = Some (s2, o2) ->
  exists p2, pend s2 = Some p2 /\ pseq p2 = pseq p /\ precs p2 = precs p /\ nseq s2 = nseq s.
Proof.
  intros Hp H1 H2. cbn [step] in H1. rewrite Hp in H1.
  destruct (ploc p); try discriminate; inversion H1; subst; cbn in H2; inversion H2; subst; cbn;
    eexists; repeat split; reflexivity.
Qed.
