(* C07_order.v — add_before_produce at full strength for model/C07_Txn.v:
   on EVERY accepted trace, whenever a leader appends a transactional batch (or the group
   coordinator a transactional offset commit) the transaction coordinator is in Ongoing and has the
   partition (the group) registered.  No assumption on the client: this is what the repaired
   error_transaction / Sender._abortable_error guarantee together with muting and the priority rule.

   [kc]   per instance: what UNINITIALIZED / READY / "EndTxn applied" / FATAL imply for its sets;
   [kinv] global: epochs identify instances; the registered sets of the live instance are registered
          at the coordinator. *)
From Coq Require Import ZArith List Bool Arith Lia.
From Verif Require Import Imp TxnTable C16_TxnApi C07_Txn C07_client C07_env C07_atomic.
Import ListNotations.
Local Open Scope nat_scope.

(* ---------- per instance ------------------------------------------------------------------------------- *)
Record kc (c : client) : Prop := {
  kc_un : cst c = UNINIT -> txn_parts c = [] /\ grp c = false /\ slot c = None /\ cend c = false /\
          pend_parts c = [];
  kc_rdy : cst c = READY -> txn_parts c = [] /\ grp c = false /\ pend_parts c = [] /\
           (forall k st, slot c = Some (k, st) -> k = KEnd);
  kc_end : cend c = true ->
           queue c = [] /\ inflight c = [] /\ deadb c = [] /\ pend_parts c = [] /\ pend_offs c = [] /\
           cst c <> IN_TXN /\ cst c <> UNINIT /\ cst c <> ABORTABLE /\
           (forall k st, slot c = Some (k, st) -> k = KEnd);
  kc_toc : forall st, slot c = Some (KToc, st) -> grp c = true \/ cst c = FATAL;
  kc_fat : cst c = FATAL -> pend_offs c = [] /\ pend_parts c = [];
  kc_err : cerr c = true -> cst c = FATAL
}.
Definition gkc (s : gstate) : Prop := Forall kc (clients s).
Lemma gkc_get s i c : gkc s -> nth_error (clients s) i = Some c -> kc c.
Proof. unfold gkc. intros F H. rewrite Forall_forall in F. apply F. eapply nth_error_In; eauto. Qed.
Lemma gkc_put s i c' : gkc s -> kc c' -> gkc (put s i c').
Proof. unfold gkc, put. simpl. intros. apply Forall_set_nth; auto. Qed.

Lemma kc_client0 : kc client0.
Proof. constructor; simpl; intros; try discriminate; auto. Qed.

(* an update that touches none of the fields [kc] reads *)
Lemma kc_same c c' : kc c ->
  cst c' = cst c -> txn_parts c' = txn_parts c -> grp c' = grp c -> slot c' = slot c -> cend c' = cend c ->
  queue c' = queue c -> inflight c' = inflight c -> deadb c' = deadb c -> pend_parts c' = pend_parts c ->
  pend_offs c' = pend_offs c -> cerr c' = cerr c -> kc c'.
Proof.
  intros [A B C D E F] H1 H2 H3 H4 H5 H6 H7 H8 H9 H10 H11.
  constructor; rewrite ?H1, ?H2, ?H3, ?H4, ?H5, ?H6, ?H7, ?H8, ?H9, ?H10, ?H11; auto.
Qed.

(* when EndTxn was not applied yet only the clauses about the state matter; used for the many
   events that need cend = false *)
Lemma next_kind_cases c k : next_kind c = Some k ->
  (k = KParts /\ pend_parts c <> []) \/
  (pend_parts c = [] /\ pend_offs c <> [] /\ ((k = KToc /\ grp c = true) \/ (k = KOffs /\ grp c = false))) \/
  (pend_parts c = [] /\ pend_offs c = [] /\ k = KEnd /\ (cst c = COMMITTING \/ cst c = ABORTING)).
Proof.
  unfold next_kind. destruct (pend_parts c) eqn:P; simpl.
  - destruct (pend_offs c) eqn:O; simpl.
    + destruct (cst c); intros H; inversion H; subst; right; right; auto.
    + destruct (grp c); intros H; inversion H; subst; right; left; repeat split; auto; discriminate.
  - intros H. inversion H. left. split; [reflexivity | discriminate].
Qed.

Ltac kget GK Hn := pose proof (gkc_get _ _ _ GK Hn) as [A B C D E F].

Lemma step_gkc s e s' : step s e = Some s' -> gcinv s -> gkc s -> gkc s'.
Proof.
  intros H GC GK. destruct e; unfold step in H; cbv beta iota zeta in H.
  - destruct (est (genv s)); inv_some. exact GK.
  - destruct (est (genv s)); inv_some. exact GK.
  - destruct (est (genv s)); inv_some; exact GK.
  - (* AStart *)
    destruct (get s i) as [c|] eqn:Hg; [|discriminate]. destruct (get_some _ _ _ Hg) as (Hn & _).
    destruct (cst c) eqn:E0; try discriminate. destruct (trans UNINIT READY) eqn:T; [|discriminate].
    destruct (memn ep (eissued (genv s))); [|discriminate]. inv_some.
    pose proof (trans_target _ _ _ T). subst t. kget GK Hn.
    destruct (A E0) as (A1 & A2 & A3 & A4 & A5).
    unfold gkc. simpl. apply Forall_set_nth; [exact GK|]. constructor; simpl; try discriminate; auto.
    + intros _. repeat split; auto. intros k st K. congruence.
    + rewrite A4. discriminate.
    + rewrite A3. discriminate.
    + intros K. rewrite (F K) in E0. discriminate.
  - (* ABegin *)
    wc H c c' Hg Hf. destruct (get_some _ _ _ Hg) as (Hn & _). kget GK Hn.
    destruct (slot c) eqn:Sl; [discriminate|]. destruct (trans (cst c) IN_TXN) eqn:T; [|discriminate]. inv_some.
    pose proof (trans_target _ _ _ T). subst t.
    apply trans_in_txn in T. destruct (B T) as (B1 & B2 & B3 & B4).
    apply gkc_put; auto. constructor; simpl; try discriminate; auto.
    rewrite Sl. discriminate.
  - (* AAccept *)
    wc H c c' Hg Hf. destruct (get_some _ _ _ Hg) as (Hn & _). kget GK Hn.
    destruct (cst c) eqn:S; try discriminate. destruct (Nat.eqb p GROUPP); [discriminate|].
    assert (Ce : cend c = false).
    { destruct (cend c) eqn:K; [|reflexivity]. destruct (C eq_refl) as (_ & _ & _ & _ & _ & K1 & _). congruence. }
    destruct newb.
    + destruct (has_part_q p (queue c) || has_bid b (queue c ++ inflight c ++ deadb c)); [discriminate|].
      inv_some. apply gkc_put; auto. constructor; simpl; rewrite ?S, ?Ce; try discriminate; auto.
    + destruct (snoc_item p b x (queue c)); [|discriminate]. inv_some.
      apply gkc_put; auto. constructor; simpl; rewrite ?S, ?Ce; try discriminate; auto.
  - (* AOffsets *)
    wc H c c' Hg Hf. destruct (get_some _ _ _ Hg) as (Hn & _). kget GK Hn.
    destruct (cst c) eqn:S; try discriminate. inv_some.
    assert (Ce : cend c = false).
    { destruct (cend c) eqn:K; [|reflexivity]. destruct (C eq_refl) as (_ & _ & _ & _ & _ & K1 & _). congruence. }
    apply gkc_put; auto. constructor; simpl; rewrite ?S, ?Ce; try discriminate; auto.
  - (* ACommitting *)
    wc H c c' Hg Hf. destruct (get_some _ _ _ Hg) as (Hn & _). kget GK Hn.
    destruct (trans (cst c) COMMITTING) eqn:T.
    + pose proof (trans_target _ _ _ T). subst t. pose proof (trans_committing _ _ T) as S.
      assert (c' = set_cst c COMMITTING) by (rewrite S in Hf; inversion Hf; reflexivity). subst c'.
      assert (Ce : cend c = false).
      { destruct (cend c) eqn:K; [|reflexivity]. destruct (C eq_refl) as (_ & _ & _ & _ & _ & K1 & _). congruence. }
      apply gkc_put; auto. constructor; simpl; rewrite ?Ce; try discriminate; auto.
      * intros st K. destruct (D st K) as [K1|K1]; [auto | congruence].
      * intros K. rewrite (F K) in S. discriminate.
    + destruct (cst c); discriminate.
  - (* AAborting *)
    wc H c c' Hg Hf. destruct (get_some _ _ _ Hg) as (Hn & _). kget GK Hn.
    destruct (trans (cst c) ABORTING) eqn:T; [|discriminate]. inv_some.
    pose proof (trans_target _ _ _ T). subst t.
    assert (Ce : cend c = false).
    { destruct (cend c) eqn:K; [|reflexivity]. destruct (C eq_refl) as (_ & _ & _ & _ & _ & K1 & _ & K3 & _).
      destruct (trans_aborting _ _ T); congruence. }
    apply gkc_put; auto. constructor; simpl; rewrite ?Ce; try discriminate; auto.
    + intros st K. destruct (D st K) as [K1|K1]; [auto|]. destruct (trans_aborting _ _ T); congruence.
    + intros K. rewrite (F K) in T. vm_compute in T. discriminate.
  - (* AComplete *)
    destruct (get s i) as [c|] eqn:Hg; [|discriminate]. destruct (get_some _ _ _ Hg) as (Hn & _). kget GK Hn.
    match type of H with (if ?g then _ else _) = _ => destruct g eqn:Gd; [|discriminate] end.
    apply andb_prop in Gd. destruct Gd as [Gd Gs]. apply andb_prop in Gd. destruct Gd as [Gd Gi].
    apply andb_prop in Gd. destruct Gd as [Gd Gq]. apply andb_prop in Gd. destruct Gd as [Gpp Gpo].
    apply is_niln_nil in Gi. apply is_niln_nil in Gq. apply is_niln_nil in Gpp. apply is_niln_nil in Gpo.
    assert (K : exists t, trans (cst c) READY = Some t /\ (cst c = COMMITTING \/ cst c = ABORTING) /\
                clients s' = set_nth i (set_deadb (set_grp (set_parts (set_cst c t) [] (pend_parts c)) false) [])
                                     (clients s)).
    { destruct (cst c); try discriminate; destruct (trans _ READY) eqn:T; try discriminate;
        inversion H; eexists; repeat split; auto. }
    destruct K as (t & T & St & K). pose proof (trans_target _ _ _ T). subst t.
    assert (Sk : forall k st, slot c = Some (k, st) -> k = KEnd).
    { intros k st K1. apply orb_prop in Gs. unfold slot_is in Gs. rewrite K1 in Gs.
      destruct Gs as [Gs|Gs]; [|apply andb_prop in Gs; destruct Gs as [Gs _]];
        apply andb_prop in Gs; destruct Gs as [Gs _]; destruct k; simpl in Gs; try discriminate; reflexivity. }
    unfold gkc. rewrite K. apply Forall_set_nth; [exact GK|].
    constructor; simpl; rewrite ?Gq, ?Gi, ?Gpp, ?Gpo; try discriminate; auto.
    + intros _. repeat split; auto; discriminate.
    + intros st K1. specialize (Sk _ _ K1). discriminate.
    + intros K1. rewrite (F K1) in St. destruct St; discriminate.
  - (* AError *)
    wc H c c' Hg Hf. destruct (get_some _ _ _ Hg) as (Hn & _). kget GK Hn.
    assert (K : exists t k st, trans (cst c) ABORTABLE = Some t /\ c' = c_err c t /\ slot c = Some (k, st) /\
                k <> KEnd /\ (cst c = IN_TXN \/ cst c = COMMITTING \/ cst c = ABORTING)).
    { destruct (slot c) as [[[] ?]|]; try discriminate; destruct (cst c); try discriminate;
        destruct (forallb _ (queue c)); try discriminate;
        match type of Hf with match ?t with _ => _ end = _ => destruct t eqn:T end; try discriminate;
        inversion Hf; do 3 eexists; (split; [reflexivity|]); (split; [reflexivity|]); (split; [reflexivity|]);
        (split; [discriminate|]); auto. }
    destruct K as (t & k & st & T & -> & Sl & Nk & St). pose proof (trans_target _ _ _ T). subst t.
    assert (Ce : cend c = false).
    { destruct (cend c) eqn:K; [|reflexivity]. destruct (C eq_refl) as (_ & _ & _ & _ & _ & _ & _ & _ & K3).
      specialize (K3 _ _ Sl). congruence. }
    apply gkc_put; auto. constructor; unfold c_err; simpl; rewrite ?Ce; try discriminate; auto.
    + intros st' K. destruct (D st' K) as [K1|K1]; [auto|]. destruct St as [K2|[K2|K2]]; congruence.
    + intros K. rewrite (F K) in St. destruct St as [K2|[K2|K2]]; discriminate.
  - (* AFatal *)
    wc H c c' Hg Hf. destruct (get_some _ _ _ Hg) as (Hn & _). kget GK Hn.
    destruct ((tcode (cst c) =? 1)%Z) eqn:Eu; [discriminate|].
    destruct (trans (cst c) FATAL) eqn:T; [|discriminate]. inv_some.
    pose proof (trans_target _ _ _ T). subst t.
    apply gkc_put; auto. constructor; unfold c_clear; simpl; try discriminate; auto.
    intros K. destruct (C K) as (C1 & C2 & C3 & C4 & C5 & C6 & C7 & C8 & C9). repeat split; auto; discriminate.
  - (* AKill *)
    destruct (nth_error (clients s) i) as [c|] eqn:Hn; [|discriminate]. inv_some.
    apply gkc_put; auto. eapply kc_same; [eapply gkc_get; eauto | reflexivity ..].
  - (* TPick *)
    wc H c c' Hg Hf. destruct (get_some _ _ _ Hg) as (Hn & _). kget GK Hn.
    destruct (slot c) eqn:Sl; [discriminate|].
    destruct k as [k1|]; destruct (next_kind c) as [k2|] eqn:NK; try discriminate.
    + destruct (skind_eqb k1 k2) eqn:Ek; [|discriminate]. inv_some. apply skind_eqb_eq in Ek. subst k2.
      apply gkc_put; auto. constructor; simpl; auto.
      * intros K. destruct (A K) as (A1 & A2 & A3 & A4 & A5).
        exfalso. destruct (next_kind_cases _ _ NK) as [(K1 & K2)|[(K1 & K2 & K3)|(K1 & K2 & K3 & K4)]].
        -- congruence.
        -- destruct (ci_idle _ (gcinv_get _ _ _ GC Hn) (or_introl K)) as (_ & _ & _ & Q4). congruence.
        -- destruct K4; congruence.
      * intros K. destruct (B K) as (B1 & B2 & B3 & B4).
        exfalso. destruct (next_kind_cases _ _ NK) as [(K1 & K2)|[(K1 & K2 & K3)|(K1 & K2 & K3 & K4)]].
        -- congruence.
        -- destruct (ci_idle _ (gcinv_get _ _ _ GC Hn) (or_intror K)) as (_ & _ & _ & Q4). congruence.
        -- destruct K4; congruence.
      * intros K. destruct (C K) as (C1 & C2 & C3 & C4 & C5 & C6 & C7 & C8 & C9). repeat split; auto.
        intros k st K1. inversion K1; subst.
        destruct (next_kind_cases _ _ NK) as [(K2 & K3)|[(K2 & K3 & K4)|(K2 & K3 & K4 & K5)]]; congruence.
      * intros st K1. inversion K1; subst.
        destruct (next_kind_cases _ _ NK) as [(K2 & K3)|[(K2 & K3 & [(K4 & K5)|(K4 & K5)])|(K2 & K3 & K4 & K5)]];
          try discriminate; auto.
    + inv_some. apply gkc_put; auto. eapply gkc_get; eauto.
  - (* TDone *)
    wc H c c' Hg Hf. destruct (get_some _ _ _ Hg) as (Hn & _). kget GK Hn.
    destruct (slot c); [|discriminate]. inv_some.
    apply gkc_put; auto. constructor; simpl; auto; try discriminate.
    + intros K. destruct (A K) as (A1 & A2 & _ & A4 & A5). auto.
    + intros K. destruct (B K) as (B1 & B2 & B3 & _). repeat split; auto. discriminate.
    + intros K. destruct (C K) as (C1 & C2 & C3 & C4 & C5 & C6 & C7 & C8 & C9). repeat split; auto; discriminate.
  - (* CPartAdded *)
    wc H c c' Hg Hf. destruct (get_some _ _ _ Hg) as (Hn & _). kget GK Hn.
    match type of Hf with (if ?g then _ else _) = _ => destruct g eqn:Gd; [|discriminate] end. inv_some.
    apply andb_prop in Gd. destruct Gd as [Gd _]. apply andb_prop in Gd. destruct Gd as [Gs Gm].
    apply slot_is_true in Gs. apply memn_In in Gm.
    apply gkc_put; auto. constructor; simpl; auto.
    + intros K. destruct (A K) as (_ & _ & A3 & _). congruence.
    + intros K. exfalso. destruct (B K) as (_ & _ & _ & B4). specialize (B4 _ _ Gs). discriminate.
    + intros K. destruct (C K) as (C1 & C2 & C3 & C4 & C5 & C6 & C7 & C8 & C9). rewrite C4 in Gm. destruct Gm.
    + intros K. destruct (E K) as (E1 & E2). rewrite E2 in Gm. destruct Gm.
  - (* CGroupAdded *)
    wc H c c' Hg Hf. destruct (get_some _ _ _ Hg) as (Hn & _). kget GK Hn.
    destruct (slot_is c KOffs SApplied) eqn:Gs; [|discriminate]. inv_some. apply slot_is_true in Gs.
    apply gkc_put; auto. constructor; simpl; auto.
    + intros K. destruct (A K) as (_ & _ & A3 & _). congruence.
    + intros K. exfalso. destruct (B K) as (_ & _ & _ & B4). specialize (B4 _ _ Gs). discriminate.
  - (* COffCommitted *)
    wc H c c' Hg Hf. destruct (get_some _ _ _ Hg) as (Hn & _). kget GK Hn.
    destruct (slot_is c KToc SApplied && memn x (ctoc c)); [|discriminate].
    destruct (pend_offs c) as [|items rest] eqn:P; [discriminate|].
    destruct (memn x items); [|discriminate]. inv_some.
    apply gkc_put; auto. constructor; simpl; auto.
    + intros K. destruct (C K) as (_ & _ & _ & _ & C5 & _). discriminate.
    + intros K. destruct (E K) as (E1 & _). discriminate.
  - (* SDrain *)
    wc H c c' Hg Hf. destruct (get_some _ _ _ Hg) as (Hn & _). kget GK Hn.
    destruct (take_bid b (queue c)) as [[x q]|] eqn:T; [|discriminate].
    destruct (head_of (bpart x) (queue c)); [|discriminate].
    match type of Hf with (if ?g then _ else _) = _ => destruct g; [|discriminate] end. inv_some.
    destruct (take_bid_some _ _ _ _ T) as (T1 & _).
    apply gkc_put; auto. constructor; simpl; auto.
    intros K. destruct (C K) as (C1 & _). rewrite C1 in T1. destruct T1.
  - (* SOk *)
    wc H c c' Hg Hf. destruct (get_some _ _ _ Hg) as (Hn & _). kget GK Hn.
    destruct (take_bid b (inflight c)) as [[x f]|] eqn:T.
    + destruct (bapp x); [|discriminate]. inv_some. destruct (take_bid_some _ _ _ _ T) as (T1 & _).
      apply gkc_put; auto. constructor; simpl; auto.
      intros K. destruct (C K) as (_ & C2 & _). rewrite C2 in T1. destruct T1.
    + destruct (cst c); try discriminate. destruct (has_bid b (deadb c)); [|discriminate]. inv_some.
      apply gkc_put; auto. eapply gkc_get; eauto.
  - (* SRetry *)
    wc H c c' Hg Hf. destruct (get_some _ _ _ Hg) as (Hn & _). kget GK Hn.
    destruct (take_bid b (inflight c)) as [[x f]|] eqn:T.
    + inv_some. destruct (take_bid_some _ _ _ _ T) as (T1 & _).
      apply gkc_put; auto. constructor; simpl; auto.
      intros K. destruct (C K) as (_ & C2 & _). rewrite C2 in T1. destruct T1.
    + destruct (cst c); try discriminate. destruct (has_bid b (deadb c)); [|discriminate]. inv_some.
      apply gkc_put; auto. eapply gkc_get; eauto.
  - (* SFail *)
    wc H c c' Hg Hf. destruct (get_some _ _ _ Hg) as (Hn & _). kget GK Hn.
    destruct (take_bid b (inflight c)) as [[x f]|] eqn:T.
    + inv_some. destruct (take_bid_some _ _ _ _ T) as (T1 & _).
      apply gkc_put; auto. constructor; simpl; auto.
      intros K. destruct (C K) as (_ & C2 & _). rewrite C2 in T1. destruct T1.
    + destruct (take_bid b (queue c)) as [[x q]|] eqn:T2.
      * inv_some. destruct (take_bid_some _ _ _ _ T2) as (T1 & _).
        apply gkc_put; auto. constructor; simpl; auto.
        intros K. destruct (C K) as (C1 & _). rewrite C1 in T1. destruct T1.
      * destruct (cst c); try discriminate. destruct (has_bid b (deadb c)); [|discriminate]. inv_some.
        apply gkc_put; auto. eapply gkc_get; eauto.
  - (* RAddParts *)
    destruct (get s i) as [c|] eqn:Hg; [|discriminate]. destruct (get_some _ _ _ Hg) as (Hn & _). kget GK Hn.
    match type of H with (if ?g then _ else _) = _ => destruct g eqn:Gd; [|discriminate] end.
    apply andb_prop in Gd. destruct Gd as [Gd _]. apply andb_prop in Gd. destruct Gd as [Gs _].
    apply slot_is_true in Gs.
    assert (Ce : cend c = false).
    { destruct (cend c) eqn:K; [|reflexivity]. destruct (C eq_refl) as (_ & _ & _ & _ & _ & _ & _ & _ & K3).
      specialize (K3 _ _ Gs). discriminate. }
    assert (Nu : cst c <> UNINIT) by (intros K; destruct (A K) as (_ & _ & A3 & _); congruence).
    assert (KK : forall st', kc (set_slot c (Some (KParts, st')))).
    { intros st'. constructor; simpl.
      - intros K; contradiction.
      - intros K. exfalso. destruct (B K) as (_ & _ & _ & B4). specialize (B4 _ _ Gs). discriminate.
      - rewrite Ce. discriminate.
      - discriminate.
      - exact E.
      - exact F. }
    destruct v.
    + destruct (Nat.eqb (cep c) (eep (genv s)) && not_prep (genv s)); [|discriminate]. inv_some.
      apply (gkc_put s i); auto. eapply kc_same; [apply (KK SApplied) | reflexivity ..].
    + inv_some. apply gkc_put; auto.
  - (* RAddOffs *)
    destruct (get s i) as [c|] eqn:Hg; [|discriminate]. destruct (get_some _ _ _ Hg) as (Hn & _). kget GK Hn.
    destruct (slot_is c KOffs SPicked) eqn:Gs; [|discriminate]. apply slot_is_true in Gs.
    assert (Ce : cend c = false).
    { destruct (cend c) eqn:K; [|reflexivity]. destruct (C eq_refl) as (_ & _ & _ & _ & _ & _ & _ & _ & K3).
      specialize (K3 _ _ Gs). discriminate. }
    assert (Nu : cst c <> UNINIT) by (intros K; destruct (A K) as (_ & _ & A3 & _); congruence).
    assert (KK : forall st', kc (set_slot c (Some (KOffs, st')))).
    { intros st'. constructor; simpl.
      - intros K; contradiction.
      - intros K. exfalso. destruct (B K) as (_ & _ & _ & B4). specialize (B4 _ _ Gs). discriminate.
      - rewrite Ce. discriminate.
      - discriminate.
      - exact E.
      - exact F. }
    destruct v.
    + destruct (Nat.eqb (cep c) (eep (genv s)) && not_prep (genv s)); [|discriminate]. inv_some.
      apply (gkc_put s i); auto. eapply kc_same; [apply (KK SApplied) | reflexivity ..].
    + inv_some. apply gkc_put; auto.
  - (* RToc *)
    destruct (get s i) as [c|] eqn:Hg; [|discriminate]. destruct (get_some _ _ _ Hg) as (Hn & _). kget GK Hn.
    destruct (pend_offs c) as [|hd rest] eqn:P; [discriminate|].
    destruct (slot_is c KToc SPicked && list_eqb items hd) eqn:Gd; [|discriminate].
    apply andb_prop in Gd. destruct Gd as [Gs _]. apply slot_is_true in Gs.
    assert (Ce : cend c = false).
    { destruct (cend c) eqn:K; [|reflexivity]. destruct (C eq_refl) as (_ & _ & _ & _ & C5 & _). congruence. }
    assert (Nu : cst c <> UNINIT) by (intros K; destruct (A K) as (_ & _ & A3 & _); congruence).
    assert (KK : forall st', kc (set_slot c (Some (KToc, st')))).
    { intros st'. constructor; simpl.
      - intros K; contradiction.
      - intros K. exfalso. destruct (B K) as (_ & _ & _ & B4). specialize (B4 _ _ Gs). discriminate.
      - rewrite Ce. discriminate.
      - intros st0 _. exact (D _ Gs).
      - rewrite P. exact E.
      - exact F. }
    destruct v.
    + destruct (Nat.eqb (cep c) (eep (genv s))); [|discriminate]. inv_some.
      apply (gkc_put s i); auto. eapply kc_same; [apply (KK SApplied) | reflexivity ..].
    + inv_some. apply gkc_put; auto.
  - (* REndTxn *)
    destruct (get s i) as [c|] eqn:Hg; [|discriminate]. destruct (get_some _ _ _ Hg) as (Hn & _). kget GK Hn.
    match type of H with (if ?g then _ else _) = _ => destruct g eqn:Gd; [|discriminate] end.
    apply andb_prop in Gd. destruct Gd as [Gd Gm].
    apply andb_prop in Gd. destruct Gd as [Gd _]. apply andb_prop in Gd. destruct Gd as [Gd Gpo].
    apply andb_prop in Gd. destruct Gd as [Gd Gpp]. apply andb_prop in Gd. destruct Gd as [Gd Gi].
    apply andb_prop in Gd. destruct Gd as [Gs Gq].
    apply is_niln_nil in Gpo. apply is_niln_nil in Gi. apply is_niln_nil in Gq. apply is_niln_nil in Gpp.
    apply slot_is_true in Gs.
    assert (Kc : cst c = COMMITTING \/ cst c = ABORTING).
    { destruct (cst c), commit; try discriminate; auto. }
    assert (KA : kc (set_cend (set_deadb (set_csent (set_slot c (Some (KEnd, SApplied))) (csent c || commit)) []) true)).
    { constructor; simpl.
      - intros K. destruct Kc; congruence.
      - intros K. destruct Kc; congruence.
      - intros _. rewrite Gq, Gi, Gpp, Gpo. repeat split; auto; try (destruct Kc; congruence).
      - discriminate.
      - exact E.
      - exact F. }
    assert (KN : kc (set_slot c (Some (KEnd, SNotApplied)))).
    { constructor; simpl.
      - intros K. destruct Kc; congruence.
      - intros K. destruct Kc; congruence.
      - intros K. destruct (C K) as (C1 & C2 & C3 & C4 & C5 & C6 & C7 & C8 & C9). repeat split; auto.
        intros k st K1. inversion K1. reflexivity.
      - discriminate.
      - exact E.
      - exact F. }
    destruct v.
    + destruct (Nat.eqb (cep c) (eep (genv s))); [|discriminate].
      destruct (est (genv s)); try discriminate.
      * inv_some. apply (gkc_put s i); auto.
      * destruct (Bool.eqb commit0 commit); [|discriminate]. inv_some. apply gkc_put; auto.
    + inv_some. apply gkc_put; auto.
  - (* RProduce *)
    destruct (nth_error (clients s) i) as [c|] eqn:Hn; [|discriminate]. kget GK Hn.
    destruct (take_bid b (inflight c ++ match cst c with FATAL => deadb c | _ => [] end)) as [[x r]|] eqn:T;
      [|discriminate].
    destruct v.
    + destruct (Nat.eqb (cep c) (eep (genv s))); [|discriminate]. inv_some.
      apply (gkc_put s i); auto. constructor; simpl; auto.
      intros K. destruct (C K) as (C1 & C2 & C3 & C4 & C5 & C6 & C7 & C8 & C9).
      rewrite C2. simpl. repeat split; auto.
    + inv_some. exact GK.
Qed.

Lemma gkc_g0 n : gkc (g0 n).
Proof. unfold gkc, g0. simpl. apply Forall_forall. intros c H. apply repeat_spec in H. subst. apply kc_client0. Qed.

(* ---------- global: epochs and registration ------------------------------------------------------------- *)
Definition startedc (c : client) : Prop := cst c <> UNINIT.
Definition livec (s : gstate) (c : client) : Prop := cst c <> UNINIT /\ cep c = eep (genv s).

Record kinv (s : gstate) : Prop := {
  k_le : forall i c, cl s i = Some c -> startedc c -> cep c <= eep (genv s);
  k_iss : forall e, In e (eissued (genv s)) -> e <= eep (genv s);
  k_nd : NoDup (eissued (genv s));
  k_ni : forall i c, cl s i = Some c -> startedc c -> ~ In (cep c) (eissued (genv s));
  k_uniq : forall i j c c', cl s i = Some c -> cl s j = Some c' -> startedc c -> startedc c' ->
           cep c = cep c' -> i = j;
  k_first : einit (genv s) = false ->
            (forall i c, cl s i = Some c -> cst c = UNINIT) /\ eissued (genv s) = [];
  k_1 : forall i c, cl s i = Some c -> livec s c -> cend c = false ->
        (forall p, In p (txn_parts c) -> In p (eparts (genv s))) /\
        (grp c = true -> In GROUPP (eparts (genv s))) /\
        ((txn_parts c <> [] \/ grp c = true) -> est (genv s) = EOngoing);
  k_2 : forall i c, cl s i = Some c -> livec s c -> slot c = Some (KParts, SApplied) ->
        est (genv s) = EOngoing /\ forall p, In p (creq c) -> In p (eparts (genv s));
  k_3 : forall i c, cl s i = Some c -> livec s c -> slot c = Some (KOffs, SApplied) ->
        est (genv s) = EOngoing /\ In GROUPP (eparts (genv s));
  k_6 : forall i c, cl s i = Some c -> livec s c -> cst c = FATAL ->
        forall b, In b (inflight c ++ deadb c) -> est (genv s) = EOngoing /\ In (bpart b) (eparts (genv s))
}.

Lemma kinv_g0 n : kinv (g0 n).
Proof.
  constructor; simpl; intros; try contradiction; auto.
  - apply cl_g0 in H. subst. exfalso. apply H0. reflexivity.
  - constructor.
  - apply cl_g0 in H. apply cl_g0 in H0. subst. exfalso. apply H1. reflexivity.
  - split; [|reflexivity]. intros i c K. apply cl_g0 in K. subst. reflexivity.
  - apply cl_g0 in H. subst. destruct H0 as (K & _). exfalso. apply K. reflexivity.
  - apply cl_g0 in H. subst. discriminate.
  - apply cl_g0 in H. subst. discriminate.
  - apply cl_g0 in H. subst. discriminate.
Qed.

(* what [kinv] reads of the environment *)
Definition env_same2 (e e' : env) : Prop :=
  est e' = est e /\ eep e' = eep e /\ eparts e' = eparts e /\ eissued e' = eissued e /\ einit e' = einit e.

Section KUpdate.
  Variables (s s' : gstate) (i : nat) (c c' : client).
  Hypothesis Hc : cl s i = Some c.
  Hypothesis Hc' : cl s' i = Some c'.
  Hypothesis Hother : forall j, j <> i -> cl s' j = cl s j.
  Hypothesis Henv : env_same2 (genv s) (genv s').
  Hypothesis Hep : cep c' = cep c.
  Hypothesis Hun : cst c' = UNINIT <-> cst c = UNINIT.
  Hypothesis H1 : cend c' = false ->
    (cend c = false /\ incl (txn_parts c') (txn_parts c) /\ (grp c' = true -> grp c = true)) \/
    (txn_parts c' = [] /\ grp c' = false) \/
    (livec s c -> (forall p, In p (txn_parts c') -> In p (eparts (genv s))) /\
                  (grp c' = true -> In GROUPP (eparts (genv s))) /\
                  ((txn_parts c' <> [] \/ grp c' = true) -> est (genv s) = EOngoing)).
  Hypothesis H2 : slot c' = Some (KParts, SApplied) -> slot c = Some (KParts, SApplied) /\ creq c' = creq c.
  Hypothesis H3 : slot c' = Some (KOffs, SApplied) -> slot c = Some (KOffs, SApplied).
  Hypothesis H6 : cst c' = FATAL ->
    (cst c = FATAL /\
     forall b, In b (inflight c' ++ deadb c') -> exists b0, In b0 (inflight c ++ deadb c) /\ bpart b0 = bpart b) \/
    (livec s c -> forall b, In b (inflight c' ++ deadb c') ->
                  est (genv s) = EOngoing /\ In (bpart b) (eparts (genv s))).

  Lemma started_upd : startedc c' <-> startedc c.
  Proof. unfold startedc. tauto. Qed.
  Lemma live_upd : livec s' c' <-> livec s c.
  Proof. destruct Henv as (_ & E & _). unfold livec. rewrite E, Hep. tauto. Qed.

  Lemma kinv_client_upd : kinv s -> kinv s'.
  Proof.
    intros [Kle Kiss Knd Kni Kun Kf K1 K2 K3 K6].
    pose proof Henv as (Ve & Vp & Va & Vi & Vn).
    assert (LO : forall j c0, j <> i -> cl s' j = Some c0 -> (livec s' c0 <-> livec s c0)).
    { intros j c0 N A. unfold livec. rewrite Vp. tauto. }
    constructor; rewrite ?Ve, ?Vp, ?Va, ?Vi, ?Vn.
    - intros j c0 A B. destruct (Nat.eq_dec j i) as [->|N].
      + rewrite Hc' in A. inversion A; subst c0. rewrite Hep. apply (Kle i c Hc). apply started_upd. exact B.
      + rewrite Hother in A by exact N. eauto.
    - exact Kiss.
    - exact Knd.
    - intros j c0 A B. destruct (Nat.eq_dec j i) as [->|N].
      + rewrite Hc' in A. inversion A; subst c0. rewrite Hep. apply (Kni i c Hc). apply started_upd. exact B.
      + rewrite Hother in A by exact N. eauto.
    - intros j k c0 c1 A B S0 S1 E.
      destruct (Nat.eq_dec j i) as [->|N]; destruct (Nat.eq_dec k i) as [->|N'].
      + reflexivity.
      + rewrite Hc' in A. inversion A; subst c0. rewrite Hother in B by exact N'.
        apply (Kun i k c c1 Hc B); [apply started_upd; exact S0 | exact S1 | congruence].
      + rewrite Hc' in B. inversion B; subst c1. rewrite Hother in A by exact N.
        apply (Kun j i c0 c A Hc); [exact S0 | apply started_upd; exact S1 | congruence].
      + rewrite Hother in A by exact N. rewrite Hother in B by exact N'. eauto.
    - intros K. destruct (Kf K) as (Kf1 & Kf2). split; [|exact Kf2].
      intros j c0 A. destruct (Nat.eq_dec j i) as [->|N].
      + rewrite Hc' in A. inversion A; subst c0. apply Hun. eauto.
      + rewrite Hother in A by exact N. eauto.
    - intros j c0 A L Ce. destruct (Nat.eq_dec j i) as [->|N].
      + rewrite Hc' in A. inversion A; subst c0. apply live_upd in L.
        destruct (H1 Ce) as [(Q1 & Q2 & Q3)|[(Q1 & Q2)|Q]].
        * destruct (K1 i c Hc L Q1) as (P1 & P2 & P3). split; [|split].
          -- intros p Hp. apply P1. apply Q2. exact Hp.
          -- intros G. apply P2. auto.
          -- intros [G|G]; apply P3.
             ++ left. intros Z. apply G. destruct (txn_parts c') as [|y l]; [reflexivity|].
                exfalso. assert (In y (txn_parts c)) by (apply Q2; left; reflexivity). rewrite Z in H. destruct H.
             ++ right. auto.
        * rewrite Q1, Q2. split; [intros p []|]. split; [discriminate|]. intros [G|G]; [congruence | discriminate].
        * exact (Q L).
      + pose proof A as A'. rewrite Hother in A' by exact N. apply (K1 j c0 A'); [apply (LO j c0 N A); exact L | exact Ce].
    - intros j c0 A L Sl. destruct (Nat.eq_dec j i) as [->|N].
      + rewrite Hc' in A. inversion A; subst c0. apply live_upd in L. destruct (H2 Sl) as (Q1 & Q2).
        rewrite Q2. exact (K2 i c Hc L Q1).
      + pose proof A as A'. rewrite Hother in A' by exact N. apply (K2 j c0 A'); [apply (LO j c0 N A); exact L | exact Sl].
    - intros j c0 A L Sl. destruct (Nat.eq_dec j i) as [->|N].
      + rewrite Hc' in A. inversion A; subst c0. apply live_upd in L. exact (K3 i c Hc L (H3 Sl)).
      + pose proof A as A'. rewrite Hother in A' by exact N. apply (K3 j c0 A'); [apply (LO j c0 N A); exact L | exact Sl].
    - intros j c0 A L Fa b Hb. destruct (Nat.eq_dec j i) as [->|N].
      + rewrite Hc' in A. inversion A; subst c0. apply live_upd in L. destruct (H6 Fa) as [(Q1 & Q2)|Q].
        * destruct (Q2 b Hb) as (b0 & Q3 & Q4). rewrite <- Q4. exact (K6 i c Hc L Q1 b0 Q3).
        * exact (Q L b Hb).
      + pose proof A as A'. rewrite Hother in A' by exact N.
        apply (K6 j c0 A'); [apply (LO j c0 N A); exact L | exact Fa | exact Hb].
  Qed.
End KUpdate.

Lemma env_same2_refl e : env_same2 e e.
Proof. repeat split. Qed.

Lemma kinv_put s i c c' :
  cl s i = Some c -> kinv s ->
  cep c' = cep c -> (cst c' = UNINIT <-> cst c = UNINIT) ->
  (cend c' = false ->
    (cend c = false /\ incl (txn_parts c') (txn_parts c) /\ (grp c' = true -> grp c = true)) \/
    (txn_parts c' = [] /\ grp c' = false) \/
    (livec s c -> (forall p, In p (txn_parts c') -> In p (eparts (genv s))) /\
                  (grp c' = true -> In GROUPP (eparts (genv s))) /\
                  ((txn_parts c' <> [] \/ grp c' = true) -> est (genv s) = EOngoing))) ->
  (slot c' = Some (KParts, SApplied) -> slot c = Some (KParts, SApplied) /\ creq c' = creq c) ->
  (slot c' = Some (KOffs, SApplied) -> slot c = Some (KOffs, SApplied)) ->
  (cst c' = FATAL ->
    (cst c = FATAL /\
     forall b, In b (inflight c' ++ deadb c') -> exists b0, In b0 (inflight c ++ deadb c) /\ bpart b0 = bpart b) \/
    (livec s c -> forall b, In b (inflight c' ++ deadb c') ->
                  est (genv s) = EOngoing /\ In (bpart b) (eparts (genv s)))) ->
  forall e', env_same2 (genv s) e' -> kinv (put_env (put s i c') e').
Proof.
  intros Hc K A B C D E F e' He.
  apply (kinv_client_upd s (put_env (put s i c') e') i c c'); auto.
  - apply (cl_put_eq s i c). exact Hc.
  - intros j N. apply (cl_put_neq s i j c'). auto.
Qed.

(* the epoch moves on: nobody is live any more *)
Lemma kinv_fence s :
  kinv s -> kinv (put_env s (env_st (genv s) (EPrep false) (S (eep (genv s))))).
Proof.
  intros [Kle Kiss Knd Kni Kun Kf K1 K2 K3 K6].
  assert (NL : forall i c, cl s i = Some c -> ~ livec (put_env s (env_st (genv s) (EPrep false) (S (eep (genv s))))) c).
  { intros i c A (S0 & E). simpl in E. pose proof (Kle i c A S0). lia. }
  constructor; simpl.
  - intros i c A B. pose proof (Kle i c A B). lia.
  - intros e A. pose proof (Kiss e A). lia.
  - exact Knd.
  - exact Kni.
  - exact Kun.
  - exact Kf.
  - intros i c A L. exfalso. exact (NL i c A L).
  - intros i c A L. exfalso. exact (NL i c A L).
  - intros i c A L. exfalso. exact (NL i c A L).
  - intros i c A L. exfalso. exact (NL i c A L).
Qed.

Lemma kinv_initok s :
  kinv s ->
  kinv (put_env s (mkE EEmpty (if einit (genv s) then S (eep (genv s)) else eep (genv s)) true
                       ((if einit (genv s) then S (eep (genv s)) else eep (genv s)) :: eissued (genv s))
                       [] (glog (genv s)) None (edone (genv s)))).
Proof.
  intros [Kle Kiss Knd Kni Kun Kf K1 K2 K3 K6].
  destruct (einit (genv s)) eqn:I.
  - assert (NL : forall i c, cl s i = Some c -> cst c <> UNINIT -> cep c <> S (eep (genv s))).
    { intros i c A S0 E. pose proof (Kle i c A S0). lia. }
    constructor; simpl.
    + intros i c A B. pose proof (Kle i c A B). lia.
    + intros e [A|A]; [lia|]. pose proof (Kiss e A). lia.
    + constructor; [|exact Knd]. intros A. pose proof (Kiss _ A). lia.
    + intros i c A B [C|C]; [exact (NL i c A B (eq_sym C)) | exact (Kni i c A B C)].
    + exact Kun.
    + discriminate.
    + intros i c A (S0 & E). exfalso. exact (NL i c A S0 E).
    + intros i c A (S0 & E). exfalso. exact (NL i c A S0 E).
    + intros i c A (S0 & E). exfalso. exact (NL i c A S0 E).
    + intros i c A (S0 & E). exfalso. exact (NL i c A S0 E).
  - destruct (Kf eq_refl) as (Kf1 & Kf2).
    constructor; simpl.
    + intros i c A B. exfalso. apply B. eauto.
    + intros e [A|A]; [lia|]. rewrite Kf2 in A. destruct A.
    + rewrite Kf2. constructor; [intros []|constructor].
    + intros i c A B. exfalso. apply B. eauto.
    + intros i j c c' A B S0. exfalso. apply S0. eauto.
    + discriminate.
    + intros i c A (S0 & _). exfalso. apply S0. eauto.
    + intros i c A (S0 & _). exfalso. apply S0. eauto.
    + intros i c A (S0 & _). exfalso. apply S0. eauto.
    + intros i c A (S0 & _). exfalso. apply S0. eauto.
Qed.

Lemma kinv_markers s c0 :
  est (genv s) = EPrep c0 -> kinv s ->
  kinv (put_env s (mkE (EDone c0) (eep (genv s)) (einit (genv s)) (eissued (genv s)) []
                       (glog (genv s) ++ markers (eparts (genv s)) (eep (genv s)) c0)
                       None (edone (genv s) ++ [(eowner (genv s), c0)]))).
Proof.
  intros Es [Kle Kiss Knd Kni Kun Kf K1 K2 K3 K6].
  constructor; simpl.
  - exact Kle.
  - exact Kiss.
  - exact Knd.
  - exact Kni.
  - exact Kun.
  - exact Kf.
  - intros i c A L Ce. assert (L0 : livec s c) by exact L.
    destruct (K1 i c A L0 Ce) as (P1 & P2 & P3).
    assert (Z : txn_parts c = [] /\ grp c = false).
    { split.
      - destruct (txn_parts c) eqn:T; [reflexivity|]. assert (est (genv s) = EOngoing) by (apply P3; left; discriminate).
        congruence.
      - destruct (grp c) eqn:G; [|reflexivity]. assert (est (genv s) = EOngoing) by (apply P3; right; reflexivity).
        congruence. }
    destruct Z as (Z1 & Z2). rewrite Z1, Z2. split; [intros p []|]. split; [discriminate|].
    intros [G|G]; [congruence | discriminate].
  - intros i c A L Sl. assert (L0 : livec s c) by exact L. destruct (K2 i c A L0 Sl) as (P & _). congruence.
  - intros i c A L Sl. assert (L0 : livec s c) by exact L. destruct (K3 i c A L0 Sl) as (P & _). congruence.
  - intros i c A L Fa b Hb. assert (L0 : livec s c) by exact L. destruct (K6 i c A L0 Fa b Hb) as (P & _). congruence.
Qed.

(* the coordinator registers partitions for the live instance i *)
Lemma kinv_add s i c c' ps t :
  cl s i = Some c -> kinv s -> cep c' = cep c -> (cst c' = UNINIT <-> cst c = UNINIT) ->
  cend c' = cend c -> txn_parts c' = txn_parts c -> grp c' = grp c ->
  cst c' = cst c -> inflight c' = inflight c -> deadb c' = deadb c ->
  (forall p, slot c' = Some (KParts, SApplied) -> In p (creq c') -> In p ps) ->
  (slot c' = Some (KOffs, SApplied) -> In GROUPP ps) ->
  kinv (put_env (put s i c') (env_add (genv s) ps t)).
Proof.
  intros Hc [Kle Kiss Knd Kni Kun Kf K1 K2 K3 K6] Ep Un Ce Tp Gr St Inf Dd Hq Ho.
  set (s' := put_env _ _).
  assert (Hc' : cl s' i = Some c') by (apply (cl_put_eq s i c); exact Hc).
  assert (Hot : forall j, j <> i -> cl s' j = cl s j) by (intros j N; apply (cl_put_neq s i j c'); auto).
  assert (SUP : forall p, In p (eparts (genv s)) -> In p (unionn (eparts (genv s)) ps)).
  { intros p A. apply unionn_In. auto. }
  assert (OLD : forall j c0, cl s' j = Some c0 -> livec s' c0 ->
                exists c1, cl s j = Some c1 /\ livec s c1 /\ cend c1 = cend c0 /\ txn_parts c1 = txn_parts c0 /\
                           grp c1 = grp c0 /\ cst c1 = cst c0 /\ inflight c1 = inflight c0 /\ deadb c1 = deadb c0 /\
                           (j <> i -> c1 = c0)).
  { intros j c0 A (L1 & L2). simpl in L2. destruct (Nat.eq_dec j i) as [->|N].
    - rewrite Hc' in A. inversion A; subst c0. exists c.
      split; [exact Hc|]. split; [split; [intros K; apply L1; apply Un; exact K | congruence]|].
      repeat split; auto; congruence.
    - rewrite Hot in A by exact N. exists c0. repeat split; auto. }
  constructor; unfold s'; simpl.
  - intros j c0 A B. fold s' in A. destruct (Nat.eq_dec j i) as [->|N].
    + rewrite Hc' in A. inversion A; subst c0. rewrite Ep. apply (Kle i c Hc). intros K. apply B. apply Un. exact K.
    + rewrite Hot in A by exact N. eauto.
  - exact Kiss.
  - exact Knd.
  - intros j c0 A B. fold s' in A. destruct (Nat.eq_dec j i) as [->|N].
    + rewrite Hc' in A. inversion A; subst c0. rewrite Ep. apply (Kni i c Hc). intros K. apply B. apply Un. exact K.
    + rewrite Hot in A by exact N. eauto.
  - intros j k c0 c1 A B S0 S1 E. fold s' in A, B.
    destruct (Nat.eq_dec j i) as [->|N]; destruct (Nat.eq_dec k i) as [->|N']; [reflexivity | | |].
    + rewrite Hc' in A. inversion A; subst c0. rewrite Hot in B by exact N'.
      apply (Kun i k c c1 Hc B); [intros K; apply S0; apply Un; exact K | exact S1 | congruence].
    + rewrite Hc' in B. inversion B; subst c1. rewrite Hot in A by exact N.
      apply (Kun j i c0 c A Hc); [exact S0 | intros K; apply S1; apply Un; exact K | congruence].
    + rewrite Hot in A by exact N. rewrite Hot in B by exact N'. eauto.
  - intros K. destruct (Kf K) as (Kf1 & Kf2). split; [|exact Kf2].
    intros j c0 A. fold s' in A. destruct (Nat.eq_dec j i) as [->|N].
    + rewrite Hc' in A. inversion A; subst c0. apply Un. eauto.
    + rewrite Hot in A by exact N. eauto.
  - intros j c0 A L Cd. fold s' in A. destruct (OLD j c0 A L) as (c1 & B1 & B2 & B3 & B4 & B5 & _).
    rewrite <- B3 in Cd. destruct (K1 j c1 B1 B2 Cd) as (P1 & P2 & P3). rewrite <- B4, <- B5.
    split; [intros p Hp; apply SUP; auto|]. split; [intros G; apply SUP; auto | reflexivity].
  - intros j c0 A L Sl. fold s' in A. split; [reflexivity|]. intros p Hp.
    destruct (Nat.eq_dec j i) as [->|N].
    + rewrite Hc' in A. inversion A; subst c0. apply unionn_In. right. eauto.
    + destruct (OLD j c0 A L) as (c1 & B1 & B2 & _ & _ & _ & _ & _ & _ & B9). rewrite (B9 N) in *.
      destruct (K2 j c0 B1 B2 Sl) as (_ & P). apply SUP. auto.
  - intros j c0 A L Sl. fold s' in A. split; [reflexivity|].
    destruct (Nat.eq_dec j i) as [->|N].
    + rewrite Hc' in A. inversion A; subst c0. apply unionn_In. right. auto.
    + destruct (OLD j c0 A L) as (c1 & B1 & B2 & _ & _ & _ & _ & _ & _ & B9). rewrite (B9 N) in *.
      destruct (K3 j c0 B1 B2 Sl) as (_ & P). apply SUP. auto.
  - intros j c0 A L Fa b Hb. fold s' in A.
    destruct (OLD j c0 A L) as (c1 & B1 & B2 & _ & _ & _ & B6 & B7 & B8 & _).
    rewrite <- B6 in Fa. rewrite <- B7, <- B8 in Hb. destruct (K6 j c1 B1 B2 Fa b Hb) as (_ & P).
    split; [reflexivity | apply SUP; exact P].
Qed.

Lemma NoDup_remn x l : NoDup l -> NoDup (remn x l).
Proof. unfold remn. apply NoDup_filter. Qed.

(* an instance receives its epoch *)
Lemma kinv_start s i c ep :
  cl s i = Some c -> cst c = UNINIT -> kc c -> In ep (eissued (genv s)) -> kinv s ->
  kinv (mkG (set_nth i (set_cep (set_cst c READY) ep) (clients s))
            (mkE (est (genv s)) (eep (genv s)) (einit (genv s)) (remn ep (eissued (genv s))) (eparts (genv s))
                 (glog (genv s)) (eowner (genv s)) (edone (genv s)))
            (ended s)).
Proof.
  intros Hc Un Kc Hin [Kle Kiss Knd Kni Kun Kf K1 K2 K3 K6].
  set (c' := set_cep (set_cst c READY) ep). set (s' := mkG _ _ _).
  assert (Hc' : cl s' i = Some c') by (unfold cl, s'; simpl; eapply nth_set_nth_eq; exact Hc).
  assert (Hot : forall j, j <> i -> cl s' j = cl s j) by (intros j N; unfold cl, s'; simpl; apply nth_set_nth_neq; auto).
  destruct (kc_un _ Kc Un) as (U1 & U2 & U3 & U4 & U5).
  constructor; unfold s'; simpl.
  - intros j c0 A B. fold s' in A. destruct (Nat.eq_dec j i) as [->|N].
    + rewrite Hc' in A. inversion A; subst c0. simpl. auto.
    + rewrite Hot in A by exact N. eauto.
  - intros e A. apply remn_In in A. destruct A as (A & _). auto.
  - apply NoDup_remn. exact Knd.
  - intros j c0 A B C. fold s' in A. apply remn_In in C. destruct C as (C1 & C2).
    destruct (Nat.eq_dec j i) as [->|N].
    + rewrite Hc' in A. inversion A; subst c0. simpl in C2. congruence.
    + rewrite Hot in A by exact N. exact (Kni j c0 A B C1).
  - intros j k c0 c1 A B S0 S1 E. fold s' in A, B.
    destruct (Nat.eq_dec j i) as [->|N]; destruct (Nat.eq_dec k i) as [->|N']; [reflexivity | | |].
    + rewrite Hc' in A. inversion A; subst c0. rewrite Hot in B by exact N'. simpl in E.
      exfalso. apply (Kni k c1 B S1). rewrite <- E. exact Hin.
    + rewrite Hc' in B. inversion B; subst c1. rewrite Hot in A by exact N. simpl in E.
      exfalso. apply (Kni j c0 A S0). rewrite E. exact Hin.
    + rewrite Hot in A by exact N. rewrite Hot in B by exact N'. eauto.
  - intros K. destruct (Kf K) as (_ & Kf2). rewrite Kf2 in Hin. destruct Hin.
  - intros j c0 A L Ce. fold s' in A. destruct (Nat.eq_dec j i) as [->|N].
    + rewrite Hc' in A. inversion A; subst c0. simpl. rewrite U1, U2.
      split; [intros p []|]. split; [discriminate|]. intros [G|G]; [congruence | discriminate].
    + rewrite Hot in A by exact N. exact (K1 j c0 A L Ce).
  - intros j c0 A L Sl. fold s' in A. destruct (Nat.eq_dec j i) as [->|N].
    + rewrite Hc' in A. inversion A; subst c0. simpl in Sl. congruence.
    + rewrite Hot in A by exact N. exact (K2 j c0 A L Sl).
  - intros j c0 A L Sl. fold s' in A. destruct (Nat.eq_dec j i) as [->|N].
    + rewrite Hc' in A. inversion A; subst c0. simpl in Sl. congruence.
    + rewrite Hot in A by exact N. exact (K3 j c0 A L Sl).
  - intros j c0 A L Fa. fold s' in A. destruct (Nat.eq_dec j i) as [->|N].
    + rewrite Hc' in A. inversion A; subst c0. simpl in Fa. discriminate.
    + rewrite Hot in A by exact N. exact (K6 j c0 A L Fa).
Qed.

(* EndTxn of the live instance is applied: Ongoing -> Prepare *)
Lemma kinv_endtxn s i c c' commit :
  cl s i = Some c -> kinv s -> livec s c ->
  cep c' = cep c -> cst c' = cst c -> cst c <> FATAL -> cend c' = true ->
  slot c' = Some (KEnd, SApplied) ->
  kinv (put_env (put s i c') (env_st (genv s) (EPrep commit) (eep (genv s)))).
Proof.
  intros Hc [Kle Kiss Knd Kni Kun Kf K1 K2 K3 K6] (Ls & Le) Ep St Nf Ce Sl.
  set (s' := put_env _ _).
  assert (Hc' : cl s' i = Some c') by (apply (cl_put_eq s i c); exact Hc).
  assert (Hot : forall j, j <> i -> cl s' j = cl s j) by (intros j N; apply (cl_put_neq s i j c'); auto).
  assert (ONLY : forall j c0, cl s' j = Some c0 -> livec s' c0 -> j = i).
  { intros j c0 A (L1 & L2). simpl in L2. destruct (Nat.eq_dec j i) as [->|N]; [reflexivity|].
    rewrite Hot in A by exact N. apply (Kun j i c0 c A Hc L1 Ls). congruence. }
  constructor; unfold s'; simpl.
  - intros j c0 A B. fold s' in A. destruct (Nat.eq_dec j i) as [->|N].
    + rewrite Hc' in A. inversion A; subst c0. rewrite Ep. apply (Kle i c Hc). exact Ls.
    + rewrite Hot in A by exact N. eauto.
  - exact Kiss.
  - exact Knd.
  - intros j c0 A B. fold s' in A. destruct (Nat.eq_dec j i) as [->|N].
    + rewrite Hc' in A. inversion A; subst c0. rewrite Ep. apply (Kni i c Hc). exact Ls.
    + rewrite Hot in A by exact N. eauto.
  - intros j k c0 c1 A B S0 S1 E. fold s' in A, B.
    destruct (Nat.eq_dec j i) as [->|N]; destruct (Nat.eq_dec k i) as [->|N']; [reflexivity | | |].
    + rewrite Hc' in A. inversion A; subst c0. rewrite Hot in B by exact N'.
      apply (Kun i k c c1 Hc B Ls S1). congruence.
    + rewrite Hc' in B. inversion B; subst c1. rewrite Hot in A by exact N.
      apply (Kun j i c0 c A Hc S0 Ls). congruence.
    + rewrite Hot in A by exact N. rewrite Hot in B by exact N'. eauto.
  - intros K. destruct (Kf K) as (Kf1 & _). exfalso. apply Ls. eauto.
  - intros j c0 A L Cd. fold s' in A. pose proof (ONLY j c0 A L). subst j.
    rewrite Hc' in A. inversion A; subst c0. congruence.
  - intros j c0 A L S0. fold s' in A. pose proof (ONLY j c0 A L). subst j.
    rewrite Hc' in A. inversion A; subst c0. congruence.
  - intros j c0 A L S0. fold s' in A. pose proof (ONLY j c0 A L). subst j.
    rewrite Hc' in A. inversion A; subst c0. congruence.
  - intros j c0 A L Fa. fold s' in A. pose proof (ONLY j c0 A L). subst j.
    rewrite Hc' in A. inversion A; subst c0. congruence.
Qed.

Lemma C16_proof_tst_dec (a b : tst) : {a = b} + {a <> b}.
Proof. decide equality. Qed.

(* ---------- every step preserves [kinv] -------------------------------------------------------------------- *)
Lemma kinv_put0 s i c c' :
  cl s i = Some c -> kinv s ->
  cep c' = cep c -> (cst c' = UNINIT <-> cst c = UNINIT) ->
  (cend c' = false ->
    (cend c = false /\ incl (txn_parts c') (txn_parts c) /\ (grp c' = true -> grp c = true)) \/
    (txn_parts c' = [] /\ grp c' = false) \/
    (livec s c -> (forall p, In p (txn_parts c') -> In p (eparts (genv s))) /\
                  (grp c' = true -> In GROUPP (eparts (genv s))) /\
                  ((txn_parts c' <> [] \/ grp c' = true) -> est (genv s) = EOngoing))) ->
  (slot c' = Some (KParts, SApplied) -> slot c = Some (KParts, SApplied) /\ creq c' = creq c) ->
  (slot c' = Some (KOffs, SApplied) -> slot c = Some (KOffs, SApplied)) ->
  (cst c' = FATAL ->
    (cst c = FATAL /\
     forall b, In b (inflight c' ++ deadb c') -> exists b0, In b0 (inflight c ++ deadb c) /\ bpart b0 = bpart b) \/
    (livec s c -> forall b, In b (inflight c' ++ deadb c') ->
                  est (genv s) = EOngoing /\ In (bpart b) (eparts (genv s)))) ->
  kinv (put s i c').
Proof.
  intros. change (kinv (put_env (put s i c') (genv s))). eapply kinv_put; eauto. apply env_same2_refl.
Qed.

(* the common case: the fields [kinv] reads are unchanged, batches only move or disappear *)
Lemma kinv_put_same s i c c' :
  cl s i = Some c -> kinv s ->
  cep c' = cep c -> cst c' = cst c -> cend c' = cend c -> txn_parts c' = txn_parts c -> grp c' = grp c ->
  (slot c' = Some (KParts, SApplied) -> slot c = Some (KParts, SApplied) /\ creq c' = creq c) ->
  (slot c' = Some (KOffs, SApplied) -> slot c = Some (KOffs, SApplied)) ->
  (forall b, In b (inflight c' ++ deadb c') -> exists b0, In b0 (inflight c ++ deadb c) /\ bpart b0 = bpart b) ->
  kinv (put s i c').
Proof.
  intros Hc K A B C D E F G H. eapply kinv_put0; eauto.
  - rewrite B. tauto.
  - intros Ce. left. rewrite C in Ce. rewrite D, E. split; [exact Ce|]. split; [apply incl_refl | auto].
  - intros Fa. left. split; [congruence | exact H].
Qed.

Lemma same_batches l : forall b : batch, In b l -> exists b0, In b0 l /\ bpart b0 = bpart b.
Proof. intros b H. exists b. auto. Qed.

Ltac ksame s i c Hn K := apply (kinv_put_same s i c _ Hn K); try reflexivity; auto;
  try (intros Z; discriminate Z); try apply same_batches.

Lemma step_kinv s e s' : step s e = Some s' -> gcinv s -> gpinv s -> gkc s -> kinv s -> kinv s'.
Proof.
  intros H GC GP GK K. destruct e; unfold step in H; cbv beta iota zeta in H.
  - (* EFence *) destruct (est (genv s)) eqn:Es; inv_some. apply kinv_fence; auto.
  - (* EMarkers *) destruct (est (genv s)) eqn:Es; inv_some. apply kinv_markers; auto.
  - (* EInitOk *) destruct (est (genv s)) eqn:Es; inv_some; apply kinv_initok; auto.
  - (* AStart *)
    destruct (get s i) as [c|] eqn:Hg; [|discriminate]. destruct (get_some _ _ _ Hg) as (Hn & _).
    destruct (cst c) eqn:E0; try discriminate. destruct (trans UNINIT READY) eqn:T; [|discriminate].
    destruct (memn ep (eissued (genv s))) eqn:M; [|discriminate]. inv_some.
    pose proof (trans_target _ _ _ T). subst t. apply memn_In in M.
    apply kinv_start; auto. eapply gkc_get; eauto.
  - (* ABegin *)
    wc H c c' Hg Hf. destruct (get_some _ _ _ Hg) as (Hn & _).
    destruct (slot c) eqn:Sl; [discriminate|]. destruct (trans (cst c) IN_TXN) eqn:T; [|discriminate]. inv_some.
    pose proof (trans_target _ _ _ T). subst t. apply trans_in_txn in T.
    destruct (kc_rdy _ (gkc_get _ _ _ GK Hn) T) as (B1 & B2 & _).
    apply (kinv_put0 s i c _ Hn K); simpl.
    + reflexivity.
    + rewrite T. split; discriminate.
    + intros _. right. left. auto.
    + rewrite Sl. discriminate.
    + rewrite Sl. discriminate.
    + discriminate.
  - (* AAccept *)
    wc H c c' Hg Hf. destruct (get_some _ _ _ Hg) as (Hn & _).
    destruct (cst c) eqn:S; try discriminate. destruct (Nat.eqb p GROUPP); [discriminate|].
    destruct newb.
    + destruct (has_part_q p (queue c) || has_bid b (queue c ++ inflight c ++ deadb c)); [discriminate|].
      inv_some. ksame s i c Hn K.
    + destruct (snoc_item p b x (queue c)); [|discriminate]. inv_some. ksame s i c Hn K.
  - (* AOffsets *)
    wc H c c' Hg Hf. destruct (get_some _ _ _ Hg) as (Hn & _).
    destruct (cst c) eqn:S; try discriminate. inv_some. ksame s i c Hn K.
  - (* ACommitting *)
    wc H c c' Hg Hf. destruct (get_some _ _ _ Hg) as (Hn & _).
    destruct (trans (cst c) COMMITTING) eqn:T.
    + pose proof (trans_target _ _ _ T). subst t. pose proof (trans_committing _ _ T) as S.
      assert (c' = set_cst c COMMITTING) by (rewrite S in Hf; inversion Hf; reflexivity). subst c'.
      apply (kinv_put0 s i c _ Hn K); simpl.
      * reflexivity.
      * rewrite S. split; discriminate.
      * intros Ce. left. split; [exact Ce|]. split; [apply incl_refl | auto].
      * auto.
      * auto.
      * discriminate.
    + destruct (cst c); discriminate.
  - (* AAborting *)
    wc H c c' Hg Hf. destruct (get_some _ _ _ Hg) as (Hn & _).
    destruct (trans (cst c) ABORTING) eqn:T; [|discriminate]. inv_some.
    pose proof (trans_target _ _ _ T). subst t.
    apply (kinv_put0 s i c _ Hn K); simpl.
    + reflexivity.
    + destruct (trans_aborting _ _ T) as [S|S]; rewrite S; split; discriminate.
    + intros Ce. left. split; [exact Ce|]. split; [apply incl_refl | auto].
    + auto.
    + auto.
    + discriminate.
  - (* AComplete *)
    destruct (get s i) as [c|] eqn:Hg; [|discriminate]. destruct (get_some _ _ _ Hg) as (Hn & _).
    match type of H with (if ?g then _ else _) = _ => destruct g eqn:Gd; [|discriminate] end.
    apply andb_prop in Gd. destruct Gd as [Gd _]. apply andb_prop in Gd. destruct Gd as [_ Gi].
    apply is_niln_nil in Gi.
    assert (Kx : exists t o, trans (cst c) READY = Some t /\ (cst c = COMMITTING \/ cst c = ABORTING) /\
                s' = mkG (set_nth i (set_deadb (set_grp (set_parts (set_cst c t) [] (pend_parts c)) false) [])
                                  (clients s)) (genv s) (ended s ++ [(tagof i c, o, accepted c)])).
    { destruct (cst c); try discriminate; destruct (trans _ READY) eqn:T; try discriminate;
        inversion H; do 2 eexists; repeat split; auto. }
    destruct Kx as (t & o & T & St & ->). pose proof (trans_target _ _ _ T). subst t.
    set (c' := set_deadb _ _).
    apply (kinv_client_upd s _ i c c' Hn).
    + unfold cl. simpl. eapply nth_set_nth_eq; eauto.
    + intros j N. unfold cl. simpl. apply nth_set_nth_neq. auto.
    + apply env_same2_refl.
    + reflexivity.
    + simpl. destruct St as [S|S]; rewrite S; split; discriminate.
    + intros _. right. left. auto.
    + simpl. auto.
    + simpl. auto.
    + simpl. discriminate.
    + exact K.
  - (* AError *)
    wc H c c' Hg Hf. destruct (get_some _ _ _ Hg) as (Hn & _).
    assert (Kx : exists t, trans (cst c) ABORTABLE = Some t /\ c' = c_err c t /\
                          (cst c = IN_TXN \/ cst c = COMMITTING \/ cst c = ABORTING)).
    { destruct (slot c) as [[[] ?]|]; try discriminate; destruct (cst c); try discriminate;
        destruct (forallb _ (queue c)); try discriminate;
        match type of Hf with match ?t with _ => _ end = _ => destruct t eqn:T end; try discriminate;
        inversion Hf; eexists; (split; [reflexivity|]); (split; [reflexivity|]); auto. }
    destruct Kx as (t & T & -> & St). pose proof (trans_target _ _ _ T). subst t.
    apply (kinv_put0 s i c _ Hn K); unfold c_err; simpl.
    + reflexivity.
    + destruct St as [S|[S|S]]; rewrite S; split; discriminate.
    + intros Ce. left. split; [exact Ce|]. split; [apply incl_refl | auto].
    + auto.
    + auto.
    + discriminate.
  - (* AFatal *)
    wc H c c' Hg Hf. destruct (get_some _ _ _ Hg) as (Hn & _).
    destruct ((tcode (cst c) =? 1)%Z) eqn:Eu; [discriminate|].
    destruct (trans (cst c) FATAL) eqn:T; [|discriminate]. inv_some.
    pose proof (trans_target _ _ _ T). subst t.
    pose proof (gkc_get _ _ _ GK Hn) as Kc. pose proof (gpinv_get _ _ _ GP Hn) as Pc.
    apply (kinv_put0 s i c _ Hn K); unfold c_clear; simpl.
    + reflexivity.
    + split; [discriminate|]. intros U. exfalso. rewrite U in Eu. discriminate.
    + intros _. right. left. auto.
    + auto.
    + auto.
    + intros _. destruct (C16_proof_tst_dec (cst c) FATAL) as [Fa|Nf].
      * left. split; [exact Fa | apply same_batches].
      * right. intros L b Hb.
        assert (Ce : cerr c = false).
        { destruct (cerr c) eqn:Z; [|reflexivity]. exfalso. apply Nf. apply (kc_err _ Kc Z). }
        destruct (Pc Ce) as (_ & P2). pose proof (P2 b Hb) as Hp.
        assert (Cd : cend c = false).
        { destruct (cend c) eqn:Z; [|reflexivity]. destruct (kc_end _ Kc Z) as (_ & C2 & C3 & _).
          rewrite C2, C3 in Hb. destruct Hb. }
        destruct (k_1 _ K i c Hn L Cd) as (P1 & _ & P3). split; [|auto].
        apply P3. left. intros Z. rewrite Z in Hp. destruct Hp.
  - (* AKill *)
    destruct (nth_error (clients s) i) as [c|] eqn:Hn; [|discriminate]. inv_some. ksame s i c Hn K.
  - (* TPick *)
    wc H c c' Hg Hf. destruct (get_some _ _ _ Hg) as (Hn & _).
    destruct (slot c) eqn:Sl; [discriminate|].
    destruct k as [k1|]; destruct (next_kind c) as [k2|]; try discriminate.
    + destruct (skind_eqb k1 k2); [|discriminate]. inv_some. ksame s i c Hn K.
    + inv_some. ksame s i c' Hn K.
  - (* TDone *)
    wc H c c' Hg Hf. destruct (get_some _ _ _ Hg) as (Hn & _).
    destruct (slot c); [|discriminate]. inv_some. ksame s i c Hn K.
  - (* CPartAdded *)
    wc H c c' Hg Hf. destruct (get_some _ _ _ Hg) as (Hn & _).
    match type of Hf with (if ?g then _ else _) = _ => destruct g eqn:Gd; [|discriminate] end. inv_some.
    apply andb_prop in Gd. destruct Gd as [Gd Gr]. apply andb_prop in Gd. destruct Gd as [Gs _].
    apply slot_is_true in Gs. apply memn_In in Gr.
    apply (kinv_put0 s i c _ Hn K); simpl.
    + reflexivity.
    + tauto.
    + intros Ce. right. right. intros L. destruct (k_2 _ K i c Hn L Gs) as (Q1 & Q2).
      destruct (k_1 _ K i c Hn L Ce) as (P1 & P2 & P3). split; [|split; auto].
      intros q Hq. apply addn_In in Hq. destruct Hq as [Hq|Hq]; [auto | subst q; auto].
    + auto.
    + auto.
    + intros Fa. left. split; [exact Fa | apply same_batches].
  - (* CGroupAdded *)
    wc H c c' Hg Hf. destruct (get_some _ _ _ Hg) as (Hn & _).
    destruct (slot_is c KOffs SApplied) eqn:Gs; [|discriminate]. inv_some. apply slot_is_true in Gs.
    apply (kinv_put0 s i c _ Hn K); simpl.
    + reflexivity.
    + tauto.
    + intros Ce. right. right. intros L. destruct (k_3 _ K i c Hn L Gs) as (Q1 & Q2).
      destruct (k_1 _ K i c Hn L Ce) as (P1 & P2 & P3). auto.
    + auto.
    + auto.
    + intros Fa. left. split; [exact Fa | apply same_batches].
  - (* COffCommitted *)
    wc H c c' Hg Hf. destruct (get_some _ _ _ Hg) as (Hn & _).
    destruct (slot_is c KToc SApplied && memn x (ctoc c)); [|discriminate].
    destruct (pend_offs c) as [|items rest]; [discriminate|].
    destruct (memn x items); [|discriminate]. inv_some. ksame s i c Hn K.
  - (* SDrain *)
    wc H c c' Hg Hf. destruct (get_some _ _ _ Hg) as (Hn & _).
    destruct (take_bid b (queue c)) as [[x q]|] eqn:T; [|discriminate].
    destruct (head_of (bpart x) (queue c)); [|discriminate].
    match type of Hf with (if ?g then _ else _) = _ => destruct g eqn:Gd; [|discriminate] end. inv_some.
    apply andb_prop in Gd. destruct Gd as [_ Gf].
    apply (kinv_put0 s i c _ Hn K); simpl.
    + reflexivity.
    + tauto.
    + intros Ce. left. split; [exact Ce|]. split; [apply incl_refl | auto].
    + auto.
    + auto.
    + intros Fa. rewrite Fa in Gf. discriminate.
  - (* SOk *)
    wc H c c' Hg Hf. destruct (get_some _ _ _ Hg) as (Hn & _).
    destruct (take_bid b (inflight c)) as [[x f]|] eqn:T.
    + destruct (bapp x); [|discriminate]. inv_some. destruct (take_bid_some _ _ _ _ T) as (_ & _ & T3 & _).
      ksame s i c Hn K. intros b0 Hb. exists b0. split; [|reflexivity]. simpl in Hb.
      rewrite !in_app_iff in *. destruct Hb; auto.
    + destruct (cst c); try discriminate. destruct (has_bid b (deadb c)); [|discriminate]. inv_some.
      ksame s i c' Hn K.
  - (* SRetry *)
    wc H c c' Hg Hf. destruct (get_some _ _ _ Hg) as (Hn & _).
    destruct (take_bid b (inflight c)) as [[x f]|] eqn:T.
    + inv_some. destruct (take_bid_some _ _ _ _ T) as (_ & _ & T3 & _).
      ksame s i c Hn K. intros b0 Hb. exists b0. split; [|reflexivity]. simpl in Hb.
      rewrite !in_app_iff in *. destruct Hb; auto.
    + destruct (cst c); try discriminate. destruct (has_bid b (deadb c)); [|discriminate]. inv_some.
      ksame s i c' Hn K.
  - (* SFail *)
    wc H c c' Hg Hf. destruct (get_some _ _ _ Hg) as (Hn & _).
    destruct (take_bid b (inflight c)) as [[x f]|] eqn:T.
    + inv_some. destruct (take_bid_some _ _ _ _ T) as (T1 & _ & T3 & _).
      ksame s i c Hn K. intros b0 Hb. exists b0. split; [|reflexivity]. simpl in Hb.
      rewrite !in_app_iff in *. simpl in Hb. destruct Hb as [Hb|[Hb|[Hb|[]]]]; auto. subst; auto.
    + destruct (take_bid b (queue c)) as [[x q]|] eqn:T2.
      * inv_some. ksame s i c Hn K.
      * destruct (cst c); try discriminate. destruct (has_bid b (deadb c)); [|discriminate]. inv_some.
        ksame s i c' Hn K.
  - (* RAddParts *)
    destruct (get s i) as [c|] eqn:Hg; [|discriminate]. destruct (get_some _ _ _ Hg) as (Hn & _).
    match type of H with (if ?g then _ else _) = _ => destruct g eqn:Gd; [|discriminate] end.
    destruct v.
    + destruct (Nat.eqb (cep c) (eep (genv s)) && not_prep (genv s)); [|discriminate]. inv_some.
      apply (kinv_add s i c _ ps (tagof i c) Hn K); simpl; try reflexivity; try tauto.
      intros Z; discriminate Z.
    + inv_some. ksame s i c Hn K.
  - (* RAddOffs *)
    destruct (get s i) as [c|] eqn:Hg; [|discriminate]. destruct (get_some _ _ _ Hg) as (Hn & _).
    destruct (slot_is c KOffs SPicked) eqn:Gs; [|discriminate].
    destruct v.
    + destruct (Nat.eqb (cep c) (eep (genv s)) && not_prep (genv s)); [|discriminate]. inv_some.
      apply (kinv_add s i c _ [GROUPP] (tagof i c) Hn K); simpl; try reflexivity; try tauto.
      intros p Z; discriminate Z.
    + inv_some. ksame s i c Hn K.
  - (* RToc *)
    destruct (get s i) as [c|] eqn:Hg; [|discriminate]. destruct (get_some _ _ _ Hg) as (Hn & _).
    destruct (pend_offs c) as [|hd rest]; [discriminate|].
    destruct (slot_is c KToc SPicked && list_eqb items hd); [|discriminate].
    destruct v.
    + destruct (Nat.eqb (cep c) (eep (genv s))); [|discriminate]. inv_some.
      apply (kinv_put s i c _ Hn K); simpl.
      * reflexivity.
      * tauto.
      * intros Ce. left. split; [exact Ce|]. split; [apply incl_refl | auto].
      * intros Z; discriminate Z.
      * intros Z; discriminate Z.
      * intros Fa. left. split; [exact Fa | apply same_batches].
      * repeat split.
    + inv_some. ksame s i c Hn K.
  - (* REndTxn *)
    destruct (get s i) as [c|] eqn:Hg; [|discriminate]. destruct (get_some _ _ _ Hg) as (Hn & _).
    match type of H with (if ?g then _ else _) = _ => destruct g eqn:Gd; [|discriminate] end.
    apply andb_prop in Gd. destruct Gd as [Gd Gm]. repeat (apply andb_prop in Gd; destruct Gd as [Gd _]).
    apply slot_is_true in Gd.
    assert (Kc : cst c = COMMITTING \/ cst c = ABORTING).
    { destruct (cst c), commit; try discriminate; auto. }
    destruct v.
    + destruct (Nat.eqb (cep c) (eep (genv s))) eqn:Ee; [|discriminate]. apply Nat.eqb_eq in Ee.
      destruct (est (genv s)) eqn:Es; try discriminate.
      * inv_some. apply (kinv_endtxn s i c _ commit Hn K); simpl; try reflexivity.
        -- split; [destruct Kc as [Z|Z]; rewrite Z; discriminate | exact Ee].
        -- destruct Kc as [Z|Z]; rewrite Z; discriminate.
      * destruct (Bool.eqb commit0 commit); [|discriminate]. inv_some.
        apply (kinv_put0 s i c _ Hn K); simpl.
        -- reflexivity.
        -- tauto.
        -- intros Z; discriminate Z.
        -- intros Z; discriminate Z.
        -- intros Z; discriminate Z.
        -- intros Fa. destruct Kc; congruence.
    + inv_some. ksame s i c Hn K.
  - (* RProduce *)
    destruct (nth_error (clients s) i) as [c|] eqn:Hn; [|discriminate].
    destruct (take_bid b (inflight c ++ match cst c with FATAL => deadb c | _ => [] end)) as [[x r]|] eqn:T;
      [|discriminate].
    destruct v.
    + destruct (Nat.eqb (cep c) (eep (genv s))); [|discriminate]. inv_some.
      apply (kinv_put s i c _ Hn K); simpl.
      * reflexivity.
      * tauto.
      * intros Ce. left. split; [exact Ce|]. split; [apply incl_refl | auto].
      * auto.
      * auto.
      * intros Fa. left. split; [exact Fa|]. intros b0 Hb. apply in_app_or in Hb. destruct Hb as [Hb|Hb].
        -- destruct (mark_app_spec _ _ _ Hb) as [Z|(b2 & r2 & Z1 & (_ & Z3 & _) & _)].
           ++ exists b0. split; [apply in_or_app; auto | reflexivity].
           ++ destruct (take_bid_some _ _ _ _ Z1) as (Z4 & _). exists b2. split; [apply in_or_app; auto | auto].
        -- exists b0. split; [apply in_or_app; auto | reflexivity].
      * repeat split.
    + inv_some. exact K.
Qed.

Lemma run_order_inv : forall tr s s', run s tr = Some s' ->
  gcinv s -> gpinv s -> gkc s -> kinv s -> gcinv s' /\ gpinv s' /\ gkc s' /\ kinv s'.
Proof.
  induction tr as [|e tr IH]; intros s s' H GC GP GK K; simpl in H.
  - inversion H; subst. auto.
  - destruct (step s e) as [s1|] eqn:S; [|discriminate]. apply (IH s1); auto.
    + eapply step_gcinv; eauto.
    + eapply step_gpinv; eauto.
    + eapply step_gkc; eauto.
    + eapply step_kinv; eauto.
Qed.

(* ---------- add_before_produce, at full strength ----------------------------------------------------------- *)
(* whenever a leader appends a transactional batch — or the group coordinator a transactional
   offset commit — the transaction coordinator is in Ongoing and has that partition (the group)
   registered: obligation 1 can not be broken on an accepted trace *)
Theorem add_before_produce n tr s e s' :
  run (g0 n) tr = Some s -> step s e = Some s' -> ob s e <> Some 1.
Proof.
  intros R S.
  destruct (run_order_inv tr (g0 n) s R (gcinv_g0 n) (gpinv_g0 n) (gkc_g0 n) (kinv_g0 n)) as (GC & GP & GK & K).
  destruct e; try (simpl; discriminate).
  - (* AComplete: obligation 4 only *)
    unfold ob. destruct (get s i) as [c|]; [|discriminate].
    destruct (match cst c with ABORTING => csent c | _ => false end); [discriminate|].
    destruct (slot_is c KEnd SApplied); [discriminate|].
    destruct (cst c); try (destruct (is_niln (accepted c)); discriminate).
    destruct (owner_is _ _ && _); discriminate.
  - (* RAddParts: obligation 3 only *)
    destruct v; [|simpl; discriminate]. unfold ob.
    destruct (get s i) as [c|]; [|discriminate].
    destruct (is_ongoing (genv s)); [destruct (owner_is _ _ || _) | destruct (cowned c)]; discriminate.
  - destruct v; [|simpl; discriminate]. unfold ob.
    destruct (get s i) as [c|]; [|discriminate].
    destruct (is_ongoing (genv s)); [destruct (owner_is _ _ || _) | destruct (cowned c)]; discriminate.
  - (* RToc *)
    destruct v; [|simpl; discriminate]. unfold step in S. unfold ob.
    destruct (get s i) as [c|] eqn:Hg; [|discriminate]. destruct (get_some _ _ _ Hg) as (Hn & _).
    destruct (pend_offs c) as [|hd rest] eqn:P; [discriminate|].
    destruct (slot_is c KToc SPicked && list_eqb items hd) eqn:Gd; [|discriminate].
    apply andb_prop in Gd. destruct Gd as [Gs _]. apply slot_is_true in Gs.
    destruct (Nat.eqb (cep c) (eep (genv s))) eqn:Ee; [|discriminate]. apply Nat.eqb_eq in Ee.
    pose proof (gkc_get _ _ _ GK Hn) as Kc.
    assert (Nu : cst c <> UNINIT).
    { intros U. destruct (kc_un _ Kc U) as (_ & _ & U3 & _). congruence. }
    assert (Gr : grp c = true).
    { destruct (kc_toc _ Kc _ Gs) as [G|G]; [exact G|]. destruct (kc_fat _ Kc G) as (F1 & _). congruence. }
    assert (Ce : cend c = false).
    { destruct (cend c) eqn:Z; [|reflexivity]. destruct (kc_end _ Kc Z) as (_ & _ & _ & _ & C5 & _). congruence. }
    destruct (k_1 _ K i c Hn (conj Nu Ee) Ce) as (_ & P2 & P3).
    assert (O : est (genv s) = EOngoing) by (apply P3; right; exact Gr).
    assert (M : memn GROUPP (eparts (genv s)) = true) by (apply memn_In; apply P2; exact Gr).
    unfold is_ongoing. rewrite O, M. simpl. destruct (owner_is _ _); discriminate.
  - (* REndTxn: obligations 2-4 only *)
    destruct v; [|simpl; discriminate]. unfold ob.
    destruct (get s i) as [c|]; [|discriminate].
    destruct (est (genv s)); try discriminate.
    + destruct (owner_is _ _); simpl; [destruct (commit && lostb c)|]; discriminate.
    + destruct (last_done_owner (genv s)) as [o|]; [destruct (tag_eqb o _)|]; discriminate.
  - (* RProduce *)
    destruct v; [|simpl; discriminate]. unfold step in S. unfold ob.
    destruct (nth_error (clients s) i) as [c|] eqn:Hn; [|discriminate].
    destruct (take_bid b (inflight c ++ match cst c with FATAL => deadb c | _ => [] end)) as [[x r]|] eqn:T;
      [|discriminate].
    destruct (Nat.eqb (cep c) (eep (genv s))) eqn:Ee; [|discriminate]. apply Nat.eqb_eq in Ee.
    pose proof (gkc_get _ _ _ GK Hn) as Kc. pose proof (gcinv_get _ _ _ GC Hn) as Ci.
    destruct (take_bid_some _ _ _ _ T) as (T1 & _).
    assert (Xin : In x (inflight c ++ deadb c)).
    { rewrite !in_app_iff in *. destruct T1 as [T1|T1]; auto. destruct (cst c); simpl in T1; try contradiction; auto. }
    assert (Nu : cst c <> UNINIT).
    { intros U. destruct (ci_idle _ Ci (or_introl U)) as (_ & I1 & I2 & _). rewrite I1, I2 in Xin. destruct Xin. }
    assert (Q : est (genv s) = EOngoing /\ In (bpart x) (eparts (genv s))).
    { destruct (C16_proof_tst_dec (cst c) FATAL) as [Fa|Nf].
      - exact (k_6 _ K i c Hn (conj Nu Ee) Fa x Xin).
      - assert (Cr : cerr c = false).
        { destruct (cerr c) eqn:Z; [|reflexivity]. exfalso. apply Nf. exact (kc_err _ Kc Z). }
        destruct (gpinv_get _ _ _ GP Hn Cr) as (_ & P2). pose proof (P2 x Xin) as Hp.
        assert (Ce : cend c = false).
        { destruct (cend c) eqn:Z; [|reflexivity]. destruct (kc_end _ Kc Z) as (_ & C2 & C3 & _).
          rewrite C2, C3 in Xin. destruct Xin. }
        destruct (k_1 _ K i c Hn (conj Nu Ee) Ce) as (P1 & _ & P3). split; [|auto].
        apply P3. left. intros Z. rewrite Z in Hp. destruct Hp. }
    destruct Q as (O & M). apply memn_In in M. unfold is_ongoing. rewrite O, M. simpl.
    destruct (Nat.eqb (btag x) (kcur c) && owner_is (genv s) (i, btag x)); discriminate.
Qed.
