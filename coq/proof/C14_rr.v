(* C14 — round-robin assignor: termination of the skip loop, validity, and balance under
   identical subscriptions of [roundrobin_assign]. *)
From Coq Require Import Arith List Bool Lia PeanoNat Permutation.
From Verif Require Import C14_Assignors C14_lists C14_range.
Import ListNotations.

Section RR.
Variable ms : members_t.
Let sorted := sort (map fst ms).
Let M := length sorted.

Lemma sorted_In : forall m, In m sorted <-> In m (map fst ms).
Proof. intros. apply sort_In. Qed.

Lemma succ_mod_lt : forall pos, M > 0 -> S pos mod M < M.
Proof. intros. apply Nat.mod_upper_bound. lia. Qed.

(* ---- the skip loop *)
Lemma rr_next_sound : forall fuel pos t m pos', M > 0 -> pos < M ->
  rr_next ms sorted fuel pos t = Some (m, pos') ->
  In m sorted /\ In t (subs_of ms m) /\ pos' < M.
Proof.
  induction fuel as [|f IH]; simpl; intros pos t m pos' HM Hpos H; [discriminate|].
  destruct (mem_nat t (subs_of ms (nth pos sorted 0))) eqn:E.
  - inversion H; subst. split; [apply nth_In; auto|]. split.
    + apply mem_nat_In; auto.
    + apply succ_mod_lt; auto.
  - apply (IH (S pos mod M) t m pos'); auto. apply succ_mod_lt; auto.
Qed.

Lemma rr_next_total_gen : forall fuel pos t j, M > 0 -> pos < M -> j < fuel ->
  In t (subs_of ms (nth ((pos + j) mod M) sorted 0)) ->
  rr_next ms sorted fuel pos t <> None.
Proof.
  induction fuel as [|f IH]; simpl; intros pos t j HM Hpos Hj Hin; [lia|].
  destruct (mem_nat t (subs_of ms (nth pos sorted 0))) eqn:E; [discriminate|].
  destruct j as [|j'].
  - rewrite Nat.add_0_r, Nat.mod_small in Hin by auto.
    apply mem_nat_In in Hin. congruence.
  - apply (IH _ _ j'); auto.
    + apply succ_mod_lt; auto.
    + lia.
    + rewrite Nat.add_mod_idemp_l by lia.
      replace (S pos + j') with (pos + S j') by lia. exact Hin.
Qed.

(* c14_rr_terminates, core: one full turn of the cycle is enough whenever some member
   subscribes to the topic *)
Lemma rr_next_total : forall pos t m, pos < M -> In m sorted -> In t (subs_of ms m) ->
  rr_next ms sorted M pos t <> None.
Proof.
  intros pos t m Hpos Hm Hin.
  assert (HM : M > 0) by lia.
  destruct (In_nth _ _ 0 Hm) as [q [Hq Hnth]]. fold M in Hq.
  destruct (Nat.le_gt_cases pos q).
  - apply (rr_next_total_gen M pos t (q - pos)); auto; try lia.
    replace (pos + (q - pos)) with q by lia. rewrite Nat.mod_small by auto. rewrite Hnth; auto.
  - apply (rr_next_total_gen M pos t (M + q - pos)); auto; try lia.
    replace (pos + (M + q - pos)) with (q + 1 * M) by lia.
    rewrite Nat.mod_add by lia. rewrite Nat.mod_small by auto. rewrite Hnth; auto.
Qed.

(* ---- the partition loop *)
Lemma rr_loop_total : forall parts pos, pos < M ->
  (forall x, In x parts -> exists m, In m sorted /\ In (fst x) (subs_of ms m)) ->
  rr_loop ms sorted parts pos <> None.
Proof.
  induction parts as [|[t p] r IH]; simpl; intros pos Hpos Hall; [discriminate|].
  fold M.
  destruct (rr_next ms sorted M pos t) as [[m pos']|] eqn:E.
  - apply rr_next_sound in E; auto; try lia. destruct E as [_ [_ Hp']].
    specialize (IH pos' Hp' (fun x Hx => Hall x (or_intror Hx))).
    destruct (rr_loop ms sorted r pos'); [discriminate|congruence].
  - exfalso. destruct (Hall (t, p) (or_introl eq_refl)) as [m [Hm Hin]].
    eapply rr_next_total; eauto.
Qed.

Lemma rr_loop_sound : forall parts pos tr, pos < M ->
  rr_loop ms sorted parts pos = Some tr ->
  map snd tr = parts /\
  forall m x, In (m, x) tr -> In m sorted /\ In (fst x) (subs_of ms m).
Proof.
  induction parts as [|[t p] r IH]; simpl; intros pos tr Hpos H.
  - inversion H; subst. simpl. split; auto. intros; tauto.
  - fold M in H.
    destruct (rr_next ms sorted M pos t) as [[m pos']|] eqn:E; [|discriminate].
    apply rr_next_sound in E; auto; try lia. destruct E as [Hm [Hs Hp']].
    destruct (rr_loop ms sorted r pos') as [tr'|] eqn:E'; [|discriminate].
    inversion H; subst. destruct (IH _ _ Hp' E') as [IH1 IH2]. simpl. split.
    + f_equal; auto.
    + intros m' x [Hx|Hx]; [inversion Hx; subst; auto|]. apply IH2; auto.
Qed.

End RR.

(* ---------------------------------------------------------------- rr_partitions *)
Lemma rr_partitions_In : forall ppt ms x,
  In x (rr_partitions ppt ms) <-> assignable ppt ms x.
Proof.
  intros ppt ms [t p]. unfold rr_partitions, assignable, has_partition. simpl.
  rewrite in_flat_map. split.
  - intros [t' [Ht H]]. destruct (lookup_parts ppt t') as [n|] eqn:L; [|simpl in H; tauto].
    apply in_map_iff in H. destruct H as [p' [E Hp]]. inversion E; subst.
    apply in_seq in Hp. split; [exists n; split; auto; lia|]. apply all_topics_In; auto.
  - intros [[n [L Hp]] Hs]. exists t. split; [apply all_topics_In; auto|].
    rewrite L. apply in_map_iff. exists p. split; auto. apply in_seq. lia.
Qed.

Lemma rr_partitions_NoDup : forall ppt ms, NoDup (rr_partitions ppt ms).
Proof.
  intros. unfold rr_partitions. apply NoDup_flat_map.
  - apply all_topics_NoDup.
  - intros t _. destruct (lookup_parts ppt t); [|constructor].
    apply NoDup_map_inj; [|apply seq_NoDup]. intros x y _ _ E. inversion E; auto.
  - intros t t' x _ _ Hne H1 H2.
    destruct (lookup_parts ppt t); [|simpl in H1; tauto].
    destruct (lookup_parts ppt t'); [|simpl in H2; tauto].
    apply in_map_iff in H1, H2. destruct H1 as [p [<- _]], H2 as [p' [E _]].
    inversion E. auto.
Qed.

(* ---------------------------------------------------------------- termination *)
Lemma rr_all_subscribed : forall ppt ms, ids_nodup ms ->
  forall y, In y (rr_partitions ppt ms) ->
            exists m, In m (sort (map fst ms)) /\ In (fst y) (subs_of ms m).
Proof.
  intros ppt ms Hi y Hy. apply rr_partitions_In in Hy. destruct Hy as [_ [m Hs]].
  exists m. split.
  - apply sort_In. destruct Hs as [s [Hin _]]. apply in_map_iff. exists (m, s). auto.
  - apply subscribed_subs_of; auto.
Qed.

Lemma rr_pos0 : forall ppt ms, rr_partitions ppt ms <> [] -> 0 < length (sort (map fst ms)).
Proof.
  intros ppt ms H. destruct (rr_partitions ppt ms) as [|x r] eqn:E; [congruence|].
  assert (Hx : In x (rr_partitions ppt ms)) by (rewrite E; simpl; auto).
  apply rr_partitions_In in Hx. destruct Hx as [_ [m [s [Hin _]]]].
  rewrite sort_length, map_length. destruct ms; simpl in *; [tauto|lia].
Qed.

Theorem rr_terminates : forall ppt ms, ids_nodup ms -> rr_triples ppt ms <> None.
Proof.
  intros ppt ms Hi. unfold rr_triples.
  destruct (rr_partitions ppt ms) as [|x r] eqn:E; [simpl; discriminate|].
  rewrite <- E. apply rr_loop_total.
  - apply (rr_pos0 ppt). congruence.
  - apply rr_all_subscribed; auto.
Qed.

(* ---------------------------------------------------------------- validity *)
Lemma rr_triples_valid : forall ppt ms tr, ids_nodup ms ->
  rr_triples ppt ms = Some tr -> valid ppt ms tr /\ forall m x, In (m, x) tr -> In m (map fst ms).
Proof.
  intros ppt ms tr Hi H. unfold rr_triples in H.
  destruct (rr_partitions ppt ms) as [|x0 r0] eqn:E.
  { simpl in H. inversion H; subst. split; [|simpl; tauto]. split; [constructor|split].
    - simpl; tauto.
    - intros x Hx. apply rr_partitions_In in Hx. rewrite E in Hx. destruct Hx. }
  rewrite <- E in H.
  assert (H0 : 0 < length (sort (map fst ms))) by (apply (rr_pos0 ppt); congruence).
  destruct (rr_loop_sound ms _ _ _ H0 H) as [Hsnd Hall].
  split; [split; [|split]|].
  - rewrite Hsnd. apply rr_partitions_NoDup.
  - intros m x Hin. destruct (Hall _ _ Hin) as [_ Hs]. split.
    + apply subs_of_subscribed; auto.
    + assert (Hx : In x (rr_partitions ppt ms)) by (rewrite <- Hsnd; apply (in_map snd _ _ Hin)).
      apply rr_partitions_In in Hx. apply Hx.
  - intros x Hx. apply rr_partitions_In in Hx. rewrite <- Hsnd in Hx.
    apply in_map_iff in Hx. destruct Hx as [[m x'] [Ex Hin]]. simpl in Ex. subst. eauto.
  - intros m x Hin. destruct (Hall _ _ Hin) as [Hm _]. apply sort_In. auto.
Qed.

(* regrouping triples into the returned dict loses and adds nothing *)
Lemma load_topic_In : forall (tr : list (nat * (nat * nat))) m t p,
  In p (load_topic tr m t) <-> In (m, (t, p)) tr.
Proof.
  intros. unfold load_topic. rewrite in_map_iff. split.
  - intros [[m' [t' p']] [E H]]. simpl in E. subst. apply filter_In in H. destruct H as [H E].
    simpl in E. apply andb_true_iff in E. destruct E as [E1 E2].
    apply Nat.eqb_eq in E1, E2. subst. auto.
  - intros H. exists (m, (t, p)). split; auto. apply filter_In. split; auto.
    simpl. rewrite !Nat.eqb_refl. reflexivity.
Qed.

Lemma load_topic_NoDup : forall (tr : list (nat * (nat * nat))) m t,
  NoDup (map snd tr) -> NoDup (load_topic tr m t).
Proof.
  induction tr as [|x tr IH]; intros m t Hn; [constructor|].
  simpl in Hn. inversion Hn; subst. rewrite load_topic_cons.
  destruct (Nat.eqb (fst x) m && Nat.eqb (fst (snd x)) t) eqn:E; auto.
  constructor; auto. rewrite load_topic_In. intros Hin. apply H1.
  apply andb_true_iff in E. destruct E as [E1 E2]. apply Nat.eqb_eq in E1, E2.
  apply in_map_iff. exists (m, (t, snd (snd x))). split; auto. simpl.
  destruct x as [m' [t' p']]. simpl in *. subst. reflexivity.
Qed.

Definition regroup_P (tr : triples) (m : member) (t : topic) : option (list nat) :=
  match load_topic tr m t with [] => None | ps => Some ps end.

Definition regroup (topics : list topic) (ms : members_t) (tr : triples) : assignment :=
  map (fun e => (fst e, group_member topics tr (fst e))) ms.

Lemma regroup_grid : forall topics ms tr,
  regroup topics ms tr = grid_assign (regroup_P tr) topics ms.
Proof.
  intros. unfold regroup, grid_assign. apply map_ext. intros e. f_equal.
  unfold group_member, grid_member. apply flat_map_ext. intros t. unfold regroup_P, load_topic.
  destruct (map _ (filter _ tr)); reflexivity.
Qed.

Lemma regroup_P_some : forall tr m t ps p,
  regroup_P tr m t = Some ps -> (In p ps <-> In (m, (t, p)) tr).
Proof.
  unfold regroup_P. intros tr m t ps p H. rewrite <- load_topic_In.
  destruct (load_topic tr m t) eqn:E; [discriminate|]. inversion H; subst. reflexivity.
Qed.

Lemma regroup_In : forall topics ms tr m x,
  (forall m' x', In (m', x') tr -> In m' (map fst ms) /\ In (fst x') topics) ->
  (In (m, x) (triples_of (regroup topics ms tr)) <-> In (m, x) tr).
Proof.
  intros topics ms tr m [t p] Hdom. rewrite regroup_grid, grid_In. simpl. split.
  - intros [_ [_ [ps [HP Hp]]]]. eapply regroup_P_some; eauto.
  - intros H. destruct (Hdom _ _ H) as [Hm Ht]. simpl in Ht. split; auto. split; auto.
    unfold regroup_P. pose proof (proj2 (load_topic_In tr m t p) H) as Hl.
    destruct (load_topic tr m t) eqn:E; [destruct Hl|]. eauto.
Qed.

Lemma regroup_NoDup : forall topics ms tr, ids_nodup ms -> NoDup topics ->
  NoDup (map snd tr) -> NoDup (map snd (triples_of (regroup topics ms tr))).
Proof.
  intros topics ms tr Hi Ht Hn. rewrite regroup_grid. apply grid_NoDup; auto.
  - intros m t ps H. unfold regroup_P in H.
    destruct (load_topic tr m t) eqn:E; [discriminate|]. inversion H; subst.
    rewrite <- E. apply load_topic_NoDup; auto.
  - intros m m' t ps ps' p Hne H H' Hp Hp'.
    apply (regroup_P_some _ _ _ _ p) in H, H'. apply H in Hp. apply H' in Hp'.
    apply Hne. pose proof (NoDup_map_eq _ _ snd tr _ _ Hn Hp Hp' eq_refl) as E.
    inversion E; auto.
Qed.

Lemma regroup_valid : forall ppt ms tr, ids_nodup ms ->
  valid ppt ms tr -> valid ppt ms (triples_of (regroup (all_topics ms) ms tr)).
Proof.
  intros ppt ms tr Hi [Hn [Hs Hc]].
  assert (Hdom : forall m' x', In (m', x') tr ->
                   In m' (map fst ms) /\ In (fst x') (all_topics ms)).
  { intros m' x' Hin. destruct (Hs _ _ Hin) as [Hsub _]. split.
    - destruct Hsub as [s [Hin' _]]. apply in_map_iff. exists (m', s). auto.
    - apply all_topics_In. eauto. }
  split; [|split].
  - apply regroup_NoDup; auto using all_topics_NoDup.
  - intros m x Hin. apply regroup_In in Hin; auto.
  - intros x Hx. destruct (Hc x Hx) as [m Hm]. exists m. apply regroup_In; auto.
Qed.

Theorem rr_valid : forall ppt ms out, ids_nodup ms ->
  roundrobin_assign ppt ms = Some out -> valid ppt ms (triples_of out).
Proof.
  intros ppt ms out Hi H. unfold roundrobin_assign in H.
  destruct (rr_triples ppt ms) as [tr|] eqn:E; [|discriminate].
  inversion H; subst. apply rr_triples_valid in E; auto.
  apply (regroup_valid ppt ms tr Hi). apply E.
Qed.

(* ---------------------------------------------------------------- balance *)
(* all members subscribe to the same topics (as sets) *)
Definition identical_subs (ms : members_t) : Prop :=
  forall m1 s1 m2 s2 t, In (m1, s1) ms -> In (m2, s2) ms -> In t s1 -> In t s2.

(* number of k < N with (pos + k) mod M = i *)
Fixpoint cyc_count (M N pos i : nat) : nat :=
  match N with
  | 0 => 0
  | S N' => (if pos =? i then 1 else 0) + cyc_count M N' (S pos mod M) i
  end.

Definition cyc_dist (M pos i : nat) : nat := if pos <=? i then i - pos else M + i - pos.

Lemma succ_mod_cases : forall M pos, pos < M -> S pos mod M = if S pos =? M then 0 else S pos.
Proof.
  intros. destruct (Nat.eqb_spec (S pos) M) as [E|E].
  - rewrite E. apply Nat.mod_same. lia.
  - apply Nat.mod_small. lia.
Qed.

Lemma cyc_count_closed : forall M N pos i, pos < M -> i < M ->
  cyc_count M N pos i = (N + M - 1 - cyc_dist M pos i) / M.
Proof.
  induction N as [|N IH]; intros pos i Hp Hi.
  - simpl. symmetry. apply Nat.div_small. unfold cyc_dist. destruct (pos <=? i); lia.
  - simpl cyc_count.
    assert (Hp' : S pos mod M < M) by (apply Nat.mod_upper_bound; lia).
    rewrite IH by auto. rewrite succ_mod_cases by auto.
    destruct (Nat.eqb_spec pos i) as [->|Hne].
    + assert (E1 : cyc_dist M i i = 0) by (unfold cyc_dist; rewrite Nat.leb_refl; lia).
      assert (E2 : cyc_dist M (if S i =? M then 0 else S i) i = M - 1).
      { unfold cyc_dist. destruct (Nat.eqb_spec (S i) M).
        - simpl. lia.
        - destruct (Nat.leb_spec (S i) i); lia. }
      rewrite E1, E2.
      replace (N + M - 1 - (M - 1)) with N by lia.
      replace (S N + M - 1 - 0) with (N + 1 * M) by lia.
      rewrite Nat.div_add by lia. lia.
    + assert (E : cyc_dist M pos i >= 1 /\
                  cyc_dist M (if S pos =? M then 0 else S pos) i = cyc_dist M pos i - 1).
      { unfold cyc_dist. destruct (Nat.eqb_spec (S pos) M).
        - simpl. destruct (Nat.leb_spec pos i); lia.
        - destruct (Nat.leb_spec pos i); destruct (Nat.leb_spec (S pos) i); lia. }
      destruct E as [E1 E2]. rewrite E2.
      assert (cyc_dist M pos i < M) by (unfold cyc_dist; destruct (Nat.leb_spec pos i); lia).
      simpl. f_equal. lia.
Qed.

Lemma cyc_count_within_one : forall M N pos i j, pos < M -> i < M -> j < M ->
  cyc_count M N pos i <= cyc_count M N pos j + 1.
Proof.
  intros. rewrite !cyc_count_closed by auto.
  assert (cyc_dist M pos i < M) by (unfold cyc_dist; destruct (Nat.leb_spec pos i); lia).
  assert (cyc_dist M pos j < M) by (unfold cyc_dist; destruct (Nat.leb_spec pos j); lia).
  rewrite <- (Nat.div_add _ 1 M) by lia.
  apply Nat.div_le_mono; lia.
Qed.

Lemma load_cons : forall (x : nat * (nat * nat)) tr m,
  load (x :: tr) m = (if fst x =? m then 1 else 0) + load tr m.
Proof. intros. unfold load. simpl. destruct (fst x =? m); reflexivity. Qed.

Lemma load_perm : forall (a b : list (nat * (nat * nat))) m, Permutation a b -> load a m = load b m.
Proof.
  intros a b m H. induction H; auto.
  - rewrite !load_cons. lia.
  - rewrite !load_cons. lia.
  - lia.
Qed.

Lemma rr_next_hit : forall ms sorted fuel pos t, fuel > 0 ->
  mem_nat t (subs_of ms (nth pos sorted 0)) = true ->
  rr_next ms sorted fuel pos t = Some (nth pos sorted 0, S pos mod length sorted).
Proof. intros. destruct fuel; [lia|]. simpl. rewrite H0. reflexivity. Qed.

Lemma rr_loop_identical : forall ms parts pos tr,
  let sorted := sort (map fst ms) in
  let M := length sorted in
  NoDup sorted ->
  (forall m x, In m sorted -> In x parts -> mem_nat (fst x) (subs_of ms m) = true) ->
  pos < M -> rr_loop ms sorted parts pos = Some tr ->
  forall i, i < M -> load tr (nth i sorted 0) = cyc_count M (length parts) pos i.
Proof.
  intros ms parts. induction parts as [|[t p] r IH]; intros pos tr sorted M Hn Hall Hpos H i Hi.
  - simpl in H. inversion H; subst. reflexivity.
  - simpl in H. fold sorted in H.
    rewrite rr_next_hit in H.
    2: { fold M. lia. }
    2: { apply (Hall _ (t, p)); [apply nth_In; auto | simpl; auto]. }
    destruct (rr_loop ms sorted r (S pos mod length sorted)) as [tr'|] eqn:E; [|discriminate].
    inversion H; subst. rewrite load_cons. simpl fst. simpl length. simpl cyc_count.
    fold M in E.
    rewrite (IH (S pos mod M) tr'); auto.
    + f_equal. destruct (Nat.eqb_spec pos i) as [->|Hne].
      * rewrite Nat.eqb_refl. reflexivity.
      * destruct (Nat.eqb_spec (nth pos sorted 0) (nth i sorted 0)) as [E'|]; auto.
        exfalso. apply Hne. eapply NoDup_nth; eauto.
    + intros m x Hm Hx. apply Hall; simpl; auto.
    + apply Nat.mod_upper_bound. unfold M, sorted in *. lia.
Qed.

Theorem rr_balanced : forall ppt ms out, ids_nodup ms -> identical_subs ms ->
  roundrobin_assign ppt ms = Some out -> within_one ms (triples_of out).
Proof.
  intros ppt ms out Hi Hid H. unfold roundrobin_assign in H.
  destruct (rr_triples ppt ms) as [tr|] eqn:E; [|discriminate].
  inversion H; subst. clear H.
  destruct (rr_triples_valid _ _ _ Hi E) as [[Hn [Hs Hc]] Hdom].
  fold (regroup (all_topics ms) ms tr).
  assert (Hdom' : forall m' x', In (m', x') tr ->
                   In m' (map fst ms) /\ In (fst x') (all_topics ms)).
  { intros m' x' Hin. split; [eauto|]. destruct (Hs _ _ Hin) as [Hsub _].
    apply all_topics_In. eauto. }
  assert (Hperm : Permutation (triples_of (regroup (all_topics ms) ms tr)) tr).
  { apply NoDup_Permutation.
    - eapply NoDup_map_inv. apply regroup_NoDup; auto using all_topics_NoDup.
    - eapply NoDup_map_inv; eauto.
    - intros [m x]. apply regroup_In; auto. }
  intros m1 m2 H1 H2. rewrite !(load_perm _ _ _ Hperm).
  unfold rr_triples in E.
  destruct (rr_partitions ppt ms) as [|x0 r0] eqn:EP.
  { simpl in E. inversion E; subst. unfold load. simpl. lia. }
  rewrite <- EP in E.
  assert (H0 : 0 < length (sort (map fst ms))) by (apply (rr_pos0 ppt); congruence).
  apply (proj2 (sort_In _ _)) in H1, H2.
  destruct (In_nth _ _ 0 H1) as [i1 [Hi1 E1]]. destruct (In_nth _ _ 0 H2) as [i2 [Hi2 E2]].
  assert (Hall : forall m x, In m (sort (map fst ms)) -> In x (rr_partitions ppt ms) ->
                             mem_nat (fst x) (subs_of ms m) = true).
  { intros m x Hm Hx. apply mem_nat_In. apply (proj1 (sort_In _ _)) in Hm.
    apply in_map_iff in Hm. destruct Hm as [[m' s] [Em Hin]]. simpl in Em. subst m'.
    rewrite (subs_of_In ms m s Hi Hin).
    apply rr_partitions_In in Hx. destruct Hx as [_ [m' [s' [Hin' Ht]]]].
    eapply Hid; eauto. }
  pose proof (rr_loop_identical ms _ 0 tr (sort_NoDup _ Hi) Hall H0 E) as L.
  rewrite <- E1, <- E2, (L i1 Hi1), (L i2 Hi2).
  apply cyc_count_within_one; auto.
Qed.
