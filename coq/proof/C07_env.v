(* C07_env.v — the read-committed view of the partition logs of model/C07_Txn.v under appends of
   data and of markers. *)
From Coq Require Import ZArith List Bool Arith Lia.
From Verif Require Import Imp TxnTable C16_TxnApi C07_Txn C07_client.
Import ListNotations.

Lemma log_of_app p g h : log_of p (g ++ h) = log_of p g ++ log_of p h.
Proof. unfold log_of. rewrite filter_app, map_app. reflexivity. Qed.

Lemma log_of_one_eq p e : log_of p [(p, e)] = [e].
Proof. unfold log_of. simpl. rewrite Nat.eqb_refl. reflexivity. Qed.

Lemma log_of_one_neq p q e : q <> p -> log_of p [(q, e)] = [].
Proof. intros H. unfold log_of. simpl. apply Nat.eqb_neq in H. rewrite H. reflexivity. Qed.

Lemma log_of_markers_notin p ps ep c : ~ In p ps -> log_of p (markers ps ep c) = [].
Proof.
  induction ps as [|q ps IH]; intros H; [reflexivity|].
  unfold markers, log_of in *. simpl in *.
  destruct (Nat.eqb q p) eqn:E.
  - apply Nat.eqb_eq in E. exfalso. apply H. auto.
  - apply IH. intros K. apply H. auto.
Qed.

Lemma log_of_markers_in p ps ep c : In p ps ->
  exists n, log_of p (markers ps ep c) = Marker ep c :: repeat (Marker ep c) n.
Proof.
  induction ps as [|q ps IH]; intros H; [destruct H|].
  unfold markers, log_of in *. simpl.
  destruct (Nat.eqb q p) eqn:E.
  - simpl. destruct (in_dec Nat.eq_dec p ps) as [I|I].
    + destruct (IH I) as (n & Hn). rewrite Hn. exists (S n). reflexivity.
    + pose proof (log_of_markers_notin p ps ep c I) as Hn. unfold markers, log_of in Hn. rewrite Hn.
      exists 0%nat. reflexivity.
  - apply Nat.eqb_neq in E. destruct H as [H|H]; [congruence|]. apply IH. exact H.
Qed.

Lemma rc_state_app l l' : rc_state (l ++ l') = fold_left rc_step l' (rc_state l).
Proof. unfold rc_state. apply fold_left_app. Qed.

Lemma rc_markers ep c n st :
  fold_left rc_step (Marker ep c :: repeat (Marker ep c) n) st =
  ([], if c then snd st ++ fst st else snd st).
Proof.
  destruct st as [open vis]. simpl.
  assert (K : forall n v, fold_left rc_step (repeat (Marker ep c) n) ([], v) = ([], v)).
  { induction n0 as [|m IH]; intros v; simpl; [reflexivity|].
    destruct c; simpl; [rewrite app_nil_r|]; apply IH. }
  destruct c; simpl; apply K.
Qed.

(* appending a data entry to partition q *)
Lemma open_append_data p q g ep tg items :
  rc_open_t (log_of p (g ++ [(q, Data ep tg items)])) =
  rc_open_t (log_of p g) ++ (if Nat.eqb q p then map (fun x => (tg, x)) items else []).
Proof.
  rewrite log_of_app. destruct (Nat.eqb q p) eqn:E.
  - apply Nat.eqb_eq in E. subst q. rewrite log_of_one_eq. unfold rc_open_t. rewrite rc_state_app. simpl.
    destruct (rc_state (log_of p g)). reflexivity.
  - apply Nat.eqb_neq in E. rewrite log_of_one_neq by exact E. rewrite !app_nil_r. reflexivity.
Qed.

Lemma view_append_data p q g ep tg items :
  rc_view_t (log_of p (g ++ [(q, Data ep tg items)])) = rc_view_t (log_of p g).
Proof.
  rewrite log_of_app. destruct (Nat.eqb q p) eqn:E.
  - apply Nat.eqb_eq in E. subst q. rewrite log_of_one_eq. unfold rc_view_t. rewrite rc_state_app. simpl.
    destruct (rc_state (log_of p g)). reflexivity.
  - apply Nat.eqb_neq in E. rewrite log_of_one_neq by exact E. rewrite app_nil_r. reflexivity.
Qed.

(* writing the markers of a transaction *)
Lemma open_markers p g ps ep c :
  rc_open_t (log_of p (g ++ markers ps ep c)) = if memn p ps then [] else rc_open_t (log_of p g).
Proof.
  rewrite log_of_app. destruct (memn p ps) eqn:M.
  - apply memn_In in M. destruct (log_of_markers_in p ps ep c M) as (n & Hn). rewrite Hn.
    unfold rc_open_t. rewrite rc_state_app, rc_markers. reflexivity.
  - assert (N : ~ In p ps) by (intros K; apply memn_In in K; congruence).
    rewrite (log_of_markers_notin p ps ep c N), app_nil_r. reflexivity.
Qed.

Lemma view_markers p g ps ep c :
  rc_view_t (log_of p (g ++ markers ps ep c)) =
  if memn p ps && c then rc_view_t (log_of p g) ++ rc_open_t (log_of p g) else rc_view_t (log_of p g).
Proof.
  rewrite log_of_app. destruct (memn p ps) eqn:M.
  - apply memn_In in M. destruct (log_of_markers_in p ps ep c M) as (n & Hn). rewrite Hn.
    unfold rc_view_t, rc_open_t. rewrite rc_state_app, rc_markers. destruct c; reflexivity.
  - assert (N : ~ In p ps) by (intros K; apply memn_In in K; congruence).
    rewrite (log_of_markers_notin p ps ep c N), app_nil_r. reflexivity.
Qed.
