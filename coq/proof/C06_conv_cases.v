(* Per-step facts, part 1: the steps of one member that leave the coordinator alone. *)
From Coq Require Import ZArith List Bool Arith Lia.
From Verif Require Import DispatchActs HeartbeatDispatch JoinRetryDispatch JoinDispatch SyncDispatch CommitDispatch
  C06_Converge C06_conv_lib C06_conv_refl C06_conv_abs C06_conv_checks C06_conv_step.
Import ListNotations.
Local Open Scope nat_scope.

Definition same_b (m m' : member) : Prop :=
  m_live m' = m_live m /\ m_id m' = m_id m /\ m_ph m' = m_ph m /\ m_focus m' = m_focus m.
Lemma same_b_bound : forall m m' x, same_b m m' -> bound m' x = bound m x.
Proof. intros m m' x (A & B & C & D). unfold bound. rewrite A, B, C, D. reflexivity. Qed.
Lemma same_b_has_id : forall m m' x, same_b m m' -> has_id m' x -> has_id m x.
Proof. intros m m' x (A & B & C & D) [Hx H]. unfold has_id, focus_of in *. rewrite B, C, D in H. split; assumption. Qed.
Lemma dkc_zero : forall c m m', (forall x, bound m x = true -> bound m' x = true) -> dkc c m m' = 0.
Proof.
  intros c m m' H. unfold dkc. induction (ids (c_ents c)) as [|x r IH]; [reflexivity|]. cbn [filter].
  destruct (bound m x) eqn:B; [rewrite (H x B)|]; cbn [negb andb]; exact IH.
Qed.

Lemma inv_a_of : forall c ms m, inv_facts c ms -> In m ms -> inv_a (absm c m) = true.
Proof. intros c ms m H Hin. unfold inv_a. fold (wf_m c m) (coh c m). rewrite (iv_wfm _ _ H m Hin), (iv_coh _ _ H m Hin). reflexivity. Qed.

Lemma wf_pre_m : forall c m, m_live m = true -> wf_m c m = true -> fin_of pre_wf (absm c m) = true.
Proof. intros c m L W. apply wf_pre; assumption. Qed.

Ltac get_facts Hinv G :=
  let Hin := fresh "Hin" in let Hnm := fresh "Hnm" in
  destruct (getm_In _ _ _ G) as [Hin Hnm];
  pose proof (iv_wfc _ _ Hinv) as Hwc; pose proof (iv_wfm _ _ Hinv _ Hin) as Hwm; pose proof (iv_coh _ _ Hinv _ Hin) as Hco;
  pose proof (inv_a_of _ _ _ Hinv Hin) as Hia.

(* ---- LFind ---- *)
Lemma case_find : forall c ms i m, inv_facts c ms -> getm i ms = Some m -> m_live m = true -> ck_known (m_ck m) = false ->
  inv_facts c (updm i (set_ck CkOk) ms) /\ mu_behaves true (mkS c ms) (mkS c (updm i (set_ck CkOk) ms)).
Proof.
  intros c ms i m Hinv G L Hck. get_facts Hinv G.
  apply (local_same c ms i m (set_ck CkOk) 0 true Hinv G L (fun _ => eq_refl)).
  - pose proof (use_check pre_find chk_find c m ok_find Hwc L Hwm) as H.
    assert (P : fin_of pre_find (absm c m) = true).
    { unfold fin_of, pre_find. fold (fin_of pre_wf (absm c m)). rewrite (wf_pre_m _ _ L Hwm). unfold absm. pcbn. rewrite Hck. reflexivity. }
    specialize (H P). unfold chk_find in H. rewrite Hia in H. unfold absm in H at 1. pcbn_in H. rewrite Hck in H.
    cbn [negb andb orb] in H. exact H.
  - intros x. apply same_b_has_id. repeat split; reflexivity.
  - rewrite dkc_zero; [lia|]. intros x Hb. rewrite (same_b_bound m (set_ck CkOk m)); [exact Hb | repeat split; reflexivity].
Qed.

(* ---- LHbSend / LCmSend ---- *)
Lemma hb_code_abs : forall c m, hb_code c m = hb_code_a (absm c m).
Proof. intros c m. unfold hb_code, hb_code_a, validate, validate_a, absm. pcbn. destruct (m_ck m); reflexivity. Qed.
Lemma cm_code_abs : forall c m, cm_code c m = cm_code_a (absm c m).
Proof. intros c m. unfold cm_code, cm_code_a, validate, validate_a, absm. pcbn. destruct (m_ck m); reflexivity. Qed.

Lemma case_hbsend : forall c ms i m, inv_facts c ms -> getm i ms = Some m -> m_live m = true ->
  m_hb m = true -> m_hbin m = None -> ck_known (m_ck m) = true ->
  let F := set_hbin (Some (hb_code c m)) in
  let real := negb (hb_silent_a (absm c m) (hb_code c m)) in
  inv_facts c (updm i F ms) /\ mu_behaves real (mkS c ms) (mkS c (updm i F ms)).
Proof.
  intros c ms i m Hinv G L Hhb Hin0 Hck F real. get_facts Hinv G.
  assert (Hsh : m_ph m = PIdle /\ m_inbox m = None).
  { unfold wf_m, wf_a, absm in Hwm. pcbn_in Hwm. rewrite L, Hhb in Hwm. cbn [negb orb] in Hwm.
    unfold ib_of in Hwm. destruct (m_ph m), (m_inbox m) as [[? ?|?]|]; cbn in Hwm; try discriminate; try (split; reflexivity);
      repeat rewrite ?andb_false_r, ?andb_false_l in Hwm; try discriminate. }
  destruct Hsh as [Hp Hib].
  apply (local_same c ms i m F 0 real Hinv G L (fun _ => eq_refl)).
  - pose proof (use_check pre_hbsend chk_hbsend c m ok_hbsend Hwc L Hwm) as H.
    assert (P : fin_of pre_hbsend (absm c m) = true).
    { unfold fin_of, pre_hbsend, pre_idle. fold (fin_of pre_wf (absm c m)). rewrite (wf_pre_m _ _ L Hwm). unfold absm, ib_of. pcbn.
      rewrite Hp, Hib, Hhb, Hin0, Hck. reflexivity. }
    specialize (H P). unfold chk_hbsend in H. rewrite Hia in H. cbn [negb orb] in H.
    unfold F, real. rewrite (hb_code_abs c m). exact H.
  - intros x. apply same_b_has_id. repeat split; reflexivity.
  - rewrite dkc_zero; [lia|]. intros x Hb. rewrite (same_b_bound m (F m)); [exact Hb | repeat split; reflexivity].
Qed.

Lemma case_cmsend : forall c ms i m, inv_facts c ms -> getm i ms = Some m -> m_live m = true ->
  m_ph m = PIdle -> m_inbox m = None -> m_cmin m = None -> ck_known (m_ck m) = true -> can_commit m = true ->
  let F := set_cmin (Some (cm_code c m)) in
  let real := negb (cm_silent_a (absm c m) (cm_code c m)) in
  inv_facts c (updm i F ms) /\ mu_behaves real (mkS c ms) (mkS c (updm i F ms)).
Proof.
  intros c ms i m Hinv G L Hp Hib Hcm Hck Hcc F real. get_facts Hinv G.
  apply (local_same c ms i m F 0 real Hinv G L (fun _ => eq_refl)).
  - pose proof (use_check pre_cmsend chk_cmsend c m ok_cmsend Hwc L Hwm) as H.
    assert (P : fin_of pre_cmsend (absm c m) = true).
    { unfold fin_of, pre_cmsend, pre_idle. fold (fin_of pre_wf (absm c m)). rewrite (wf_pre_m _ _ L Hwm). unfold absm, ib_of. pcbn.
      rewrite Hp, Hib, Hcm, Hck. reflexivity. }
    specialize (H P). unfold chk_cmsend in H. rewrite Hia in H.
    assert (Hc2 : a_can_commit (absm c m) = true) by exact Hcc. rewrite Hc2 in H. cbn [negb andb orb] in H.
    unfold F, real. rewrite (cm_code_abs c m). exact H.
  - intros x. apply same_b_has_id. repeat split; reflexivity.
  - rewrite dkc_zero; [lia|]. intros x Hb. rewrite (same_b_bound m (F m)); [exact Hb | repeat split; reflexivity].
Qed.

(* ---- LHbRecv / LCmRecv ---- *)
Lemma src_nojr : forall acts s, s <> SFocus -> fold_left (src1 false) acts s <> SFocus.
Proof.
  induction acts as [|x r IH]; intros s H; [exact H|]. cbn [fold_left]. apply IH. destruct x; cbn [src1]; try exact H; discriminate.
Qed.

Lemma recv_hb_fields : forall code m, let m' := recv_hb code m in
  m_id m' = idval m 0 (src_of false (heartbeatDispatch code)) /\ m_ph m' = m_ph m /\ m_focus m' = m_focus m /\ m_name m' = m_name m.
Proof.
  intros code m. cbv zeta. unfold recv_hb.
  set (m1 := react 0 (heartbeatDispatch code) (set_hbin None m)).
  assert (H1 : m_id m1 = idval m 0 (src_of false (heartbeatDispatch code))).
  { unfold m1. rewrite (react_id false 0); [|reflexivity]. destruct (src_of false (heartbeatDispatch code)); reflexivity. }
  destruct (react_keeps 0 (heartbeatDispatch code) (set_hbin None m)) as (A & B & C & _). fold m1 in A, B, C.
  destruct (m_id m1 =? 0); cbn [m_id m_ph m_focus m_name set_hb]; rewrite A, B, C; auto.
Qed.
Lemma recv_cm_fields : forall code m, let m' := recv_cm code m in
  m_id m' = idval m 0 (src_of false (commitDispatch code)) /\ m_ph m' = m_ph m /\ m_focus m' = m_focus m /\ m_name m' = m_name m.
Proof.
  intros code m. cbv zeta. unfold recv_cm. rewrite (react_id false 0); [|reflexivity].
  destruct (react_keeps 0 (commitDispatch code) (set_cmin None m)) as (A & B & C & _). rewrite A, B, C.
  destruct (src_of false (commitDispatch code)); repeat split; reflexivity.
Qed.

(* a member whose id is kept or zeroed and whose phase / focus stay: ids only shrink; an entry is lost only if zeroed *)
Lemma focus_of_nj : forall m, m_ph m <> PJoinSent -> focus_of m = 0.
Proof. intros m H. unfold focus_of. destruct (m_ph m); try reflexivity. congruence. Qed.

Lemma probe_ids : forall c m m' (s : idsrc), wf_c c = true -> m_live m = true -> m_live m' = true -> s <> SFocus ->
  m_id m' = idval m 0 s -> m_ph m <> PJoinSent -> m_ph m' <> PJoinSent ->
  (forall x, has_id m' x -> has_id m x) /\ dkc c m m' <= dk_of (absm c m) (is_zero s) false.
Proof.
  intros c m m' s Hc L L' Hs Hid Hnj Hnj'. split.
  - intros x [Hx H]. split; [exact Hx|]. rewrite (focus_of_nj m' Hnj') in H. destruct H as [H|H]; [|congruence].
    left. rewrite Hid in H. destruct s; cbn [idval] in H; congruence.
  - apply dkc_le; [exact Hc | exact L | | intros P; contradiction].
    intros Hb. destruct s; [|reflexivity|contradiction]. exfalso. cbn [idval] in Hid.
    unfold bound in Hb. rewrite L', Hid, Nat.eqb_refl in Hb. discriminate.
Qed.

Lemma wf_shape_probe : forall c m, m_live m = true -> wf_m c m = true -> (m_hbin m <> None \/ m_cmin m <> None) ->
  m_ph m = PIdle /\ m_inbox m = None /\ (m_hbin m <> None -> m_hb m = true).
Proof.
  intros c m L W H. unfold wf_m, wf_a, absm in W. pcbn_in W. rewrite L in W. cbn [negb orb] in W. unfold ib_of in W.
  apply andb_true_iff in W; destruct W as [W _]. apply andb_true_iff in W; destruct W as [W _].
  apply andb_true_iff in W; destruct W as [W _]. apply andb_true_iff in W; destruct W as [W _].
  apply andb_true_iff in W; destruct W as [W _]. apply andb_true_iff in W; destruct W as [W _].
  apply andb_true_iff in W; destruct W as [W W4]. apply andb_true_iff in W; destruct W as [W _].
  apply andb_true_iff in W; destruct W as [W1 W2].
  assert (P : m_ph m = PIdle).
  { destruct (m_ph m); try reflexivity; cbn [ph_eqb orb] in W2; apply andb_true_iff in W2; destruct W2 as [W2 W2c];
      apply andb_true_iff in W2; destruct W2 as [W2a W2b];
      destruct H as [H|H]; [destruct (m_hbin m); [discriminate | congruence] | destruct (m_cmin m); [discriminate | congruence]
                           | destruct (m_hbin m); [discriminate | congruence] | destruct (m_cmin m); [discriminate | congruence]
                           | destruct (m_hbin m); [discriminate | congruence] | destruct (m_cmin m); [discriminate | congruence]]. }
  rewrite P in *. split; [reflexivity|]. split.
  - destruct (m_inbox m) as [[? ?|?]|]; [discriminate | discriminate | reflexivity].
  - intros Hh. destruct (m_hb m); [reflexivity|]. cbn [orb] in W4. destruct (m_hbin m); [discriminate | congruence].
Qed.

Lemma case_hbrecv : forall c ms i m code, inv_facts c ms -> getm i ms = Some m -> m_live m = true -> m_hbin m = Some code ->
  let F := recv_hb code in
  let real := negb (hb_silent_a (absm c m) code) in
  inv_facts c (updm i F ms) /\ mu_behaves real (mkS c ms) (mkS c (updm i F ms)).
Proof.
  intros c ms i m code Hinv G L Hh F real. get_facts Hinv G. pose proof (wf_c_zfacts c Hwc) as Z.
  destruct (wf_shape_probe c m L Hwm) as (Hp & Hib & Hhb); [left; congruence|]. specialize (Hhb ltac:(congruence)).
  pose proof (use_check pre_hbrecv chk_hbrecv c m ok_hbrecv Hwc L Hwm) as H.
  assert (P : fin_of pre_hbrecv (absm c m) = true).
  { unfold fin_of, pre_hbrecv, pre_idle. fold (fin_of pre_wf (absm c m)). rewrite (wf_pre_m _ _ L Hwm). unfold absm, ib_of. pcbn.
    rewrite Hp, Hib, Hhb, Hh. reflexivity. }
  specialize (H P). unfold chk_hbrecv in H. rewrite Hia in H. cbn [negb orb] in H.
  assert (Eh : a_hbin (absm c m) = Some code) by exact Hh. rewrite Eh in H. rewrite <- (absm_recv_hb c Z code m) in H.
  destruct (good_parts _ _ _ _ H) as (L' & _).
  destruct (recv_hb_fields code m) as (Fid & Fph & Ffo & Fnm).
  destruct (probe_ids c m (F m) (src_of false (heartbeatDispatch code)) Hwc L L') as [Hids Hdk]; try assumption.
  { apply src_nojr. discriminate. } { rewrite Hp. discriminate. } { unfold F. rewrite Fph, Hp. discriminate. }
  apply (local_same c ms i m F (dk_of (absm c m) (is_zero (src_of false (heartbeatDispatch code))) false) real Hinv G L); try assumption.
  intros m0. apply (recv_hb_fields code m0).
Qed.

Lemma case_cmrecv : forall c ms i m code, inv_facts c ms -> getm i ms = Some m -> m_live m = true -> m_cmin m = Some code ->
  let F := recv_cm code in
  let real := negb (cm_silent_a (absm c m) code) in
  inv_facts c (updm i F ms) /\ mu_behaves real (mkS c ms) (mkS c (updm i F ms)).
Proof.
  intros c ms i m code Hinv G L Hh F real. get_facts Hinv G. pose proof (wf_c_zfacts c Hwc) as Z.
  destruct (wf_shape_probe c m L Hwm) as (Hp & Hib & _); [right; congruence|].
  pose proof (use_check pre_cmrecv chk_cmrecv c m ok_cmrecv Hwc L Hwm) as H.
  assert (P : fin_of pre_cmrecv (absm c m) = true).
  { unfold fin_of, pre_cmrecv, pre_idle. fold (fin_of pre_wf (absm c m)). rewrite (wf_pre_m _ _ L Hwm). unfold absm, ib_of. pcbn.
    rewrite Hp, Hib, Hh. reflexivity. }
  specialize (H P). unfold chk_cmrecv in H. rewrite Hia in H. cbn [negb orb] in H.
  assert (Eh : a_cmin (absm c m) = Some code) by exact Hh. rewrite Eh in H. rewrite <- (absm_recv_cm c Z code m) in H.
  destruct (good_parts _ _ _ _ H) as (L' & _).
  destruct (recv_cm_fields code m) as (Fid & Fph & Ffo & Fnm).
  destruct (probe_ids c m (F m) (src_of false (commitDispatch code)) Hwc L L') as [Hids Hdk]; try assumption.
  { apply src_nojr. discriminate. } { rewrite Hp. discriminate. } { unfold F. rewrite Fph, Hp. discriminate. }
  apply (local_same c ms i m F (dk_of (absm c m) (is_zero (src_of false (commitDispatch code))) false) real Hinv G L); try assumption.
  intros m0. apply (recv_cm_fields code m0).
Qed.

(* ---- LRecv of a SyncGroup reply ---- *)
Lemma recv_sync_fields : forall code m,
  let m' := recv_sync code m in
  let s := if has ASuccess (syncDispatch code) then SSame else src_of false (syncDispatch code) in
  m_id m' = idval m 0 s /\ m_ph m' = PIdle /\ m_name m' = m_name m /\ s <> SFocus.
Proof.
  intros code m. cbv zeta. unfold recv_sync. destruct (has ASuccess (syncDispatch code)).
  - repeat split; try reflexivity. discriminate.
  - cbn [m_id m_ph m_name set_ph]. rewrite (react_id false 0); [|reflexivity].
    destruct (react_keeps 0 (syncDispatch code) (set_inbox None m)) as (_ & _ & C & _). rewrite C.
    assert (S : src_of false (syncDispatch code) <> SFocus) by (apply src_nojr; discriminate).
    destruct (src_of false (syncDispatch code)); repeat split; try reflexivity; try assumption.
Qed.

Lemma case_recvsync : forall c ms i m code, inv_facts c ms -> getm i ms = Some m -> m_live m = true ->
  m_ph m = PSyncSent -> m_inbox m = Some (RpSync code) ->
  let F := recv_sync code in
  inv_facts c (updm i F ms) /\ mu_behaves true (mkS c ms) (mkS c (updm i F ms)).
Proof.
  intros c ms i m code Hinv G L Hp Hib F. get_facts Hinv G. pose proof (wf_c_zfacts c Hwc) as Z.
  pose proof (use_check pre_recvsync chk_recvsync c m ok_recvsync Hwc L Hwm) as H.
  assert (P : fin_of pre_recvsync (absm c m) = true).
  { unfold fin_of, pre_recvsync. fold (fin_of pre_wf (absm c m)). rewrite (wf_pre_m _ _ L Hwm). unfold absm, ib_of. pcbn.
    rewrite Hp, Hib. reflexivity. }
  specialize (H P). unfold chk_recvsync in H. rewrite Hia in H. cbn [negb orb] in H.
  assert (Eh : a_ib (absm c m) = IS code) by (unfold absm, ib_of; pcbn; rewrite Hib; reflexivity). rewrite Eh in H.
  rewrite <- (absm_recv_sync c Z code m Hp) in H.
  destruct (good_parts _ _ _ _ H) as (L' & _).
  destruct (recv_sync_fields code m) as (Fid & Fph & Fnm & Fs).
  set (s := if has ASuccess (syncDispatch code) then SSame else src_of false (syncDispatch code)) in *.
  destruct (probe_ids c m (F m) s Hwc L L') as [Hids Hdk]; try assumption.
  { rewrite Hp. discriminate. } { unfold F. rewrite Fph. discriminate. }
  assert (Es : is_zero s = negb (has ASuccess (syncDispatch code)) && is_zero (src_of false (syncDispatch code))).
  { unfold s. destruct (has ASuccess (syncDispatch code)); reflexivity. }
  rewrite Es in Hdk.
  apply (local_same c ms i m F (dk_of (absm c m) (negb (has ASuccess (syncDispatch code)) && is_zero (src_of false (syncDispatch code))) false)
           true Hinv G L); try assumption.
  intros m0. apply (recv_sync_fields code m0).
Qed.

(* ---- LRecv of a JoinGroup reply ---- *)
Lemma recv_join_fields : forall code g m,
  let m' := recv_join code g m in
  m_id m' = idval m (m_focus m) (join_src code) /\ m_ph m' <> PJoinSent /\ m_name m' = m_name m.
Proof.
  intros code g m. cbv zeta. unfold recv_join, join_src. destruct (has ARetryJoin (joinRetryDispatch code)).
  - cbn [m_id m_ph m_name set_ph]. rewrite (react_id true (m_focus m)); [|intros; discriminate].
    destruct (react_keeps (m_focus m) (joinRetryDispatch code) (set_inbox None m)) as (_ & _ & C & _). rewrite C.
    destruct (src_of true (joinRetryDispatch code)); repeat split; try reflexivity; discriminate.
  - destruct (has ASuccess (joinDispatch code)).
    + repeat split; try reflexivity. discriminate.
    + cbn [m_id m_ph m_name set_ph]. rewrite (react_id true (m_focus m)); [|intros; discriminate].
      destruct (react_keeps (m_focus m) (joinDispatch code) (set_inbox None m)) as (_ & _ & C & _). rewrite C.
      destruct (src_of true (joinDispatch code)); repeat split; try reflexivity; discriminate.
Qed.

Lemma case_recvjoin : forall c ms i m code g, inv_facts c ms -> getm i ms = Some m -> m_live m = true ->
  m_ph m = PJoinSent -> m_inbox m = Some (RpJoin code g) ->
  let F := recv_join code g in
  inv_facts c (updm i F ms) /\ mu_behaves true (mkS c ms) (mkS c (updm i F ms)).
Proof.
  intros c ms i m code g Hinv G L Hp Hib F. get_facts Hinv G. pose proof (wf_c_zfacts c Hwc) as Z.
  pose proof (use_check pre_recvjoin chk_recvjoin c m ok_recvjoin Hwc L Hwm) as H.
  assert (P : fin_of pre_recvjoin (absm c m) = true).
  { unfold fin_of, pre_recvjoin. fold (fin_of pre_wf (absm c m)). rewrite (wf_pre_m _ _ L Hwm). unfold absm, ib_of. pcbn.
    rewrite Hp, Hib. reflexivity. }
  specialize (H P). unfold chk_recvjoin in H. rewrite Hia in H. cbn [negb orb] in H.
  assert (Eh : a_ib (absm c m) = IJ code) by (unfold absm, ib_of; pcbn; rewrite Hib; reflexivity). rewrite Eh in H.
  rewrite <- (absm_recv_join c Z code g m Hp Hib) in H.
  destruct (good_parts _ _ _ _ H) as (L' & _). change (a_live (absm c (recv_join code g m))) with (m_live (F m)) in L'.
  destruct (recv_join_fields code g m) as (Fid & Fph & Fnm). fold F in Fid, Fph, Fnm.
  assert (Ef : focus_of m = m_focus m) by (unfold focus_of; rewrite Hp; reflexivity).
  assert (Hb' : forall x, bound (F m) x = (m_id (F m) =? x)).
  { intros x. unfold bound. rewrite L'. destruct (m_ph (F m)); try congruence; cbn [ph_eqb andb orb]; rewrite orb_false_r; reflexivity. }
  apply (local_same c ms i m F _ true Hinv G L (fun m0 => proj2 (proj2 (recv_join_fields code g m0))) H).
  - intros x [Hx Hx']. split; [exact Hx|]. rewrite (focus_of_nj (F m) Fph) in Hx'. destruct Hx' as [Hx'|Hx']; [|congruence].
    rewrite Fid in Hx'. rewrite Ef. destruct (join_src code); cbn [idval] in Hx'; [left | congruence | right]; assumption.
  - apply dkc_le; [exact Hwc | exact L | |].
    + intros Hb. rewrite Hb', Fid in Hb. unfold absm. pcbn. rewrite Ef.
      destruct (join_src code); cbn [idval] in Hb.
      * rewrite Nat.eqb_refl in Hb. discriminate.
      * rewrite (Nat.eqb_sym (m_id m) 0). rewrite Hb. reflexivity.
      * rewrite Hb. reflexivity.
    + intros _ Hb. rewrite Hb', Fid in Hb. unfold absm. pcbn. rewrite Ef.
      destruct (join_src code); cbn [idval] in Hb.
      * rewrite (Nat.eqb_sym (m_focus m) (m_id m)). rewrite Hb. reflexivity.
      * reflexivity.
      * rewrite Nat.eqb_refl in Hb. discriminate.
Qed.

(* ---- sends answered without touching the coordinator ---- *)
Definition sent_join (m : member) : member := set_ph PJoinSent (set_hbin None (set_hb false m)).
Definition join_imm (code : Z) (g : nat) (m : member) : member :=
  set_focus (m_id m) (set_inbox (Some (RpJoin code g)) (sent_join m)).

Lemma keep_id_ids : forall c m m', m_live m' = m_live m -> m_id m' = m_id m -> m_ph m <> PJoinSent ->
  (m_ph m' <> PJoinSent \/ m_focus m' = m_id m) ->
  (forall x, has_id m' x -> has_id m x) /\ dkc c m m' = 0.
Proof.
  intros c m m' A B Hnj Hf. split.
  - intros x [Hx H]. split; [exact Hx|]. left. destruct H as [H|H]; [congruence|].
    unfold focus_of in H. destruct Hf as [Hf|Hf]; [destruct (m_ph m'); try congruence; cbn in H; congruence|].
    destruct (ph_eqb (m_ph m') PJoinSent); congruence.
  - apply dkc_zero. intros x Hb. unfold bound in *. rewrite A, B. apply andb_true_iff in Hb. destruct Hb as [Hl Hb]. rewrite Hl.
    cbn [andb]. apply orb_true_iff in Hb. destruct Hb as [Hb|Hb]; [rewrite Hb; reflexivity|].
    destruct (m_ph m); try congruence; cbn in Hb; discriminate.
Qed.

Lemma absm_join_imm : forall c m code g, m_ph m = PIdle -> m_inbox m = None ->
  absm c (join_imm code g m) =
  a_enter_join (IJ code) (a_idz (absm c m)) (a_id_e (absm c m)) (a_id_p (absm c m)) (a_id_jp (absm c m)) (a_id_sp (absm c m)) true
               (g =? 0) (g =? c_gen c) (g <=? c_gen c) (absm c m).
Proof.
  intros c m code g Hp Hib. unfold absm, a_enter_join, join_imm, sent_join, focus_of, rgen_of, ib_of. pcbn. cbn [ph_eqb].
  rewrite Nat.eqb_refl. reflexivity.
Qed.

Lemma sendjoin_pre : forall c m, m_live m = true -> wf_m c m = true -> m_ph m = PIdle -> m_inbox m = None -> m_cmin m = None ->
  ck_known (m_ck m) = true -> m_rejoin m = true -> fin_of pre_sendjoin (absm c m) = true.
Proof.
  intros c m L W Hp Hib Hcm Hck Hrj. unfold fin_of, pre_sendjoin. fold (fin_of pre_wf (absm c m)). rewrite (wf_pre_m _ _ L W).
  unfold absm, ib_of. pcbn. rewrite Hp, Hib, Hcm, Hck, Hrj. reflexivity.
Qed.

Lemma case_join_stale : forall c ms i m, inv_facts c ms -> getm i ms = Some m -> m_live m = true ->
  m_ph m = PIdle -> m_inbox m = None -> m_cmin m = None -> m_rejoin m = true -> m_ck m = CkStale ->
  let F := join_imm 16 0 in
  inv_facts c (updm i F ms) /\ mu_behaves true (mkS c ms) (mkS c (updm i F ms)).
Proof.
  intros c ms i m Hinv G L Hp Hib Hcm Hrj Hck F. get_facts Hinv G.
  assert (Hk : ck_known (m_ck m) = true) by (rewrite Hck; reflexivity).
  pose proof (use_check pre_sendjoin chk_join_stale c m ok_join_stale Hwc L Hwm (sendjoin_pre c m L Hwm Hp Hib Hcm Hk Hrj)) as H.
  unfold chk_join_stale in H. rewrite Hia in H. assert (Es : ck_stale (a_ck (absm c m)) = true) by (unfold absm; pcbn; rewrite Hck; reflexivity).
  rewrite Es in H. cbn [negb andb orb] in H.
  assert (EA : absm c (F m) = a_join_stale (absm c m)).
  { unfold F. rewrite (absm_join_imm c m 16 0 Hp Hib). unfold a_join_stale.
    replace (0 =? c_gen c) with (a_G0 (absm c m)) by (unfold absm; pcbn; apply Nat.eqb_sym). reflexivity. }
  rewrite <- EA in H.
  destruct (keep_id_ids c m (F m)) as [Hids Hdk]; try reflexivity. { rewrite Hp; discriminate. } { right; reflexivity. }
  apply (local_same c ms i m F 0 true Hinv G L (fun _ => eq_refl) H Hids). lia.
Qed.

Lemma case_join_25 : forall c ms i m, inv_facts c ms -> getm i ms = Some m -> m_live m = true ->
  m_ph m = PIdle -> m_inbox m = None -> m_cmin m = None -> m_rejoin m = true -> ck_known (m_ck m) = true -> ck_stale (m_ck m) = false ->
  (m_id m =? 0) = false -> memb (m_id m) (ids (c_ents c)) = false -> memb (m_id m) (c_pend c) = false ->
  let F := join_imm 25 0 in
  inv_facts c (updm i F ms) /\ mu_behaves true (mkS c ms) (mkS c (updm i F ms)).
Proof.
  intros c ms i m Hinv G L Hp Hib Hcm Hrj Hk Hns Hz He Hpe F. get_facts Hinv G.
  pose proof (use_check pre_sendjoin chk_join_25 c m ok_join_25 Hwc L Hwm (sendjoin_pre c m L Hwm Hp Hib Hcm Hk Hrj)) as H.
  unfold chk_join_25 in H. rewrite Hia in H.
  assert (E1 : ck_stale (a_ck (absm c m)) = false) by exact Hns. assert (E2 : a_idz (absm c m) = false) by exact Hz.
  assert (E3 : a_id_e (absm c m) = false) by exact He. assert (E4 : a_id_p (absm c m) = false) by exact Hpe.
  rewrite E1, E2, E3, E4 in H. cbn [negb andb orb] in H.
  assert (EA : absm c (F m) = a_join_25 (absm c m)).
  { unfold F. rewrite (absm_join_imm c m 25 0 Hp Hib). unfold a_join_25.
    replace (0 =? c_gen c) with (a_G0 (absm c m)) by (unfold absm; pcbn; apply Nat.eqb_sym). reflexivity. }
  rewrite <- EA in H.
  destruct (keep_id_ids c m (F m)) as [Hids Hdk]; try reflexivity. { rewrite Hp; discriminate. } { right; reflexivity. }
  apply (local_same c ms i m F 0 true Hinv G L (fun _ => eq_refl) H Hids). lia.
Qed.

(* SyncGroup answered at once *)
Definition sync_imm (code : Z) (m : member) : member := set_inbox (Some (RpSync code)) (set_ph PSyncSent (set_rejoin false m)).
Lemma absm_sync_imm : forall c m code, m_ph m = PJoined -> m_inbox m = None ->
  absm c (sync_imm code m) = a_send_sync (IS code) (a_id_sp (absm c m)) (absm c m).
Proof.
  intros c m code Hp Hib. unfold absm, a_send_sync, sync_imm, focus_of, rgen_of, ib_of. pcbn. rewrite Hp, Hib. reflexivity.
Qed.

Lemma case_sync_imm : forall c ms i m code, inv_facts c ms -> getm i ms = Some m -> m_live m = true ->
  m_ph m = PJoined -> m_inbox m = None -> ck_known (m_ck m) = true ->
  sync_reply (absm c m) = Some code ->
  let F := sync_imm code in
  inv_facts c (updm i F ms) /\ mu_behaves true (mkS c ms) (mkS c (updm i F ms)).
Proof.
  intros c ms i m code Hinv G L Hp Hib Hk Hrep F. get_facts Hinv G.
  assert (P : fin_of pre_sendsync (absm c m) = true).
  { unfold fin_of, pre_sendsync. fold (fin_of pre_wf (absm c m)). rewrite (wf_pre_m _ _ L Hwm). unfold absm, ib_of. pcbn.
    rewrite Hp, Hib, Hk. reflexivity. }
  pose proof (use_check pre_sendsync chk_sendsync c m ok_sendsync Hwc L Hwm P) as H.
  unfold chk_sendsync in H. rewrite Hia, Hrep in H. cbn [negb orb] in H.
  rewrite <- (absm_sync_imm c m code Hp Hib) in H.
  destruct (keep_id_ids c m (F m)) as [Hids Hdk]; try reflexivity. { rewrite Hp; discriminate. } { left; discriminate. }
  apply (local_same c ms i m F 0 true Hinv G L (fun _ => eq_refl) H Hids). lia.
Qed.
