From Coq Require Import List Bool Arith.
From Verif Require Import C06_JoinScript.
Import ListNotations.

(* every JoinGroup request advertises all configured strategies, in preference order *)
Theorem join_advertises_all : forall rs asg mid,
  Forall (fun q => match q with RJoin ps _ => ps = asg | RSync _ _ _ => True end)
         (fst (join_script asg mid rs)).
Proof.
  assert (One : forall asg mid, Forall (fun q => match q with RJoin ps _ => ps = asg | RSync _ _ _ => True end)
                                       [RJoin asg mid]).
  { intros. constructor; [reflexivity|constructor]. }
  induction rs as [|r rs IH]; intros asg mid; cbn [join_script].
  - apply One.
  - destruct r as [g m l|e| | | |].
    + cbn [fst]. constructor; [reflexivity|]. constructor; [exact I|constructor].
    + destruct e as [m| | | | |]; try apply One.
      specialize (IH asg m). destruct (join_script asg m rs) as [q o]. cbn [fst] in *.
      constructor; [reflexivity|exact IH].
    + apply One.
    + apply One.
    + apply One.
    + apply One.
Qed.

(* a successful JoinGroup reply is followed by this member's SyncGroup for that generation,
   carrying the identity the reply assigned — never by another JoinGroup *)
Theorem join_then_sync : forall asg mid g m l rs,
  fst (join_script asg mid (JoinOk g m l :: rs)) = [RJoin asg mid; RSync g m l].
Proof. reflexivity. Qed.

(* ... also after any number of MEMBER_ID_REQUIRED rounds *)
Theorem join_then_sync_after_member_id_required : forall ms asg mid g m l rs,
  exists joins,
    fst (join_script asg mid (map (fun x => JoinErr (MemberIdRequired x)) ms ++ JoinOk g m l :: rs))
    = joins ++ [RSync g m l] /\
    Forall (fun q => match q with RJoin ps _ => ps = asg | RSync _ _ _ => False end) joins /\
    length joins = S (length ms).
Proof.
  induction ms as [|x ms IH]; intros asg mid g m l rs; cbn [map app join_script].
  - exists [RJoin asg mid]. repeat split. constructor; [reflexivity|constructor].
  - destruct (IH asg x g m l rs) as (joins & Hq & Hf & Hl).
    destruct (join_script asg x (map (fun x0 => JoinErr (MemberIdRequired x0)) ms ++ JoinOk g m l :: rs)) as [q o].
    cbn in *. exists (RJoin asg mid :: joins). subst q. repeat split.
    + constructor; [reflexivity|exact Hf].
    + cbn. rewrite Hl. reflexivity.
Qed.

(* the member id used in a retry is the one the coordinator returned *)
Theorem member_id_required_retry : forall asg mid m rs,
  exists q o, join_script asg mid (JoinErr (MemberIdRequired m) :: rs) = (RJoin asg mid :: q, o) /\
              join_script asg m rs = (q, o).
Proof.
  intros. cbn [join_script]. destruct (join_script asg m rs) as [q o]. exists q, o. split; reflexivity.
Qed.
