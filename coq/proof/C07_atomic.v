(* C07_atomic.v — atomicity of application transactions in model/C07_Txn.v, for every trace on
   which the client obligations (C07_Txn.ob) hold.

   Structure: [sinv] (per instance: state / slot / commit-sent, no assumption), [linv] (global:
   coordinator, logs, owners, ended transactions; assumes the obligations), then the theorems. *)
From Coq Require Import ZArith List Bool Arith Lia.
From Verif Require Import Imp TxnTable C16_TxnApi C07_Txn C07_client C07_env.
Import ListNotations.

Definition cl (s : gstate) (i : nat) : option client := nth_error (clients s) i.

Definition step_ob (s : gstate) (e : event) : option gstate :=
  match ob s e with Some _ => None | None => step s e end.

Lemma run_ob_cons s e tr : run_ob s (e :: tr) = match step_ob s e with Some s' => run_ob s' tr | None => None end.
Proof. unfold step_ob. simpl. destruct (ob s e); reflexivity. Qed.

Lemma cl_put_eq s i c c' : cl s i = Some c -> cl (put s i c') i = Some c'.
Proof. unfold cl, put. simpl. apply nth_set_nth_eq. Qed.
Lemma cl_put_neq s i j c' : i <> j -> cl (put s i c') j = cl s j.
Proof. unfold cl, put. simpl. apply nth_set_nth_neq. Qed.

(* ---------- per instance: state, slot, commit-sent ------------------------------------------------- *)
Record sinv (c : client) : Prop := {
  s_13 : slot c = Some (KEnd, SApplied) -> cst c = COMMITTING -> csent c = true;
  s_15 : cst c = IN_TXN \/ cst c = UNINIT \/ cst c = ABORTABLE -> forall st, slot c <> Some (KEnd, st);
  s_16 : csent c = true -> cst c <> IN_TXN /\ cst c <> UNINIT
}.
Definition gsinv (s : gstate) : Prop := Forall sinv (clients s).

Lemma gsinv_get s i c : gsinv s -> nth_error (clients s) i = Some c -> sinv c.
Proof. unfold gsinv. intros F H. rewrite Forall_forall in F. apply F. eapply nth_error_In; eauto. Qed.
Lemma gsinv_put s i c' : gsinv s -> sinv c' -> gsinv (put s i c').
Proof. unfold gsinv, put. simpl. intros. apply Forall_set_nth; auto. Qed.

Lemma sinv_same c c' : sinv c -> cst c' = cst c -> slot c' = slot c -> csent c' = csent c -> sinv c'.
Proof. intros [A B C] H1 H2 H3. constructor; rewrite ?H1, ?H2, ?H3; auto. Qed.

Lemma sinv_client0 : sinv client0.
Proof. constructor; simpl; intros; discriminate. Qed.

Lemma next_kind_end c : next_kind c = Some KEnd -> cst c = COMMITTING \/ cst c = ABORTING.
Proof.
  unfold next_kind. destruct (negb (is_niln (pend_parts c))); [discriminate|].
  destruct (negb (is_niln (pend_offs c))); [destruct (grp c); discriminate|].
  destruct (cst c); intros H; try discriminate; auto.
Qed.

Lemma skind_eqb_eq a b : skind_eqb a b = true -> a = b.
Proof. destruct a, b; simpl; intros; try discriminate; reflexivity. Qed.

Lemma slot_is_true c k st : slot_is c k st = true -> slot c = Some (k, st).
Proof.
  unfold slot_is. destruct (slot c) as [[k' st']|]; [|discriminate]. intros H.
  apply andb_prop in H. destruct H as [H1 H2]. apply skind_eqb_eq in H1. subst.
  destruct st, st'; simpl in H2; try discriminate; reflexivity.
Qed.

Lemma step_gsinv s e s' : step s e = Some s' -> gsinv s -> gsinv s'.
Proof.
  intros H G. destruct e; unfold step in H; cbv beta iota zeta in H.
  - destruct (est (genv s)); inv_some. exact G.
  - destruct (est (genv s)); inv_some. exact G.
  - destruct (est (genv s)); inv_some; exact G.
  - (* AStart *)
    destruct (get s i) as [c|] eqn:Hg; [|discriminate]. destruct (get_some _ _ _ Hg) as (Hn & _).
    pose proof (gsinv_get _ _ _ G Hn) as [A B C].
    destruct (cst c) eqn:E0; try discriminate. destruct (trans UNINIT READY) eqn:T; [|discriminate].
    destruct (memn ep (eissued (genv s))); [|discriminate]. inv_some.
    pose proof (trans_target _ _ _ T). subst t.
    unfold gsinv. simpl. apply Forall_set_nth; [exact G|]. constructor; simpl.
    + discriminate.
    + intros [K|[K|K]]; discriminate.
    + intros K. destruct (C K) as (_ & K2). congruence.
  - (* ABegin *)
    wc H c c' Hg Hf. destruct (get_some _ _ _ Hg) as (Hn & _). pose proof (gsinv_get _ _ _ G Hn) as [A B C].
    destruct (slot c) eqn:Sl; [discriminate|]. destruct (trans (cst c) IN_TXN) eqn:T; [|discriminate]. inv_some.
    apply gsinv_put; auto. constructor; simpl; rewrite ?Sl; intros; try discriminate.
  - (* AAccept *)
    wc H c c' Hg Hf. destruct (get_some _ _ _ Hg) as (Hn & _). pose proof (gsinv_get _ _ _ G Hn) as Si.
    destruct (cst c) eqn:S; try discriminate. destruct (Nat.eqb p GROUPP); [discriminate|].
    destruct newb.
    + destruct (has_part_q p (queue c) || has_bid b (queue c ++ inflight c ++ deadb c)); [discriminate|].
      inv_some. apply gsinv_put; auto. eapply sinv_same; [exact Si | simpl; auto ..].
    + destruct (snoc_item p b x (queue c)); [|discriminate]. inv_some.
      apply gsinv_put; auto. eapply sinv_same; [exact Si | simpl; auto ..].
  - (* AOffsets *)
    wc H c c' Hg Hf. destruct (get_some _ _ _ Hg) as (Hn & _). pose proof (gsinv_get _ _ _ G Hn) as Si.
    destruct (cst c) eqn:S; try discriminate. inv_some.
    apply gsinv_put; auto. eapply sinv_same; [exact Si | simpl; auto ..].
  - (* ACommitting *)
    wc H c c' Hg Hf. destruct (get_some _ _ _ Hg) as (Hn & _). pose proof (gsinv_get _ _ _ G Hn) as [A B C].
    destruct (trans (cst c) COMMITTING) eqn:T.
    + pose proof (trans_target _ _ _ T). subst t. pose proof (trans_committing _ _ T) as S.
      assert (c' = set_cst c COMMITTING) by (rewrite S in Hf; inversion Hf; reflexivity). subst c'.
      apply gsinv_put; auto. constructor; simpl.
      * intros K _. exfalso. apply (B (or_introl S) SApplied). exact K.
      * intros [K|[K|K]]; discriminate.
      * intros K. destruct (C K) as (K1 & _). congruence.
    + destruct (cst c); discriminate.
  - (* AAborting *)
    wc H c c' Hg Hf. destruct (get_some _ _ _ Hg) as (Hn & _). pose proof (gsinv_get _ _ _ G Hn) as [A B C].
    destruct (trans (cst c) ABORTING) eqn:T; [|discriminate]. inv_some.
    pose proof (trans_target _ _ _ T). subst t.
    apply gsinv_put; auto. constructor; simpl.
    + discriminate.
    + intros [K|[K|K]]; discriminate.
    + intros K. split; discriminate.
  - (* AComplete *)
    destruct (get s i) as [c|] eqn:Hg; [|discriminate]. destruct (get_some _ _ _ Hg) as (Hn & _).
    pose proof (gsinv_get _ _ _ G Hn) as [A B C].
    match type of H with (if ?g then _ else _) = _ => destruct g; [|discriminate] end.
    assert (K : exists t, trans (cst c) READY = Some t /\
                          clients s' = set_nth i (set_deadb (set_grp (set_parts (set_cst c t) [] (pend_parts c)) false) [])
                                               (clients s)).
    { destruct (cst c); try discriminate; destruct (trans _ READY) eqn:T; try discriminate;
        inversion H; eexists; split; reflexivity. }
    destruct K as (t & T & K). pose proof (trans_target _ _ _ T). subst t.
    unfold gsinv. rewrite K. apply Forall_set_nth; [exact G|]. constructor; simpl.
    + discriminate.
    + intros [K1|[K1|K1]]; discriminate.
    + intros K1. split; discriminate.
  - (* AError *)
    wc H c c' Hg Hf. destruct (get_some _ _ _ Hg) as (Hn & _). pose proof (gsinv_get _ _ _ G Hn) as [A B C].
    assert (K : exists t k st, trans (cst c) ABORTABLE = Some t /\ c' = c_clear c t /\ slot c = Some (k, st) /\ k <> KEnd).
    { destruct (slot c) as [[[] ?]|]; try discriminate; destruct (cst c); try discriminate;
        match type of Hf with match ?t with _ => _ end = _ => destruct t eqn:T end; try discriminate;
        inversion Hf; do 3 eexists; (split; [reflexivity|]); (split; [reflexivity|]); (split; [reflexivity|]);
        discriminate. }
    destruct K as (t & k & st & T & -> & Sl & Nk). pose proof (trans_target _ _ _ T). subst t.
    apply gsinv_put; auto. constructor; unfold c_clear; simpl.
    + discriminate.
    + intros _ st' K. rewrite Sl in K. inversion K. congruence.
    + intros K. split; discriminate.
  - (* AFatal *)
    wc H c c' Hg Hf. destruct (get_some _ _ _ Hg) as (Hn & _). pose proof (gsinv_get _ _ _ G Hn) as [A B C].
    destruct (trans (cst c) FATAL) eqn:T; [|discriminate]. inv_some.
    pose proof (trans_target _ _ _ T). subst t.
    apply gsinv_put; auto. constructor; unfold c_clear; simpl.
    + discriminate.
    + intros [K|[K|K]]; discriminate.
    + intros K. split; discriminate.
  - (* AKill *)
    destruct (nth_error (clients s) i) as [c|] eqn:Hn; [|discriminate]. inv_some.
    apply gsinv_put; auto. eapply sinv_same; [eapply gsinv_get; eauto | reflexivity ..].
  - (* TPick *)
    wc H c c' Hg Hf. destruct (get_some _ _ _ Hg) as (Hn & _). pose proof (gsinv_get _ _ _ G Hn) as [A B C].
    destruct (slot c) eqn:Sl; [discriminate|].
    destruct k as [k1|]; destruct (next_kind c) as [k2|] eqn:NK; try discriminate.
    + destruct (skind_eqb k1 k2) eqn:Ek; [|discriminate]. inv_some. apply skind_eqb_eq in Ek. subst k2.
      apply gsinv_put; auto. constructor; simpl.
      * discriminate.
      * intros K st K2. inversion K2; subst. destruct (next_kind_end _ NK) as [K3|K3];
          destruct K as [K|[K|K]]; congruence.
      * exact C.
    + inv_some. apply gsinv_put; auto. constructor; rewrite ?Sl; auto.
  - (* TDone *)
    wc H c c' Hg Hf. destruct (get_some _ _ _ Hg) as (Hn & _). pose proof (gsinv_get _ _ _ G Hn) as [A B C].
    destruct (slot c); [|discriminate]. inv_some.
    apply gsinv_put; auto. constructor; simpl; auto; discriminate.
  - (* CPartAdded *)
    wc H c c' Hg Hf. destruct (get_some _ _ _ Hg) as (Hn & _). pose proof (gsinv_get _ _ _ G Hn) as Si.
    destruct (slot_is c KParts SApplied && memn p (pend_parts c)); [|discriminate]. inv_some.
    apply gsinv_put; auto. eapply sinv_same; [exact Si | reflexivity ..].
  - (* CGroupAdded *)
    wc H c c' Hg Hf. destruct (get_some _ _ _ Hg) as (Hn & _). pose proof (gsinv_get _ _ _ G Hn) as Si.
    destruct (slot_is c KOffs SApplied); [|discriminate]. inv_some.
    apply gsinv_put; auto. eapply sinv_same; [exact Si | reflexivity ..].
  - (* COffCommitted *)
    wc H c c' Hg Hf. destruct (get_some _ _ _ Hg) as (Hn & _). pose proof (gsinv_get _ _ _ G Hn) as Si.
    destruct (slot_is c KToc SApplied && memn x (ctoc c)); [|discriminate].
    destruct (pend_offs c) as [|items rest]; [discriminate|].
    destruct (memn x items); [|discriminate]. inv_some.
    apply gsinv_put; auto. eapply sinv_same; [exact Si | reflexivity ..].
  - (* SDrain *)
    wc H c c' Hg Hf. destruct (get_some _ _ _ Hg) as (Hn & _). pose proof (gsinv_get _ _ _ G Hn) as Si.
    destruct (take_bid b (queue c)) as [[x q]|]; [|discriminate].
    destruct (head_of (bpart x) (queue c)); [|discriminate].
    match type of Hf with (if ?g then _ else _) = _ => destruct g; [|discriminate] end. inv_some.
    apply gsinv_put; auto. eapply sinv_same; [exact Si | reflexivity ..].
  - (* SOk *)
    wc H c c' Hg Hf. destruct (get_some _ _ _ Hg) as (Hn & _). pose proof (gsinv_get _ _ _ G Hn) as Si.
    destruct (take_bid b (inflight c)) as [[x f]|].
    + destruct (bapp x); [|discriminate]. inv_some.
      apply gsinv_put; auto. eapply sinv_same; [exact Si | reflexivity ..].
    + destruct (cst c); try discriminate. destruct (has_bid b (deadb c)); [|discriminate]. inv_some.
      apply gsinv_put; auto.
  - (* SRetry *)
    wc H c c' Hg Hf. destruct (get_some _ _ _ Hg) as (Hn & _). pose proof (gsinv_get _ _ _ G Hn) as Si.
    destruct (take_bid b (inflight c)) as [[x f]|].
    + inv_some. apply gsinv_put; auto. eapply sinv_same; [exact Si | reflexivity ..].
    + destruct (cst c); try discriminate. destruct (has_bid b (deadb c)); [|discriminate]. inv_some.
      apply gsinv_put; auto.
  - (* SFail *)
    wc H c c' Hg Hf. destruct (get_some _ _ _ Hg) as (Hn & _). pose proof (gsinv_get _ _ _ G Hn) as Si.
    destruct (take_bid b (inflight c)) as [[x f]|].
    + inv_some. apply gsinv_put; auto. eapply sinv_same; [exact Si | reflexivity ..].
    + destruct (take_bid b (queue c)) as [[x q]|].
      * inv_some. apply gsinv_put; auto. eapply sinv_same; [exact Si | reflexivity ..].
      * destruct (cst c); try discriminate. destruct (has_bid b (deadb c)); [|discriminate]. inv_some.
        apply gsinv_put; auto.
  - (* RAddParts *)
    destruct (get s i) as [c|] eqn:Hg; [|discriminate]. destruct (get_some _ _ _ Hg) as (Hn & _).
    pose proof (gsinv_get _ _ _ G Hn) as [A B C].
    destruct (slot_is c KParts SPicked && list_eqb ps (pend_parts c) && negb (is_niln ps)); [|discriminate].
    destruct v.
    + destruct (Nat.eqb (cep c) (eep (genv s)) && not_prep (genv s)); [|discriminate]. inv_some.
      apply (gsinv_put s i). exact G. constructor; simpl; auto; try discriminate;
        try (intros K st K2; discriminate).
    + inv_some. apply gsinv_put; auto. constructor; simpl; auto; try discriminate;
        try (intros K st K2; discriminate).
  - (* RAddOffs *)
    destruct (get s i) as [c|] eqn:Hg; [|discriminate]. destruct (get_some _ _ _ Hg) as (Hn & _).
    pose proof (gsinv_get _ _ _ G Hn) as [A B C].
    destruct (slot_is c KOffs SPicked); [|discriminate].
    destruct v.
    + destruct (Nat.eqb (cep c) (eep (genv s)) && not_prep (genv s)); [|discriminate]. inv_some.
      apply (gsinv_put s i). exact G. constructor; simpl; auto; try discriminate;
        try (intros K st K2; discriminate).
    + inv_some. apply gsinv_put; auto. constructor; simpl; auto; try discriminate;
        try (intros K st K2; discriminate).
  - (* RToc *)
    destruct (get s i) as [c|] eqn:Hg; [|discriminate]. destruct (get_some _ _ _ Hg) as (Hn & _).
    pose proof (gsinv_get _ _ _ G Hn) as [A B C].
    destruct (pend_offs c) as [|hd rest]; [discriminate|].
    destruct (slot_is c KToc SPicked && list_eqb items hd); [|discriminate].
    destruct v.
    + destruct (Nat.eqb (cep c) (eep (genv s))); [|discriminate]. inv_some.
      apply (gsinv_put s i). exact G. constructor; simpl; auto; try discriminate;
        try (intros K st K2; discriminate).
    + inv_some. apply gsinv_put; auto. constructor; simpl; auto; try discriminate;
        try (intros K st K2; discriminate).
  - (* REndTxn *)
    destruct (get s i) as [c|] eqn:Hg; [|discriminate]. destruct (get_some _ _ _ Hg) as (Hn & _).
    pose proof (gsinv_get _ _ _ G Hn) as [A B C].
    match type of H with (if ?g then _ else _) = _ => destruct g eqn:Gd; [|discriminate] end.
    apply andb_prop in Gd. destruct Gd as [Gd Gm].
    repeat (apply andb_prop in Gd; destruct Gd as [Gd _]). apply slot_is_true in Gd.
    assert (Kc : cst c = COMMITTING /\ commit = true \/ cst c = ABORTING /\ commit = false).
    { destruct (cst c), commit; try discriminate; auto. }
    assert (Kn : forall st', sinv (set_csent (set_slot c (Some (KEnd, st'))) (csent c || commit))).
    { intros st'. constructor; simpl.
      - intros _ K. destruct Kc as [[_ K2]|[K2 _]]; [subst; apply orb_true_r | congruence].
      - intros [K|[K|K]]; destruct Kc as [[K2 _]|[K2 _]]; congruence.
      - intros _. destruct Kc as [[K2 _]|[K2 _]]; rewrite K2; split; discriminate. }
    assert (Kv : sinv (set_slot c (Some (KEnd, SNotApplied)))).
    { constructor; simpl; auto; try discriminate.
      intros [K|[K|K]]; destruct Kc as [[K2 _]|[K2 _]]; congruence. }
    destruct v.
    + destruct (Nat.eqb (cep c) (eep (genv s))); [|discriminate].
      destruct (est (genv s)); try discriminate.
      * inv_some. apply (gsinv_put s i); auto.
      * destruct (Bool.eqb commit0 commit); [|discriminate]. inv_some. apply gsinv_put; auto.
    + inv_some. apply gsinv_put; auto.
  - (* RProduce *)
    destruct (nth_error (clients s) i) as [c|] eqn:Hn; [|discriminate].
    pose proof (gsinv_get _ _ _ G Hn) as Si.
    destruct (take_bid b (inflight c ++ match cst c with FATAL => deadb c | _ => [] end)) as [[x r]|];
      [|discriminate].
    destruct v.
    + destruct (Nat.eqb (cep c) (eep (genv s))); [|discriminate]. inv_some.
      apply (gsinv_put s i); auto. eapply sinv_same; [exact Si | reflexivity ..].
    + inv_some. exact G.
Qed.

Lemma gsinv_g0 n : gsinv (g0 n).
Proof. unfold gsinv, g0. simpl. apply Forall_forall. intros c H. apply repeat_spec in H. subst. apply sinv_client0. Qed.

(* ---------- the global invariant ---------------------------------------------------------------------- *)
Definition ongoing_or_prep (e : env) : Prop := est e = EOngoing \/ exists c, est e = EPrep c.
Definition ended_committed (s : gstate) (tg : tag) : Prop := exists acc, In (tg, OCommitted, acc) (ended s).
(* visible, or about to be: the commit marker of its transaction is being written *)
Definition vop (s : gstate) (tg : tag) (x p : nat) : Prop :=
  In (tg, x) (rc_view_t (log_of p (glog (genv s)))) \/
  (In (tg, x) (rc_open_t (log_of p (glog (genv s)))) /\ est (genv s) = EPrep true /\
   eowner (genv s) = Some tg /\ In p (eparts (genv s))).
(* the application knows (commit returned) or may still learn (EndTxn(commit) was applied) *)
Definition commit_known (s : gstate) (i k : nat) : Prop :=
  (exists c, cl s i = Some c /\ k = kcur c /\ csent c = true) \/ ended_committed s (i, k).
Definition last_done (l : list (option tag * bool)) : option (option tag * bool) :=
  match rev l with x :: _ => Some x | [] => None end.

Record linv (s : gstate) : Prop := {
  l_E1 : est (genv s) = EEmpty \/ (exists c, est (genv s) = EDone c) ->
         eparts (genv s) = [] /\ eowner (genv s) = None;
  l_E2 : forall p tg x, In (tg, x) (rc_open_t (log_of p (glog (genv s)))) ->
         ongoing_or_prep (genv s) /\ eowner (genv s) = Some tg /\ In p (eparts (genv s));
  l_E3 : forall p tg x, In (tg, x) (rc_view_t (log_of p (glog (genv s)))) -> In (Some tg, true) (edone (genv s));
  l_E5 : forall c0, est (genv s) = EDone c0 -> exists o, last_done (edone (genv s)) = Some (o, c0);
  l_12 : forall i k, eowner (genv s) = Some (i, k) -> exists c, cl s i = Some c /\ k <= kcur c;
  l_11 : forall i c, cl s i = Some c -> eowner (genv s) = Some (i, kcur c) -> cowned c = true;
  l_10 : forall i c, cl s i = Some c -> cowned c = false -> capp c = [];
  l_2 : forall i c, cl s i = Some c -> eowner (genv s) = Some (i, kcur c) -> est (genv s) = EOngoing ->
        forall x p, In (x, p) (capp c) ->
        In ((i, kcur c), x) (rc_open_t (log_of p (glog (genv s)))) /\ In p (eparts (genv s));
  l_1 : forall i c, cl s i = Some c -> csent c = true ->
        forall x p, In (x, p) (accepted c) -> vop s (i, kcur c) x p;
  l_5 : forall i k, eowner (genv s) = Some (i, k) -> est (genv s) = EPrep true -> commit_known s i k;
  l_6 : forall i k, In (Some (i, k), true) (edone (genv s)) -> commit_known s i k;
  l_8 : forall i k o acc, In ((i, k), o, acc) (ended s) ->
        exists c, cl s i = Some c /\ (k < kcur c \/ (k = kcur c /\ (cst c = READY \/ cst c = FATAL)));
  l_9 : forall i c, cl s i = Some c -> csent c = true -> cst c = READY -> ended_committed s (i, kcur c);
  l_7 : forall i k acc, In ((i, k), OAborted, acc) (ended s) ->
        ~ ended_committed s (i, k) /\ (forall c, cl s i = Some c -> k = kcur c -> csent c = false);
  l_14 : forall i k acc, In ((i, k), OCommitted, acc) (ended s) ->
         forall x p, In (x, p) acc -> vop s (i, k) x p
}.

(* the parts of the environment the invariant reads *)
Definition env_same (e e' : env) : Prop :=
  est e' = est e /\ eparts e' = eparts e /\ glog e' = glog e /\ eowner e' = eowner e /\ edone e' = edone e.

(* one instance changes; the fields of it that the invariant reads: *)
Record same_L (c c' : client) : Prop := {
  sl_k : kcur c' = kcur c; sl_s : csent c' = csent c; sl_o : cowned c' = cowned c;
  sl_a : capp c' = capp c; sl_acc : accepted c' = accepted c; sl_st : cst c' = cst c }.

Lemma vop_same s s' tg x p : env_same (genv s) (genv s') -> vop s tg x p -> vop s' tg x p.
Proof. intros (A & B & C & D & E). unfold vop. rewrite A, B, C, D. auto. Qed.

(* generic update of instance i: what the new record has to satisfy relative to the old one *)
Section ClientUpdate.
  Variables (s s' : gstate) (i : nat) (c c' : client).
  Hypothesis Hc : cl s i = Some c.
  Hypothesis Hc' : cl s' i = Some c'.
  Hypothesis Hother : forall j, j <> i -> cl s' j = cl s j.
  Hypothesis Henv : env_same (genv s) (genv s').
  Hypothesis Hended : ended s' = ended s.
  Hypothesis Hk : kcur c' = kcur c.
  Hypothesis Ho : cowned c' = cowned c.
  Hypothesis Ha : capp c' = capp c.
  Hypothesis Hs : csent c' = csent c.
  (* accepted may only grow while no commit was sent *)
  Hypothesis Hacc : accepted c' = accepted c \/ csent c = false.
  (* the state may change, within limits *)
  Hypothesis H8 : forall o acc, In ((i, kcur c), o, acc) (ended s) -> cst c' = READY \/ cst c' = FATAL.
  Hypothesis H9 : cst c' = READY -> csent c = true -> cst c = READY.

  Lemma ended_committed_same tg : ended_committed s tg <-> ended_committed s' tg.
  Proof. unfold ended_committed. rewrite Hended. tauto. Qed.

  Lemma commit_known_upd j k : commit_known s j k -> commit_known s' j k.
  Proof.
    intros [(c0 & A & B & C)|A].
    - left. destruct (Nat.eq_dec j i) as [->|N].
      + rewrite Hc in A. inversion A; subst c0. exists c'. rewrite Hk, Hs. auto.
      + exists c0. rewrite Hother by exact N. auto.
    - right. apply ended_committed_same. exact A.
  Qed.

  Lemma linv_client_upd : linv s -> linv s'.
  Proof.
    intros [E1 E2 E3 E5 L12 L11 L10 L2 L1 L5 L6 L8 L9 L7 L14].
    destruct Henv as (Ve & Vp & Vg & Vo & Vd).
    constructor; rewrite ?Ve, ?Vp, ?Vg, ?Vo, ?Vd, ?Hended; auto.
    - unfold ongoing_or_prep. rewrite Ve. exact E2.
    - intros j k H. destruct (L12 _ _ H) as (c0 & A & B). destruct (Nat.eq_dec j i) as [->|N].
      + rewrite Hc in A. inversion A; subst c0. exists c'. rewrite Hk. auto.
      + exists c0. rewrite Hother by exact N. auto.
    - intros j c0 A B. destruct (Nat.eq_dec j i) as [->|N].
      + rewrite Hc' in A. inversion A; subst c0. rewrite Ho. apply (L11 i c Hc). rewrite <- Hk. exact B.
      + rewrite Hother in A by exact N. eauto.
    - intros j c0 A B. destruct (Nat.eq_dec j i) as [->|N].
      + rewrite Hc' in A. inversion A; subst c0. rewrite Ha. apply (L10 i c Hc). congruence.
      + rewrite Hother in A by exact N. eauto.
    - intros j c0 A B C. destruct (Nat.eq_dec j i) as [->|N].
      + rewrite Hc' in A. inversion A; subst c0. rewrite Ha, Hk. apply (L2 i c Hc); congruence.
      + rewrite Hother in A by exact N. eauto.
    - intros j c0 A B x p C. apply (vop_same s s'); [repeat split; auto|].
      destruct (Nat.eq_dec j i) as [->|N].
      + rewrite Hc' in A. inversion A; subst c0. rewrite Hk. apply (L1 i c Hc); [congruence|].
        destruct Hacc as [K|K]; [rewrite <- K; exact C | congruence].
      + rewrite Hother in A by exact N. eauto.
    - intros j k A B. apply commit_known_upd. eauto.
    - intros j k A. apply commit_known_upd. eauto.
    - intros j k o acc A. destruct (L8 _ _ _ _ A) as (c0 & B & C). destruct (Nat.eq_dec j i) as [->|N].
      + rewrite Hc in B. inversion B; subst c0. exists c'. split; [exact Hc'|]. rewrite Hk.
        destruct C as [C|(C1 & C2)]; [auto|]. right. split; [exact C1|]. subst k. eapply H8; eauto.
      + exists c0. rewrite Hother by exact N. auto.
    - intros j c0 A B C. apply ended_committed_same. destruct (Nat.eq_dec j i) as [->|N].
      + rewrite Hc' in A. inversion A; subst c0. rewrite Hk. apply (L9 i c Hc); [congruence|].
        apply H9; congruence.
      + rewrite Hother in A by exact N. eauto.
    - intros j k acc A. destruct (L7 _ _ _ A) as (B & C). split.
      + intros K. apply B. apply ended_committed_same. exact K.
      + intros c0 D F. destruct (Nat.eq_dec j i) as [->|N].
        * rewrite Hc' in D. inversion D; subst c0. rewrite Hs. apply (C c Hc). congruence.
        * rewrite Hother in D by exact N. eauto.
    - intros j k acc A x p B. apply (vop_same s s'); [repeat split; auto|]. eauto.
  Qed.
End ClientUpdate.
