(* C07_atomic.v — atomicity of application transactions in model/C07_Txn.v, for every trace on
   which the client obligations (C07_Txn.ob) hold.

   Structure: [sinv] (per instance: state / slot / commit-sent, no assumption), [linv] (global:
   coordinator, logs, owners, ended transactions; assumes the obligations), then the theorems. *)
From Coq Require Import ZArith List Bool Arith Lia.
From Verif Require Import Imp TxnTable C16_TxnApi C07_Txn C07_client C07_env.
Import ListNotations.
Local Open Scope nat_scope.

Definition cl (s : gstate) (i : nat) : option client := nth_error (clients s) i.

Definition step_ob (s : gstate) (e : event) : option gstate :=
  match ob s e with Some _ => None | None => step s e end.

Lemma run_ob_cons s e tr : run_ob s (e :: tr) = match step_ob s e with Some s' => run_ob s' tr | None => None end.
Proof. unfold step_ob. simpl. destruct (ob s e); reflexivity. Qed.

Lemma cl_put_eq s i c c' : cl s i = Some c -> cl (put s i c') i = Some c'.
Proof. unfold cl, put. simpl. apply nth_set_nth_eq. Qed.
Lemma cl_put_neq s i j c' : i <> j -> cl (put s i c') j = cl s j.
Proof. unfold cl, put. simpl. apply nth_set_nth_neq. Qed.

(* ---------- per instance: state, slot, commit-sent ------------------------------------------------- *)
Record sinv (c : client) : Prop := {
  s_13 : slot c = Some (KEnd, SApplied) -> cst c = COMMITTING -> csent c = true;
  s_15 : cst c = IN_TXN \/ cst c = UNINIT \/ cst c = ABORTABLE -> forall st, slot c <> Some (KEnd, st);
  s_16 : csent c = true -> cst c <> IN_TXN /\ cst c <> UNINIT
}.
Definition gsinv (s : gstate) : Prop := Forall sinv (clients s).

Lemma gsinv_get s i c : gsinv s -> nth_error (clients s) i = Some c -> sinv c.
Proof. unfold gsinv. intros F H. rewrite Forall_forall in F. apply F. eapply nth_error_In; eauto. Qed.
Lemma gsinv_put s i c' : gsinv s -> sinv c' -> gsinv (put s i c').
Proof. unfold gsinv, put. simpl. intros. apply Forall_set_nth; auto. Qed.

Lemma sinv_same c c' : sinv c -> cst c' = cst c -> slot c' = slot c -> csent c' = csent c -> sinv c'.
Proof. intros [A B C] H1 H2 H3. constructor; rewrite ?H1, ?H2, ?H3; auto. Qed.

Lemma sinv_client0 : sinv client0.
Proof. constructor; simpl; intros; discriminate. Qed.

Lemma next_kind_end c : next_kind c = Some KEnd -> cst c = COMMITTING \/ cst c = ABORTING.
Proof.
  unfold next_kind. destruct (negb (is_niln (pend_parts c))); [discriminate|].
  destruct (negb (is_niln (pend_offs c))); [destruct (grp c); discriminate|].
  destruct (cst c); intros H; try discriminate; auto.
Qed.

Lemma skind_eqb_eq a b : skind_eqb a b = true -> a = b.
Proof. destruct a, b; simpl; intros; try discriminate; reflexivity. Qed.

Lemma slot_is_true c k st : slot_is c k st = true -> slot c = Some (k, st).
Proof.
  unfold slot_is. destruct (slot c) as [[k' st']|]; [|discriminate]. intros H.
  apply andb_prop in H. destruct H as [H1 H2]. apply skind_eqb_eq in H1. subst.
  destruct st, st'; simpl in H2; try discriminate; reflexivity.
Qed.

Lemma step_gsinv s e s' : step s e = Some s' -> gsinv s -> gsinv s'.
Proof.
  intros H G. destruct e; unfold step in H; cbv beta iota zeta in H.
  - destruct (est (genv s)); inv_some. exact G.
  - destruct (est (genv s)); inv_some. exact G.
  - destruct (est (genv s)); inv_some; exact G.
  - (* AStart *)
    destruct (get s i) as [c|] eqn:Hg; [|discriminate]. destruct (get_some _ _ _ Hg) as (Hn & _).
    pose proof (gsinv_get _ _ _ G Hn) as [A B C].
    destruct (cst c) eqn:E0; try discriminate. destruct (trans UNINIT READY) eqn:T; [|discriminate].
    destruct (memn ep (eissued (genv s))); [|discriminate]. inv_some.
    pose proof (trans_target _ _ _ T). subst t.
    unfold gsinv. simpl. apply Forall_set_nth; [exact G|]. constructor; simpl.
    + discriminate.
    + intros [K|[K|K]]; discriminate.
    + intros K. destruct (C K) as (_ & K2). congruence.
  - (* ABegin *)
    wc H c c' Hg Hf. destruct (get_some _ _ _ Hg) as (Hn & _). pose proof (gsinv_get _ _ _ G Hn) as [A B C].
    destruct (slot c) eqn:Sl; [discriminate|]. destruct (trans (cst c) IN_TXN) eqn:T; [|discriminate]. inv_some.
    apply gsinv_put; auto. constructor; simpl; rewrite ?Sl; intros; try discriminate.
  - (* AAccept *)
    wc H c c' Hg Hf. destruct (get_some _ _ _ Hg) as (Hn & _). pose proof (gsinv_get _ _ _ G Hn) as Si.
    destruct (cst c) eqn:S; try discriminate. destruct (Nat.eqb p GROUPP); [discriminate|].
    destruct newb.
    + destruct (has_part_q p (queue c) || has_bid b (queue c ++ inflight c ++ deadb c)); [discriminate|].
      inv_some. apply gsinv_put; auto. eapply sinv_same; [exact Si | simpl; auto ..].
    + destruct (snoc_item p b x (queue c)); [|discriminate]. inv_some.
      apply gsinv_put; auto. eapply sinv_same; [exact Si | simpl; auto ..].
  - (* AOffsets *)
    wc H c c' Hg Hf. destruct (get_some _ _ _ Hg) as (Hn & _). pose proof (gsinv_get _ _ _ G Hn) as Si.
    destruct (cst c) eqn:S; try discriminate. inv_some.
    apply gsinv_put; auto. eapply sinv_same; [exact Si | simpl; auto ..].
  - (* ACommitting *)
    wc H c c' Hg Hf. destruct (get_some _ _ _ Hg) as (Hn & _). pose proof (gsinv_get _ _ _ G Hn) as [A B C].
    destruct (trans (cst c) COMMITTING) eqn:T.
    + pose proof (trans_target _ _ _ T). subst t. pose proof (trans_committing _ _ T) as S.
      assert (c' = set_cst c COMMITTING) by (rewrite S in Hf; inversion Hf; reflexivity). subst c'.
      apply gsinv_put; auto. constructor; simpl.
      * intros K _. exfalso. apply (B (or_introl S) SApplied). exact K.
      * intros [K|[K|K]]; discriminate.
      * intros K. destruct (C K) as (K1 & _). congruence.
    + destruct (cst c); discriminate.
  - (* AAborting *)
    wc H c c' Hg Hf. destruct (get_some _ _ _ Hg) as (Hn & _). pose proof (gsinv_get _ _ _ G Hn) as [A B C].
    destruct (trans (cst c) ABORTING) eqn:T; [|discriminate]. inv_some.
    pose proof (trans_target _ _ _ T). subst t.
    apply gsinv_put; auto. constructor; simpl.
    + discriminate.
    + intros [K|[K|K]]; discriminate.
    + intros K. split; discriminate.
  - (* AComplete *)
    destruct (get s i) as [c|] eqn:Hg; [|discriminate]. destruct (get_some _ _ _ Hg) as (Hn & _).
    pose proof (gsinv_get _ _ _ G Hn) as [A B C].
    match type of H with (if ?g then _ else _) = _ => destruct g; [|discriminate] end.
    assert (K : exists t, trans (cst c) READY = Some t /\
                          clients s' = set_nth i (set_deadb (set_grp (set_parts (set_cst c t) [] (pend_parts c)) false) [])
                                               (clients s)).
    { destruct (cst c); try discriminate; destruct (trans _ READY) eqn:T; try discriminate;
        inversion H; eexists; split; reflexivity. }
    destruct K as (t & T & K). pose proof (trans_target _ _ _ T). subst t.
    unfold gsinv. rewrite K. apply Forall_set_nth; [exact G|]. constructor; simpl.
    + discriminate.
    + intros [K1|[K1|K1]]; discriminate.
    + intros K1. split; discriminate.
  - (* AError *)
    wc H c c' Hg Hf. destruct (get_some _ _ _ Hg) as (Hn & _). pose proof (gsinv_get _ _ _ G Hn) as [A B C].
    assert (K : exists t k st, trans (cst c) ABORTABLE = Some t /\ c' = c_err c t /\ slot c = Some (k, st) /\ k <> KEnd).
    { destruct (slot c) as [[[] ?]|]; try discriminate; destruct (cst c); try discriminate;
        destruct (forallb _ (queue c)); try discriminate;
        match type of Hf with match ?t with _ => _ end = _ => destruct t eqn:T end; try discriminate;
        inversion Hf; do 3 eexists; (split; [reflexivity|]); (split; [reflexivity|]); (split; [reflexivity|]);
        discriminate. }
    destruct K as (t & k & st & T & -> & Sl & Nk). pose proof (trans_target _ _ _ T). subst t.
    apply gsinv_put; auto. constructor; unfold c_err; simpl.
    + discriminate.
    + intros _ st' K. rewrite Sl in K. inversion K. congruence.
    + intros K. split; discriminate.
  - (* AFatal *)
    wc H c c' Hg Hf. destruct (get_some _ _ _ Hg) as (Hn & _). pose proof (gsinv_get _ _ _ G Hn) as [A B C].
    destruct ((tcode (cst c) =? 1)%Z) eqn:Eu; [discriminate|].
    destruct (trans (cst c) FATAL) eqn:T; [|discriminate]. inv_some.
    pose proof (trans_target _ _ _ T). subst t.
    apply gsinv_put; auto. constructor; unfold c_clear; simpl.
    + discriminate.
    + intros [K|[K|K]]; discriminate.
    + intros K. split; discriminate.
  - (* AKill *)
    destruct (nth_error (clients s) i) as [c|] eqn:Hn; [|discriminate]. inv_some.
    apply gsinv_put; auto. eapply sinv_same; [eapply gsinv_get; eauto | reflexivity ..].
  - (* TPick *)
    wc H c c' Hg Hf. destruct (get_some _ _ _ Hg) as (Hn & _). pose proof (gsinv_get _ _ _ G Hn) as [A B C].
    destruct (slot c) eqn:Sl; [discriminate|].
    destruct k as [k1|]; destruct (next_kind c) as [k2|] eqn:NK; try discriminate.
    + destruct (skind_eqb k1 k2) eqn:Ek; [|discriminate]. inv_some. apply skind_eqb_eq in Ek. subst k2.
      apply gsinv_put; auto. constructor; simpl.
      * discriminate.
      * intros K st K2. inversion K2; subst. destruct (next_kind_end _ NK) as [K3|K3];
          destruct K as [K|[K|K]]; congruence.
      * exact C.
    + inv_some. apply gsinv_put; auto. constructor; rewrite ?Sl; auto.
  - (* TDone *)
    wc H c c' Hg Hf. destruct (get_some _ _ _ Hg) as (Hn & _). pose proof (gsinv_get _ _ _ G Hn) as [A B C].
    destruct (slot c); [|discriminate]. inv_some.
    apply gsinv_put; auto. constructor; simpl; auto; discriminate.
  - (* CPartAdded *)
    wc H c c' Hg Hf. destruct (get_some _ _ _ Hg) as (Hn & _). pose proof (gsinv_get _ _ _ G Hn) as Si.
    destruct (slot_is c KParts SApplied && memn p (pend_parts c)); [|discriminate]. inv_some.
    apply gsinv_put; auto. eapply sinv_same; [exact Si | reflexivity ..].
  - (* CGroupAdded *)
    wc H c c' Hg Hf. destruct (get_some _ _ _ Hg) as (Hn & _). pose proof (gsinv_get _ _ _ G Hn) as Si.
    destruct (slot_is c KOffs SApplied); [|discriminate]. inv_some.
    apply gsinv_put; auto. eapply sinv_same; [exact Si | reflexivity ..].
  - (* COffCommitted *)
    wc H c c' Hg Hf. destruct (get_some _ _ _ Hg) as (Hn & _). pose proof (gsinv_get _ _ _ G Hn) as Si.
    destruct (slot_is c KToc SApplied && memn x (ctoc c)); [|discriminate].
    destruct (pend_offs c) as [|items rest]; [discriminate|].
    destruct (memn x items); [|discriminate]. inv_some.
    apply gsinv_put; auto. eapply sinv_same; [exact Si | reflexivity ..].
  - (* SDrain *)
    wc H c c' Hg Hf. destruct (get_some _ _ _ Hg) as (Hn & _). pose proof (gsinv_get _ _ _ G Hn) as Si.
    destruct (take_bid b (queue c)) as [[x q]|]; [|discriminate].
    destruct (head_of (bpart x) (queue c)); [|discriminate].
    match type of Hf with (if ?g then _ else _) = _ => destruct g; [|discriminate] end. inv_some.
    apply gsinv_put; auto. eapply sinv_same; [exact Si | reflexivity ..].
  - (* SOk *)
    wc H c c' Hg Hf. destruct (get_some _ _ _ Hg) as (Hn & _). pose proof (gsinv_get _ _ _ G Hn) as Si.
    destruct (take_bid b (inflight c)) as [[x f]|].
    + destruct (bapp x); [|discriminate]. inv_some.
      apply gsinv_put; auto. eapply sinv_same; [exact Si | reflexivity ..].
    + destruct (cst c); try discriminate. destruct (has_bid b (deadb c)); [|discriminate]. inv_some.
      apply gsinv_put; auto.
  - (* SRetry *)
    wc H c c' Hg Hf. destruct (get_some _ _ _ Hg) as (Hn & _). pose proof (gsinv_get _ _ _ G Hn) as Si.
    destruct (take_bid b (inflight c)) as [[x f]|].
    + inv_some. apply gsinv_put; auto. eapply sinv_same; [exact Si | reflexivity ..].
    + destruct (cst c); try discriminate. destruct (has_bid b (deadb c)); [|discriminate]. inv_some.
      apply gsinv_put; auto.
  - (* SFail *)
    wc H c c' Hg Hf. destruct (get_some _ _ _ Hg) as (Hn & _). pose proof (gsinv_get _ _ _ G Hn) as Si.
    destruct (take_bid b (inflight c)) as [[x f]|].
    + inv_some. apply gsinv_put; auto. eapply sinv_same; [exact Si | reflexivity ..].
    + destruct (take_bid b (queue c)) as [[x q]|].
      * inv_some. apply gsinv_put; auto. eapply sinv_same; [exact Si | reflexivity ..].
      * destruct (cst c); try discriminate. destruct (has_bid b (deadb c)); [|discriminate]. inv_some.
        apply gsinv_put; auto.
  - (* RAddParts *)
    destruct (get s i) as [c|] eqn:Hg; [|discriminate]. destruct (get_some _ _ _ Hg) as (Hn & _).
    pose proof (gsinv_get _ _ _ G Hn) as [A B C].
    destruct (slot_is c KParts SPicked && list_eqb ps (firstn (length ps) (pend_parts c)) && negb (is_niln ps)); [|discriminate].
    destruct v.
    + destruct (Nat.eqb (cep c) (eep (genv s)) && not_prep (genv s)); [|discriminate]. inv_some.
      apply (gsinv_put s i). exact G. constructor; simpl; auto; try discriminate;
        try (intros K st K2; discriminate).
    + inv_some. apply gsinv_put; auto. constructor; simpl; auto; try discriminate;
        try (intros K st K2; discriminate).
  - (* RAddOffs *)
    destruct (get s i) as [c|] eqn:Hg; [|discriminate]. destruct (get_some _ _ _ Hg) as (Hn & _).
    pose proof (gsinv_get _ _ _ G Hn) as [A B C].
    destruct (slot_is c KOffs SPicked); [|discriminate].
    destruct v.
    + destruct (Nat.eqb (cep c) (eep (genv s)) && not_prep (genv s)); [|discriminate]. inv_some.
      apply (gsinv_put s i). exact G. constructor; simpl; auto; try discriminate;
        try (intros K st K2; discriminate).
    + inv_some. apply gsinv_put; auto. constructor; simpl; auto; try discriminate;
        try (intros K st K2; discriminate).
  - (* RToc *)
    destruct (get s i) as [c|] eqn:Hg; [|discriminate]. destruct (get_some _ _ _ Hg) as (Hn & _).
    pose proof (gsinv_get _ _ _ G Hn) as [A B C].
    destruct (pend_offs c) as [|hd rest]; [discriminate|].
    destruct (slot_is c KToc SPicked && list_eqb items hd); [|discriminate].
    destruct v.
    + destruct (Nat.eqb (cep c) (eep (genv s))); [|discriminate]. inv_some.
      apply (gsinv_put s i). exact G. constructor; simpl; auto; try discriminate;
        try (intros K st K2; discriminate).
    + inv_some. apply gsinv_put; auto. constructor; simpl; auto; try discriminate;
        try (intros K st K2; discriminate).
  - (* REndTxn *)
    destruct (get s i) as [c|] eqn:Hg; [|discriminate]. destruct (get_some _ _ _ Hg) as (Hn & _).
    pose proof (gsinv_get _ _ _ G Hn) as [A B C].
    match type of H with (if ?g then _ else _) = _ => destruct g eqn:Gd; [|discriminate] end.
    apply andb_prop in Gd. destruct Gd as [Gd Gm].
    repeat (apply andb_prop in Gd; destruct Gd as [Gd _]). apply slot_is_true in Gd.
    assert (Kc : cst c = COMMITTING /\ commit = true \/ cst c = ABORTING /\ commit = false).
    { destruct (cst c), commit; try discriminate; auto. }
    assert (Kn : forall st', sinv (set_cend (set_deadb (set_csent (set_slot c (Some (KEnd, st'))) (csent c || commit)) [])
                                           true)).
    { intros st'. constructor; simpl.
      - intros _ K. destruct Kc as [[_ K2]|[K2 _]]; [subst; apply orb_true_r | congruence].
      - intros [K|[K|K]]; destruct Kc as [[K2 _]|[K2 _]]; congruence.
      - intros _. destruct Kc as [[K2 _]|[K2 _]]; rewrite K2; split; discriminate. }
    assert (Kv : sinv (set_slot c (Some (KEnd, SNotApplied)))).
    { constructor; simpl; auto; try discriminate.
      intros [K|[K|K]]; destruct Kc as [[K2 _]|[K2 _]]; congruence. }
    destruct v.
    + destruct (Nat.eqb (cep c) (eep (genv s))); [|discriminate].
      destruct (est (genv s)); try discriminate.
      * inv_some. apply (gsinv_put s i); auto.
      * destruct (Bool.eqb commit0 commit); [|discriminate]. inv_some. apply gsinv_put; auto.
    + inv_some. apply gsinv_put; auto.
  - (* RProduce *)
    destruct (nth_error (clients s) i) as [c|] eqn:Hn; [|discriminate].
    pose proof (gsinv_get _ _ _ G Hn) as Si.
    destruct (take_bid b (inflight c ++ match cst c with FATAL => deadb c | _ => [] end)) as [[x r]|];
      [|discriminate].
    destruct v.
    + destruct (Nat.eqb (cep c) (eep (genv s))); [|discriminate]. inv_some.
      apply (gsinv_put s i); auto. eapply sinv_same; [exact Si | reflexivity ..].
    + inv_some. exact G.
Qed.

Lemma gsinv_g0 n : gsinv (g0 n).
Proof. unfold gsinv, g0. simpl. apply Forall_forall. intros c H. apply repeat_spec in H. subst. apply sinv_client0. Qed.

(* ---------- the global invariant ---------------------------------------------------------------------- *)
Definition ongoing_or_prep (e : env) : Prop := est e = EOngoing \/ exists c, est e = EPrep c.
Definition ended_committed (s : gstate) (tg : tag) : Prop := exists acc, In (tg, OCommitted, acc) (ended s).
(* visible, or about to be: the commit marker of its transaction is being written *)
Definition vop (s : gstate) (tg : tag) (x p : nat) : Prop :=
  In (tg, x) (rc_view_t (log_of p (glog (genv s)))) \/
  (In (tg, x) (rc_open_t (log_of p (glog (genv s)))) /\ est (genv s) = EPrep true /\
   eowner (genv s) = Some tg /\ In p (eparts (genv s))).
(* the application knows (commit returned) or may still learn (EndTxn(commit) was applied) *)
Definition commit_known (s : gstate) (i k : nat) : Prop :=
  (exists c, cl s i = Some c /\ k = kcur c /\ csent c = true) \/ ended_committed s (i, k).
Definition last_done (l : list (option tag * bool)) : option (option tag * bool) :=
  match rev l with x :: _ => Some x | [] => None end.

Record linv (s : gstate) : Prop := {
  l_E1 : est (genv s) = EEmpty \/ (exists c, est (genv s) = EDone c) ->
         eparts (genv s) = [] /\ eowner (genv s) = None;
  l_E2 : forall p tg x, In (tg, x) (rc_open_t (log_of p (glog (genv s)))) ->
         ongoing_or_prep (genv s) /\ eowner (genv s) = Some tg /\ In p (eparts (genv s));
  l_E3 : forall p tg x, In (tg, x) (rc_view_t (log_of p (glog (genv s)))) -> In (Some tg, true) (edone (genv s));
  l_E5 : forall c0, est (genv s) = EDone c0 -> exists o, last_done (edone (genv s)) = Some (o, c0);
  l_12 : forall i k, eowner (genv s) = Some (i, k) -> exists c, cl s i = Some c /\ k <= kcur c;
  l_11 : forall i c, cl s i = Some c -> eowner (genv s) = Some (i, kcur c) -> cowned c = true;
  l_10 : forall i c, cl s i = Some c -> cowned c = false -> capp c = [];
  l_2 : forall i c, cl s i = Some c -> eowner (genv s) = Some (i, kcur c) -> est (genv s) = EOngoing ->
        forall x p, In (x, p) (capp c) ->
        In ((i, kcur c), x) (rc_open_t (log_of p (glog (genv s)))) /\ In p (eparts (genv s));
  l_1 : forall i c, cl s i = Some c -> csent c = true ->
        forall x p, In (x, p) (accepted c) -> vop s (i, kcur c) x p;
  l_5 : forall i k, eowner (genv s) = Some (i, k) -> est (genv s) = EPrep true -> commit_known s i k;
  l_6 : forall i k, In (Some (i, k), true) (edone (genv s)) -> commit_known s i k;
  l_8 : forall i k o acc, In ((i, k), o, acc) (ended s) ->
        exists c, cl s i = Some c /\ (k < kcur c \/ (k = kcur c /\ (cst c = READY \/ cst c = FATAL)));
  l_9 : forall i c, cl s i = Some c -> csent c = true -> cst c = READY -> ended_committed s (i, kcur c);
  l_7 : forall i k acc, In ((i, k), OAborted, acc) (ended s) ->
        ~ ended_committed s (i, k) /\ (forall c, cl s i = Some c -> k = kcur c -> csent c = false);
  l_14 : forall i k acc, In ((i, k), OCommitted, acc) (ended s) ->
         forall x p, In (x, p) acc -> vop s (i, k) x p
}.

(* the parts of the environment the invariant reads *)
Definition env_same (e e' : env) : Prop :=
  est e' = est e /\ eparts e' = eparts e /\ glog e' = glog e /\ eowner e' = eowner e /\ edone e' = edone e.

(* one instance changes; the fields of it that the invariant reads: *)
Record same_L (c c' : client) : Prop := {
  sl_k : kcur c' = kcur c; sl_s : csent c' = csent c; sl_o : cowned c' = cowned c;
  sl_a : capp c' = capp c; sl_acc : accepted c' = accepted c; sl_st : cst c' = cst c }.

Lemma vop_same s s' tg x p : env_same (genv s) (genv s') -> vop s tg x p -> vop s' tg x p.
Proof. intros (A & B & C & D & E). unfold vop. rewrite A, B, C, D. auto. Qed.

(* generic update of instance i: what the new record has to satisfy relative to the old one *)
Section ClientUpdate.
  Variables (s s' : gstate) (i : nat) (c c' : client).
  Hypothesis Hc : cl s i = Some c.
  Hypothesis Hc' : cl s' i = Some c'.
  Hypothesis Hother : forall j, j <> i -> cl s' j = cl s j.
  Hypothesis Henv : env_same (genv s) (genv s').
  Hypothesis Hended : ended s' = ended s.
  Hypothesis Hk : kcur c' = kcur c.
  Hypothesis Ho : cowned c' = cowned c.
  Hypothesis Ha : capp c' = capp c.
  Hypothesis Hs : csent c' = csent c.
  (* accepted may only grow while no commit was sent *)
  Hypothesis Hacc : accepted c' = accepted c \/ csent c = false.
  (* the state may change, within limits *)
  Hypothesis H8 : forall o acc, In ((i, kcur c), o, acc) (ended s) -> cst c' = READY \/ cst c' = FATAL.
  Hypothesis H9 : cst c' = READY -> csent c = true -> cst c = READY.

  Lemma ended_committed_same tg : ended_committed s tg <-> ended_committed s' tg.
  Proof. unfold ended_committed. rewrite Hended. tauto. Qed.

  Lemma commit_known_upd j k : commit_known s j k -> commit_known s' j k.
  Proof.
    intros [(c0 & A & B & C)|A].
    - left. destruct (Nat.eq_dec j i) as [->|N].
      + rewrite Hc in A. inversion A; subst c0. exists c'. rewrite Hk, Hs. auto.
      + exists c0. rewrite Hother by exact N. auto.
    - right. apply ended_committed_same. exact A.
  Qed.

  Lemma linv_client_upd : linv s -> linv s'.
  Proof.
    intros [E1 E2 E3 E5 L12 L11 L10 L2 L1 L5 L6 L8 L9 L7 L14].
    destruct Henv as (Ve & Vp & Vg & Vo & Vd).
    constructor; rewrite ?Ve, ?Vp, ?Vg, ?Vo, ?Vd, ?Hended; auto.
    - unfold ongoing_or_prep. rewrite Ve. exact E2.
    - intros j k H. destruct (L12 _ _ H) as (c0 & A & B). destruct (Nat.eq_dec j i) as [->|N].
      + rewrite Hc in A. inversion A; subst c0. exists c'. rewrite Hk. auto.
      + exists c0. rewrite Hother by exact N. auto.
    - intros j c0 A B. destruct (Nat.eq_dec j i) as [->|N].
      + rewrite Hc' in A. inversion A; subst c0. rewrite Ho. apply (L11 i c Hc). rewrite <- Hk. exact B.
      + rewrite Hother in A by exact N. eauto.
    - intros j c0 A B. destruct (Nat.eq_dec j i) as [->|N].
      + rewrite Hc' in A. inversion A; subst c0. rewrite Ha. apply (L10 i c Hc). congruence.
      + rewrite Hother in A by exact N. eauto.
    - intros j c0 A B C. destruct (Nat.eq_dec j i) as [->|N].
      + rewrite Hc' in A. inversion A; subst c0. rewrite Ha, Hk. apply (L2 i c Hc); congruence.
      + rewrite Hother in A by exact N. eauto.
    - intros j c0 A B x p C. apply (vop_same s s'); [repeat split; auto|].
      destruct (Nat.eq_dec j i) as [->|N].
      + rewrite Hc' in A. inversion A; subst c0. rewrite Hk. apply (L1 i c Hc); [congruence|].
        destruct Hacc as [K|K]; [rewrite <- K; exact C | congruence].
      + rewrite Hother in A by exact N. eauto.
    - intros j k A B. apply commit_known_upd. eauto.
    - intros j k A. apply commit_known_upd. eauto.
    - intros j k o acc A. destruct (L8 _ _ _ _ A) as (c0 & B & C). destruct (Nat.eq_dec j i) as [->|N].
      + rewrite Hc in B. inversion B; subst c0. exists c'. split; [exact Hc'|]. rewrite Hk.
        destruct C as [C|(C1 & C2)]; [auto|]. right. split; [exact C1|]. subst k. eapply H8; eauto.
      + exists c0. rewrite Hother by exact N. auto.
    - intros j c0 A B C. apply ended_committed_same. destruct (Nat.eq_dec j i) as [->|N].
      + rewrite Hc' in A. inversion A; subst c0. rewrite Hk. apply (L9 i c Hc); [congruence|].
        apply H9; congruence.
      + rewrite Hother in A by exact N. eauto.
    - intros j k acc A. destruct (L7 _ _ _ A) as (B & C). split.
      + intros K. apply B. apply ended_committed_same. exact K.
      + intros c0 D F. destruct (Nat.eq_dec j i) as [->|N].
        * rewrite Hc' in D. inversion D; subst c0. rewrite Hs. apply (C c Hc). congruence.
        * rewrite Hother in D by exact N. eauto.
    - intros j k acc A x p B. apply (vop_same s s'); [repeat split; auto|]. eauto.
  Qed.
End ClientUpdate.

(* instances whose read fields and state are unchanged *)
Lemma linv_client_same s s' i c c' :
  cl s i = Some c -> cl s' i = Some c' -> (forall j, j <> i -> cl s' j = cl s j) ->
  env_same (genv s) (genv s') -> ended s' = ended s -> same_L c c' -> linv s -> linv s'.
Proof.
  intros Hc Hc' Ho He Hd [A B C D E F] L.
  apply (linv_client_upd s s' i c c'); auto.
  - intros o acc K. rewrite F. destruct (l_8 _ L _ _ _ _ K) as (c0 & K1 & K2).
    rewrite Hc in K1. inversion K1; subst c0. destruct K2 as [K2|(_ & K2)]; [lia | exact K2].
  - congruence.
Qed.

Lemma env_same_refl e : env_same e e.
Proof. repeat split. Qed.

Lemma cl_put_other s i c' : forall j, j <> i -> cl (put s i c') j = cl s j.
Proof. intros j H. apply cl_put_neq. auto. Qed.

(* ---------- the events that only move state of one instance ---------------------------------------- *)
Ltac same_tac s i c Hn L :=
  apply (linv_client_same s (put s i _) i c _ Hn (cl_put_eq _ _ _ _ Hn) (cl_put_other _ _ _)
                          (env_same_refl _) eq_refl); [constructor; reflexivity | exact L].

Lemma linv_cst_change s i c t :
  cl s i = Some c -> sinv c -> linv s ->
  (cst c = READY \/ cst c = FATAL -> t = READY \/ t = FATAL) -> (t = READY -> cst c = READY \/ cst c = UNINIT) ->
  forall c', kcur c' = kcur c -> csent c' = csent c -> cowned c' = cowned c -> capp c' = capp c ->
             accepted c' = accepted c -> cst c' = t ->
  forall s', cl s' i = Some c' -> (forall j, j <> i -> cl s' j = cl s j) -> env_same (genv s) (genv s') ->
             ended s' = ended s -> linv s'.
Proof.
  intros Hc Si L H1 H2 c' A B C D E F s' Hc' Ho He Hd.
  apply (linv_client_upd s s' i c c'); auto.
  - intros o acc K. rewrite F. apply H1. destruct (l_8 _ L _ _ _ _ K) as (c0 & K1 & K2).
    rewrite Hc in K1. inversion K1; subst c0. destruct K2 as [K2|(_ & K2)]; [lia | exact K2].
  - rewrite F. intros K1 K2. destruct (H2 K1) as [K|K]; [exact K|].
    destruct (s_16 _ Si K2) as (_ & K3). congruence.
Qed.

(* ---------- environment events ------------------------------------------------------------------------ *)
Lemma vop_view_only s s' tg x p :
  (forall q y, In y (rc_view_t (log_of q (glog (genv s)))) -> In y (rc_view_t (log_of q (glog (genv s'))))) ->
  est (genv s) <> EPrep true -> vop s tg x p -> vop s' tg x p.
Proof. intros V N [H|(_ & H & _)]; [left; auto | congruence]. Qed.

Lemma commit_known_same s s' i k :
  clients s' = clients s -> ended s' = ended s -> commit_known s i k -> commit_known s' i k.
Proof. unfold commit_known, ended_committed, cl. intros -> ->. auto. Qed.

Lemma linv_fence s :
  est (genv s) = EOngoing -> linv s ->
  linv (put_env s (env_st (genv s) (EPrep false) (S (eep (genv s))))).
Proof.
  intros Es [E1 E2 E3 E5 L12 L11 L10 L2 L1 L5 L6 L8 L9 L7 L14].
  assert (V : forall tg x p, vop s tg x p -> vop (put_env s (env_st (genv s) (EPrep false) (S (eep (genv s))))) tg x p).
  { intros tg x p. apply vop_view_only; [auto | congruence]. }
  constructor; simpl.
  - intros [K|(c & K)]; discriminate.
  - intros p tg x K. destruct (E2 _ _ _ K) as (_ & A & B). split; [right; exists false; reflexivity | auto].
  - exact E3.
  - intros c0 K. discriminate.
  - exact L12.
  - exact L11.
  - exact L10.
  - intros i c A B K. discriminate.
  - intros i c A B x p K. apply V. eauto.
  - intros i k A K. discriminate.
  - exact L6.
  - exact L8.
  - exact L9.
  - exact L7.
  - intros i k acc A x p B. apply V. eauto.
Qed.

Lemma last_done_snoc l x : last_done (l ++ [x]) = Some x.
Proof. unfold last_done. rewrite rev_app_distr. reflexivity. Qed.

Lemma linv_markers s c0 :
  est (genv s) = EPrep c0 -> linv s ->
  linv (put_env s (mkE (EDone c0) (eep (genv s)) (einit (genv s)) (eissued (genv s)) []
                       (glog (genv s) ++ markers (eparts (genv s)) (eep (genv s)) c0)
                       None (edone (genv s) ++ [(eowner (genv s), c0)]))).
Proof.
  intros Es [E1 E2 E3 E5 L12 L11 L10 L2 L1 L5 L6 L8 L9 L7 L14].
  set (s' := put_env s _).
  assert (V : forall tg x p, vop s tg x p -> vop s' tg x p).
  { intros tg x p [K|(K1 & K2 & K3 & K4)]; left; unfold s'; simpl; rewrite view_markers.
    - destruct (memn p (eparts (genv s)) && c0); [apply in_or_app; auto | exact K].
    - rewrite Es in K2. inversion K2; subst c0. apply memn_In in K4. rewrite K4. simpl.
      apply in_or_app. auto. }
  constructor; unfold s'; simpl.
  - auto.
  - intros p tg x K. rewrite open_markers in K. destruct (memn p (eparts (genv s))) eqn:M; [destruct K|].
    destruct (E2 _ _ _ K) as (_ & _ & B). apply memn_In in B. congruence.
  - intros p tg x K. rewrite view_markers in K. apply in_or_app.
    destruct (memn p (eparts (genv s)) && c0) eqn:M.
    + apply in_app_or in K. destruct K as [K|K]; [left; eauto|].
      apply andb_prop in M. destruct M as [_ M]. subst c0. right. left.
      destruct (E2 _ _ _ K) as (_ & A & _). rewrite A. reflexivity.
    + left. eauto.
  - intros c1 K. inversion K; subst. eexists. apply last_done_snoc.
  - intros i k K. discriminate.
  - intros i c A K. discriminate.
  - exact L10.
  - intros i c A K1 K2. discriminate.
  - intros i c A B x p K. apply V. eauto.
  - intros i k K. discriminate.
  - intros i k K. apply in_app_or in K. destruct K as [K|[K|[]]].
    + apply (commit_known_same s); auto.
    + inversion K; subst. apply (commit_known_same s); auto.
  - exact L8.
  - exact L9.
  - exact L7.
  - intros i k acc A x p B. apply V. eauto.
Qed.

Lemma linv_initok s ep :
  est (genv s) = EEmpty \/ (exists c, est (genv s) = EDone c) -> linv s ->
  linv (put_env s (mkE EEmpty ep true (ep :: eissued (genv s)) [] (glog (genv s)) None (edone (genv s)))).
Proof.
  intros Es [E1 E2 E3 E5 L12 L11 L10 L2 L1 L5 L6 L8 L9 L7 L14].
  set (s' := put_env s _).
  assert (NP : est (genv s) <> EPrep true) by (destruct Es as [K|(c & K)]; congruence).
  assert (V : forall tg x p, vop s tg x p -> vop s' tg x p).
  { intros tg x p. apply vop_view_only; [auto | exact NP]. }
  constructor; unfold s'; simpl.
  - auto.
  - intros p tg x K. destruct (E2 _ _ _ K) as ([A|(c & A)] & _); destruct Es as [B|(c' & B)]; congruence.
  - exact E3.
  - intros c0 K. discriminate.
  - intros i k K. discriminate.
  - intros i c A K. discriminate.
  - exact L10.
  - intros i c A K1 K2. discriminate.
  - intros i c A B x p K. apply V. eauto.
  - intros i k K. discriminate.
  - exact L6.
  - exact L8.
  - exact L9.
  - exact L7.
  - intros i k acc A x p B. apply V. eauto.
Qed.

(* ---------- begin_transaction ---------------------------------------------------------------------------- *)
Lemma linv_begin s i c :
  cl s i = Some c -> cst c = READY -> linv s -> linv (put s i (new_txn c IN_TXN)).
Proof.
  intros Hc R [E1 E2 E3 E5 L12 L11 L10 L2 L1 L5 L6 L8 L9 L7 L14].
  set (c' := new_txn c IN_TXN). set (s' := put s i c').
  assert (Hc' : cl s' i = Some c') by (apply (cl_put_eq s i c); exact Hc).
  assert (Ho : forall j, j <> i -> cl s' j = cl s j) by (apply cl_put_other).
  assert (V : forall tg x p, vop s tg x p -> vop s' tg x p) by (intros; assumption).
  assert (EC : forall tg, ended_committed s tg -> ended_committed s' tg) by (intros; assumption).
  assert (CK : forall j k, commit_known s j k -> commit_known s' j k).
  { intros j k [(c0 & A & B & C)|A]; [|right; auto].
    destruct (Nat.eq_dec j i) as [->|N].
    - rewrite Hc in A. inversion A; subst c0. right. subst k. apply EC. apply (L9 i c); auto.
    - left. exists c0. rewrite Ho by exact N. auto. }
  assert (NoOwn : eowner (genv s) <> Some (i, S (kcur c))).
  { intros K. destruct (L12 _ _ K) as (c0 & A & B). rewrite Hc in A. inversion A; subst c0. lia. }
  constructor; unfold s'; simpl.
  - exact E1.
  - exact E2.
  - exact E3.
  - exact E5.
  - intros j k K. destruct (L12 _ _ K) as (c0 & A & B). destruct (Nat.eq_dec j i) as [->|N].
    + rewrite Hc in A. inversion A; subst c0. exists c'. split; [exact Hc'|]. simpl. lia.
    + exists c0. fold s'. rewrite Ho by exact N. auto.
  - intros j c0 A B. fold s' in A. destruct (Nat.eq_dec j i) as [->|N].
    + rewrite Hc' in A. inversion A; subst c0. simpl in B. congruence.
    + rewrite Ho in A by exact N. eauto.
  - intros j c0 A B. fold s' in A. destruct (Nat.eq_dec j i) as [->|N].
    + rewrite Hc' in A. inversion A; subst c0. reflexivity.
    + rewrite Ho in A by exact N. eauto.
  - intros j c0 A B C. fold s' in A. destruct (Nat.eq_dec j i) as [->|N].
    + rewrite Hc' in A. inversion A; subst c0. simpl in B. congruence.
    + rewrite Ho in A by exact N. eauto.
  - intros j c0 A B x p C. fold s' in A. destruct (Nat.eq_dec j i) as [->|N].
    + rewrite Hc' in A. inversion A; subst c0. simpl in B. discriminate.
    + rewrite Ho in A by exact N. apply V. eauto.
  - intros j k A B. apply CK. eauto.
  - intros j k A. apply CK. eauto.
  - intros j k o acc A. destruct (L8 _ _ _ _ A) as (c0 & B & C). destruct (Nat.eq_dec j i) as [->|N].
    + rewrite Hc in B. inversion B; subst c0. exists c'. split; [exact Hc'|]. simpl. left. lia.
    + exists c0. fold s'. rewrite Ho by exact N. auto.
  - intros j c0 A B C. fold s' in A. destruct (Nat.eq_dec j i) as [->|N].
    + rewrite Hc' in A. inversion A; subst c0. simpl in B. discriminate.
    + rewrite Ho in A by exact N. apply EC. eauto.
  - intros j k acc A. destruct (L7 _ _ _ A) as (B & C). split; [exact B|].
    intros c0 D F. fold s' in D. destruct (Nat.eq_dec j i) as [->|N].
    + rewrite Hc' in D. inversion D; subst c0. reflexivity.
    + rewrite Ho in D by exact N. eauto.
  - intros j k acc A x p B. apply V. eauto.
Qed.

(* ---------- commit / abort returns ------------------------------------------------------------------------ *)
Lemma linv_complete s i c o :
  cl s i = Some c -> sinv c -> linv s ->
  (cst c = COMMITTING /\ o = OCommitted) \/ (cst c = ABORTING /\ o = OAborted) ->
  (* the obligation at this point *)
  (cst c = ABORTING -> csent c = false) ->
  (cst c = COMMITTING -> slot c = Some (KEnd, SApplied) \/ accepted c = []) ->
  forall c', same_L c (set_cst c' (cst c)) -> cst c' = READY ->
  linv (mkG (set_nth i c' (clients s)) (genv s) (ended s ++ [(tagof i c, o, accepted c)])).
Proof.
  intros Hc Si [E1 E2 E3 E5 L12 L11 L10 L2 L1 L5 L6 L8 L9 L7 L14] Hst Hab Hsl c' [Sk Ss So Sa Sacc _] R.
  simpl in Sk, Ss, So, Sa, Sacc.
  set (s' := mkG _ _ _).
  assert (Hc' : cl s' i = Some c') by (unfold cl, s'; simpl; eapply nth_set_nth_eq; exact Hc).
  assert (Ho : forall j, j <> i -> cl s' j = cl s j) by (intros j N; unfold cl, s'; simpl; apply nth_set_nth_neq; auto).
  assert (V : forall tg x p, vop s tg x p -> vop s' tg x p) by (intros; assumption).
  assert (EC : forall tg, ended_committed s tg -> ended_committed s' tg).
  { intros tg (acc & K). exists acc. unfold s'. simpl. apply in_or_app. auto. }
  assert (CK : forall j k, commit_known s j k -> commit_known s' j k).
  { intros j k [(c0 & A & B & C)|A]; [|right; auto]. left.
    destruct (Nat.eq_dec j i) as [->|N].
    - rewrite Hc in A. inversion A; subst c0. exists c'. rewrite Sk, Ss. auto.
    - exists c0. rewrite Ho by exact N. auto. }
  assert (NotEnded : forall o1 acc, ~ In ((i, kcur c), o1, acc) (ended s)).
  { intros o1 acc K. destruct (L8 _ _ _ _ K) as (c0 & A & B). rewrite Hc in A. inversion A; subst c0.
    destruct B as [B|(_ & [B|B])]; [lia | |]; destruct Hst as [(K1 & _)|(K1 & _)]; congruence. }
  constructor; unfold s'; simpl.
  - exact E1.
  - exact E2.
  - exact E3.
  - exact E5.
  - intros j k K. destruct (L12 _ _ K) as (c0 & A & B). destruct (Nat.eq_dec j i) as [->|N].
    + rewrite Hc in A. inversion A; subst c0. exists c'. split; [exact Hc'|]. lia.
    + exists c0. fold s'. rewrite Ho by exact N. auto.
  - intros j c0 A B. fold s' in A. destruct (Nat.eq_dec j i) as [->|N].
    + rewrite Hc' in A. inversion A; subst c0. rewrite So. apply (L11 i c Hc). congruence.
    + rewrite Ho in A by exact N. eauto.
  - intros j c0 A B. fold s' in A. destruct (Nat.eq_dec j i) as [->|N].
    + rewrite Hc' in A. inversion A; subst c0. rewrite Sa. apply (L10 i c Hc). congruence.
    + rewrite Ho in A by exact N. eauto.
  - intros j c0 A B C. fold s' in A. destruct (Nat.eq_dec j i) as [->|N].
    + rewrite Hc' in A. inversion A; subst c0. rewrite Sa, Sk. apply (L2 i c Hc); congruence.
    + rewrite Ho in A by exact N. eauto.
  - intros j c0 A B x p C. fold s' in A. apply V. destruct (Nat.eq_dec j i) as [->|N].
    + rewrite Hc' in A. inversion A; subst c0. rewrite Sk. apply (L1 i c Hc); congruence.
    + rewrite Ho in A by exact N. eauto.
  - intros j k A B. apply CK. eauto.
  - intros j k A. apply CK. eauto.
  - intros j k o1 acc A. apply in_app_or in A. destruct A as [A|[A|[]]].
    + destruct (L8 _ _ _ _ A) as (c0 & B & C). destruct (Nat.eq_dec j i) as [->|N].
      * rewrite Hc in B. inversion B; subst c0. exists c'. split; [exact Hc'|]. rewrite Sk.
        destruct C as [C|(C1 & C2)]; [auto|]. subst k. exfalso. eapply NotEnded; eauto.
      * exists c0. fold s'. rewrite Ho by exact N. auto.
    + inversion A; subst. exists c'. split; [exact Hc'|]. right. auto.
  - intros j c0 A B C. fold s' in A. destruct (Nat.eq_dec j i) as [->|N].
    + rewrite Hc' in A. inversion A; subst c0. rewrite Sk. rewrite Ss in B.
      destruct Hst as [(K1 & K2)|(K1 & K2)].
      * subst o. exists (accepted c). apply in_or_app. right. left. reflexivity.
      * rewrite (Hab K1) in B. discriminate.
    + rewrite Ho in A by exact N. apply EC. eauto.
  - intros j k acc A. apply in_app_or in A. destruct A as [A|[A|[]]].
    + destruct (L7 _ _ _ A) as (B & C). split.
      * intros (acc' & K). apply in_app_or in K. destruct K as [K|[K|[]]]; [apply B; exists acc'; exact K|].
        inversion K; subst. eapply NotEnded; eauto.
      * intros c0 D F. fold s' in D. destruct (Nat.eq_dec j i) as [->|N].
        -- rewrite Hc' in D. inversion D; subst c0. rewrite Ss. apply (C c Hc). congruence.
        -- rewrite Ho in D by exact N. eauto.
    + inversion A; subst. destruct Hst as [(K1 & K2)|(K1 & K2)]; [discriminate|]. split.
      * intros (acc' & K). apply in_app_or in K. destruct K as [K|[K|[]]]; [eapply NotEnded; eauto|].
        inversion K.
      * intros c0 D F. fold s' in D. rewrite Hc' in D. inversion D; subst c0. rewrite Ss. auto.
  - intros j k acc A x p B. apply V. apply in_app_or in A. destruct A as [A|[A|[]]]; [eauto|].
    inversion A; subst. destruct Hst as [(K1 & K2)|(K1 & K2)]; [|discriminate].
    destruct (Hsl K1) as [Hsl'|Hsl'].
    + apply (L1 j c Hc); [apply (s_13 _ Si); auto | exact B].
    + rewrite Hsl' in B. destruct B.
Qed.

(* ---------- AddPartitionsToTxn / AddOffsetsToTxn applied ------------------------------------------------ *)
Lemma owner_is_true e t : owner_is e t = true -> eowner e = Some t.
Proof.
  unfold owner_is. destruct (eowner e) as [[a b]|]; [|discriminate]. destruct t as [a' b'].
  unfold tag_eqb. simpl. intros H. apply andb_prop in H. destruct H as [H1 H2].
  apply Nat.eqb_eq in H1. apply Nat.eqb_eq in H2. subst. reflexivity.
Qed.
Lemma owner_is_refl e t : eowner e = Some t -> owner_is e t = true.
Proof.
  unfold owner_is. intros ->. destruct t as [a b]. unfold tag_eqb. simpl. rewrite !Nat.eqb_refl. reflexivity.
Qed.

Lemma option_tag_dec (a b : option tag) : {a = b} + {a <> b}.
Proof. repeat decide equality. Qed.

Lemma no_open_spec en p : no_open en = true -> In p (eparts en) -> rc_open_t (log_of p (glog en)) = [].
Proof.
  unfold no_open. intros H I. rewrite forallb_forall in H. specialize (H p I).
  destruct (rc_open_t (log_of p (glog en))); [reflexivity | discriminate].
Qed.

Lemma linv_add s i c ps c' :
  cl s i = Some c -> linv s -> not_prep (genv s) = true ->
  (* obligation 3: the open coordinator transaction is this application transaction's, or it holds no data
     and this application transaction has not had one of its own; with none open, it has not had one *)
  (if is_ongoing (genv s)
   then eowner (genv s) = Some (i, kcur c) \/ (no_open (genv s) = true /\ cowned c = false)
   else cowned c = false) ->
  kcur c' = kcur c -> csent c' = csent c -> capp c' = capp c -> accepted c' = accepted c -> cst c' = cst c ->
  cowned c' = (cowned c || negb (owner_is (genv s) (tagof i c))) ->
  linv (put_env (put s i c') (env_add (genv s) ps (tagof i c))).
Proof.
  intros Hc [E1 E2 E3 E5 L12 L11 L10 L2 L1 L5 L6 L8 L9 L7 L14] NP Ob Sk Ss Sa Sacc Sst So.
  set (s' := put_env _ _).
  assert (Hc' : cl s' i = Some c') by (apply (cl_put_eq s i c); exact Hc).
  assert (Ho : forall j, j <> i -> cl s' j = cl s j) by (apply cl_put_other).
  assert (NPt : est (genv s) <> EPrep true).
  { unfold not_prep in NP. destruct (est (genv s)); congruence. }
  assert (V : forall tg x p, vop s tg x p -> vop s' tg x p).
  { intros tg x p. apply vop_view_only; [auto | exact NPt]. }
  assert (EC : forall tg, ended_committed s tg -> ended_committed s' tg) by (intros; assumption).
  assert (CK : forall j k, commit_known s j k -> commit_known s' j k).
  { intros j k [(c0 & A & B & C)|A]; [|right; auto]. left.
    destruct (Nat.eq_dec j i) as [->|N].
    - rewrite Hc in A. inversion A; subst c0. exists c'. rewrite Sk, Ss. auto.
    - exists c0. rewrite Ho by exact N. auto. }
  assert (OngE : is_ongoing (genv s) = true -> est (genv s) = EOngoing).
  { unfold is_ongoing. destruct (est (genv s)); congruence. }
  (* the owner afterwards is this application transaction *)
  assert (NO : eowner (genv s') = Some (i, kcur c)).
  { unfold s'. simpl. unfold tagof. destruct (is_ongoing (genv s)); [|reflexivity].
    destruct (no_open (genv s)) eqn:N; [reflexivity|]. destruct Ob as [Ob|(Ob & _)]; congruence. }
  (* if it was not the owner before, nothing is open and it has not had a transaction of its own *)
  assert (Fresh : eowner (genv s) <> Some (i, kcur c) ->
                  (forall p tg x, ~ In (tg, x) (rc_open_t (log_of p (glog (genv s))))) /\ cowned c = false).
  { intros Ne. destruct (is_ongoing (genv s)) eqn:Og.
    - destruct Ob as [Ob|(Ob1 & Ob2)]; [congruence|]. split; [|exact Ob2].
      intros p tg x K. destruct (E2 _ _ _ K) as (_ & _ & C). rewrite (no_open_spec _ _ Ob1 C) in K. destruct K.
    - split; [|exact Ob]. intros p tg x K. destruct (E2 _ _ _ K) as (A & _).
      unfold is_ongoing, not_prep in *. destruct A as [A|(b & A)]; rewrite A in *; discriminate. }
  constructor.
  - unfold s'; simpl. intros [K|(b & K)]; discriminate.
  - intros p tg x K. assert (K0 : In (tg, x) (rc_open_t (log_of p (glog (genv s))))) by exact K.
    destruct (E2 _ _ _ K0) as (A & B & C).
    split; [left; reflexivity|]. split.
    + rewrite NO. destruct (option_tag_dec (eowner (genv s)) (Some (i, kcur c))) as [Q|Q]; [congruence|].
      exfalso. exact (proj1 (Fresh Q) _ _ _ K0).
    + unfold s'; simpl. apply unionn_In. auto.
  - exact E3.
  - unfold s'; simpl. intros c0 K. discriminate.
  - intros j k K. rewrite NO in K. inversion K; subst. exists c'. split; [exact Hc'|]. lia.
  - intros j c0 A B. rewrite NO in B. destruct (Nat.eq_dec j i) as [->|N].
    + rewrite Hc' in A. inversion A; subst c0. rewrite So.
      destruct (option_tag_dec (eowner (genv s)) (Some (i, kcur c))) as [Q|Q].
      * rewrite (L11 i c Hc Q). reflexivity.
      * destruct (owner_is (genv s) (tagof i c)) eqn:Ow; [|apply orb_true_r].
        apply owner_is_true in Ow. exfalso. apply Q. exact Ow.
    + inversion B. congruence.
  - intros j c0 A B. destruct (Nat.eq_dec j i) as [->|N].
    + rewrite Hc' in A. inversion A; subst c0. rewrite Sa. rewrite So in B.
      apply orb_false_iff in B. destruct B as [B _]. eauto.
    + rewrite Ho in A by exact N. eauto.
  - intros j c0 A B _ x p C. rewrite NO in B. destruct (Nat.eq_dec j i) as [->|N].
    + rewrite Hc' in A. inversion A; subst c0. rewrite Sa in C. rewrite Sk.
      destruct (option_tag_dec (eowner (genv s)) (Some (i, kcur c))) as [Q|Q].
      * destruct (is_ongoing (genv s)) eqn:Og.
        -- destruct (L2 i c Hc Q (OngE eq_refl) x p C) as (K1 & K2).
           split; [exact K1 | unfold s'; simpl; apply unionn_In; auto].
        -- exfalso. assert (Z : est (genv s) = EEmpty \/ (exists c0, est (genv s) = EDone c0)).
           { unfold is_ongoing, not_prep in *. destruct (est (genv s)) eqn:Z; try discriminate; eauto. }
           destruct (E1 Z) as (_ & Z2). congruence.
      * rewrite (L10 i c Hc (proj2 (Fresh Q))) in C. destruct C.
    + inversion B. congruence.
  - intros j c0 A B x p C. apply V. destruct (Nat.eq_dec j i) as [->|N].
    + rewrite Hc' in A. inversion A; subst c0. rewrite Sk. apply (L1 i c Hc); congruence.
    + rewrite Ho in A by exact N. eauto.
  - unfold s'; simpl. intros j k A K. discriminate.
  - intros j k A. apply CK. eauto.
  - intros j k o acc A. destruct (L8 _ _ _ _ A) as (c0 & B & C). destruct (Nat.eq_dec j i) as [->|N].
    + rewrite Hc in B. inversion B; subst c0. exists c'. split; [exact Hc'|]. rewrite Sk, Sst. exact C.
    + exists c0. rewrite Ho by exact N. auto.
  - intros j c0 A B C. apply EC. destruct (Nat.eq_dec j i) as [->|N].
    + rewrite Hc' in A. inversion A; subst c0. rewrite Sk. apply (L9 i c Hc); congruence.
    + rewrite Ho in A by exact N. eauto.
  - intros j k acc A. destruct (L7 _ _ _ A) as (B & C). split; [exact B|].
    intros c0 D F. destruct (Nat.eq_dec j i) as [->|N].
    + rewrite Hc' in D. inversion D; subst c0. rewrite Ss. apply (C c Hc). congruence.
    + rewrite Ho in D by exact N. eauto.
  - intros j k acc A x p B. apply V. eauto.
Qed.

(* ---------- a data entry is appended (Produce / TxnOffsetCommit applied) -------------------------------- *)
Lemma linv_append s i c p ep items c' :
  cl s i = Some c -> linv s ->
  (* obligations 1 and 3 *)
  est (genv s) = EOngoing -> In p (eparts (genv s)) -> eowner (genv s) = Some (i, kcur c) ->
  kcur c' = kcur c -> csent c' = csent c -> cowned c' = cowned c -> accepted c' = accepted c -> cst c' = cst c ->
  capp c' = capp c ++ pairs p items ->
  linv (put_env (put s i c') (env_append (genv s) p (Data ep (i, kcur c) items))).
Proof.
  intros Hc [E1 E2 E3 E5 L12 L11 L10 L2 L1 L5 L6 L8 L9 L7 L14] Es Ep Eo Sk Ss So Sacc Sst Sa.
  set (s' := put_env _ _).
  assert (Hc' : cl s' i = Some c') by (apply (cl_put_eq s i c); exact Hc).
  assert (Ho : forall j, j <> i -> cl s' j = cl s j) by (apply cl_put_other).
  assert (V : forall tg x q, vop s tg x q -> vop s' tg x q).
  { intros tg x q. apply vop_view_only; [|congruence]. intros q0 y K. unfold s'. simpl.
    rewrite view_append_data. exact K. }
  assert (EC : forall tg, ended_committed s tg -> ended_committed s' tg) by (intros; assumption).
  assert (CK : forall j k, commit_known s j k -> commit_known s' j k).
  { intros j k [(c0 & A & B & C)|A]; [|right; auto]. left.
    destruct (Nat.eq_dec j i) as [->|N].
    - rewrite Hc in A. inversion A; subst c0. exists c'. rewrite Sk, Ss. auto.
    - exists c0. rewrite Ho by exact N. auto. }
  constructor; unfold s'; simpl.
  - rewrite Es. intros [K|(b & K)]; discriminate.
  - intros q tg x K. rewrite open_append_data in K. apply in_app_or in K. destruct K as [K|K].
    + exact (E2 _ _ _ K).
    + destruct (Nat.eqb p q) eqn:Epq; [|destruct K]. apply Nat.eqb_eq in Epq. subst q.
      apply in_map_iff in K. destruct K as (y & K1 & K2). inversion K1; subst.
      split; [left; exact Es|]. split; [exact Eo | exact Ep].
  - intros q tg x K. rewrite view_append_data in K. eauto.
  - rewrite Es. intros c0 K. discriminate.
  - intros j k K. destruct (L12 _ _ K) as (c0 & A & B). destruct (Nat.eq_dec j i) as [->|N].
    + rewrite Hc in A. inversion A; subst c0. exists c'. split; [exact Hc'|]. lia.
    + exists c0. fold s'. rewrite Ho by exact N. auto.
  - intros j c0 A B. fold s' in A. destruct (Nat.eq_dec j i) as [->|N].
    + rewrite Hc' in A. inversion A; subst c0. rewrite So. apply (L11 i c Hc). congruence.
    + rewrite Ho in A by exact N. eauto.
  - intros j c0 A B. fold s' in A. destruct (Nat.eq_dec j i) as [->|N].
    + rewrite Hc' in A. inversion A; subst c0. rewrite So in B.
      rewrite (L11 i c Hc Eo) in B. discriminate.
    + rewrite Ho in A by exact N. eauto.
  - intros j c0 A B _ x q C. fold s' in A. rewrite open_append_data.
    destruct (Nat.eq_dec j i) as [->|N].
    + rewrite Hc' in A. inversion A; subst c0. rewrite Sk. rewrite Sa in C. apply in_app_or in C.
      destruct C as [C|C].
      * destruct (L2 i c Hc Eo Es _ _ C) as (K1 & K2). split; [apply in_or_app; left; exact K1 | exact K2].
      * unfold pairs in C. apply in_map_iff in C. destruct C as (y & C1 & C2). inversion C1; subst.
        split; [|exact Ep]. apply in_or_app. right. rewrite Nat.eqb_refl. apply in_map_iff. eauto.
    + rewrite Ho in A by exact N. rewrite Eo in B. inversion B. congruence.
  - intros j c0 A B x q C. fold s' in A. apply V. destruct (Nat.eq_dec j i) as [->|N].
    + rewrite Hc' in A. inversion A; subst c0. rewrite Sk. apply (L1 i c Hc); congruence.
    + rewrite Ho in A by exact N. eauto.
  - rewrite Es. intros j k A K. discriminate.
  - intros j k A. apply CK. eauto.
  - intros j k o acc A. destruct (L8 _ _ _ _ A) as (c0 & B & C). destruct (Nat.eq_dec j i) as [->|N].
    + rewrite Hc in B. inversion B; subst c0. exists c'. split; [exact Hc'|]. rewrite Sk, Sst. exact C.
    + exists c0. fold s'. rewrite Ho by exact N. auto.
  - intros j c0 A B C. fold s' in A. apply EC. destruct (Nat.eq_dec j i) as [->|N].
    + rewrite Hc' in A. inversion A; subst c0. rewrite Sk. apply (L9 i c Hc); congruence.
    + rewrite Ho in A by exact N. eauto.
  - intros j k acc A. destruct (L7 _ _ _ A) as (B & C). split; [exact B|].
    intros c0 D F. fold s' in D. destruct (Nat.eq_dec j i) as [->|N].
    + rewrite Hc' in D. inversion D; subst c0. rewrite Ss. apply (C c Hc). congruence.
    + rewrite Ho in D by exact N. eauto.
  - intros j k acc A x q B. apply V. eauto.
Qed.

(* ---------- EndTxn applied ---------------------------------------------------------------------------------- *)
Lemma linv_endtxn s i c commit c' :
  cl s i = Some c -> linv s -> cinv c ->
  cst c = COMMITTING /\ commit = true \/ cst c = ABORTING /\ commit = false ->
  queue c = [] -> inflight c = [] -> pend_offs c = [] ->
  kcur c' = kcur c -> cowned c' = cowned c -> capp c' = capp c -> accepted c' = accepted c -> cst c' = cst c ->
  csent c' = (csent c || commit) ->
  (* obligations 2/3, coordinator Ongoing *)
  (est (genv s) = EOngoing -> eowner (genv s) = Some (i, kcur c) /\ (commit = true -> lostb c = false)) ->
  (* obligation 4, coordinator already Complete *)
  (forall c0, est (genv s) = EDone c0 -> c0 = commit /\ exists b, last_done (edone (genv s)) = Some (Some (i, kcur c), b)) ->
  forall env', (est (genv s) = EOngoing /\ env' = env_st (genv s) (EPrep commit) (eep (genv s))) \/
               ((exists c0, est (genv s) = EDone c0) /\ env' = genv s) ->
  linv (put_env (put s i c') env').
Proof.
  intros Hc L Ci Hst Q I Po Sk So Sa Sacc Sst Ss ObO ObD env' Henv.
  pose proof L as [E1 E2 E3 E5 L12 L11 L10 L2 L1 L5 L6 L8 L9 L7 L14].
  set (s' := put_env _ _).
  assert (Hc' : cl s' i = Some c') by (apply (cl_put_eq s i c); exact Hc).
  assert (Ho : forall j, j <> i -> cl s' j = cl s j) by (apply cl_put_other).
  assert (NPt : est (genv s) <> EPrep true) by (destruct Henv as [(K & _)|((c0 & K) & _)]; congruence).
  assert (Gl : glog env' = glog (genv s) /\ eowner env' = eowner (genv s) /\ eparts env' = eparts (genv s)
               /\ edone env' = edone (genv s)).
  { destruct Henv as [(_ & ->)|(_ & ->)]; repeat split. }
  destruct Gl as (Gl & Go & Gp & Gd).
  assert (V : forall tg x p, vop s tg x p -> vop s' tg x p).
  { intros tg x p. apply vop_view_only; [|exact NPt]. intros q y K. unfold s'. simpl. rewrite Gl. exact K. }
  assert (EC : forall tg, ended_committed s tg -> ended_committed s' tg) by (intros; assumption).
  assert (CK : forall j k, commit_known s j k -> commit_known s' j k).
  { intros j k [(c0 & A & B & C)|A]; [|right; auto]. left.
    destruct (Nat.eq_dec j i) as [->|N].
    - rewrite Hc in A. inversion A; subst c0. exists c'. rewrite Sk, Ss, C. auto.
    - exists c0. rewrite Ho by exact N. auto. }
  assert (NotEnded : forall o1 acc, ~ In ((i, kcur c), o1, acc) (ended s)).
  { intros o1 acc K. destruct (L8 _ _ _ _ K) as (c0 & A & B). rewrite Hc in A. inversion A; subst c0.
    destruct B as [B|(_ & [B|B])]; [lia | |]; destruct Hst as [(K1 & _)|(K1 & _)]; congruence. }
  constructor; unfold s'; simpl; rewrite ?Gl, ?Go, ?Gp, ?Gd.
  - destruct Henv as [(K & ->)|((c0 & K) & ->)]; simpl; [intros [K1|(b & K1)]; discriminate | exact E1].
  - intros p tg x K. destruct (E2 _ _ _ K) as (A & B & C). split; [|auto].
    destruct Henv as [(K1 & ->)|((c0 & K1) & ->)]; simpl; [right; exists commit; reflexivity | exact A].
  - exact E3.
  - destruct Henv as [(K & ->)|((c0 & K) & ->)]; simpl; [intros c1 K1; discriminate | exact E5].
  - intros j k K. destruct (L12 _ _ K) as (c0 & A & B). destruct (Nat.eq_dec j i) as [->|N].
    + rewrite Hc in A. inversion A; subst c0. exists c'. split; [exact Hc'|]. lia.
    + exists c0. fold s'. rewrite Ho by exact N. auto.
  - intros j c0 A B. fold s' in A. destruct (Nat.eq_dec j i) as [->|N].
    + rewrite Hc' in A. inversion A; subst c0. rewrite So. apply (L11 i c Hc). congruence.
    + rewrite Ho in A by exact N. eauto.
  - intros j c0 A B. fold s' in A. destruct (Nat.eq_dec j i) as [->|N].
    + rewrite Hc' in A. inversion A; subst c0. rewrite Sa. apply (L10 i c Hc). congruence.
    + rewrite Ho in A by exact N. eauto.
  - intros j c0 A B C. destruct Henv as [(K & ->)|((c1 & K) & ->)]; simpl in C; [discriminate | congruence].
  - intros j c0 A B x p C. fold s' in A. destruct (Nat.eq_dec j i) as [->|N].
    + rewrite Hc' in A. inversion A; subst c0. rewrite Sk. rewrite Sacc in C. rewrite Ss in B.
      destruct (csent c) eqn:Cs; [apply V; apply (L1 i c Hc); auto|]. simpl in B. subst commit.
      destruct Hst as [(St & _)|(_ & K)]; [|discriminate].
      destruct Henv as [(Es & ->)|((c1 & Es) & ->)].
      * (* first EndTxn(commit) of this transaction: everything accepted is in the open part of
           registered partitions, the coordinator is now PrepareCommit *)
        destruct (ObO Es) as (Ow & Lb). specialize (Lb eq_refl).
        destruct (ci_acc _ Ci Lb _ _ C) as [K|[(b & K1 & _)|(_ & l & K1 & _)]].
        -- destruct (L2 i c Hc Ow Es _ _ K) as (K1 & K2). right. simpl. rewrite Ow. auto.
        -- rewrite Q, I in K1. destruct K1.
        -- rewrite Po in K1. destruct K1.
      * (* answered "already complete" without our EndTxn having been applied before: impossible *)
        exfalso. destruct (ObD _ Es) as (-> & b & Ld). destruct (E5 _ Es) as (o & Ld2).
        rewrite Ld in Ld2. inversion Ld2; subst.
        assert (In (Some (i, kcur c), true) (edone (genv s))).
        { unfold last_done in Ld. destruct (rev (edone (genv s))) eqn:R; [discriminate|].
          inversion Ld; subst. rewrite (in_rev (edone (genv s))). rewrite R. left. reflexivity. }
        destruct (L6 _ _ H) as [(c0 & A1 & A2 & A3)|(acc & A1)].
        -- rewrite Hc in A1. inversion A1; subst c0. congruence.
        -- eapply NotEnded; eauto.
    + rewrite Ho in A by exact N. apply V. eauto.
  - intros j k A B. destruct Henv as [(Es & ->)|((c1 & Es) & ->)]; simpl in B; [|congruence].
    inversion B; subst commit. destruct (ObO Es) as (Ow & _). rewrite Ow in A. inversion A; subst.
    left. exists c'. split; [exact Hc'|]. rewrite Sk, Ss. split; [reflexivity | apply orb_true_r].
  - intros j k A. apply CK. eauto.
  - intros j k o acc A. destruct (L8 _ _ _ _ A) as (c0 & B & C). destruct (Nat.eq_dec j i) as [->|N].
    + rewrite Hc in B. inversion B; subst c0. exists c'. split; [exact Hc'|]. rewrite Sk, Sst. exact C.
    + exists c0. fold s'. rewrite Ho by exact N. auto.
  - intros j c0 A B C. fold s' in A. apply EC. destruct (Nat.eq_dec j i) as [->|N].
    + rewrite Hc' in A. inversion A; subst c0. rewrite Sst in C.
      destruct Hst as [(K & _)|(K & _)]; congruence.
    + rewrite Ho in A by exact N. eauto.
  - intros j k acc A. destruct (L7 _ _ _ A) as (B & C). split; [exact B|].
    intros c0 D F. fold s' in D. destruct (Nat.eq_dec j i) as [->|N].
    + rewrite Hc' in D. inversion D; subst c0. exfalso. rewrite Sk in F. subst k. eapply NotEnded; eauto.
    + rewrite Ho in D by exact N. eauto.
  - intros j k acc A x p B. apply V. eauto.
Qed.

(* ---------- every step that respects the obligations preserves the invariant ------------------------- *)
Lemma linv_put_same s i c c' : cl s i = Some c -> same_L c c' -> linv s -> linv (put s i c').
Proof.
  intros Hc S L. apply (linv_client_same s (put s i c') i c c'); auto.
  - eapply cl_put_eq; eauto.
  - apply cl_put_other.
  - apply env_same_refl.
Qed.

Lemma linv_put_cst s i c c' t :
  cl s i = Some c -> sinv c -> linv s ->
  (cst c = READY \/ cst c = FATAL -> t = READY \/ t = FATAL) -> (t = READY -> cst c = READY \/ cst c = UNINIT) ->
  kcur c' = kcur c -> csent c' = csent c -> cowned c' = cowned c -> capp c' = capp c ->
  accepted c' = accepted c -> cst c' = t -> linv (put s i c').
Proof.
  intros Hc Si L H1 H2 A B C D E F.
  apply (linv_cst_change s i c t Hc Si L H1 H2 c' A B C D E F (put s i c')); auto.
  - eapply cl_put_eq; eauto.
  - apply cl_put_other.
  - apply env_same_refl.
Qed.

Lemma linv_put_accept s i c c' :
  cl s i = Some c -> linv s -> csent c = false ->
  kcur c' = kcur c -> csent c' = csent c -> cowned c' = cowned c -> capp c' = capp c -> cst c' = cst c ->
  linv (put s i c').
Proof.
  intros Hc L Cs A B C D F.
  apply (linv_client_upd s (put s i c') i c c'); auto.
  - eapply cl_put_eq; eauto.
  - apply cl_put_other.
  - apply env_same_refl.
  - intros o acc K. rewrite F. destruct (l_8 _ L _ _ _ _ K) as (c0 & K1 & K2).
    rewrite Hc in K1. inversion K1; subst c0. destruct K2 as [K2|(_ & K2)]; [lia | exact K2].
  - congruence.
Qed.


Lemma is_ongoing_true e : is_ongoing e = true -> est e = EOngoing.
Proof. unfold is_ongoing. destruct (est e); congruence. Qed.

Lemma step_linv s e s' : step_ob s e = Some s' -> gcinv s -> gsinv s -> linv s -> linv s'.
Proof.
  unfold step_ob. intros H GC GS L. destruct (ob s e) eqn:Ob; [discriminate|].
  destruct e; unfold step in H; cbv beta iota zeta in H.
  - (* EFence *) destruct (est (genv s)) eqn:Es; inv_some. apply linv_fence; auto.
  - (* EMarkers *) destruct (est (genv s)) eqn:Es; inv_some. apply linv_markers; auto.
  - (* EInitOk *)
    destruct (est (genv s)) eqn:Es; inv_some; apply linv_initok; auto. right. eauto.
  - (* AStart *)
    destruct (get s i) as [c|] eqn:Hg; [|discriminate]. destruct (get_some _ _ _ Hg) as (Hn & _).
    destruct (cst c) eqn:E0; try discriminate. destruct (trans UNINIT READY) eqn:T; [|discriminate].
    destruct (memn ep (eissued (genv s))); [|discriminate]. inv_some.
    pose proof (trans_target _ _ _ T). subst t.
    apply (linv_cst_change s i c READY Hn (gsinv_get _ _ _ GS Hn) L) with (c' := set_cep (set_cst c READY) ep);
      try reflexivity.
    + rewrite E0. intros [K|K]; discriminate.
    + auto.
    + unfold cl. simpl. eapply nth_set_nth_eq; eauto.
    + intros j N. unfold cl. simpl. apply nth_set_nth_neq. auto.
    + repeat split.
  - (* ABegin *)
    wc H c c' Hg Hf. destruct (get_some _ _ _ Hg) as (Hn & _).
    destruct (slot c); [discriminate|]. destruct (trans (cst c) IN_TXN) eqn:T; [|discriminate]. inv_some.
    pose proof (trans_target _ _ _ T). subst t. apply trans_in_txn in T.
    apply linv_begin; auto.
  - (* AAccept *)
    wc H c c' Hg Hf. destruct (get_some _ _ _ Hg) as (Hn & _).
    pose proof (gsinv_get _ _ _ GS Hn) as Si.
    destruct (cst c) eqn:S; try discriminate.
    assert (Cs : csent c = false).
    { destruct (csent c) eqn:K; [|reflexivity]. destruct (s_16 _ Si K) as (K1 & _). congruence. }
    destruct (Nat.eqb p GROUPP); [discriminate|].
    destruct newb.
    + destruct (has_part_q p (queue c) || has_bid b (queue c ++ inflight c ++ deadb c)); [discriminate|].
      inv_some. apply (linv_put_accept s i c); auto.
    + destruct (snoc_item p b x (queue c)); [|discriminate]. inv_some.
      apply (linv_put_accept s i c); auto.
  - (* AOffsets *)
    wc H c c' Hg Hf. destruct (get_some _ _ _ Hg) as (Hn & _).
    pose proof (gsinv_get _ _ _ GS Hn) as Si.
    destruct (cst c) eqn:S; try discriminate. inv_some.
    assert (Cs : csent c = false).
    { destruct (csent c) eqn:K; [|reflexivity]. destruct (s_16 _ Si K) as (K1 & _). congruence. }
    apply (linv_put_accept s i c); auto.
  - (* ACommitting *)
    wc H c c' Hg Hf. destruct (get_some _ _ _ Hg) as (Hn & _).
    destruct (trans (cst c) COMMITTING) eqn:T.
    + pose proof (trans_target _ _ _ T). subst t. pose proof (trans_committing _ _ T) as S.
      assert (c' = set_cst c COMMITTING) by (rewrite S in Hf; inversion Hf; reflexivity). subst c'.
      apply (linv_put_cst s i c _ COMMITTING Hn (gsinv_get _ _ _ GS Hn) L); try reflexivity.
      * rewrite S. intros [K|K]; discriminate.
      * discriminate.
    + destruct (cst c); discriminate.
  - (* AAborting *)
    wc H c c' Hg Hf. destruct (get_some _ _ _ Hg) as (Hn & _).
    destruct (trans (cst c) ABORTING) eqn:T; [|discriminate]. inv_some.
    pose proof (trans_target _ _ _ T). subst t.
    apply (linv_put_cst s i c _ ABORTING Hn (gsinv_get _ _ _ GS Hn) L); try reflexivity.
    + destruct (trans_aborting _ _ T) as [S|S]; rewrite S; intros [K|K]; discriminate.
    + discriminate.
  - (* AComplete *)
    destruct (get s i) as [c|] eqn:Hg; [|discriminate]. destruct (get_some _ _ _ Hg) as (Hn & _).
    unfold ob in Ob. rewrite Hg in Ob.
    match type of H with (if ?g then _ else _) = _ => destruct g eqn:Gd; [|discriminate] end.
    apply andb_prop in Gd. destruct Gd as [_ Gs].
    assert (K : exists t o, trans (cst c) READY = Some t /\
                  (cst c = COMMITTING /\ o = OCommitted \/ cst c = ABORTING /\ o = OAborted) /\
                  s' = mkG (set_nth i (set_deadb (set_grp (set_parts (set_cst c t) [] (pend_parts c)) false) [])
                                    (clients s)) (genv s) (ended s ++ [(tagof i c, o, accepted c)])).
    { destruct (cst c); try discriminate; destruct (trans _ READY) eqn:T; try discriminate;
        inversion H; do 2 eexists; (split; [reflexivity|]); (split; [|reflexivity]); auto. }
    destruct K as (t & o & T & Hst & ->). pose proof (trans_target _ _ _ T). subst t.
    apply linv_complete; auto.
    + eapply gsinv_get; eauto.
    + intros K. rewrite K in Ob. destruct (csent c); [discriminate | reflexivity].
    + intros Kc. rewrite Kc in Ob.
      destruct (slot_is c KEnd SApplied) eqn:Sl; [left; apply slot_is_true; exact Sl|].
      right. destruct (accepted c); [reflexivity | discriminate].
    + constructor; reflexivity.
  - (* AError *)
    wc H c c' Hg Hf. destruct (get_some _ _ _ Hg) as (Hn & _).
    assert (K : exists t, trans (cst c) ABORTABLE = Some t /\ c' = c_err c t /\
                          (cst c = IN_TXN \/ cst c = COMMITTING \/ cst c = ABORTING)).
    { destruct (slot c) as [[[] ?]|]; try discriminate; destruct (cst c); try discriminate;
        destruct (forallb _ (queue c)); try discriminate;
        match type of Hf with match ?t with _ => _ end = _ => destruct t eqn:T end; try discriminate;
        inversion Hf; eexists; (split; [reflexivity|]); (split; [reflexivity|]); auto. }
    destruct K as (t & T & -> & St). pose proof (trans_target _ _ _ T). subst t.
    apply (linv_put_cst s i c _ ABORTABLE Hn (gsinv_get _ _ _ GS Hn) L); try reflexivity.
    + intros [K|K]; destruct St as [K1|[K1|K1]]; congruence.
    + discriminate.
  - (* AFatal *)
    wc H c c' Hg Hf. destruct (get_some _ _ _ Hg) as (Hn & _).
    destruct ((tcode (cst c) =? 1)%Z) eqn:Eu; [discriminate|].
    destruct (trans (cst c) FATAL) eqn:T; [|discriminate]. inv_some.
    pose proof (trans_target _ _ _ T). subst t.
    apply (linv_put_cst s i c _ FATAL Hn (gsinv_get _ _ _ GS Hn) L); try reflexivity.
    + auto.
    + discriminate.
  - (* AKill *)
    destruct (nth_error (clients s) i) as [c|] eqn:Hn; [|discriminate]. inv_some.
    apply (linv_put_same s i c); auto. constructor; reflexivity.
  - (* TPick *)
    wc H c c' Hg Hf. destruct (get_some _ _ _ Hg) as (Hn & _).
    destruct (slot c); [discriminate|].
    destruct k as [k1|]; destruct (next_kind c) as [k2|]; try discriminate.
    + destruct (skind_eqb k1 k2); [|discriminate]. inv_some.
      apply (linv_put_same s i c); auto. constructor; reflexivity.
    + inv_some. apply (linv_put_same s i c'); auto. constructor; reflexivity.
  - (* TDone *)
    wc H c c' Hg Hf. destruct (get_some _ _ _ Hg) as (Hn & _).
    destruct (slot c); [|discriminate]. inv_some.
    apply (linv_put_same s i c); auto. constructor; reflexivity.
  - (* CPartAdded *)
    wc H c c' Hg Hf. destruct (get_some _ _ _ Hg) as (Hn & _).
    destruct (slot_is c KParts SApplied && memn p (pend_parts c)); [|discriminate]. inv_some.
    apply (linv_put_same s i c); auto. constructor; reflexivity.
  - (* CGroupAdded *)
    wc H c c' Hg Hf. destruct (get_some _ _ _ Hg) as (Hn & _).
    destruct (slot_is c KOffs SApplied); [|discriminate]. inv_some.
    apply (linv_put_same s i c); auto. constructor; reflexivity.
  - (* COffCommitted *)
    wc H c c' Hg Hf. destruct (get_some _ _ _ Hg) as (Hn & _).
    destruct (slot_is c KToc SApplied && memn x (ctoc c)); [|discriminate].
    destruct (pend_offs c) as [|items rest]; [discriminate|].
    destruct (memn x items); [|discriminate]. inv_some.
    apply (linv_put_same s i c); auto. constructor; reflexivity.
  - (* SDrain *)
    wc H c c' Hg Hf. destruct (get_some _ _ _ Hg) as (Hn & _).
    destruct (take_bid b (queue c)) as [[x q]|]; [|discriminate].
    destruct (head_of (bpart x) (queue c)); [|discriminate].
    match type of Hf with (if ?g then _ else _) = _ => destruct g; [|discriminate] end. inv_some.
    apply (linv_put_same s i c); auto. constructor; reflexivity.
  - (* SOk *)
    wc H c c' Hg Hf. destruct (get_some _ _ _ Hg) as (Hn & _).
    destruct (take_bid b (inflight c)) as [[x f]|].
    + destruct (bapp x); [|discriminate]. inv_some.
      apply (linv_put_same s i c); auto. constructor; reflexivity.
    + destruct (cst c); try discriminate. destruct (has_bid b (deadb c)); [|discriminate]. inv_some.
      apply (linv_put_same s i c'); auto. constructor; reflexivity.
  - (* SRetry *)
    wc H c c' Hg Hf. destruct (get_some _ _ _ Hg) as (Hn & _).
    destruct (take_bid b (inflight c)) as [[x f]|].
    + inv_some. apply (linv_put_same s i c); auto. constructor; reflexivity.
    + destruct (cst c); try discriminate. destruct (has_bid b (deadb c)); [|discriminate]. inv_some.
      apply (linv_put_same s i c'); auto. constructor; reflexivity.
  - (* SFail *)
    wc H c c' Hg Hf. destruct (get_some _ _ _ Hg) as (Hn & _).
    destruct (take_bid b (inflight c)) as [[x f]|].
    + inv_some. apply (linv_put_same s i c); auto. constructor; reflexivity.
    + destruct (take_bid b (queue c)) as [[x q]|].
      * inv_some. apply (linv_put_same s i c); auto. constructor; reflexivity.
      * destruct (cst c); try discriminate. destruct (has_bid b (deadb c)); [|discriminate]. inv_some.
        apply (linv_put_same s i c'); auto. constructor; reflexivity.
  - (* RAddParts *)
    destruct (get s i) as [c|] eqn:Hg; [|discriminate]. destruct (get_some _ _ _ Hg) as (Hn & _).
    destruct (slot_is c KParts SPicked && list_eqb ps (firstn (length ps) (pend_parts c)) && negb (is_niln ps)); [|discriminate].
    destruct v.
    + destruct (Nat.eqb (cep c) (eep (genv s)) && not_prep (genv s)) eqn:Gd; [|discriminate]. inv_some.
      apply andb_prop in Gd. destruct Gd as [_ Np].
      unfold ob in Ob. rewrite Hg in Ob.
      apply linv_add; auto.
      destruct (is_ongoing (genv s)).
      * destruct (owner_is (genv s) (tagof i c)) eqn:Ow.
        -- left. apply owner_is_true in Ow. exact Ow.
        -- simpl in Ob. destruct (no_open (genv s)); [|discriminate].
           destruct (cowned c); [discriminate|]. right. split; reflexivity.
      * destruct (cowned c); [discriminate | reflexivity].
    + inv_some. apply (linv_put_same s i c); auto. constructor; reflexivity.
  - (* RAddOffs *)
    destruct (get s i) as [c|] eqn:Hg; [|discriminate]. destruct (get_some _ _ _ Hg) as (Hn & _).
    destruct (slot_is c KOffs SPicked); [|discriminate].
    destruct v.
    + destruct (Nat.eqb (cep c) (eep (genv s)) && not_prep (genv s)) eqn:Gd; [|discriminate]. inv_some.
      apply andb_prop in Gd. destruct Gd as [_ Np].
      unfold ob in Ob. rewrite Hg in Ob.
      apply linv_add; auto.
      destruct (is_ongoing (genv s)).
      * destruct (owner_is (genv s) (tagof i c)) eqn:Ow.
        -- left. apply owner_is_true in Ow. exact Ow.
        -- simpl in Ob. destruct (no_open (genv s)); [|discriminate].
           destruct (cowned c); [discriminate|]. right. split; reflexivity.
      * destruct (cowned c); [discriminate | reflexivity].
    + inv_some. apply (linv_put_same s i c); auto. constructor; reflexivity.
  - (* RToc *)
    destruct (get s i) as [c|] eqn:Hg; [|discriminate]. destruct (get_some _ _ _ Hg) as (Hn & _).
    destruct (pend_offs c) as [|hd rest]; [discriminate|].
    destruct (slot_is c KToc SPicked && list_eqb items hd); [|discriminate].
    destruct v.
    + destruct (Nat.eqb (cep c) (eep (genv s))); [|discriminate]. inv_some.
      unfold ob in Ob. rewrite Hg in Ob.
      destruct (is_ongoing (genv s) && memn GROUPP (eparts (genv s))) eqn:O1; [|discriminate]. simpl in Ob.
      destruct (owner_is (genv s) (tagof i c)) eqn:O3; [|discriminate].
      apply andb_prop in O1. destruct O1 as [O1 O1'].
      apply (linv_append s i c GROUPP (cep c) items); auto.
      * apply is_ongoing_true; auto.
      * apply memn_In; auto.
      * apply owner_is_true in O3. exact O3.
    + inv_some. apply (linv_put_same s i c); auto. constructor; reflexivity.
  - (* REndTxn *)
    destruct (get s i) as [c|] eqn:Hg; [|discriminate]. destruct (get_some _ _ _ Hg) as (Hn & _).
    match type of H with (if ?g then _ else _) = _ => destruct g eqn:Gd; [|discriminate] end.
    apply andb_prop in Gd. destruct Gd as [Gd Gm].
    apply andb_prop in Gd. destruct Gd as [Gd _]. apply andb_prop in Gd. destruct Gd as [Gd Gpo].
    apply andb_prop in Gd. destruct Gd as [Gd _]. apply andb_prop in Gd. destruct Gd as [Gd Gi].
    apply andb_prop in Gd. destruct Gd as [_ Gq].
    apply is_niln_nil in Gpo. apply is_niln_nil in Gi. apply is_niln_nil in Gq.
    assert (Kc : cst c = COMMITTING /\ commit = true \/ cst c = ABORTING /\ commit = false).
    { destruct (cst c), commit; try discriminate; auto. }
    destruct v.
    + destruct (Nat.eqb (cep c) (eep (genv s))); [|discriminate].
      unfold ob in Ob. rewrite Hg in Ob.
      destruct (est (genv s)) eqn:Es; try discriminate.
      * inv_some.
        apply (linv_endtxn s i c commit _ Hn L (gcinv_get _ _ _ GC Hn) Kc Gq Gi Gpo); try reflexivity.
        -- intros _. destruct (owner_is (genv s) (tagof i c)) eqn:O3; [|discriminate]. simpl in Ob.
           apply owner_is_true in O3. split; [exact O3|]. intros ->. simpl in Ob.
           destruct (lostb c); [discriminate | reflexivity].
        -- intros c0 K. congruence.
        -- left. auto.
      * destruct (Bool.eqb commit0 commit) eqn:Eb; [|discriminate]. inv_some.
        apply eqb_prop in Eb. subst commit0.
        match goal with |- linv (put s i ?cc) => change (linv (put_env (put s i cc) (genv s))) end.
        apply (linv_endtxn s i c commit _ Hn L (gcinv_get _ _ _ GC Hn) Kc Gq Gi Gpo); try reflexivity.
        -- intros K. congruence.
        -- intros c0 K. rewrite Es in K. inversion K; subst c0. split; [reflexivity|].
           unfold last_done_owner in Ob. unfold last_done.
           destruct (rev (edone (genv s))) as [|[o b] l]; [discriminate|].
           destruct o as [o|]; [|discriminate]. destruct (tag_eqb o (tagof i c)) eqn:Te; [|discriminate].
           exists b. unfold tag_eqb, tagof in Te. destruct o as [a k]. simpl in Te.
           apply andb_prop in Te. destruct Te as [T1 T2]. apply Nat.eqb_eq in T1. apply Nat.eqb_eq in T2.
           subst. reflexivity.
        -- right. split; [eauto | reflexivity].
    + inv_some. apply (linv_put_same s i c); auto. constructor; reflexivity.
  - (* RProduce *)
    destruct (nth_error (clients s) i) as [c|] eqn:Hn; [|discriminate].
    destruct (take_bid b (inflight c ++ match cst c with FATAL => deadb c | _ => [] end)) as [[x r]|] eqn:T;
      [|discriminate].
    destruct v.
    + destruct (Nat.eqb (cep c) (eep (genv s))); [|discriminate]. inv_some.
      unfold ob in Ob. rewrite Hn, T in Ob.
      destruct (is_ongoing (genv s) && memn (bpart x) (eparts (genv s))) eqn:O1; [|discriminate]. simpl in Ob.
      destruct (Nat.eqb (btag x) (kcur c) && owner_is (genv s) (i, btag x)) eqn:O3; [|discriminate].
      apply andb_prop in O1. destruct O1 as [O1 O1']. apply andb_prop in O3. destruct O3 as [O3 O3'].
      apply Nat.eqb_eq in O3. rewrite O3 in *.
      apply (linv_append s i c (bpart x) (cep c) (bitems x)); auto.
      * apply is_ongoing_true; auto.
      * apply memn_In; auto.
      * apply owner_is_true in O3'. exact O3'.
    + inv_some. exact L.
Qed.

(* ---------- from the initial state ------------------------------------------------------------------------ *)
Lemma cl_g0 n i c : cl (g0 n) i = Some c -> c = client0.
Proof. unfold cl, g0. simpl. intros H. apply nth_error_In in H. apply repeat_spec in H. exact H. Qed.

Lemma linv_g0 n : linv (g0 n).
Proof.
  constructor; simpl; intros; try contradiction; try discriminate; auto;
    try (apply cl_g0 in H; subst; try reflexivity; discriminate).
Qed.

Lemma step_ob_step s e s' : step_ob s e = Some s' -> step s e = Some s'.
Proof. unfold step_ob. destruct (ob s e); [discriminate | auto]. Qed.

Lemma run_ob_run : forall tr s s', run_ob s tr = Some s' -> run s tr = Some s'.
Proof.
  induction tr as [|e tr IH]; intros s s' H; [exact H|].
  rewrite run_ob_cons in H. destruct (step_ob s e) as [s1|] eqn:S; [|discriminate].
  simpl. rewrite (step_ob_step _ _ _ S). eauto.
Qed.

Lemma run_ob_inv : forall tr s s', run_ob s tr = Some s' -> gcinv s -> gsinv s -> linv s ->
  gcinv s' /\ gsinv s' /\ linv s'.
Proof.
  induction tr as [|e tr IH]; intros s s' H GC GS L.
  - inversion H; subst. auto.
  - rewrite run_ob_cons in H. destruct (step_ob s e) as [s1|] eqn:S; [|discriminate].
    pose proof (step_ob_step _ _ _ S) as S'.
    apply (IH s1); auto.
    + eapply step_gcinv; eauto.
    + eapply step_gsinv; eauto.
    + eapply step_linv; eauto.
Qed.

Lemma run_ob_g0 n tr s : run_ob (g0 n) tr = Some s -> gcinv s /\ gsinv s /\ linv s.
Proof. intros H. eapply run_ob_inv; eauto. apply gcinv_g0. apply gsinv_g0. apply linv_g0. Qed.

(* ---------- atomicity ------------------------------------------------------------------------------------------ *)
(* what a read-committed reader sees was written by a transaction whose commit returned, or whose
   EndTxn(commit) reached the coordinator (commit in progress / outcome not yet known to the
   application) *)
Theorem visible_only_if_committed n tr s :
  run_ob (g0 n) tr = Some s ->
  forall i k x p, In ((i, k), x) (rc_view_t (log_of p (glog (genv s)))) -> commit_known s i k.
Proof.
  intros H i k x p V. destruct (run_ob_g0 _ _ _ H) as (_ & _ & L).
  apply (l_6 _ L). eapply (l_E3 _ L); eauto.
Qed.

(* nothing of a transaction whose abort returned is ever visible *)
Theorem aborted_invisible n tr s :
  run_ob (g0 n) tr = Some s ->
  forall i k acc, In ((i, k), OAborted, acc) (ended s) ->
  forall x p, ~ In ((i, k), x) (rc_view_t (log_of p (glog (genv s)))).
Proof.
  intros H i k acc A x p V. destruct (run_ob_g0 _ _ _ H) as (_ & _ & L).
  destruct (l_7 _ L _ _ _ A) as (B & C).
  destruct (visible_only_if_committed _ _ _ H _ _ _ _ V) as [(c & K1 & K2 & K3)|K]; [|auto].
  rewrite (C c K1 K2) in K3. discriminate.
Qed.

(* nothing of a transaction for which no EndTxn(commit) was ever applied is visible: open, failed,
   fenced and killed transactions included *)
Theorem uncommitted_invisible n tr s :
  run_ob (g0 n) tr = Some s ->
  forall i c, cl s i = Some c -> csent c = false -> ~ ended_committed s (i, kcur c) ->
  forall x p, ~ In ((i, kcur c), x) (rc_view_t (log_of p (glog (genv s)))).
Proof.
  intros H i c Hc Cs Ne x p V.
  destruct (visible_only_if_committed _ _ _ H _ _ _ _ V) as [(c0 & K1 & K2 & K3)|K]; [|auto].
  rewrite Hc in K1. inversion K1; subst c0. congruence.
Qed.

(* everything a transaction accepted is visible once its commit returned (or becomes visible with
   the commit markers the coordinator is writing) *)
Theorem committed_visible n tr s :
  run_ob (g0 n) tr = Some s ->
  forall i k acc, In ((i, k), OCommitted, acc) (ended s) ->
  forall x p, In (x, p) acc -> vop s (i, k) x p.
Proof. intros H i k acc A x p B. destruct (run_ob_g0 _ _ _ H) as (_ & _ & L). eapply (l_14 _ L); eauto. Qed.

(* all or nothing while the outcome is in doubt: once EndTxn(commit) was applied, everything accepted *)
Theorem in_doubt_all n tr s :
  run_ob (g0 n) tr = Some s ->
  forall i c, cl s i = Some c -> csent c = true ->
  forall x p, In (x, p) (accepted c) -> vop s (i, kcur c) x p.
Proof. intros H i c Hc Cs x p A. destruct (run_ob_g0 _ _ _ H) as (_ & _ & L). eapply (l_1 _ L); eauto. Qed.

(* pending means: the only thing missing is the coordinator's marker write *)
Lemma vop_after_markers s tg x p s' :
  vop s tg x p -> step s EMarkers = Some s' -> In (tg, x) (rc_view_t (log_of p (glog (genv s')))).
Proof.
  intros V H. unfold step in H. destruct (est (genv s)) eqn:Es; try discriminate. inversion H; subst; clear H.
  simpl. rewrite view_markers. destruct V as [V|(V1 & V2 & V3 & V4)].
  - destruct (memn p (eparts (genv s)) && commit); [apply in_or_app; auto | exact V].
  - rewrite Es in V2. inversion V2; subst. apply memn_In in V4. rewrite V4. simpl. apply in_or_app. auto.
Qed.
