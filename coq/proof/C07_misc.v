(* C07_misc.v — fencing, the progress measure of an ending transaction, and the witnesses showing
   which client obligations the faithful model (= the code as it is) does NOT guarantee. *)
From Coq Require Import ZArith List Bool Arith Lia.
From Verif Require Import Imp TxnTable C16_TxnApi C07_Txn C07_client C07_env C07_atomic.
Import ListNotations.
Local Open Scope nat_scope.

(* ---------- fencing ------------------------------------------------------------------------------------ *)
Definition applied_by (e : event) : option nat :=
  match e with
  | RAddParts i _ VApplied | RAddOffs i VApplied | RToc i _ VApplied | REndTxn i _ VApplied
  | RProduce i _ VApplied => Some i
  | _ => None
  end.

(* a broker applies a request of an instance only if the instance holds the coordinator's epoch *)
Lemma applied_needs_epoch s e s' i :
  step s e = Some s' -> applied_by e = Some i ->
  exists c, nth_error (clients s) i = Some c /\ cep c = eep (genv s).
Proof.
  intros H A. destruct e; simpl in A; try discriminate; destruct v; try discriminate; inversion A; subst;
    unfold step in H.
  - destruct (get s i) as [c|] eqn:Hg; [|discriminate]. destruct (get_some _ _ _ Hg) as (Hn & _).
    match type of H with (if ?g then _ else _) = _ => destruct g; [|discriminate] end.
    destruct (Nat.eqb (cep c) (eep (genv s))) eqn:E; [|discriminate]. apply Nat.eqb_eq in E. eauto.
  - destruct (get s i) as [c|] eqn:Hg; [|discriminate]. destruct (get_some _ _ _ Hg) as (Hn & _).
    match type of H with (if ?g then _ else _) = _ => destruct g; [|discriminate] end.
    destruct (Nat.eqb (cep c) (eep (genv s))) eqn:E; [|discriminate]. apply Nat.eqb_eq in E. eauto.
  - destruct (get s i) as [c|] eqn:Hg; [|discriminate]. destruct (get_some _ _ _ Hg) as (Hn & _).
    destruct (pend_offs c); [discriminate|].
    match type of H with (if ?g then _ else _) = _ => destruct g; [|discriminate] end.
    destruct (Nat.eqb (cep c) (eep (genv s))) eqn:E; [|discriminate]. apply Nat.eqb_eq in E. eauto.
  - destruct (get s i) as [c|] eqn:Hg; [|discriminate]. destruct (get_some _ _ _ Hg) as (Hn & _).
    match type of H with (if ?g then _ else _) = _ => destruct g; [|discriminate] end.
    destruct (Nat.eqb (cep c) (eep (genv s))) eqn:E; [|discriminate]. apply Nat.eqb_eq in E. eauto.
  - destruct (nth_error (clients s) i) as [c|] eqn:Hn; [|discriminate].
    destruct (take_bid b _) as [[x r]|]; [|discriminate].
    destruct (Nat.eqb (cep c) (eep (genv s))) eqn:E; [|discriminate]. apply Nat.eqb_eq in E. eauto.
Qed.

(* the coordinator's epoch never decreases; an instance that has started keeps its epoch *)
Definition started_with (s : gstate) (i ep : nat) : Prop :=
  exists c, nth_error (clients s) i = Some c /\ cst c <> UNINIT /\ cep c = ep.

Ltac same_cep s i Hn :=
  match goal with
  | |- exists c0, nth_error (clients (put ?s1 ?j ?c1)) i = Some c0 /\ _ =>
      destruct (Nat.eq_dec j i) as [->|N];
      [ eexists; split; [eapply nth_set_nth_eq; eauto|]
      | eexists; split; [unfold put; simpl; rewrite nth_set_nth_neq by exact N; exact Hn|] ]
  end.

Lemma step_epochs s e s' :
  step s e = Some s' ->
  eep (genv s) <= eep (genv s') /\
  forall i ep, started_with s i ep -> started_with s' i ep.
Proof.
  intros H.
  assert (TU : forall a b t, trans a b = Some t -> b <> UNINIT -> t <> UNINIT).
  { intros a b t K N. apply trans_target in K. congruence. }
  (* every client update keeps the epoch and cannot return to UNINITIALIZED *)
  assert (UPD : forall j c', clients s' = set_nth j c' (clients s) ->
                (forall c, nth_error (clients s) j = Some c -> cst c <> UNINIT -> cst c' <> UNINIT /\ cep c' = cep c) ->
                forall i ep, started_with s i ep -> started_with s' i ep).
  { intros j c' K1 K2 i ep (c & A & B & C). unfold started_with. rewrite K1.
    destruct (Nat.eq_dec j i) as [->|N].
    - exists c'. destruct (K2 c A B) as (K3 & K4). split; [eapply nth_set_nth_eq; eauto|]. split; congruence.
    - exists c. rewrite nth_set_nth_neq by exact N. auto. }
  destruct e; unfold step in H; cbv beta iota zeta in H.
  - destruct (est (genv s)); inv_some. simpl. split; [lia | auto].
  - destruct (est (genv s)); inv_some. simpl. split; [lia | auto].
  - destruct (est (genv s)); inv_some; simpl; (split; [destruct (einit (genv s)); lia | auto]).
  - destruct (get s i) as [c|] eqn:Hg; [|discriminate]. destruct (get_some _ _ _ Hg) as (Hn & _).
    destruct (cst c) eqn:E0; try discriminate. destruct (trans UNINIT READY); [|discriminate].
    destruct (memn ep (eissued (genv s))); [|discriminate]. inv_some. simpl. split; [lia|].
    eapply UPD; [reflexivity|]. intros c0 K1 K2. rewrite Hn in K1. inversion K1; subst. congruence.
  - wc H c c' Hg Hf. destruct (get_some _ _ _ Hg) as (Hn & _). split; [simpl; lia|].
    destruct (slot c); [discriminate|]. destruct (trans (cst c) IN_TXN) eqn:T; [|discriminate]. inv_some.
    eapply UPD; [reflexivity|]. intros c0 K1 K2. simpl. split; [eapply TU; eauto; discriminate | congruence].
  - wc H c c' Hg Hf. destruct (get_some _ _ _ Hg) as (Hn & _). split; [simpl; lia|].
    destruct (cst c) eqn:S; try discriminate. destruct (Nat.eqb p GROUPP); [discriminate|].
    destruct newb.
    + destruct (has_part_q p (queue c) || has_bid b (queue c ++ inflight c ++ deadb c)); [discriminate|].
      inv_some. eapply UPD; [reflexivity|]. intros c0 K1 K2. simpl. split; congruence.
    + destruct (snoc_item p b x (queue c)); [|discriminate]. inv_some.
      eapply UPD; [reflexivity|]. intros c0 K1 K2. simpl. split; congruence.
  - wc H c c' Hg Hf. destruct (get_some _ _ _ Hg) as (Hn & _). split; [simpl; lia|].
    destruct (cst c) eqn:S; try discriminate. inv_some.
    eapply UPD; [reflexivity|]. intros c0 K1 K2. simpl. split; congruence.
  - wc H c c' Hg Hf. destruct (get_some _ _ _ Hg) as (Hn & _). split; [simpl; lia|].
    destruct (trans (cst c) COMMITTING) eqn:T.
    + assert (c' = set_cst c t) by (destruct (cst c); inversion Hf; reflexivity). subst c'.
      eapply UPD; [reflexivity|]. intros c0 K1 K2. simpl. split; [eapply TU; eauto; discriminate | congruence].
    + destruct (cst c); discriminate.
  - wc H c c' Hg Hf. destruct (get_some _ _ _ Hg) as (Hn & _). split; [simpl; lia|].
    destruct (trans (cst c) ABORTING) eqn:T; [|discriminate]. inv_some.
    eapply UPD; [reflexivity|]. intros c0 K1 K2. simpl. split; [eapply TU; eauto; discriminate | congruence].
  - destruct (get s i) as [c|] eqn:Hg; [|discriminate]. destruct (get_some _ _ _ Hg) as (Hn & _).
    match type of H with (if ?g then _ else _) = _ => destruct g; [|discriminate] end.
    assert (K : exists t, trans (cst c) READY = Some t /\ genv s' = genv s /\
                  clients s' = set_nth i (set_deadb (set_grp (set_parts (set_cst c t) [] (pend_parts c)) false) [])
                                       (clients s)).
    { destruct (cst c); try discriminate; destruct (trans _ READY) eqn:T; try discriminate;
        inversion H; eexists; repeat split. }
    destruct K as (t & T & Ge & K). rewrite Ge. split; [lia|].
    eapply UPD; [exact K|]. intros c0 K1 K2. simpl. split; [eapply TU; eauto; discriminate | congruence].
  - wc H c c' Hg Hf. destruct (get_some _ _ _ Hg) as (Hn & _). split; [simpl; lia|].
    assert (K : exists t, trans (cst c) ABORTABLE = Some t /\ c' = c_err c t).
    { destruct (slot c) as [[[] ?]|]; try discriminate; destruct (cst c); try discriminate;
        destruct (forallb _ (queue c)); try discriminate;
        match type of Hf with match ?t with _ => _ end = _ => destruct t eqn:T end; try discriminate;
        inversion Hf; eauto. }
    destruct K as (t & T & ->).
    eapply UPD; [reflexivity|]. intros c0 K1 K2. simpl. split; [eapply TU; eauto; discriminate | congruence].
  - wc H c c' Hg Hf. destruct (get_some _ _ _ Hg) as (Hn & _). split; [simpl; lia|].
    destruct ((tcode (cst c) =? 1)%Z) eqn:Eu; [discriminate|].
    destruct (trans (cst c) FATAL) eqn:T; [|discriminate]. inv_some.
    eapply UPD; [reflexivity|]. intros c0 K1 K2. simpl. split; [eapply TU; eauto; discriminate | congruence].
  - destruct (nth_error (clients s) i) as [c|] eqn:Hn; [|discriminate]. inv_some. split; [simpl; lia|].
    eapply UPD; [reflexivity|]. intros c0 K1 K2. simpl. split; congruence.
  - wc H c c' Hg Hf. destruct (get_some _ _ _ Hg) as (Hn & _). split; [simpl; lia|].
    destruct (slot c); [discriminate|].
    destruct k as [k1|]; destruct (next_kind c) as [k2|]; try discriminate.
    + destruct (skind_eqb k1 k2); [|discriminate]. inv_some.
      eapply UPD; [reflexivity|]. intros c0 K1 K2. simpl. split; congruence.
    + inv_some. eapply UPD; [reflexivity|]. intros c0 K1 K2. split; congruence.
  - wc H c c' Hg Hf. destruct (get_some _ _ _ Hg) as (Hn & _). split; [simpl; lia|].
    destruct (slot c); [|discriminate]. inv_some.
    eapply UPD; [reflexivity|]. intros c0 K1 K2. simpl. split; congruence.
  - wc H c c' Hg Hf. destruct (get_some _ _ _ Hg) as (Hn & _). split; [simpl; lia|].
    destruct (slot_is c KParts SApplied && memn p (pend_parts c)); [|discriminate]. inv_some.
    eapply UPD; [reflexivity|]. intros c0 K1 K2. simpl. split; congruence.
  - wc H c c' Hg Hf. destruct (get_some _ _ _ Hg) as (Hn & _). split; [simpl; lia|].
    destruct (slot_is c KOffs SApplied); [|discriminate]. inv_some.
    eapply UPD; [reflexivity|]. intros c0 K1 K2. simpl. split; congruence.
  - wc H c c' Hg Hf. destruct (get_some _ _ _ Hg) as (Hn & _). split; [simpl; lia|].
    destruct (slot_is c KToc SApplied && memn x (ctoc c)); [|discriminate].
    destruct (pend_offs c) as [|items rest]; [discriminate|].
    destruct (memn x items); [|discriminate]. inv_some.
    eapply UPD; [reflexivity|]. intros c0 K1 K2. simpl. split; congruence.
  - wc H c c' Hg Hf. destruct (get_some _ _ _ Hg) as (Hn & _). split; [simpl; lia|].
    destruct (take_bid b (queue c)) as [[x q]|]; [|discriminate].
    destruct (head_of (bpart x) (queue c)); [|discriminate].
    match type of Hf with (if ?g then _ else _) = _ => destruct g; [|discriminate] end. inv_some.
    eapply UPD; [reflexivity|]. intros c0 K1 K2. simpl. split; congruence.
  - wc H c c' Hg Hf. destruct (get_some _ _ _ Hg) as (Hn & _). split; [simpl; lia|].
    destruct (take_bid b (inflight c)) as [[x f]|].
    + destruct (bapp x); [|discriminate]. inv_some.
      eapply UPD; [reflexivity|]. intros c0 K1 K2. simpl. split; congruence.
    + destruct (cst c); try discriminate. destruct (has_bid b (deadb c)); [|discriminate]. inv_some.
      eapply UPD; [reflexivity|]. intros c0 K1 K2. split; congruence.
  - wc H c c' Hg Hf. destruct (get_some _ _ _ Hg) as (Hn & _). split; [simpl; lia|].
    destruct (take_bid b (inflight c)) as [[x f]|].
    + inv_some. eapply UPD; [reflexivity|]. intros c0 K1 K2. simpl. split; congruence.
    + destruct (cst c); try discriminate. destruct (has_bid b (deadb c)); [|discriminate]. inv_some.
      eapply UPD; [reflexivity|]. intros c0 K1 K2. split; congruence.
  - wc H c c' Hg Hf. destruct (get_some _ _ _ Hg) as (Hn & _). split; [simpl; lia|].
    destruct (take_bid b (inflight c)) as [[x f]|].
    + inv_some. eapply UPD; [reflexivity|]. intros c0 K1 K2. simpl. split; congruence.
    + destruct (take_bid b (queue c)) as [[x q]|].
      * inv_some. eapply UPD; [reflexivity|]. intros c0 K1 K2. simpl. split; congruence.
      * destruct (cst c); try discriminate. destruct (has_bid b (deadb c)); [|discriminate]. inv_some.
        eapply UPD; [reflexivity|]. intros c0 K1 K2. split; congruence.
  - destruct (get s i) as [c|] eqn:Hg; [|discriminate]. destruct (get_some _ _ _ Hg) as (Hn & _).
    match type of H with (if ?g then _ else _) = _ => destruct g; [|discriminate] end.
    destruct v.
    + destruct (Nat.eqb (cep c) (eep (genv s)) && not_prep (genv s)); [|discriminate]. inv_some.
      split; [simpl; lia|]. eapply UPD; [reflexivity|]. intros c0 K1 K2. simpl. split; congruence.
    + inv_some. split; [simpl; lia|]. eapply UPD; [reflexivity|]. intros c0 K1 K2. simpl. split; congruence.
  - destruct (get s i) as [c|] eqn:Hg; [|discriminate]. destruct (get_some _ _ _ Hg) as (Hn & _).
    match type of H with (if ?g then _ else _) = _ => destruct g; [|discriminate] end.
    destruct v.
    + destruct (Nat.eqb (cep c) (eep (genv s)) && not_prep (genv s)); [|discriminate]. inv_some.
      split; [simpl; lia|]. eapply UPD; [reflexivity|]. intros c0 K1 K2. simpl. split; congruence.
    + inv_some. split; [simpl; lia|]. eapply UPD; [reflexivity|]. intros c0 K1 K2. simpl. split; congruence.
  - destruct (get s i) as [c|] eqn:Hg; [|discriminate]. destruct (get_some _ _ _ Hg) as (Hn & _).
    destruct (pend_offs c) as [|hd rest]; [discriminate|].
    match type of H with (if ?g then _ else _) = _ => destruct g; [|discriminate] end.
    destruct v.
    + destruct (Nat.eqb (cep c) (eep (genv s))); [|discriminate]. inv_some.
      split; [simpl; lia|]. eapply UPD; [reflexivity|]. intros c0 K1 K2. simpl. split; congruence.
    + inv_some. split; [simpl; lia|]. eapply UPD; [reflexivity|]. intros c0 K1 K2. simpl. split; congruence.
  - destruct (get s i) as [c|] eqn:Hg; [|discriminate]. destruct (get_some _ _ _ Hg) as (Hn & _).
    match type of H with (if ?g then _ else _) = _ => destruct g; [|discriminate] end.
    destruct v.
    + destruct (Nat.eqb (cep c) (eep (genv s))); [|discriminate].
      destruct (est (genv s)); try discriminate.
      * inv_some. split; [simpl; lia|]. eapply UPD; [reflexivity|]. intros c0 K1 K2. simpl. split; congruence.
      * destruct (Bool.eqb commit0 commit); [|discriminate]. inv_some.
        split; [simpl; lia|]. eapply UPD; [reflexivity|]. intros c0 K1 K2. simpl. split; congruence.
    + inv_some. split; [simpl; lia|]. eapply UPD; [reflexivity|]. intros c0 K1 K2. simpl. split; congruence.
  - destruct (nth_error (clients s) i) as [c|] eqn:Hn; [|discriminate].
    destruct (take_bid b _) as [[x r]|]; [|discriminate].
    destruct v.
    + destruct (Nat.eqb (cep c) (eep (genv s))); [|discriminate]. inv_some.
      split; [simpl; lia|]. eapply UPD; [reflexivity|]. intros c0 K1 K2. simpl. split; congruence.
    + inv_some. split; [lia | auto].
Qed.

(* once a newer epoch exists, no request of the older instance is ever applied again *)
Theorem fenced_never_applied : forall tr s s' i ep,
  run s tr = Some s' -> started_with s i ep -> ep < eep (genv s) ->
  Forall (fun e => applied_by e <> Some i) tr.
Proof.
  induction tr as [|e tr IH]; intros s s' i ep H St Lt; [constructor|].
  simpl in H. destruct (step s e) as [s1|] eqn:S; [|discriminate].
  destruct (step_epochs _ _ _ S) as (M & K). constructor.
  - intros A. destruct (applied_needs_epoch _ _ _ _ S A) as (c & C1 & C2).
    destruct St as (c0 & D1 & D2 & D3). rewrite C1 in D1. inversion D1; subst c0. lia.
  - eapply (IH s1 s' i ep); eauto. lia.
Qed.

(* a new instance bumps the epoch *)
Lemma initok_bumps s s' : einit (genv s) = true -> step s EInitOk = Some s' -> eep (genv s') = S (eep (genv s)).
Proof.
  intros I H. unfold step in H. destruct (est (genv s)); inv_some; simpl; rewrite I; reflexivity.
Qed.

(* ---------- progress measure of an ending transaction --------------------------------------------------- *)
(* what still has to happen before EndTxn can be sent *)
Definition mu (c : client) : nat :=
  length (pend_parts c) + length (concat (pend_offs c)) + (if grp c then 0 else length (pend_offs c))
  + length (queue c) + length (inflight c).

Lemma filter_len_le {A} (f : A -> bool) l : length (filter f l) <= length l.
Proof. induction l as [|y l IH]; simpl; [lia|]. destruct (f y); simpl; lia. Qed.

Lemma remn_length_lt x l : In x l -> length (remn x l) < length l.
Proof.
  induction l as [|y l IH]; intros H; [destruct H|]. unfold remn in *. simpl.
  destruct (Nat.eqb x y) eqn:E; simpl.
  - assert (K : length (filter (fun y0 => negb (Nat.eqb x y0)) l) <= length l) by apply filter_len_le.
    lia.
  - destruct H as [H|H]; [subst; rewrite Nat.eqb_refl in E; discriminate|]. specialize (IH H). lia.
Qed.

Lemma take_bid_length n q x r : take_bid n q = Some (x, r) -> length q = S (length r).
Proof.
  revert x r. induction q as [|b q IH]; intros x r H; simpl in H; [discriminate|].
  destruct (Nat.eqb (bid b) n).
  - inversion H; subst. reflexivity.
  - destruct (take_bid n q) as [[x0 r0]|] eqn:T; [|discriminate]. inversion H; subst. simpl.
    rewrite (IH _ _ eq_refl). reflexivity.
Qed.

(* every acknowledgement the client receives strictly decreases the measure *)
Lemma mu_part_added s i p s' c : step s (CPartAdded i p) = Some s' -> get s i = Some c ->
  exists c', nth_error (clients s') i = Some c' /\ mu c' < mu c.
Proof.
  intros H Hg. unfold step, with_client in H. rewrite Hg in H. destruct (get_some _ _ _ Hg) as (Hn & _).
  destruct (slot_is c KParts SApplied && memn p (pend_parts c)) eqn:G; [|discriminate]. inv_some.
  apply andb_prop in G. destruct G as [_ G]. apply memn_In in G.
  eexists. split; [unfold put; simpl; eapply nth_set_nth_eq; eauto|]. unfold mu. simpl.
  pose proof (remn_length_lt _ _ G). lia.
Qed.

Lemma mu_group_added s i s' c : step s (CGroupAdded i) = Some s' -> get s i = Some c ->
  grp c = false -> pend_offs c <> [] ->
  exists c', nth_error (clients s') i = Some c' /\ mu c' < mu c.
Proof.
  intros H Hg Gr Ne. unfold step, with_client in H. rewrite Hg in H. destruct (get_some _ _ _ Hg) as (Hn & _).
  destruct (slot_is c KOffs SApplied); [|discriminate]. inv_some.
  eexists. split; [unfold put; simpl; eapply nth_set_nth_eq; eauto|]. unfold mu. simpl. rewrite Gr.
  destruct (pend_offs c); [congruence|]. simpl. lia.
Qed.

Lemma mu_off_committed s i x s' c : step s (COffCommitted i x) = Some s' -> get s i = Some c ->
  exists c', nth_error (clients s') i = Some c' /\ mu c' < mu c.
Proof.
  intros H Hg. unfold step, with_client in H. rewrite Hg in H. destruct (get_some _ _ _ Hg) as (Hn & _).
  destruct (slot_is c KToc SApplied && memn x (ctoc c)); [|discriminate].
  destruct (pend_offs c) as [|items rest] eqn:P; [discriminate|].
  destruct (memn x items) eqn:M; [|discriminate]. inv_some. apply memn_In in M.
  eexists. split; [unfold put; simpl; eapply nth_set_nth_eq; eauto|]. unfold mu. simpl. rewrite P. simpl.
  pose proof (remn_length_lt _ _ M) as K. rewrite app_length.
  destruct (is_niln (remn x items)) eqn:N.
  - destruct (grp c); simpl; lia.
  - simpl. rewrite app_length. destruct (grp c); simpl; lia.
Qed.

Lemma mu_ok s i b s' c : step s (SOk i b) = Some s' -> get s i = Some c -> cst c <> FATAL ->
  exists c', nth_error (clients s') i = Some c' /\ mu c' < mu c.
Proof.
  intros H Hg Nf. unfold step, with_client in H. rewrite Hg in H. destruct (get_some _ _ _ Hg) as (Hn & _).
  destruct (take_bid b (inflight c)) as [[x f]|] eqn:T.
  - destruct (bapp x); [|discriminate]. inv_some.
    eexists. split; [unfold put; simpl; eapply nth_set_nth_eq; eauto|]. unfold mu. simpl.
    rewrite (take_bid_length _ _ _ _ T). lia.
  - destruct (cst c); try discriminate. congruence.
Qed.

(* a refused or lost request changes nothing but the slot: it is simply picked again *)
Lemma mu_not_applied s e s' i c :
  step s e = Some s' -> get s i = Some c ->
  (exists ps, e = RAddParts i ps VNot) \/ e = RAddOffs i VNot \/ (exists it, e = RToc i it VNot) \/
  (exists cm, e = REndTxn i cm VNot) \/ e = TDone i ->
  exists c', nth_error (clients s') i = Some c' /\ mu c' = mu c /\ cst c' = cst c /\
             next_kind c' = next_kind c.
Proof.
  intros H Hg E. destruct (get_some _ _ _ Hg) as (Hn & _).
  destruct E as [(ps & E)|[E|[(it & E)|[(cm & E)|E]]]]; subst e; unfold step in H; try unfold with_client in H;
    rewrite Hg in H.
  - match type of H with (if ?g then _ else _) = _ => destruct g; [|discriminate] end. inv_some.
    eexists. split; [unfold put; simpl; eapply nth_set_nth_eq; eauto|]. repeat split.
  - match type of H with (if ?g then _ else _) = _ => destruct g; [|discriminate] end. inv_some.
    eexists. split; [unfold put; simpl; eapply nth_set_nth_eq; eauto|]. repeat split.
  - destruct (pend_offs c) eqn:P; [discriminate|].
    match type of H with (if ?g then _ else _) = _ => destruct g; [|discriminate] end. inv_some.
    eexists. split; [unfold put; simpl; eapply nth_set_nth_eq; eauto|]. unfold mu, next_kind. simpl.
    rewrite P. repeat split.
  - match type of H with (if ?g then _ else _) = _ => destruct g; [|discriminate] end. inv_some.
    eexists. split; [unfold put; simpl; eapply nth_set_nth_eq; eauto|]. repeat split.
  - destruct (slot c); [|discriminate]. inv_some.
    eexists. split; [unfold put; simpl; eapply nth_set_nth_eq; eauto|]. repeat split.
Qed.

(* measure zero in COMMITTING / ABORTING: the sender picks EndTxn, and its acknowledgement ends the
   transaction the way the application asked *)
Lemma mu_zero_picks_end c :
  cst c = COMMITTING \/ cst c = ABORTING -> pend_parts c = [] -> pend_offs c = [] -> next_kind c = Some KEnd.
Proof. intros S P O. unfold next_kind. rewrite P, O. simpl. destruct S as [S|S]; rewrite S; reflexivity. Qed.

Lemma end_acknowledged_completes s i c :
  get s i = Some c -> cst c = COMMITTING \/ cst c = ABORTING ->
  pend_parts c = [] -> pend_offs c = [] -> queue c = [] -> inflight c = [] ->
  slot c = Some (KEnd, SApplied) ->
  exists s' c', step s (AComplete i) = Some s' /\ nth_error (clients s') i = Some c' /\ cst c' = READY /\
    ended s' = ended s ++ [(tagof i c, match cst c with COMMITTING => OCommitted | _ => OAborted end, accepted c)].
Proof.
  intros Hg S P O Q I Sl. destruct (get_some _ _ _ Hg) as (Hn & _).
  unfold step. rewrite Hg, P, O, Q, I. unfold slot_is. rewrite Sl. simpl.
  destruct S as [S|S]; rewrite S.
  - destruct (trans COMMITTING READY) eqn:T; [|vm_compute in T; discriminate].
    pose proof (trans_target _ _ _ T). subst t.
    eexists. eexists. split; [reflexivity|]. split; [simpl; eapply nth_set_nth_eq; eauto|]. split; reflexivity.
  - destruct (trans ABORTING READY) eqn:T; [|vm_compute in T; discriminate].
    pose proof (trans_target _ _ _ T). subst t.
    eexists. eexists. split; [reflexivity|]. split; [simpl; eapply nth_set_nth_eq; eauto|]. split; reflexivity.
Qed.

(* ---------- what the code does not guarantee: witness --------------------------------------------------- *)
(* (recorded from the real producer under the simulator; harness/c07.py re-records it on the real
   code on every run) *)

(* a batch fails non-retriably (TOPIC_AUTHORIZATION_FAILED in the Produce response);
   commit_transaction() returns nevertheless *)
Definition w_commit_without_batch : list event :=
  [EInitOk; AStart 0 0; ABegin 0; AAccept 0 1 0 0 true; TPick 0 (Some KParts); ACommitting 0;
   RAddParts 0 [0] VApplied; CPartAdded 0 0; TDone 0; TPick 0 (Some KEnd); SDrain 0 0; SFail 0 0;
   REndTxn 0 true VApplied; EMarkers; AComplete 0; TDone 0].

Definition ended_tags (s : gstate) : list (tag * outcome) := map (fun x => fst x) (ended s).

Lemma witness_commit_without_batch :
  exists s, run (g0 1) w_commit_without_batch = Some s /\
            ended s = [((0, 1), OCommitted, [(1, 0)])] /\
            rc_view_t (log_of 0 (glog (genv s))) = [] /\
            first_ob (g0 1) w_commit_without_batch 0 = Some (12, 2).
Proof. eexists. split; [vm_compute; reflexivity|]. repeat split. Qed.

(* the repaired paths, as traces of the real producer (re-recorded on every run):
   GROUP_AUTHORIZATION_FAILED on AddOffsetsToTxn -> abort sends EndTxn(ABORT), the aborted record
   stays invisible and the next transaction commits alone *)
Definition t_abort_after_abortable_error : list event :=
  [EInitOk; AStart 0 0; ABegin 0; AAccept 0 1 0 0 true; TPick 0 (Some KParts); AOffsets 0 [7];
   RAddParts 0 [0] VApplied; CPartAdded 0 0; TDone 0; TPick 0 (Some KOffs); SDrain 0 0; RAddOffs 0 VNot;
   RProduce 0 0 VApplied; SOk 0 0; AError 0; TDone 0; AAborting 0; TPick 0 (Some KEnd);
   REndTxn 0 false VApplied; EMarkers; AComplete 0; TDone 0;
   ABegin 0; AAccept 0 2 0 1 true; TPick 0 (Some KParts); ACommitting 0; RAddParts 0 [0] VApplied;
   CPartAdded 0 0; TDone 0; TPick 0 (Some KEnd); SDrain 0 1; RProduce 0 1 VApplied; SOk 0 1;
   REndTxn 0 true VApplied; EMarkers; AComplete 0; TDone 0].

(* TOPIC_AUTHORIZATION_FAILED on AddPartitionsToTxn -> the waiting batch is failed, nothing is produced *)
Definition t_unauthorized_partition : list event :=
  [EInitOk; AStart 0 0; ABegin 0; AAccept 0 1 1 0 true; TPick 0 (Some KParts); ACommitting 0;
   RAddParts 0 [1] VNot; SFail 0 0; AError 0; TDone 0; AAborting 0; TPick 0 (Some KEnd); AComplete 0; TDone 0].

Lemma repaired_traces_satisfy_obligations :
  (exists s, run_ob (g0 1) t_abort_after_abortable_error = Some s /\
             ended_tags s = [((0, 1), OAborted); ((0, 2), OCommitted)] /\
             rc_view_t (log_of 0 (glog (genv s))) = [((0, 2), 2)]) /\
  (exists s, run_ob (g0 1) t_unauthorized_partition = Some s /\
             ended_tags s = [((0, 1), OAborted)] /\ glog (genv s) = []).
Proof. split; eexists; (split; [vm_compute; reflexivity|]); repeat split. Qed.
