(* C14 — a sticky run that ends because its passes go round in a circle (model/C14_Circle.v) still returns a valid
   assignment: its moves are the moves of StickyCtl, only the reason for stopping differs. *)
From Coq Require Import Arith List Bool Lia PeanoNat.
From Verif Require Import C14_Assignors C14_lists C14_Sticky C14_checkers C14_Run C14_sticky C14_Circle.
Import ListNotations.

Lemma ctl_run_circle_inv : forall ppt ms prev st0 assigns reassigns obs r,
  ctl_run_circle ppt ms prev st0 assigns reassigns obs = Some r ->
  exists st3 mv,
    ctl_assigns ppt ms (drop ppt ms st0) assigns = Some (cr_prebalance r) /\
    complete_b ppt ms (cr_prebalance r) = true /\
    ctl_reassigns ppt ms prev (scope ppt ms (cr_prebalance r)) (cr_prebalance r, []) reassigns
      = Some (st3, mv) /\
    end_ok ppt ms prev (scope ppt ms (cr_prebalance r)) st3 = false /\
    circle_b ppt ms prev (scope ppt ms (cr_prebalance r)) (cr_prebalance r) reassigns st3 = true /\
    cr_balanced r = st3 /\ cr_reverted r = obs /\
    cr_final r = (if obs then cr_prebalance r else st3).
Proof.
  intros ppt ms prev st0 assigns reassigns obs r H. unfold ctl_run_circle in H.
  destruct (ctl_assigns ppt ms (drop ppt ms st0) assigns) as [st2|] eqn:E2; [|discriminate].
  destruct (complete_b ppt ms st2) eqn:Ec; simpl in H; [|discriminate].
  destruct (ctl_reassigns ppt ms prev (scope ppt ms st2) (st2, []) reassigns) as [[st3 mv]|] eqn:E3;
    [|discriminate].
  destruct (end_ok ppt ms prev (scope ppt ms st2) st3) eqn:Ee; simpl in H; [discriminate|].
  destruct (circle_b ppt ms prev (scope ppt ms st2) st2 reassigns st3) eqn:Eci; simpl in H; [|discriminate].
  match type of H with (if ?g then _ else _) = _ => destruct g; [|discriminate] end.
  inversion H; subst; simpl. exists st3, mv. repeat split; auto.
Qed.

Theorem ctl_run_circle_valid : forall ppt ms prev st0 assigns reassigns obs r,
  ids_nodup ms -> NoDup (map snd st0) ->
  ctl_run_circle ppt ms prev st0 assigns reassigns obs = Some r ->
  valid ppt ms (cr_final r) /\ valid ppt ms (cr_prebalance r) /\ valid ppt ms (cr_balanced r).
Proof.
  intros ppt ms prev st0 assigns reassigns obs r Hi Hn H.
  destruct (ctl_run_circle_inv _ _ _ _ _ _ _ _ H) as [st3 [mv [E2 [Ec [E3 [_ [_ [Eb [Er Ef]]]]]]]]].
  assert (I : abs_inv ppt ms (drop ppt ms st0, None))
    by (split; simpl; [apply drop_sound; auto | discriminate]).
  assert (Hs2 : sound ppt ms (cr_prebalance r))
    by apply (proj1 (abs_run_inv _ _ _ _ _ I (ctl_assigns_abs _ _ _ _ _ None E2))).
  assert (Hc2 : complete ppt ms (cr_prebalance r)) by (apply complete_b_spec; auto).
  pose proof (ctl_reassigns_abs _ _ _ _ _ _ _ _ _ None Hs2 E3) as A3.
  assert (Hs3 : sound ppt ms st3).
  { assert (I2 : abs_inv ppt ms (cr_prebalance r, None)) by (split; simpl; auto; discriminate).
    apply (proj1 (abs_run_inv _ _ _ _ _ I2 A3)). }
  assert (Hc3 : complete ppt ms st3).
  { assert (I2 : abs_cinv ppt ms (cr_prebalance r, None)) by (split; simpl; auto; discriminate).
    refine (proj1 (abs_run_cinv _ _ _ _ _ _ I2 A3)).
    apply Forall_forall. intros o Ho. apply in_map_iff in Ho. destruct Ho as [? [<- _]]. simpl. exact Logic.I. }
  assert (V2 : valid ppt ms (cr_prebalance r)) by (apply sound_complete_valid; auto).
  assert (V3 : valid ppt ms st3) by (apply sound_complete_valid; auto).
  rewrite Ef, Eb. destruct obs; auto.
Qed.

(* the two kinds of runs exclude each other: a log is judged by exactly one of the two checkers *)
Lemma ctl_run_circle_not_ctl_run : forall ppt ms prev st0 assigns reassigns obs r,
  ctl_run_circle ppt ms prev st0 assigns reassigns obs = Some r ->
  ctl_run ppt ms prev st0 assigns reassigns obs = None.
Proof.
  intros ppt ms prev st0 assigns reassigns obs r H.
  destruct (ctl_run_circle_inv _ _ _ _ _ _ _ _ H) as [st3 [mv [E2 [Ec [E3 [Ee _]]]]]].
  unfold ctl_run. rewrite E2, Ec. simpl. rewrite E3, Ee. reflexivity.
Qed.
