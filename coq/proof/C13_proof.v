(* C13_proof.v — invariants and clauses of the start-position model (model/C13_StartPos.v) *)
From Coq Require Import ZArith List Bool Lia ZifyBool.
From Verif Require Import C13_StartPos.
Import ListNotations.
Open Scope Z_scope.

Lemma strat_eqb_eq a b : strat_eqb a b = true <-> a = b.
Proof. destruct a, b; simpl; split; intros H; try reflexivity; try discriminate. Qed.

Lemma oz_eqb_eq a b : oz_eqb a b = true <-> a = b.
Proof.
  destruct a, b; simpl; split; intros H; try reflexivity; try discriminate; [f_equal; lia|inversion H; lia].
Qed.

Lemma errk_eqb_eq a b : errk_eqb a b = true <-> a = b.
Proof. destruct a, b; simpl; split; intros H; try reflexivity; try discriminate. Qed.

Lemma remove_strat_incl x l : forall r, remove_strat x l = Some r -> In x l /\ (forall y, In y r -> In y l).
Proof.
  induction l as [|z l IH]; simpl; intros r H; [discriminate|].
  destruct (strat_eqb x z) eqn:E.
  - apply strat_eqb_eq in E. subst z. inversion H; subst. split; [left; reflexivity|intros; right; assumption].
  - destruct (remove_strat x l) as [r'|]; [|discriminate]. inversion H; subst.
    destruct (IH r' eq_refl) as (I1 & I2). split; [right; exact I1|].
    intros y [->|I]; [left; reflexivity|right; apply I2; exact I].
Qed.

Lemma remove_strat_in x l : In x l -> exists r, remove_strat x l = Some r.
Proof.
  induction l as [|z l IH]; simpl; intros I; [contradiction|].
  destruct (strat_eqb x z) eqn:E; [eexists; reflexivity|].
  destruct I as [->|I]; [rewrite (proj2 (strat_eqb_eq x x) eq_refl) in E; discriminate|].
  destruct (IH I) as (r & ->). eexists; reflexivity.
Qed.

Lemma run_app c t1 : forall s t2,
  run c s (t1 ++ t2) = match run c s t1 with Some s1 => run c s1 t2 | None => None end.
Proof.
  induction t1 as [|e t1 IH]; simpl; intros s t2; [reflexivity|].
  destruct (step c s e); [apply IH|reflexivity].
Qed.

(* ---- c13_start: the invariant of traces without user repositioning and without the
        "group-level error read as no offset" step -------------------------------------------- *)
Definition reset_ok (c : cfg) (o : bool) (x : strat) : Prop :=
  policy_strat (c_policy c) = Some x /\ (eff_committed c = None \/ o = true).

Definition origin_ok (c : cfg) (o : bool) (og : origin) : Prop :=
  match og with
  | OCommitted cc => eff_committed c = Some cc
  | OReset x _ _ _ => reset_ok c o x
  | OSeek _ => False
  end.

Definition first_ok (c : cfg) (f : Z * origin) : Prop :=
  match snd f with
  | OCommitted cc => eff_committed c = Some cc /\ fst f = cc
  | OReset x l h ls => eff_committed c = None /\ policy_strat (c_policy c) = Some x /\
                       fst f = answer (c_iso c) x l h ls
  | OSeek _ => False
  end.

Definition err_ok (c : cfg) (k : errk) : Prop :=
  match k with
  | NoOffset => c_policy c = PNone /\ eff_committed c = None
  | OutOfRangeErr => c_policy c = PNone
  end.

Record Inv (c : cfg) (s : st) : Prop := {
  i_rst : forall x, rst s = Some x -> reset_ok c (oor s) x;
  i_lo : forall x, In x (lo s) -> reset_ok c (oor s) x;
  i_res : forall v, In v (resolved s) -> v = eff_committed c;
  i_first : forall f, first s = Some f -> first_ok c f;
  i_origin : forall og, origin_ s = Some og -> origin_ok c (oor s) og;
  i_err : forall k, err s = Some k -> err_ok c k;
  i_surf : forall k, In k (surfaced s) -> err_ok c k;
  i_oor : oor s = true -> first s <> None;
  i_pos : forall p, pos s = Some p -> first s <> None
}.

Lemma fresh_inv c : Inv c fresh.
Proof. constructor; simpl; intros; try discriminate; try contradiction. Qed.

Ltac inv_s H := inversion H; subst; clear H.

Lemma step_inv c s e s' :
  Inv c s -> user_move e = false -> step c s e = Some s' -> Inv c s'.
Proof.
  intros I UM. destruct I as [Irst Ilo Ires Ifirst Iorigin Ierr Isurf Ioor Ipos].
  destruct e; simpl in *; try discriminate.
  - (* Assigned *) intros H; inv_s H. apply fresh_inv.
  - (* CommittedReq *)
    destruct (pos s) eqn:EP; [discriminate|]. destruct (rst s) eqn:ER; [discriminate|].
    destruct (err s) eqn:EE; [discriminate|]. intros H; inv_s H.
    constructor; simpl; auto; try (intros; discriminate).
  - (* LookupSent *)
    destruct (c_group c && negb (looking s) && negb (Nat.eqb (nwait s) 0)); [|discriminate].
    intros H; inv_s H. constructor; simpl; auto.
  - (* LookupErr *)
    destruct (looking s); [|discriminate]. intros H; inv_s H. constructor; simpl; auto.
  - (* LookupOk *)
    destruct (negb (Nat.eqb (nwait s) 0) && oz_eqb c0 (eff_committed c) &&
              (if c_group c then looking s else true)) eqn:E; [|discriminate].
    rewrite !andb_true_iff in E. destruct E as ((_ & E) & _). apply oz_eqb_eq in E.
    intros H; inv_s H. constructor; simpl; auto.
    intros v Iv. apply in_app_or in Iv. destruct Iv as [Iv|Iv]; [auto|]. apply repeat_spec in Iv. exact Iv.
  - (* CommittedResp *)
    destruct (resolved s) as [|v' rest] eqn:ERS; [discriminate|].
    destruct (oz_eqb c0 v') eqn:EV; [|discriminate]. apply oz_eqb_eq in EV. subst v'.
    assert (c0 = eff_committed c) as EC by (apply Ires; left; reflexivity).
    assert (forall v, In v rest -> v = eff_committed c) as Ires' by (intros; apply Ires; right; assumption).
    destruct (is_some (pos s) || is_some (rst s)) eqn:EB.
    { intros H; inv_s H. constructor; simpl; auto. }
    apply orb_false_iff in EB. destruct EB as (EP & ER).
    destruct (pos s) eqn:EPs; [discriminate|]. destruct (rst s) eqn:ERs; [discriminate|].
    destruct c0 as [off|].
    + intros H; inv_s H. unfold set_pos. constructor; simpl; auto; try (intros; discriminate).
      * intros f Hf. destruct (first s) as [f0|] eqn:EF; [apply Ifirst; congruence|].
        inv_s Hf. unfold first_ok. simpl. split; [congruence|reflexivity].
      * intros og Hog. inv_s Hog. simpl. congruence.
      * intros _. destruct (first s); discriminate.
      * intros p _. destruct (first s); discriminate.
    + destruct (policy_strat (c_policy c)) as [ps|] eqn:EPS.
      * intros H; inv_s H. constructor; simpl; auto; try (intros; discriminate).
        intros x Hx. inv_s Hx. split; [exact EPS|left; congruence].
      * destruct (err s) eqn:EE; [discriminate|]. intros H; inv_s H.
        constructor; simpl; auto; try (intros; discriminate).
        intros k Hk. inv_s Hk. simpl. split; [|congruence].
        destruct (c_policy c); simpl in EPS; try discriminate. reflexivity.
  - (* ListOffsetsSent *)
    destruct (pos s) eqn:EP; [discriminate|]. destruct (rst s) as [y|] eqn:ER; [|discriminate].
    destruct (strat_eqb s0 y) eqn:E; [|discriminate]. apply strat_eqb_eq in E. subst y.
    intros H; inv_s H. constructor; simpl; auto.
    intros x [<-|Ix]; [apply Irst; reflexivity|auto].
  - (* ListOffsetsResp *)
    destruct (remove_strat s0 (lo s)) as [los|] eqn:ERm; [|discriminate].
    destruct (remove_strat_incl _ _ _ ERm) as (I1 & I2).
    destruct (rst s) as [y|] eqn:ER; [|discriminate].
    destruct (strat_eqb s0 y) eqn:ES; [|discriminate]. apply strat_eqb_eq in ES. subst y.
    intros H; inv_s H. unfold set_pos. pose proof (Irst _ eq_refl) as (RP & RC).
    constructor; simpl; auto; try (intros; discriminate).
    + intros f Hf. destruct (first s) as [f0|] eqn:EF; [apply Ifirst; congruence|].
      inv_s Hf. unfold first_ok. simpl. split; [|split; [exact RP|reflexivity]].
      destruct RC as [RC|RC]; [exact RC|]. exfalso. apply (Ioor RC). reflexivity.
    + intros og Hog. inv_s Hog. simpl. split; assumption.
    + intros _. destruct (first s); discriminate.
    + intros p _. destruct (first s); discriminate.
  - (* ListOffsetsIgnored *)
    destruct (remove_strat s0 (lo s)) as [los|] eqn:ERm; [|discriminate].
    destruct (remove_strat_incl _ _ _ ERm) as (I1 & I2).
    destruct (match rst s with None => true | Some y => negb (strat_eqb s0 y) end); [|discriminate].
    intros H; inv_s H. constructor; simpl; auto.
  - (* ListOffsetsErr *)
    destruct (remove_strat s0 (lo s)) as [los|] eqn:ERm; [|discriminate].
    destruct (remove_strat_incl _ _ _ ERm) as (I1 & I2).
    intros H; inv_s H. constructor; simpl; auto.
  - (* OutOfRange *)
    destruct (oz_eqb (pos s) (Some o)) eqn:EO.
    2:{ intros H; inv_s H. constructor; auto. }
    apply oz_eqb_eq in EO. pose proof (Ipos _ EO) as FN.
    destruct (policy_strat (c_policy c)) as [ps|] eqn:EPS.
    + intros H; inv_s H. constructor; simpl; auto; try (intros; discriminate).
      * intros x Hx. inv_s Hx. split; [exact EPS|right; reflexivity].
      * intros x Ix. destruct (Ilo _ Ix) as (A & _). split; [exact A|right; reflexivity].
    + destruct (err s) eqn:EE; [discriminate|]. intros H; inv_s H.
      assert (c_policy c = PNone) as PN by (destruct (c_policy c); simpl in EPS; try discriminate; reflexivity).
      constructor; simpl; auto.
      * intros x Hx. destruct (Irst _ Hx) as (A & _). split; [exact A|right; reflexivity].
      * intros x Ix. destruct (Ilo _ Ix) as (A & _). split; [exact A|right; reflexivity].
      * intros og Hog. specialize (Iorigin _ Hog). destruct og; simpl in *; auto.
        destruct Iorigin as (A & _). split; [exact A|right; reflexivity].
      * intros k Hk. inv_s Hk. exact PN.
  - (* Consumed *)
    destruct (pos s) as [q|] eqn:EP; [|discriminate]. destruct (q <=? p); [|discriminate].
    intros H; inv_s H. constructor; simpl; auto. intros p0 _. apply (Ipos q eq_refl).
  - (* ErrRaised *)
    destruct (err s) as [k'|] eqn:EE; [|discriminate]. destruct (errk_eqb e k') eqn:EK; [|discriminate].
    apply errk_eqb_eq in EK. subst k'. intros H; inv_s H. constructor; simpl; auto; try (intros; discriminate).
    intros k Ik. apply in_app_or in Ik. destruct Ik as [Ik|[<-|[]]]; [auto|apply Ierr; reflexivity].
  - (* Position *)
    destruct (oz_eqb (pos s) (Some p)); [|discriminate]. intros H; inv_s H. constructor; auto.
Qed.

Definition clean_ev (e : ev) : bool := negb (user_move e).

Lemma run_inv c tr : forall s s', Inv c s -> forallb clean_ev tr = true -> run c s tr = Some s' -> Inv c s'.
Proof.
  induction tr as [|e tr IH]; simpl; intros s s' I CL H; [inv_s H; exact I|].
  apply andb_true_iff in CL. destruct CL as (C1 & C2). unfold clean_ev in C1.
  apply negb_true_iff in C1.
  destruct (step c s e) as [s1|] eqn:E; [|discriminate].
  eapply IH; [eapply step_inv; eauto|exact C2|exact H].
Qed.

Theorem start_rule c tr s :
  run c fresh tr = Some s -> forallb clean_ev tr = true ->
  (* the first valid position *)
  (forall f, first s = Some f -> first_ok c f) /\
  (* every later position, in particular after an out-of-range report, follows the same rule *)
  (forall og, origin_ s = Some og -> origin_ok c (oor s) og) /\
  (* what is raised to the application *)
  (forall k, In k (surfaced s) \/ err s = Some k -> err_ok c k) /\
  (* with policy none no reset is ever started *)
  (c_policy c = PNone -> rst s = None /\ lo s = []) /\
  (* a reset is pending only if no committed offset exists or the position was reported out of range *)
  (forall x, rst s = Some x -> policy_strat (c_policy c) = Some x /\ (eff_committed c = None \/ oor s = true)).
Proof.
  intros H CL. pose proof (run_inv c tr fresh s (fresh_inv c) CL H) as I. destruct I.
  split; [assumption|]. split; [assumption|]. split.
  { intros k [Ik|Ik]; auto. } split.
  { intros PN. split.
    - destruct (rst s) as [x|] eqn:E; [|reflexivity]. destruct (i_rst0 x eq_refl) as (A & _).
      rewrite PN in A. discriminate.
    - destruct (lo s) as [|x l] eqn:E; [reflexivity|]. destruct (i_lo0 x (or_introl eq_refl)) as (A & _).
      rewrite PN in A. discriminate. }
  intros x Hx. apply i_rst0. exact Hx.
Qed.

(* ---- c13_seek_precedence -------------------------------------------------------------------- *)
Definition sought (o : Z) (s : st) : Prop :=
  pos s = Some o /\ rst s = None /\ origin_ s = Some (OSeek o).

Lemma step_sought c o s e s' : sought o s -> quiet_ev e = true -> step c s e = Some s' -> sought o s'.
Proof.
  intros (P & R & O) Q. destruct e; simpl in *; try discriminate.
  - rewrite P. discriminate.
  - destruct (c_group c && negb (looking s) && negb (Nat.eqb (nwait s) 0)); [|discriminate].
    intros H; inv_s H. repeat split; assumption.
  - destruct (looking s); [|discriminate]. intros H; inv_s H. repeat split; assumption.
  - destruct (negb (Nat.eqb (nwait s) 0) && oz_eqb c0 (eff_committed c) &&
              (if c_group c then looking s else true)); [|discriminate].
    intros H; inv_s H. repeat split; assumption.
  - destruct (resolved s) as [|v' rest]; [discriminate|]. destruct (oz_eqb c0 v'); [|discriminate].
    rewrite P. simpl. intros H; inv_s H. repeat split; assumption.
  - rewrite P. discriminate.
  - destruct (remove_strat s0 (lo s)); [|discriminate]. rewrite R. discriminate.
  - destruct (remove_strat s0 (lo s)); [|discriminate]. rewrite R.
    intros H; inv_s H. repeat split; assumption.
  - destruct (remove_strat s0 (lo s)); [|discriminate]. intros H; inv_s H. repeat split; assumption.
  - destruct (err s) as [k'|]; [|discriminate]. destruct (errk_eqb e k'); [|discriminate].
    intros H; inv_s H. repeat split; assumption.
  - destruct (oz_eqb (pos s) (Some p)); [|discriminate]. intros H; inv_s H. repeat split; assumption.
Qed.

Theorem seek_precedence c tr1 o tr2 s :
  run c fresh (tr1 ++ Seek o :: tr2) = Some s -> forallb quiet_ev tr2 = true ->
  pos s = Some o /\ rst s = None /\ origin_ s = Some (OSeek o).
Proof.
  rewrite run_app. destruct (run c fresh tr1) as [s0|]; [|discriminate]. simpl.
  assert (sought o (mkSt (Some o) None (nwait s0) (resolved s0) (looking s0) (lo s0) None (Some (OSeek o))
                         (match first s0 with Some f => Some f | None => Some (o, OSeek o) end)
                         (oor s0) (surfaced s0))) as S0 by (repeat split).
  revert S0. generalize (mkSt (Some o) None (nwait s0) (resolved s0) (looking s0) (lo s0) None (Some (OSeek o))
                         (match first s0 with Some f => Some f | None => Some (o, OSeek o) end)
                         (oor s0) (surfaced s0)) as s1.
  induction tr2 as [|e tr2 IH]; simpl; intros s1 S1 H Q; [inv_s H; exact S1|].
  apply andb_true_iff in Q. destruct Q as (Q1 & Q2).
  destruct (step c s1 e) as [s2|] eqn:E; [|discriminate].
  eapply IH; [eapply step_sought; eauto|exact H|exact Q2].
Qed.

(* ---- seek_to_beginning / seek_to_end ------------------------------------------------------- *)
Definition seeking (c : cfg) (x : strat) (s : st) : Prop :=
  (pos s = None /\ rst s = Some x) \/
  (exists l h ls, pos s = Some (answer (c_iso c) x l h ls) /\ rst s = None /\
                  origin_ s = Some (OReset x l h ls)).

Lemma step_seeking c x s e s' : seeking c x s -> quiet_ev e = true -> step c s e = Some s' -> seeking c x s'.
Proof.
  intros SK Q. destruct e; simpl in *; try discriminate.
  - destruct SK as [(P & R)|(l & h & ls & P & R & O)]; rewrite P; [rewrite R|]; discriminate.
  - destruct (c_group c && negb (looking s) && negb (Nat.eqb (nwait s) 0)); [|discriminate].
    intros H; inv_s H. exact SK.
  - destruct (looking s); [|discriminate]. intros H; inv_s H. exact SK.
  - destruct (negb (Nat.eqb (nwait s) 0) && oz_eqb c0 (eff_committed c) &&
              (if c_group c then looking s else true)); [|discriminate].
    intros H; inv_s H. exact SK.
  - destruct (resolved s) as [|v' rest]; [discriminate|]. destruct (oz_eqb c0 v'); [|discriminate].
    destruct SK as [(P & R)|(l & h & ls & P & R & O)].
    + rewrite P, R. simpl. intros H; inv_s H. left. repeat split; assumption.
    + rewrite P. simpl. intros H; inv_s H. right. exists l, h, ls. repeat split; assumption.
  - destruct SK as [(P & R)|(l & h & ls & P & R & O)].
    + rewrite P, R. destruct (strat_eqb s0 x) eqn:E; [|discriminate].
      intros H; inv_s H. left. simpl. repeat split; auto.
    + rewrite P. discriminate.
  - destruct (remove_strat s0 (lo s)) as [los|] eqn:ERm; [|discriminate].
    destruct SK as [(P & R)|(l & h & ls & P & R & O)].
    + rewrite R. destruct (strat_eqb s0 x) eqn:E; [|discriminate]. apply strat_eqb_eq in E. subst s0.
      intros H; inv_s H. right. exists lstart, hw, lso. repeat split.
    + rewrite R. discriminate.
  - destruct (remove_strat s0 (lo s)) as [los|] eqn:ERm; [|discriminate].
    destruct (match rst s with None => true | Some y => negb (strat_eqb s0 y) end); [|discriminate].
    intros H; inv_s H. destruct SK as [(P & R)|SK]; [left; simpl; repeat split; auto|right; exact SK].
  - destruct (remove_strat s0 (lo s)) as [los|] eqn:ERm; [|discriminate].
    intros H; inv_s H. destruct SK as [(P & R)|SK]; [left; simpl; repeat split; auto|right; exact SK].
  - destruct (err s) as [k'|]; [|discriminate]. destruct (errk_eqb e k'); [|discriminate].
    intros H; inv_s H. exact SK.
  - destruct (oz_eqb (pos s) (Some p)); [|discriminate]. intros H; inv_s H. exact SK.
Qed.

Theorem seek_to_precedence c tr1 x tr2 s :
  run c fresh (tr1 ++ SeekTo x :: tr2) = Some s -> forallb quiet_ev tr2 = true ->
  forall p, pos s = Some p ->
  exists l h ls, origin_ s = Some (OReset x l h ls) /\ p = answer (c_iso c) x l h ls.
Proof.
  rewrite run_app. destruct (run c fresh tr1) as [s0|]; [|discriminate]. simpl.
  assert (seeking c x (mkSt None (Some x) (nwait s0) (resolved s0) (looking s0) (lo s0) None None (first s0)
                            (oor s0) (surfaced s0))) as S0 by (left; repeat split).
  revert S0. generalize (mkSt None (Some x) (nwait s0) (resolved s0) (looking s0) (lo s0) None None (first s0)
                              (oor s0) (surfaced s0)) as s1.
  induction tr2 as [|e tr2 IH]; simpl; intros s1 S1 H Q p Hp.
  - inv_s H. destruct S1 as [(P & _)|(l & h & ls & P & R & O)]; [congruence|].
    exists l, h, ls. split; [exact O|congruence].
  - apply andb_true_iff in Q. destruct Q as (Q1 & Q2).
    destruct (step c s1 e) as [s2|] eqn:E; [|discriminate].
    eapply IH; [eapply step_seeking; eauto|exact H|exact Q2|exact Hp].
Qed.

(* ---- c13_retry ------------------------------------------------------------------------------ *)
Theorem lookup_retry c s s' : step c s LookupErr = Some s' ->
  nwait s' = nwait s /\ resolved s' = resolved s /\ pos s' = pos s /\ rst s' = rst s /\ looking s' = false /\
  (c_group c = true -> nwait s <> O -> exists s'', step c s' LookupSent = Some s'').
Proof.
  simpl. destruct (looking s); [|discriminate]. intros H; inv_s H. simpl. repeat split.
  intros G N. rewrite G. simpl. destruct (nwait s); [congruence|]. simpl. eexists; reflexivity.
Qed.

Theorem list_offsets_retry c s x s' : step c s (ListOffsetsErr x) = Some s' ->
  pos s' = pos s /\ rst s' = rst s /\ nwait s' = nwait s /\
  (forall y, pos s = None -> rst s = Some y -> exists s'', step c s' (ListOffsetsSent y) = Some s'').
Proof.
  simpl. destruct (remove_strat x (lo s)); [|discriminate]. intros H; inv_s H. simpl. repeat split.
  intros y P R. rewrite P, R. rewrite (proj2 (strat_eqb_eq y y) eq_refl). eexists; reflexivity.
Qed.

Definition idle (s : st) : Prop :=
  pos s = None /\ nwait s = O /\ resolved s = [] /\ looking s = false /\ lo s = [] /\ err s = None.

Theorem fault_free_completion c s l h ls : idle s ->
  exists s', run c s (finish c s l h ls) = Some s' /\ (is_some (pos s') = true \/ is_some (err s') = true).
Proof.
  intros (P & N & R & K & LO & E). destruct s as [ps rs nw res lk los er og fi oo su]. simpl in *. subst.
  unfold finish. simpl. destruct rs as [x|].
  - simpl. rewrite (proj2 (strat_eqb_eq x x) eq_refl). simpl. rewrite (proj2 (strat_eqb_eq x x) eq_refl).
    eexists. split; [reflexivity|]. left. reflexivity.
  - unfold eff_committed. destruct c as [pol io grp cm]. simpl.
    destruct grp; simpl.
    + destruct cm as [cc|]; simpl.
      * replace (cc =? cc) with true by lia. simpl. replace (cc =? cc) with true by lia. simpl.
        eexists. split; [reflexivity|]. left. reflexivity.
      * destruct pol; simpl; eexists; (split; [reflexivity|]); simpl; auto.
    + destruct pol; simpl; eexists; (split; [reflexivity|]); simpl; auto.
Qed.

(* ---- out of range ---------------------------------------------------------------------------- *)
Theorem out_of_range_rule c s o s' : pos s = Some o -> step c s (OutOfRange o) = Some s' ->
  match policy_strat (c_policy c) with
  | Some x => pos s' = None /\ rst s' = Some x /\ oor s' = true
  | None => pos s' = Some o /\ err s' = Some OutOfRangeErr /\ rst s' = rst s
  end.
Proof.
  intros P. simpl. rewrite P. simpl. replace (o =? o) with true by lia.
  destruct (policy_strat (c_policy c)).
  - intros H; inv_s H. simpl. repeat split.
  - destruct (err s); [discriminate|]. intros H; inv_s H. simpl. repeat split.
Qed.

Theorem reset_applies_answer c s x l h ls s' : step c s (ListOffsetsResp x l h ls) = Some s' ->
  pos s' = Some (answer (c_iso c) x l h ls) /\ rst s' = None /\ origin_ s' = Some (OReset x l h ls) /\
  rst s = Some x /\ In x (lo s).
Proof.
  simpl. destruct (remove_strat x (lo s)) as [los|] eqn:E; [|discriminate].
  destruct (rst s) as [y|]; [|discriminate]. destruct (strat_eqb x y) eqn:ES; [|discriminate].
  apply strat_eqb_eq in ES. subst y. intros H; inv_s H. simpl. repeat split.
  exact (proj1 (remove_strat_incl _ _ _ E)).
Qed.
