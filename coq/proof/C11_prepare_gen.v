(* C11_prepare_gen.v — Request.prepare as translated from aiokafka/protocol/api.py on this run
   (gen/PrepareGen.v) is the model function `prepare` of model/C11Negotiate.v, for every input. *)
From Coq Require Import ZArith List Bool.
From Verif Require Import Wire KafkaSpec C11Negotiate PrepareGen.
Import ListNotations.
Open Scope Z_scope.

Lemma prepare_py_eq vers allow adv : PrepareGen.prepare_py vers allow adv = prepare vers allow adv.
Proof.
  unfold PrepareGen.prepare_py, prepare. destruct adv as [[lo hi]|].
  - unfold prepare_pick, in_rng. reflexivity.
  - destruct allow; [|reflexivity]. destruct vers; reflexivity.
Qed.
