(* C19_close_proof.v — the shutdown paths translated from /repo's source (gen/CloseShapes.v) run to their
   end from every task state of the model's state space; the same paths do NOT when internal errors of the
   client are admitted; and the four shapes repaired in /repo (F9, F34, F39, F41) are unsafe. *)
From Coq Require Import List Bool Arith.
From Verif Require Import C19_Tasks C19_tasks_proof CloseShapes.
Import ListNotations.
Import CloseShapes.

Lemma consumer_group_safe : prog_safe slots consumer_group_stop = true.
Proof. vm_compute. reflexivity. Qed.
Lemma consumer_nogroup_safe : prog_safe slots consumer_nogroup_stop = true.
Proof. vm_compute. reflexivity. Qed.
Lemma producer_safe : prog_safe slots producer_stop = true.
Proof. vm_compute. reflexivity. Qed.

Lemma consumer_group_completes env :
  env_ok slots env = true -> run slots env consumer_group_stop = Completed.
Proof. apply safe_completes. exact consumer_group_safe. Qed.
Lemma consumer_nogroup_completes env :
  env_ok slots env = true -> run slots env consumer_nogroup_stop = Completed.
Proof. apply safe_completes. exact consumer_nogroup_safe. Qed.
Lemma producer_completes env :
  env_ok slots env = true -> run slots env producer_stop = Completed.
Proof. apply safe_completes. exact producer_safe. Qed.

(* every join of a background task is present: the programs are not vacuous *)
Definition joins (prog : list step) : list nat :=
  flat_map (fun s => match step_slot s with Some t => [t] | None => [] end) prog.
Lemma consumer_group_joins_all :
  forallb (fun t => existsb (Nat.eqb t) (joins consumer_group_stop)) [0; 1; 2; 4; 5; 6; 7] = true.
Proof. vm_compute. reflexivity. Qed.
Lemma consumer_nogroup_joins_all :
  forallb (fun t => existsb (Nat.eqb t) (joins consumer_nogroup_stop)) [3; 4; 5; 6; 7] = true.
Proof. vm_compute. reflexivity. Qed.
Lemma producer_joins_all :
  forallb (fun t => existsb (Nat.eqb t) (joins producer_stop)) [7; 8] = true.
Proof. vm_compute. reflexivity. Qed.

(* a non-trivial environment inside the state space: heartbeat parked in its sleep, the fetch routine in its
   wait, a fetch request in its retry back-off (the F9 state), a cancelled old fetch task still in the set,
   the heartbeat of an earlier generation ended with GROUP_AUTHORIZATION_FAILED *)
Definition env_example : list (list tstate) :=
  [[TParked 0 false]; [TParked 1 false]; [TParked 0 false]; []; [TParked 2 false];
   [TParked 1 false; TDoneCancelled]; [TUnstarted]; [TParked 0 false]; []].
Lemma env_example_ok : env_ok slots env_example = true.
Proof. vm_compute. reflexivity. Qed.
Definition env_example_failed : list (list tstate) :=
  [[TDoneExc]; [TParked 0 true]; [TDoneOk]; []; [TUnstarted]; []; []; [TUnstarted]; []].
Lemma env_example_failed_ok : env_ok slots env_example_failed = true.
Proof. vm_compute. reflexivity. Qed.

(* with internal errors admitted the consumer's stop() is stopped by the first crashed routine it joins
   without a guard: the fetch routine ended by its "Unexpected error" path *)
Definition env_fetch_crashed : list (list tstate) := [[]; []; []; []; [TDoneExc]; []; []; []; []].
Lemma consumer_crash_refuted :
  env_ok slots_crash env_fetch_crashed = true /\
  run slots_crash env_fetch_crashed consumer_nogroup_stop = Escaped 1 /\
  run slots_crash env_fetch_crashed consumer_group_stop = Escaped 4.
Proof. vm_compute. repeat split; reflexivity. Qed.

(* ---- the four repaired shapes, as general statements ------------------------------------------ *)
(* F34: a task that may not have run a step, joined by a bare await after cancel() *)
Lemma bare_join_of_unstarted_escapes r t g :
  exec_member r (CancelAwait t g SBare) TUnstarted = Escape.
Proof. destruct g; reflexivity. Qed.

(* F9, F39: an await point outside the routine's cancellation handler, joined by a bare await *)
Lemma bare_join_at_unprotected_point_escapes r t g i fails :
  nth_error (r_points r) i = Some PCancelled ->
  exec_member r (CancelAwait t g SBare) (TParked i fails) = Escape.
Proof. intros H. cbn. rewrite andb_false_r, H. reflexivity. Qed.

(* F41: a routine that absorbs the cancellation and goes on waiting: every style of join hangs *)
Lemma join_of_swallowing_point_hangs r t g st i fails :
  nth_error (r_points r) i = Some PSwallow ->
  exec_member r (CancelAwait t g st) (TParked i fails) = Hang.
Proof. intros H. cbn. rewrite andb_false_r, H. destruct st; reflexivity. Qed.

(* and in the other direction: whenever the static condition fails for a join, some task state of the
   state space stops the procedure there (unsafe_cancel_await_has_witness) *)

(* "leaves nothing running" at the level of the calculus: when the translated stop() has completed, every task
   that was in a slot it joins has ended (normally, cancelled, or with its exception) *)
Lemma consumer_group_nothing_running env stp t :
  env_ok slots env = true -> In stp consumer_group_stop -> step_slot stp = Some t ->
  forallb (fun s => ended (task_after (s_routine (nth t slots default_slot)) stp s)) (nth t env []) = true.
Proof.
  intros He. apply completed_leaves_joined_tasks_ended with (k := 0). apply consumer_group_completes. exact He.
Qed.
Lemma consumer_nogroup_nothing_running env stp t :
  env_ok slots env = true -> In stp consumer_nogroup_stop -> step_slot stp = Some t ->
  forallb (fun s => ended (task_after (s_routine (nth t slots default_slot)) stp s)) (nth t env []) = true.
Proof.
  intros He. apply completed_leaves_joined_tasks_ended with (k := 0). apply consumer_nogroup_completes. exact He.
Qed.
Lemma producer_nothing_running env stp t :
  env_ok slots env = true -> In stp producer_stop -> step_slot stp = Some t ->
  forallb (fun s => ended (task_after (s_routine (nth t slots default_slot)) stp s)) (nth t env []) = true.
Proof.
  intros He. apply completed_leaves_joined_tasks_ended with (k := 0). apply producer_completes. exact He.
Qed.

Lemma stop_leaves_no_joined_task_running : forall env stp t,
  env_ok slots env = true -> step_slot stp = Some t ->
  (In stp consumer_group_stop \/ In stp consumer_nogroup_stop \/ In stp producer_stop) ->
  forallb (fun s => ended (task_after (s_routine (nth t slots default_slot)) stp s)) (nth t env []) = true.
Proof.
  intros env stp t He Ht [H|[H|H]].
  - exact (consumer_group_nothing_running env stp t He H Ht).
  - exact (consumer_nogroup_nothing_running env stp t He H Ht).
  - exact (producer_nothing_running env stp t He H Ht).
Qed.
