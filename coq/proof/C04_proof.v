(* C04_proof.v *)
From Coq Require Import List Bool Arith Lia.
From Verif Require Import Offsets.
Import ListNotations.

Lemma lookup_update_eq k v l : lookup k (update k v l) = Some v.
Proof.
  induction l as [|[k' v'] tl IH]; cbn.
  - rewrite Nat.eqb_refl. reflexivity.
  - destruct (Nat.eqb k k') eqn:E; cbn; rewrite ?Nat.eqb_refl; [reflexivity|]. rewrite E. exact IH.
Qed.

Lemma lookup_update_neq k k2 v l : k2 <> k -> lookup k2 (update k v l) = lookup k2 l.
Proof.
  intros Hne. induction l as [|[k' v'] tl IH]; cbn.
  - destruct (Nat.eqb k2 k) eqn:E; [apply Nat.eqb_eq in E; congruence|reflexivity].
  - destruct (Nat.eqb k k') eqn:E; cbn.
    + apply Nat.eqb_eq in E. subst k'.
      destruct (Nat.eqb k2 k) eqn:E2; [apply Nat.eqb_eq in E2; congruence|reflexivity].
    + destruct (Nat.eqb k2 k'); [reflexivity|exact IH].
Qed.

Record Inv (s : st) : Prop := {
  (* every offset below the committed offset has been handed to the application *)
  i_comm : forall c o, committed s = Some c -> o < c -> In o (delivered s);
  (* each incarnation delivered exactly the contiguous range [start, pos) ... *)
  i_range : forall i x o, lookup i (incs s) = Some x -> i_start x <= o < i_pos x -> In o (delivered s);
  (* ... and everything below its start had been delivered before it took over *)
  i_below : forall i x o, lookup i (incs s) = Some x -> o < i_start x -> In o (delivered s);
  i_order : forall i x, lookup i (incs s) = Some x -> i_start x <= i_pos x <= hw s;
  i_chw : forall c, committed s = Some c -> c <= hw s
}.

Lemma inv_init : Inv init.
Proof. constructor; cbn; intros; try discriminate. Qed.

Lemma step_inv s e s' : Inv s -> step s e = Some s' -> Inv s'.
Proof.
  intros [Ic Ir Ib Io Ih] H. destruct e; cbn [step] in H.
  - injection H as <-. constructor; cbn [committed incs delivered hw].
    + exact Ic.
    + exact Ir.
    + exact Ib.
    + intros i x Hx. specialize (Io i x Hx). lia.
    + intros c Hc. specialize (Ih c Hc). lia.
  - destruct (lookup i (incs s)) eqn:El; [discriminate|]. injection H as <-.
    constructor; cbn [committed incs delivered hw].
    + exact Ic.
    + intros j x o Hj Ho. destruct (Nat.eq_dec j i) as [->|Hne].
      * rewrite lookup_update_eq in Hj. injection Hj as <-. cbn in Ho. lia.
      * rewrite lookup_update_neq in Hj by exact Hne. eapply Ir; eassumption.
    + intros j x o Hj Ho. destruct (Nat.eq_dec j i) as [->|Hne].
      * rewrite lookup_update_eq in Hj. injection Hj as <-. cbn in Ho.
        destruct (committed s) as [c|] eqn:Ec; [eapply Ic; [reflexivity|exact Ho]|lia].
      * rewrite lookup_update_neq in Hj by exact Hne. eapply Ib; eassumption.
    + intros j x Hj. destruct (Nat.eq_dec j i) as [->|Hne].
      * rewrite lookup_update_eq in Hj. injection Hj as <-. cbn.
        destruct (committed s) as [c|] eqn:Ec; [specialize (Ih c eq_refl); lia|lia].
      * rewrite lookup_update_neq in Hj by exact Hne. exact (Io j _ Hj).
    + exact Ih.
  - destruct (lookup i (incs s)) as [x|] eqn:El; [|discriminate].
    destruct (i_alive x && Nat.eqb o (i_pos x) && (o <? hw s)) eqn:Eg; [|discriminate].
    injection H as <-.
    apply andb_true_iff in Eg. destruct Eg as (Eg & Hlt). apply andb_true_iff in Eg. destruct Eg as (_ & Heq).
    apply Nat.eqb_eq in Heq. apply Nat.ltb_lt in Hlt. subst o.
    pose proof (Io i x El) as Hord.
    constructor; cbn [committed incs delivered hw].
    + intros c o Hc Ho. right. eapply Ic; eassumption.
    + intros j y o Hj Ho. destruct (Nat.eq_dec j i) as [->|Hne].
      * rewrite lookup_update_eq in Hj. injection Hj as <-. cbn in Ho.
        destruct (Nat.eq_dec o (i_pos x)) as [->|Hn]; [left; reflexivity|].
        right. eapply Ir; [exact El|lia].
      * rewrite lookup_update_neq in Hj by exact Hne. right. eapply Ir; eassumption.
    + intros j y o Hj Ho. destruct (Nat.eq_dec j i) as [->|Hne].
      * rewrite lookup_update_eq in Hj. injection Hj as <-. cbn in Ho. right. eapply Ib; eassumption.
      * rewrite lookup_update_neq in Hj by exact Hne. right. eapply Ib; eassumption.
    + intros j y Hj. destruct (Nat.eq_dec j i) as [->|Hne].
      * rewrite lookup_update_eq in Hj. injection Hj as <-. cbn. lia.
      * rewrite lookup_update_neq in Hj by exact Hne. exact (Io j _ Hj).
    + exact Ih.
  - destruct (lookup i (incs s)) as [x|] eqn:El; [|discriminate].
    destruct ((i_start x <=? off) && (off <=? i_pos x)) eqn:Eg; [|discriminate]. injection H as <-.
    apply andb_true_iff in Eg. destruct Eg as (H1 & H2). apply Nat.leb_le in H1, H2.
    pose proof (Io i x El) as Hord.
    constructor; cbn [committed incs delivered hw].
    + intros c o Hc Ho. injection Hc as <-.
      destruct (Nat.lt_ge_cases o (i_start x)) as [Hlt|Hge].
      * eapply Ib; eassumption.
      * eapply Ir; [exact El|lia].
    + exact Ir.
    + exact Ib.
    + exact Io.
    + intros c Hc. injection Hc as <-. lia.
  - destruct (lookup i (incs s)) as [x|] eqn:El; [|discriminate]. injection H as <-.
    constructor; cbn [committed incs delivered hw].
    + exact Ic.
    + intros j y o Hj Ho. destruct (Nat.eq_dec j i) as [->|Hne].
      * rewrite lookup_update_eq in Hj. injection Hj as <-. cbn in Ho. eapply Ir; eassumption.
      * rewrite lookup_update_neq in Hj by exact Hne. eapply Ir; eassumption.
    + intros j y o Hj Ho. destruct (Nat.eq_dec j i) as [->|Hne].
      * rewrite lookup_update_eq in Hj. injection Hj as <-. cbn in Ho. eapply Ib; eassumption.
      * rewrite lookup_update_neq in Hj by exact Hne. eapply Ib; eassumption.
    + intros j y Hj. destruct (Nat.eq_dec j i) as [->|Hne].
      * rewrite lookup_update_eq in Hj. injection Hj as <-. cbn. apply (Io i x El).
      * rewrite lookup_update_neq in Hj by exact Hne. exact (Io j _ Hj).
    + exact Ih.
Qed.

Lemma run_inv : forall tr s s', Inv s -> run s tr = Some s' -> Inv s'.
Proof.
  induction tr as [|e tr IH]; intros s s' I H; cbn [run] in H.
  - injection H as <-. exact I.
  - destruct (step s e) as [s1|] eqn:E; [|discriminate]. eapply IH; [eapply step_inv; eassumption|exact H].
Qed.

(* every committed offset has only delivered records below it: the committing incarnation
   delivered [start, off) itself, and everything below its start was delivered before *)
Theorem commit_le_delivered tr s i off s' :
  run init tr = Some s -> step s (Commit i off) = Some s' ->
  exists x, lookup i (incs s) = Some x /\ i_start x <= off <= i_pos x /\
            forall o, o < off -> In o (delivered s).
Proof.
  intros H Hs. pose proof (run_inv tr init s inv_init H) as [Ic Ir Ib Io Ih].
  cbn [step] in Hs. destruct (lookup i (incs s)) as [x|] eqn:El; [|discriminate].
  destruct ((i_start x <=? off) && (off <=? i_pos x)) eqn:Eg; [|discriminate].
  apply andb_true_iff in Eg. destruct Eg as (H1 & H2). apply Nat.leb_le in H1, H2.
  exists x. repeat split; try assumption.
  intros o Ho. destruct (Nat.lt_ge_cases o (i_start x)) as [Hlt|Hge].
  - eapply Ib; eassumption.
  - eapply Ir; [exact El|lia].
Qed.

(* at-least-once across crashes and rebalances: whatever the group has committed, everything
   below it was delivered by some incarnation — wherever members were killed or released *)
Theorem at_least_once tr s c o :
  run init tr = Some s -> committed s = Some c -> o < c -> In o (delivered s).
Proof. intros H. pose proof (run_inv tr init s inv_init H) as [Ic _ _ _ _]. apply Ic. Qed.

(* a new owner starts exactly at the committed offset (else at the log start), so a record is
   delivered again only if it lies at or above the committed offset the new owner was given *)
Theorem redelivery_bound s i s' :
  step s (Takeover i) = Some s' ->
  exists x, lookup i (incs s') = Some x /\ i_pos x = i_start x /\
            i_start x = match committed s with Some c => c | None => 0 end.
Proof.
  cbn [step]. destruct (lookup i (incs s)); [discriminate|]. intros H. injection H as <-.
  eexists. cbn [incs]. rewrite lookup_update_eq. repeat split.
Qed.

Theorem deliver_from_position s i o s' :
  step s (Deliver i o) = Some s' ->
  exists x, lookup i (incs s) = Some x /\ i_alive x = true /\ o = i_pos x /\ o < hw s.
Proof.
  cbn [step]. destruct (lookup i (incs s)) as [x|]; [|discriminate].
  destruct (i_alive x && Nat.eqb o (i_pos x) && (o <? hw s)) eqn:Eg; [|discriminate]. intros _.
  apply andb_true_iff in Eg. destruct Eg as (Eg & Hlt). apply andb_true_iff in Eg. destruct Eg as (Ha & Heq).
  exists x. repeat split; [exact Ha|apply Nat.eqb_eq; exact Heq|apply Nat.ltb_lt; exact Hlt].
Qed.
