(* C09_legacy_wrapper.v — the compressed legacy wrapper (relative inner offsets, LogAppendTime). *)
From Coq Require Import ZArith List Bool Lia ZifyBool.
From Verif Require Import Bits C09Bytes C09_Crc C09_Varint C09_RecordV2 C09_Legacy C09_MemRecords C09_Valid
  C09_split C09_v2 C09_legacy.
Import ListNotations.
Open Scope Z_scope.
Ltac Zify.zify_post_hook ::= Z.to_euclidean_division_equations.

(* parse_msg on an encoded message, for a reader created with magic pm (the compiled reader
   ignores pm; the Python reader must have been given the message's own magic) *)
Lemma parse_encode_msg_gen i pm magic off ts k v attrs rest :
  magic = 0 \/ magic = 1 -> match i with Py => pm = magic | Cy => True end ->
  int64 off -> int64 ts -> -128 <= attrs <= 127 -> olen k + olen v < TWO31 - 64 ->
  parse_msg i pm (encode_msg magic off ts k v attrs ++ rest)
  = Some (lmsg_w magic off ts k v attrs, rest).
Proof.
  intros Hm Hpm Hoff Hts Hat Hkv.
  destruct i.
  - subst pm. apply parse_encode_msg; assumption.
  - (* the compiled reader: pm is not used *)
    pose proof (parse_encode_msg Cy magic off ts k v attrs rest Hm Hoff Hts Hat Hkv) as H.
    unfold parse_msg in *. exact H.
Qed.

Lemma attrs_codec_bits codec l : 1 <= codec <= 3 -> l = 0 \/ l = 8 ->
  Z.land (Z.lor codec l) CODEC_MASK = codec /\ (Z.land (Z.lor codec l) TS_TYPE_MASK =? 0) = (l =? 0)
  /\ 0 <= Z.lor codec l <= 127.
Proof.
  intros Hc Hl. assert (Hcs : codec = 1 \/ codec = 2 \/ codec = 3) by lia.
  destruct Hcs as [->|[->| ->]]; destruct Hl as [-> | ->]; cbv; repeat split; congruence.
Qed.

Lemma lstamp_wrapper magic woff lat payload codec :
  magic = 0 \/ magic = 1 -> 1 <= codec <= 3 -> blen payload < TWO31 - 64 ->
  lstamp woff lat (encode_msg magic 0 0 None (Some payload) codec)
  = encode_msg magic woff (match lat with Some t => t | None => 0 end) None (Some payload)
               (Z.lor codec (match lat with Some _ => TS_TYPE_MASK | None => 0 end)).
Proof.
  intros Hm Hc Hp. unfold lstamp.
  rewrite <- (app_nil_r (encode_msg magic 0 0 None (Some payload) codec)).
  pose proof (blen_nonneg payload) as Hpl.
  rewrite (parse_encode_msg_gen Cy 0);
    [ | assumption | exact I | unfold int64, INT64_MIN, INT64_MAX; lia
      | unfold int64, INT64_MIN, INT64_MAX; lia | lia | cbn [olen]; lia ].
  unfold lmsg_w. cbn [g_attrs g_ts g_magic g_key g_value].
  destruct Hm as [-> | ->]; cbn [Z.eqb]; destruct lat; reflexivity.
Qed.

(* all inner messages parse, in order *)
Lemma lmsg_of_nonempty c r : (1 <= List.length (lmsg_of c r))%nat.
Proof. unfold lmsg_of, encode_msg. cbv zeta. rewrite app_length, be_length. lia. Qed.

Lemma parse_all_msgs i c : valid_lcfg c -> forall acc fuel,
  Forall valid_lrec acc -> (List.length acc <= fuel)%nat ->
  parse_all fuel i (lc_magic c) (concat (map (lmsg_of c) acc))
  = Some (map (fun r => lmsg_w (lc_magic c) (r_offset r) (lmsg_ts c r) (r_key r) (r_value r) 0) acc).
Proof.
  intros Hc. induction acc as [|r acc IH]; intros fuel Hv Hf.
  - destruct fuel; reflexivity.
  - destruct fuel as [|fuel]; [cbn in Hf; lia|].
    inversion Hv as [|r' acc' Hr Hacc]; subst.
    cbn [map concat].
    pose proof (lmsg_of_nonempty c r) as Hne.
    destruct (lmsg_of c r ++ concat (map (lmsg_of c) acc)) as [|x l] eqn:El.
    { apply (f_equal (@List.length Z)) in El. rewrite app_length in El. cbn in El. lia. }
    cbn [parse_all]. rewrite <- El.
    destruct Hc as (Hm & Hcod). pose proof Hr as (Hts & Hoff & Hkv).
    unfold lmsg_of at 1.
    rewrite parse_encode_msg; try assumption; try lia;
      [| unfold int64, INT64_MIN, INT64_MAX in *; lia | apply lmsg_ts_int64; exact Hr].
    cbn [bind].
    match goal with |- context [(?a <=? ?b)%nat] =>
      replace (a <=? b)%nat with false
        by (symmetry; apply Nat.leb_gt; rewrite app_length; lia) end.
    rewrite IH by (try assumption; try (split; assumption); cbn [List.length] in Hf; lia).
    reflexivity.
Qed.

Lemma concat_msgs_length c acc : (List.length acc <= List.length (concat (map (lmsg_of c) acc)))%nat.
Proof.
  induction acc as [|r acc IH]; [cbn; lia|].
  cbn [map concat List.length]. rewrite app_length. pose proof (lmsg_of_nonempty c r). lia.
Qed.

Theorem legacy_wrapper_roundtrip
  (compress : Z -> bytes -> bytes) (decompress : Z -> bytes -> option bytes) :
  (forall c x, decompress c (compress c x) = Some x) ->
  forall i c rs woff lat,
    valid_lcfg c -> 1 <= lc_codec c <= 3 -> ~ (lc_codec c = 3 /\ lc_magic c = 0) ->
    Forall valid_lrec rs ->
    let buf := fst (lappends c [] rs) in
    let acc := laccepted rs (snd (lappends c [] rs)) in
    acc <> [] -> blen buf < TWO31 -> blen (compress (lc_codec c) buf) < TWO31 - 64 ->
    valid_wstamp acc woff lat ->
    exists w, lbuild compress c buf = Some w
      /\ lread decompress i (lc_magic c) (lstamp woff lat w)
         = Some (map (lexpect_wrapped c acc woff lat) acc).
Proof.
  intros Hcodec i c rs woff lat Hc Hcod Hlz Hrs buf acc Hne Hbuf Hcomp (Hwoff & Hlat).
  pose proof (laccepted_valid rs (snd (lappends c [] rs)) Hrs) as Hacc. fold acc in Hacc.
  assert (Hbufeq : buf = concat (map (lmsg_of c) acc)).
  { subst buf acc. rewrite lappends_spec. reflexivity. }
  pose proof Hc as (Hm & _).
  set (payload := compress (lc_codec c) buf) in *.
  exists (encode_msg (lc_magic c) 0 0 None (Some payload) (lc_codec c)). split.
  { unfold lbuild. replace (lc_codec c =? 0) with false by lia.
    replace ((lc_codec c =? 3) && (lc_magic c =? 0)) with false; [reflexivity|].
    symmetry. apply andb_false_iff. destruct (lc_codec c =? 3) eqn:E3; [right|left; reflexivity].
    destruct (lc_magic c =? 0) eqn:E0; [|reflexivity]. exfalso. apply Hlz. lia. }
  rewrite lstamp_wrapper by assumption.
  set (L := match lat with Some _ => TS_TYPE_MASK | None => 0 end).
  assert (HL : L = 0 \/ L = 8) by (subst L; destruct lat; [right|left]; reflexivity).
  destruct (attrs_codec_bits (lc_codec c) L Hcod HL) as (Hb1 & Hb2 & Hb3).
  set (wts := match lat with Some t => t | None => 0 end).
  assert (Hwts : int64 wts) by (subst wts; destruct lat; unfold int64, INT64_MIN, INT64_MAX in *; lia).
  unfold lread.
  rewrite <- (app_nil_r (encode_msg _ _ _ _ _ _)).
  pose proof (blen_nonneg payload) as Hpl.
  assert (Hwoff64 : int64 woff).
  { unfold int64, INT64_MIN, INT64_MAX in *. unfold llast_off in Hwoff.
    destruct (rev acc) as [|r0 l0] eqn:Er; [lia|].
    assert (Hin0 : In r0 acc) by (apply in_rev; rewrite Er; left; reflexivity).
    rewrite Forall_forall in Hacc. destruct (Hacc r0 Hin0) as (_ & Ho & _). lia. }
  rewrite (parse_encode_msg_gen i (lc_magic c));
    [ | assumption | destruct i; [reflexivity|exact I] | assumption | assumption | lia | cbn [olen]; lia ].
  cbn [bind]. unfold lmsg_w. cbn [g_attrs g_value g_offset g_ts].
  rewrite Hb1. replace (lc_codec c =? 0) with false by lia.
  cbn [bind].
  replace ((lc_codec c =? 3) && (lc_magic c =? 0)) with false.
  2:{ symmetry. apply andb_false_iff. destruct (lc_codec c =? 3) eqn:E3; [right|left; reflexivity].
      destruct (lc_magic c =? 0) eqn:E0; [|reflexivity]. exfalso. apply Hlz. lia. }
  subst payload. rewrite Hcodec. cbn [bind].
  rewrite Hbufeq at 1 2.
  rewrite (parse_all_msgs i c Hc acc) by (try assumption; pose proof (concat_msgs_length c acc); lia).
  cbn [bind].
  set (inner := map (fun r => lmsg_w (lc_magic c) (r_offset r) (lmsg_ts c r) (r_key r) (r_value r) 0) acc).
  assert (Hrev : exists rl l', rev acc = rl :: l' /\ rev inner =
             lmsg_w (lc_magic c) (r_offset rl) (lmsg_ts c rl) (r_key rl) (r_value rl) 0 :: map
               (fun r => lmsg_w (lc_magic c) (r_offset r) (lmsg_ts c r) (r_key r) (r_value r) 0) l').
  { destruct (rev acc) as [|rl l'] eqn:Er.
    - exfalso. apply Hne. rewrite <- (rev_involutive acc), Er. reflexivity.
    - exists rl, l'. split; [reflexivity|]. subst inner. rewrite <- map_rev, Er. reflexivity. }
  destruct Hrev as (rl & l' & Hrl & Hri). rewrite Hri.
  assert (Hlast : llast_off acc = r_offset rl) by (unfold llast_off; rewrite Hrl; reflexivity).
  replace (existsb (fun m => negb (Z.land (g_attrs m) CODEC_MASK =? 0)) inner) with false.
  2:{ symmetry. subst inner. clear. induction acc as [|r acc IH]; [reflexivity|]. cbn [map existsb].
      rewrite <- IH. reflexivity. }
  f_equal. subst inner. rewrite map_map. apply map_ext_in. intros r Hin.
  rewrite Forall_forall in Hacc. destruct (Hacc r Hin) as (Hts & Hoff & Hkv).
  unfold lmsg_w. cbn [g_offset g_ts g_key g_value g_crc g_attrs].
  rewrite Hb2. unfold lexpect_wrapped, lmsg_crc, lmsg_ts. rewrite Hlast in *.
  change (Z.land 0 TS_TYPE_MASK) with 0. cbn [Z.eqb negb orb].
  destruct Hm as [Em | Em]; rewrite Em in *; cbn [Z.eqb Z.ltb Z.compare negb andb].
  - (* magic 0: offsets and (absent) timestamps as they are *)
    rewrite andb_false_r. cbn [Z.leb Z.compare].
    destruct i; [reflexivity|].
    subst L. destruct lat; try change (TS_TYPE_MASK =? 0) with false; cbn [Z.eqb negb orb out_ts]; reflexivity.
  - (* magic 1: relative offsets, wrapper timestamp under LogAppendTime *)
    replace (0 <=? woff - r_offset rl) with true by lia.
    rewrite andb_true_r.
    destruct i.
    + subst L wts. destruct lat as [t|]; try change (TS_TYPE_MASK =? 0) with false;
        cbn [Z.eqb negb]; reflexivity.
    + subst L wts. destruct lat as [t|]; try change (TS_TYPE_MASK =? 0) with false;
        cbn [Z.eqb negb orb out_ts].
      * replace (t =? -1) with false by lia. reflexivity.
      * replace (r_ts r =? -1) with false by lia. reflexivity.
Qed.
